// ---- environment of the slice `add_path` (Schedule::add_path_to_vehicle_tour) ----------------------------
// Included inside `pub mod tr { … }` after env/im_shim.vs, env/transition_spec.vs, env/schedule_shim.vs,
// env/sched_guard_shim.vs and env/spawn_vehicle_shim.vs, whose vocabulary it builds on (usage_exact*, the module `tfu`
// = env/train_formation_update_shim.vs, sv_ids_ok, sv_formations_ok, transitions_ok, transitions_follow, type_known,
// all_compatible, lemma_fcap_push, lemma_un_old, lemma_un_new_le_old, lemma_usage_exact_step).
// ASSUMPTIONS in this file (listed in the header of slices/add_path.vs): A-display (`{}` of a Path), the uninterpreted
// result of Schedule::can_depot_spawn_vehicle.  Everything else is an open spec function or a proved lemma.
// LAST BLOCK: the CLOSURE of the invariant bundle under add_path_to_vehicle_tour (ap_effects, ap_closed, lemma_apcl_closed; names
// with the prefix `apcl_` are copies / generalisations of lemmas of env/sched_ctor_shim.vs).
// Copied text (the files that define it cannot be included next to env/spawn_vehicle_shim.vs, or are slices):
//   * `ins_pos`, `lemma_ins_unique`: env/override_reassign_shim.vs (that file re-declares the vocabulary of
//     env/sched_guard_shim.vs);
//   * `lemma_first_pos`: slices/admission.vs; `lemma_isum_remove`: env/depot_usage_shim.vs.

// A-display: `{}` of a Path (hand written Display impl of the repository, which prints the nodes; a no-op outside
// verus!): no precondition
impl vstd::std_specs::fmt::DisplaySpecImpl for Path {
    open spec fn fmt_req(&self, f: &std::fmt::Formatter<'_>) -> bool { true }
}

// =====================================================================================================
// copied text
// =====================================================================================================
/// THE pair of positions of an insertion (C12: "longest prefix whose last node reaches the path" / "longest suffix the
/// path reaches"; lemma_ins_unique: there is at most one such pair)      [text of env/override_reassign_shim.vs]
pub open spec fn ins_pos(t: &Tour, n: Seq<NodeIdx>) -> (int, int) { choose|s: int, e: int| ins_positions(t, n, s, e) }
pub proof fn lemma_ins_unique(t: &Tour, n: Seq<NodeIdx>, s: int, e: int)
    requires ins_positions(t, n, s, e),
    ensures ins_pos(t, n) == (s, e),
{
    let (s2, e2) = ins_pos(t, n);
    assert(ins_positions(t, n, s2, e2));
    let first = n[0];
    let last = n[n.len() - 1];
    if !t.network.sp_node(first).sp_is_depot() {
        if s < s2 { assert(!t.network.reach(t.nodes@[s2 - 1], first)); }
        if s2 < s { assert(!t.network.reach(t.nodes@[s - 1], first)); }
    }
    if !t.network.sp_node(last).sp_is_depot() {
        if e < e2 { assert(!t.network.reach(last, t.nodes@[e])); }
        if e2 < e { assert(!t.network.reach(last, t.nodes@[e2])); }
    }
}
/// [text of slices/admission.vs]
pub proof fn lemma_first_pos(s: Seq<Vehicle>, v: VehicleIdx)
    ensures
        0 <= first_pos(s, v) <= s.len(),
        forall|i: int| 0 <= i < first_pos(s, v) ==> (#[trigger] s[i]).idx != v,
        first_pos(s, v) < s.len() ==> s[first_pos(s, v)].idx == v,
        has_vehicle(s, v) <==> first_pos(s, v) < s.len(),
    decreases s.len(),
{
    if s.len() == 0 {
    } else if s[0].idx == v {
    } else {
        let t = s.drop_first();
        lemma_first_pos(t, v);
        assert forall|i: int| 0 <= i < first_pos(s, v) implies (#[trigger] s[i]).idx != v by {
            if i > 0 { assert(t[i - 1] == s[i]); }
        }
        if first_pos(s, v) < s.len() { assert(t[first_pos(t, v)] == s[first_pos(s, v)]); }
        if has_vehicle(s, v) {
            let i = choose|i: int| 0 <= i < s.len() && #[trigger] s[i].idx == v;
            assert(t[i - 1].idx == v);
        }
    }
}
/// [text of env/depot_usage_shim.vs]
pub proof fn lemma_isum_remove(s: Seq<int>, p: int)
    requires 0 <= p < s.len(),
    ensures isum(s) == s[p] + isum(s.remove(p)),
    decreases s.len(),
{
    if p == s.len() - 1 {
        assert(s.remove(p) =~= s.drop_last());
    } else {
        lemma_isum_remove(s.drop_last(), p);
        assert(s.remove(p).drop_last() =~= s.drop_last().remove(p));
        assert(s.remove(p).last() == s.last());
    }
}

// =====================================================================================================
// depot admission (C02): the vocabulary of the contract of Schedule::can_depot_spawn_vehicle_custom_usage
// [text of slices/admission.vs, where that function is verified]
// =====================================================================================================
// Depot::sp_capacity_for, Network::{has_depot, sp_depot, sp_depot_idx_of}, spawned_of_type, spawned_counts, spawned_total:
// defined (same text) in the last block of env/spawn_vehicle_shim.vs, which slices/add_path.vs includes before this file.
impl Schedule {
    /// C02 "depot limits hold": the depot of the start depot node n has room for one more vehicle of type vt: the type is
    /// listed there, fewer vehicles of the type start there than its capacity for the type, and fewer vehicles in total
    /// than its total capacity (= the result of can_depot_spawn_vehicle on the schedule's own usage table)
    pub open spec fn ap_depot_has_room(&self, n: NodeIdx, vt: VehicleTypeIdx) -> bool {
        let d = self.network.sp_depot_idx_of(n);
        &&& self.network.sp_depot(d).sp_capacity_for(vt) > 0
        &&& spawned_of_type(self.depot_usage@, d, vt) < self.network.sp_depot(d).sp_capacity_for(vt)
        &&& spawned_total(self.depot_usage@, d, self.network.vehicle_types.ids_sorted@) < self.network.sp_depot(d).total_capacity
    }
    /// what the admission check needs if the node is a depot node: A-depots (the depot node belongs to a depot of the
    /// network's table) and magnitudes (the `as VehicleCount` casts of the set sizes: u32)
    pub open spec fn ap_admission_pre(&self, n: NodeIdx, vt: VehicleTypeIdx) -> bool {
        let d = self.network.sp_depot_idx_of(n);
        self.network.sp_node(n).sp_is_depot() ==> {
            &&& self.network.has_depot(d)
            &&& spawned_of_type(self.depot_usage@, d, vt) <= u32::MAX
            &&& spawned_total(self.depot_usage@, d, self.network.vehicle_types.ids_sorted@) <= u32::MAX
        }
    }
}

// =====================================================================================================
// small lemmas about formations, paths and blocks of a tour
// =====================================================================================================
/// a vehicle that leaves a formation takes its capacity / seats along
pub proof fn lemma_fcap_remove(f: Seq<Vehicle>, p: int)
    requires 0 <= p < f.len(),
    ensures
        fcap(f) == fcap(f.remove(p)) + f[p].vehicle_type.capacity,
        fseats(f) == fseats(f.remove(p)) + f[p].vehicle_type.seats,
{
    let gc = |v: Vehicle| v.vehicle_type.capacity as int;
    let gs = |v: Vehicle| v.vehicle_type.seats as int;
    lemma_isum_remove(f.map_values(gc), p);
    lemma_isum_remove(f.map_values(gs), p);
    assert(f.map_values(gc).remove(p) =~= f.remove(p).map_values(gc));
    assert(f.map_values(gs).remove(p) =~= f.remove(p).map_values(gs));
}
/// the sum only depends on the moved nodes it ranges over and on their formations
pub proof fn lemma_un_sum_ext(s: &Schedule, tfa: Formations, tfb: Formations, pr: Option<VehicleIdx>, rv: Option<Vehicle>,
        ma: Seq<NodeIdx>, mb: Seq<NodeIdx>, k: int, after: bool, c: int)
    requires forall|j: int| 0 <= j < k ==> #[trigger] ma[j] == mb[j] && tfa[ma[j]] == tfb[ma[j]],
    ensures s.un_sum(tfa, pr, rv, ma, k, after, c) == s.un_sum(tfb, pr, rv, mb, k, after, c),
    decreases k,
{
    if k > 0 {
        lemma_un_sum_ext(s, tfa, tfb, pr, rv, ma, mb, k - 1, after, c);
        assert(ma[k - 1] == mb[k - 1] && tfa[ma[k - 1]] == tfb[ma[k - 1]]);
    }
}
/// the sum over a concatenation
pub proof fn lemma_un_sum_concat(s: &Schedule, tf: Formations, pr: Option<VehicleIdx>, rv: Option<Vehicle>, a: Seq<NodeIdx>, b: Seq<NodeIdx>, j: int, after: bool, c: int)
    requires 0 <= j <= b.len(),
    ensures s.un_sum(tf, pr, rv, a + b, a.len() + j, after, c)
        == s.un_sum(tf, pr, rv, a, a.len() as int, after, c) + s.un_sum(tf, pr, rv, b, j, after, c),
    decreases j,
{
    if j == 0 {
        lemma_un_sum_ext(s, tf, tf, pr, rv, a + b, a, a.len() as int, after, c);
    } else {
        lemma_un_sum_concat(s, tf, pr, rv, a, b, j - 1, after, c);
        assert((a + b)[a.len() + j - 1] == b[j - 1]);
    }
}
/// A-path => a path is duplicate-free: along a connected sequence the activities are strictly ordered in time,
/// nothing reaches a start depot and an end depot reaches nothing
pub proof fn lemma_path_distinct(net: &Network, n: Seq<NodeIdx>)
    requires net.wf(), path_shape(net, n),
    ensures n.no_duplicates(),
{
    assert forall|i: int, j: int| 0 <= i < n.len() && 0 <= j < n.len() && i != j implies n[i] != n[j] by {
        if n[i] == n[j] {
            if i < j { lemma_path_distinct_at(net, n, i, j); } else { lemma_path_distinct_at(net, n, j, i); }
        }
    }
}
pub proof fn lemma_path_distinct_at(net: &Network, n: Seq<NodeIdx>, i: int, j: int)
    requires net.wf(), path_shape(net, n), 0 <= i < j < n.len(), n[i] == n[j],
    ensures false,
{
    let x = n[i];
    assert(net.has(n[i]) && net.has(n[j]) && net.has(n[j - 1]) && net.has(n[i + 1]));
    assert(net.nodes@.contains_key(x) && net.nodes@.contains_key(n[j - 1]) && net.nodes@.contains_key(n[i + 1]));
    assert(net.reach(n[j - 1], n[(j - 1) + 1]));
    assert(net.reach(n[i], n[i + 1]));
    if net.sp_node(x).sp_is_activity() {
        lemma_node_start_le_end(net, x);
        lemma_ends_sorted(net, n, i, j - 1);
        lemma_later_end_not_reach(net, n[j - 1], x);
    }
}
/// a block [s, e) of a well-formed tour: its nodes, in order, are nodes of the network and pairwise distinct
pub proof fn lemma_ap_block(t: &Tour, s: int, e: int)
    requires t.wf(), 0 <= s <= e <= t.len(),
    ensures
        t.mid(s, e) == t.nodes@.subrange(s, e),
        t.mid(s, e).len() == e - s,
        forall|i: int| 0 <= i < e - s ==> #[trigger] t.mid(s, e)[i] == t.nodes@[s + i],
        all_in_net(&t.network, t.mid(s, e)),
        t.mid(s, e).no_duplicates(),
{
    reveal(Tour::mid);
    let m = t.mid(s, e);
    assert forall|i: int| 0 <= i < m.len() implies #[trigger] t.network.has(m[i]) by { assert(t.network.has(t.nodes@[s + i])); }
    assert forall|i: int, j: int| 0 <= i < m.len() && 0 <= j < m.len() && i != j implies m[i] != m[j] by {
        if m[i] == m[j] { lemma_tour_distinct(t, s + i, s + j); }
    }
}
/// C01, type clause: prefix + path + suffix of a compatible tour and a compatible path is compatible
pub proof fn lemma_ap_compatible(net: &Network, t: &Tour, a: int, b: int, p: Seq<NodeIdx>, vt: VehicleTypeIdx)
    requires 0 <= a <= b <= t.len(), all_compatible(net, p, vt), all_compatible(net, t.nodes@, vt),
    ensures
        all_compatible(net, t.spliced(a, b, p), vt),
        t.spliced(a, b, p) == t.nodes@.subrange(0, a) + p + t.nodes@.subrange(b, t.len()),
{
    reveal(Tour::spliced);
    let x = t.spliced(a, b, p);
    assert forall|i: int| 0 <= i < x.len() implies net.sp_compatible(#[trigger] x[i], vt) by {
        if i < a { assert(x[i] == t.nodes@[i]); }
        else if i < a + p.len() { assert(x[i] == p[i - a]); }
        else { assert(x[i] == t.nodes@[i - a - p.len() + b]); }
    }
}

// =====================================================================================================
// Schedule::add_path_to_vehicle_tour: vocabulary of the contract
// =====================================================================================================
/// no activity occurs twice in the list
pub open spec fn acts_distinct(net: &Network, m: Seq<NodeIdx>) -> bool {
    forall|i: int, j: int| 0 <= i < m.len() && 0 <= j < m.len() && i != j && #[trigger] m[i] == #[trigger] m[j] ==> net.sp_node(m[i]).sp_is_depot()
}
impl Schedule {
    // ---- the insertion into the vehicle's tour (vocabulary of Tour::insert_path's contract) -------------------
    /// the positions Tour::insert_path cuts the old tour at: [0, s) is "the longest prefix whose last node reaches the
    /// path", [e, len) "the longest suffix the path reaches" (ins_positions, env/insert_lemmas.vs)
    pub open spec fn ap_s(&self, v: VehicleIdx, p: Seq<NodeIdx>) -> int { ins_pos(&self.tours@[v], p).0 }
    pub open spec fn ap_e(&self, v: VehicleIdx, p: Seq<NodeIdx>) -> int { ins_pos(&self.tours@[v], p).1 }
    /// the block of the old tour that clashes with the path: the DISPLACED nodes
    pub open spec fn ap_displaced(&self, v: VehicleIdx, p: Seq<NodeIdx>) -> Seq<NodeIdx> {
        self.tours@[v].mid(self.ap_s(v, p), self.ap_e(v, p))
    }
    /// the new tour: prefix + whole path + suffix
    pub open spec fn ap_gained(&self, v: VehicleIdx, p: Seq<NodeIdx>) -> Seq<NodeIdx> {
        self.tours@[v].spliced(self.ap_s(v, p), self.ap_e(v, p), p)
    }

    // ---- PRECONDITIONS ---------------------------------------------------------------------------------------
    /// C09 + instance magnitude, for the u32 additions of the second formation update: the unserved-passengers pair is
    /// the sum over ALL service trips of the network of their unserved passengers (C09), and the total demand of all
    /// service trips fits into u32 (instance magnitude); hence taking a vehicle x out of the formations of any
    /// duplicate-free list of nodes that list x leaves the pair within u32 (it is still at most the total demand)
    pub open spec fn ap_unserved_room(&self) -> bool {
        let tf = self.train_formations@;
        forall|m: Seq<NodeIdx>, x: VehicleIdx, c: int| #![trigger self.un_sum(tf, Some(x), None::<Vehicle>, m, m.len() as int, true, c)]
            m.no_duplicates() && all_in_net(&self.network, m) && (c == 0 || c == 1)
            && self.all_ok(tf, Some(x), None::<Vehicle>, m, m.len() as int)
            ==> self.unserved_c(c) - self.un_sum(tf, Some(x), None::<Vehicle>, m, m.len() as int, false, c)
                    + self.un_sum(tf, Some(x), None::<Vehicle>, m, m.len() as int, true, c) <= u32::MAX
    }
    /// C09 for the u32 subtractions of the two formation updates: the unserved-passengers pair is the sum over ALL
    /// service trips of the network of their unserved passengers; hence it covers the contribution of any list of nodes
    /// in which no activity occurs twice (depots contribute nothing).  (The clause of sv_formations_ok with
    /// `no_duplicates` is the special case; a path and the block it displaces may share a depot.)
    pub open spec fn ap_unserved_covers(&self) -> bool {
        forall|m: Seq<NodeIdx>, c: int| #![trigger self.un_old(m, m.len() as int, c)] acts_distinct(&self.network, m) && all_in_net(&self.network, m) && (c == 0 || c == 1)
            ==> self.un_old(m, m.len() as int, c) <= self.unserved_c(c)
    }
    /// schedule-level validity as far as add_path_to_vehicle_tour needs it (parts of C10, C09, C15; the clauses are
    /// those of `sv_ok`, env/spawn_vehicle_shim.vs, without the depot lists, plus ap_unserved_room)
    pub open spec fn ap_ok(&self) -> bool {
        // instance validity
        &&& self.network.wf()
        // C10 (ids): vehicles stored under their own `Vehicle` id and have a tour; dummy tours under `Dummy` ids
        &&& self.sv_ids_ok()
        // C10 / C09 for the formation table: every activity has a formation; magnitudes; the cached pair covers the
        // contribution of any duplicate-free list of nodes
        &&& self.sv_formations_ok()
        &&& self.ap_unserved_covers()
        &&& self.ap_unserved_room()
        // C15 / C10 / C09: one transition per listed type, consistent with the tours, holding exactly the type's vehicles;
        // the maintenance violation is their sum; fewer than 2^17 vehicles
        &&& self.transitions_ok()
        // C09: the depot usage table has its from-scratch value
        &&& usage_exact(self.depot_usage@, &self.network, self.vehicles@, self.tours@)
        // C09 / magnitude: the schedule's cost figure is below 2^61
        &&& self.costs <= sched_cost_bound()
    }
    /// C10 / C01 / C09 for the receiving vehicle
    pub open spec fn ap_vehicle_ok(&self, v: VehicleIdx) -> bool {
        // derived from the code: `self.vehicles.get(&vehicle_idx).cloned().unwrap()` and `tours.get(&vehicle_idx).unwrap()`
        // panic unless v is a REAL vehicle (a dummy has no entry in `vehicles` / `tours`)
        &&& self.vehicles@.contains_key(v)
        // C10 (listings / types): its type is a vehicle type of the network, stored under its own index, listed; the
        // vehicle carries the network's record of its type
        &&& self.type_known(self.type_of(v))
        &&& self.vehicles@[v].vehicle_type == self.vtypes()[self.type_of(v)]
        // C01 / C10 clause 1: its tour is a well-formed real tour over the schedule's network; C09: the tour's cached
        // figures are exact; A-len
        &&& self.tours@.contains_key(v)
        &&& tour_of_net(&self.network, &self.tours@[v]) && self.tours@[v].caches_ok() && tour_len_ok(self.tours@[v].nodes@)
        // C09: the schedule's costs cover the tour's costs (they are the sum of all tours' costs plus non-negative terms)
        &&& self.tours@[v].costs <= self.costs
        // C10 "a vehicle is in the formation of a node exactly if its tour contains the node": the vehicle is listed in
        // the formation of every activity of its tour
        &&& self.ap_listed(v)
    }
    pub open spec fn ap_listed(&self, v: VehicleIdx) -> bool {
        forall|i: int| 0 < i < self.tours@[v].nodes@.len() - 1
            ==> has_vehicle(self.train_formations@[#[trigger] self.tours@[v].nodes@[i]].formation@, v)
    }
    /// C02 "formation … limits hold": every non-depot node of the path has room for one more vehicle (its formation is
    /// strictly below the node's limit: repl_ok, case `grows`, env/train_formation_update_shim.vs)
    pub open spec fn ap_room(&self, v: VehicleIdx, p: Seq<NodeIdx>) -> bool {
        self.all_ok(self.train_formations@, None, Some(self.vehicles@[v]), p, p.len() as int)
    }
    /// no ACTIVITY of the path is a node of the vehicle's old tour (see "NOT covered" in the slice header: otherwise the
    /// node is both added and displaced).  A depot of the path may be the tour's own depot (schedule/tests.rs,
    /// add_path_to_vehicle_tour_with_same_start_depot_test): depots have no formations
    pub open spec fn ap_path_fresh(&self, v: VehicleIdx, p: Seq<NodeIdx>) -> bool {
        forall|i: int| 0 <= i < p.len() && !self.network.sp_node(#[trigger] p[i]).sp_is_depot() ==> !self.tours@[v].nodes@.contains(p[i])
    }
    /// what the path must be
    pub open spec fn ap_path_ok(&self, v: VehicleIdx, path: &Path) -> bool {
        let p = path.node_sequence@;
        // a path over the schedule's network
        &&& path.network == self.network
        // A-path: the path is a path of the network (nodes of the network, connected, not only depots); A-len
        &&& path_shape(&self.network, p) && tour_len_ok(p)
        &&& self.ap_path_fresh(v, p)
    }
    /// A-counter (magnitude): the maintenance counter of the new tour is small (the counter is an uninterpreted atom of
    /// the rotation-cycle vocabulary, env/transition_spec.vs)
    pub open spec fn ap_counter_ok(&self, v: VehicleIdx, p: Seq<NodeIdx>) -> bool {
        forall|t: Tour| t.nodes@ == self.ap_gained(v, p) && tour_of_net(&self.network, &t) && t.caches_ok()
            ==> -counter_bound() <= #[trigger] tour_counter(&t) <= counter_bound()
    }

    // ---- POSTCONDITIONS --------------------------------------------------------------------------------------
    /// C13: "the receiver gains them … displaced … service trips are handed back (as the returned conflict path …) … all
    /// other vehicles' tours … stay untouched": the vehicle's new tour is prefix + whole path + suffix of its old tour, a
    /// valid real tour with exact caches; the returned path is exactly the dropped block (None iff it holds no activity);
    /// every other key of `tours` keeps its tour
    pub open spec fn ap_tours_after(&self, v: VehicleIdx, p: Seq<NodeIdx>, s1: &Schedule, removed: Option<Path>) -> bool {
        let t0 = self.tours@[v];
        let s = self.ap_s(v, p);
        let e = self.ap_e(v, p);
        let d = self.ap_displaced(v, p);
        // (the first five clauses, which do not speak about the returned path, under a name of their own: ap_tour_after)
        &&& self.ap_tour_after(v, p, s1)
        &&& d == t0.nodes@.subrange(s, e)
        &&& all_depots(&self.network, d) ==> removed is None
        &&& !all_depots(&self.network, d) ==> removed is Some && removed.unwrap().node_sequence@ == d
    }
    /// the part of ap_tours_after about the tours: the cut positions, the vehicle's new tour (prefix + whole path + suffix,
    /// a valid real tour with exact caches), every other key of `tours` keeps its tour
    pub open spec fn ap_tour_after(&self, v: VehicleIdx, p: Seq<NodeIdx>, s1: &Schedule) -> bool {
        let t0 = self.tours@[v];
        let s = self.ap_s(v, p);
        let e = self.ap_e(v, p);
        &&& ins_positions(&t0, p, s, e) && 0 <= s <= e <= t0.len()
        &&& s1.tours@.contains_key(v) && s1.tours@ == self.tours@.insert(v, s1.tours@[v])
        &&& s1.tours@[v].nodes@ == self.ap_gained(v, p)
        &&& self.ap_gained(v, p) == t0.nodes@.subrange(0, s) + p + t0.nodes@.subrange(e, t0.len())
        &&& tour_of_net(&self.network, &s1.tours@[v]) && s1.tours@[v].caches_ok()
    }
    /// C13: "… and nothing else": vehicles, dummy tours, the listings, the id counter and the network are untouched
    pub open spec fn ap_rest_untouched(&self, s1: &Schedule) -> bool {
        &&& s1.vehicles@ == self.vehicles@
        &&& s1.dummy_tours@ == self.dummy_tours@ && s1.dummy_ids_sorted@ == self.dummy_ids_sorted@
        &&& s1.vehicle_ids_grouped_and_sorted@ == self.vehicle_ids_grouped_and_sorted@
        &&& s1.vehicle_counter == self.vehicle_counter
        &&& s1.network == self.network
    }
    /// C10 / C03: the vehicle joins (at the tail) the formation of every non-depot node of the path
    pub open spec fn ap_joins(&self, v: VehicleIdx, p: Seq<NodeIdx>, tf2: Formations) -> bool {
        forall|n: NodeIdx| moved_nd(&self.network, p, n)
            ==> (#[trigger] tf2[n]).formation@ == self.train_formations@[n].formation@.push(self.vehicles@[v])
    }
    /// C02: … and these formations are within their limits
    pub open spec fn ap_within_limits(&self, v: VehicleIdx, p: Seq<NodeIdx>, tf2: Formations) -> bool {
        forall|n: NodeIdx| moved_nd(&self.network, p, n) && self.sp_node_limit(n) is Some
            ==> (#[trigger] tf2[n]).formation@.len() <= self.sp_node_limit(n).unwrap()
    }
    /// C10 / C03: the vehicle leaves the formation of every non-depot node of the displaced block (it was listed
    /// there; the others keep their order)
    pub open spec fn ap_leaves(&self, v: VehicleIdx, p: Seq<NodeIdx>, tf2: Formations) -> bool {
        &&& forall|n: NodeIdx| moved_nd(&self.network, self.ap_displaced(v, p), n)
                ==> has_vehicle((#[trigger] self.train_formations@[n]).formation@, v)
        &&& forall|n: NodeIdx| moved_nd(&self.network, self.ap_displaced(v, p), n)
                ==> (#[trigger] tf2[n]).formation@ == self.train_formations@[n].formation@.remove(first_pos(self.train_formations@[n].formation@, v))
    }
    /// C13: "formations elsewhere … stay untouched"
    pub open spec fn ap_elsewhere(&self, v: VehicleIdx, p: Seq<NodeIdx>, tf2: Formations) -> bool {
        &&& tf2.dom() == self.train_formations@.dom()
        &&& forall|n: NodeIdx| !moved_nd(&self.network, p, n) && !moved_nd(&self.network, self.ap_displaced(v, p), n)
                ==> #[trigger] tf2[n] == self.train_formations@[n]
    }
    /// C09: the unserved-passengers pair changes by exactly the two deltas: - Σ unserved(old formation) + Σ unserved(new
    /// formation) over the path (vehicle added) and over the displaced block (vehicle removed), both read off the OLD
    /// table (path and displaced block are disjoint)
    pub open spec fn ap_unserved_after(&self, v: VehicleIdx, p: Seq<NodeIdx>, u2: (PassengerCount, PassengerCount)) -> bool {
        let tf0 = self.train_formations@;
        let rv = Some(self.vehicles@[v]);
        let d = self.ap_displaced(v, p);
        let np = p.len() as int;
        let nd = d.len() as int;
        &&& u2.0 == self.unserved_passengers.0
                - self.un_sum(tf0, None, rv, p, np, false, 0) + self.un_sum(tf0, None, rv, p, np, true, 0)
                - self.un_sum(tf0, Some(v), None, d, nd, false, 0) + self.un_sum(tf0, Some(v), None, d, nd, true, 0)
        &&& u2.1 == self.unserved_passengers.1
                - self.un_sum(tf0, None, rv, p, np, false, 1) + self.un_sum(tf0, None, rv, p, np, true, 1)
                - self.un_sum(tf0, Some(v), None, d, nd, false, 1) + self.un_sum(tf0, Some(v), None, d, nd, true, 1)
    }
    /// the state between the two formation updates: the table / the pair the first one leaves (its contract)
    pub open spec fn ap_between(&self, v: VehicleIdx, p: Seq<NodeIdx>, tf1: Formations, u1: (PassengerCount, PassengerCount)) -> bool {
        let tf0 = self.train_formations@;
        let rv = Some(self.vehicles@[v]);
        let k = p.len() as int;
        &&& self.formations_elsewhere_untouched(p, tf0, tf1)
        &&& self.moved_get_replacement(p, tf0, tf1, None, rv)
        &&& self.grown_within_limits(p, tf1, None, rv)
        &&& u1.0 == self.unserved_passengers.0 - self.un_sum(tf0, None, rv, p, k, false, 0) + self.un_sum(tf0, None, rv, p, k, true, 0)
        &&& u1.1 == self.unserved_passengers.1 - self.un_sum(tf0, None, rv, p, k, false, 1) + self.un_sum(tf0, None, rv, p, k, true, 1)
    }
    /// what the second formation update (if it runs: `second`) makes of the state in between
    pub open spec fn ap_second(&self, v: VehicleIdx, p: Seq<NodeIdx>, second: bool, tf1: Formations, u1: (PassengerCount, PassengerCount),
            tf2: Formations, u2: (PassengerCount, PassengerCount)) -> bool {
        let d = self.ap_displaced(v, p);
        let k = d.len() as int;
        if second {
            &&& self.formations_elsewhere_untouched(d, tf1, tf2)
            &&& self.moved_get_replacement(d, tf1, tf2, Some(v), None)
            &&& u2.0 == u1.0 - self.un_sum(tf1, Some(v), None, d, k, false, 0) + self.un_sum(tf1, Some(v), None, d, k, true, 0)
            &&& u2.1 == u1.1 - self.un_sum(tf1, Some(v), None, d, k, false, 1) + self.un_sum(tf1, Some(v), None, d, k, true, 1)
        } else {
            tf2 == tf1 && u2 == u1
        }
    }
}

// =====================================================================================================
// lemmas
// =====================================================================================================
/// what a valid schedule, a real vehicle and a fresh path provide for the guards and for the first formation update
pub proof fn lemma_ap_setup(s: &Schedule, v: VehicleIdx, path: &Path)
    requires s.ap_ok(), s.ap_vehicle_ok(v), s.ap_path_ok(v, path),
    ensures
        // the guards: `path.first()`, `self.network.node(..)`, the closure of the type guard
        path.node_sequence@.len() >= 1, all_in_net(&s.network, path.node_sequence@),
        // `self.tour_of(vehicle_idx).unwrap().start_depot().unwrap()`
        s.has_tour(v), s.sp_tour_of(v) == s.tours@[v], s.tours@[v].wf(), !s.tours@[v].is_dummy,
        !s.sp_is_dummy(v), v is Vehicle, s.vehicles@[v].idx == v,
        // Tour::insert_path
        s.tours@[v].caches_ok(), tour_len_ok(s.tours@[v].nodes@), path.network == s.tours@[v].network,
        path_shape(&s.tours@[v].network, path.node_sequence@), tour_len_ok(path.node_sequence@),
        eff_path(&s.tours@[v], path.node_sequence@) == path.node_sequence@,
        // the first formation update
        path.node_sequence@.no_duplicates(),
        s.grows(None, Some(s.vehicles@[v])),
        s.tfu_pre(s.train_formations@, s.unserved_passengers, None, Some(s.vehicles@[v]), path.node_sequence@),
        // the depot bookkeeping
        s.real_tour_ok(v),
        usage_exact_for(s.depot_usage@, &s.network, s.vehicles@, s.tours@, v),
{
    let p = path.node_sequence@;
    let vh = s.vehicles@[v];
    if s.dummy_tours@.contains_key(v) { assert(v is Dummy); }
    lemma_tfu_pre_path(s, s.type_of(v), vh, p);
    assert(usage_exact_for(s.depot_usage@, &s.network, s.vehicles@, s.tours@, v));
}

/// what update_train_formation needs when vehicle `vh` of type vt is added to the formations of the nodes of a path
/// (the text of lemma_tfu_pre, env/spawn_vehicle_shim.vs, with a path instead of a tour)
pub proof fn lemma_tfu_pre_path(s: &Schedule, vt: VehicleTypeIdx, vh: Vehicle, p: Seq<NodeIdx>)
    requires
        s.network.wf(), s.sv_formations_ok(), s.type_known(vt), !s.dummy_tours@.contains_key(vh.idx), vh.vehicle_type == s.vtypes()[vt],
        path_shape(&s.network, p),
    ensures
        s.grows(None, Some(vh)),
        p.no_duplicates(),
        s.tfu_pre(s.train_formations@, s.unserved_passengers, None, Some(vh), p),
{
    let tf0 = s.train_formations@;
    let rv = Some(vh);
    let pv: Option<VehicleIdx> = None;
    let moved = p;
    let net = &s.network;
    assert(s.grows(pv, rv));
    lemma_path_distinct(net, p);
    assert forall|i: int| 0 <= i < moved.len() implies s.node_pre(tf0, pv, rv, #[trigger] moved[i]) by {
        let n = moved[i];
        assert(net.has(n));
        if !net.sp_node(n).sp_is_depot() {
            assert(net.sp_node(n).sp_is_activity());
            assert(tf0.contains_key(n));
            let f = tf0[n].formation@;
            assert(f.len() <= max_vehicles());
            if net.sp_node(n) is Service { assert(net.is_trip(n)); }
            assert(fcap(tf0[n].formation@) + s.vtypes()[vt].capacity <= u32::MAX && fseats(tf0[n].formation@) + s.vtypes()[vt].seats <= u32::MAX);
            lemma_fcap_push(f, vh);
            assert(s.repl_seq(f, pv, rv) == f.push(vh));
        }
    }
    let n = moved.len() as int;
    assert forall|c: int, k: int| (c == 0 || c == 1) && 0 <= k < n implies #[trigger] s.arith_ok_at(tf0, pv, rv, moved, s.unserved_c(c), k, c) by {
        // what is subtracted so far is covered by the cached value (C09) ...
        tfu::lemma_un_sum_mono(s, tf0, pv, rv, moved, k + 1, n, false, c);
        lemma_un_old(s, tf0, pv, rv, moved, n, c);
        assert(s.un_old(moved, moved.len() as int, c) <= s.unserved_c(c));
        tfu::lemma_un_sum_mono(s, tf0, pv, rv, moved, 0, k, true, c);
        // ... and what is added is at most what was subtracted (an additional vehicle only adds capacity)
        lemma_un_new_le_old(s, tf0, vh, moved, k + 1, c);
    }
    assert forall|k: int| 0 <= k < n implies #[trigger] s.arith_ok_at(tf0, pv, rv, moved, s.unserved_passengers.0 as int, k, 0) by {
        assert(s.arith_ok_at(tf0, pv, rv, moved, s.unserved_c(0), k, 0));
    }
    assert forall|k: int| 0 <= k < n implies #[trigger] s.arith_ok_at(tf0, pv, rv, moved, s.unserved_passengers.1 as int, k, 1) by {
        assert(s.arith_ok_at(tf0, pv, rv, moved, s.unserved_c(1), k, 1));
    }
}

/// Tour::insert_path's contract, read with THE positions ap_s / ap_e
pub proof fn lemma_ap_inserted(s: &Schedule, v: VehicleIdx, p: Seq<NodeIdx>, nt: Tour, rp: Option<Path>)
    requires
        s.tours@[v].wf(), *s.tours@[v].network == *s.network, tour_len_ok(s.tours@[v].nodes@),
        p.len() >= 1, all_in_net(&s.network, p), tour_len_ok(p),
        exists|a: int, b: int| {
            &&& ins_positions(&s.tours@[v], p, a, b) && 0 <= a <= b <= s.tours@[v].len()
            &&& nt.nodes@ == #[trigger] s.tours@[v].spliced(a, b, p)
            &&& (all_depots(&s.tours@[v].network, s.tours@[v].mid(a, b)) ==> rp is None)
            &&& (!all_depots(&s.tours@[v].network, s.tours@[v].mid(a, b)) ==> rp is Some && rp.unwrap().node_sequence@ == s.tours@[v].mid(a, b))
        },
    ensures
        ins_positions(&s.tours@[v], p, s.ap_s(v, p), s.ap_e(v, p)),
        0 <= s.ap_s(v, p) <= s.ap_e(v, p) <= s.tours@[v].len(),
        nt.nodes@ == s.ap_gained(v, p), len_ok(s.ap_gained(v, p)),
        s.ap_gained(v, p) == s.tours@[v].nodes@.subrange(0, s.ap_s(v, p)) + p + s.tours@[v].nodes@.subrange(s.ap_e(v, p), s.tours@[v].len()),
        s.ap_displaced(v, p) == s.tours@[v].nodes@.subrange(s.ap_s(v, p), s.ap_e(v, p)),
        all_depots(&s.network, s.ap_displaced(v, p)) ==> rp is None,
        !all_depots(&s.network, s.ap_displaced(v, p)) ==> rp is Some && rp.unwrap().node_sequence@ == s.ap_displaced(v, p),
{
    let t0 = s.tours@[v];
    let (a, b) = choose|a: int, b: int| {
        &&& ins_positions(&t0, p, a, b) && 0 <= a <= b <= t0.len()
        &&& nt.nodes@ == #[trigger] t0.spliced(a, b, p)
        &&& (all_depots(&t0.network, t0.mid(a, b)) ==> rp is None)
        &&& (!all_depots(&t0.network, t0.mid(a, b)) ==> rp is Some && rp.unwrap().node_sequence@ == t0.mid(a, b))
    };
    lemma_ins_unique(&t0, p, a, b);
    lemma_ap_block(&t0, a, b);
    lemma_spliced(&t0, a, b, p);
    reveal(Tour::spliced);
}

/// the precondition of the second formation update (the vehicle leaves the formations of the displaced block), which
/// runs on the table / the pair the first one leaves: derived from the schedule invariants
pub proof fn lemma_ap_displace_pre(s: &Schedule, v: VehicleIdx, p: Seq<NodeIdx>, tf1: Formations, u1: (PassengerCount, PassengerCount))
    requires
        s.ap_ok(), s.ap_vehicle_ok(v), path_shape(&s.network, p), s.ap_path_fresh(v, p),
        s.ap_between(v, p, tf1, u1),
        0 <= s.ap_s(v, p) <= s.ap_e(v, p) <= s.tours@[v].len(),
    ensures
        s.tfu_pre(tf1, u1, Some(v), None, s.ap_displaced(v, p)),
        // C10: the vehicle is listed in the formations of the displaced activities: the second update does not refuse
        s.all_ok(tf1, Some(v), None, s.ap_displaced(v, p), s.ap_displaced(v, p).len() as int),
        // the displaced block: nodes of the network, pairwise distinct, disjoint from the path; the first update did
        // not touch their formations
        all_in_net(&s.network, s.ap_displaced(v, p)), s.ap_displaced(v, p).no_duplicates(),
        forall|j: int| 0 <= j < s.ap_displaced(v, p).len() ==> !moved_nd(&s.network, p, #[trigger] s.ap_displaced(v, p)[j]),
        forall|j: int| 0 <= j < s.ap_displaced(v, p).len() ==> tf1[#[trigger] s.ap_displaced(v, p)[j]] == s.train_formations@[s.ap_displaced(v, p)[j]],
{
    let t0 = s.tours@[v];
    let d = s.ap_displaced(v, p);
    let n = d.len() as int;
    let tf0 = s.train_formations@;
    let pv = Some(v);
    let rv: Option<Vehicle> = None;
    let vh = s.vehicles@[v];
    let vt = s.type_of(v);
    let net = &s.network;
    lemma_ap_frame(s, v, p, tf1);
    lemma_ap_block(&t0, s.ap_s(v, p), s.ap_e(v, p));
    if s.dummy_tours@.contains_key(v) { assert(v is Dummy); }
    assert(s.shrinks(pv, rv));
    assert(!s.grows(pv, rv) && !s.replaces(pv, rv));
    // what the body needs of every displaced node
    assert forall|i: int| 0 <= i < n && s.all_ok(tf1, pv, rv, d, i) implies s.node_pre(tf1, pv, rv, #[trigger] d[i]) by {
        let x = d[i];
        assert(net.has(x));
        assert(tf1[x] == tf0[x]);
        if !net.sp_node(x).sp_is_depot() {
            assert(net.sp_node(x).sp_is_activity());
            assert(tf0.contains_key(x));
            assert(tf1.dom().contains(x));
            let f = tf0[x].formation@;
            assert(f.len() <= max_vehicles());
            if net.sp_node(x) is Service { assert(net.is_trip(x)); }
            assert(fcap(tf0[x].formation@) + s.vtypes()[vt].capacity <= u32::MAX && fseats(tf0[x].formation@) + s.vtypes()[vt].seats <= u32::MAX);
            if s.repl_ok(f, pv, rv, x) {
                lemma_first_pos(f, v);
                lemma_fcap_remove(f, first_pos(f, v));
                assert(s.repl_seq(f, pv, rv) == f.remove(first_pos(f, v)));
            }
        }
    }
    assert forall|j: int| 0 <= j < n && !net.sp_node(#[trigger] d[j]).sp_is_depot() implies s.repl_ok(tf1[d[j]].formation@, pv, rv, d[j]) by {
        let i = s.ap_s(v, p) + j;
        assert(d[j] == t0.nodes@[i]);
        lemma_tour_kinds(&t0, i);
        assert(0 < i < t0.nodes@.len() - 1);
        assert(has_vehicle(tf0[t0.nodes@[i]].formation@, v));
        assert(tf1[d[j]] == tf0[d[j]]);
    }
    assert forall|k: int| 0 <= k < n implies #[trigger] s.arith_ok_at(tf1, pv, rv, d, u1.0 as int, k, 0) by {
        lemma_ap_arith(s, v, p, tf1, u1, k, 0);
    }
    assert forall|k: int| 0 <= k < n implies #[trigger] s.arith_ok_at(tf1, pv, rv, d, u1.1 as int, k, 1) by {
        lemma_ap_arith(s, v, p, tf1, u1, k, 1);
    }
}
/// the displaced block is disjoint from a fresh path, and the first update left its formations alone
pub proof fn lemma_ap_frame(s: &Schedule, v: VehicleIdx, p: Seq<NodeIdx>, tf1: Formations)
    requires
        s.ap_vehicle_ok(v), s.ap_path_fresh(v, p),
        s.formations_elsewhere_untouched(p, s.train_formations@, tf1),
        0 <= s.ap_s(v, p) <= s.ap_e(v, p) <= s.tours@[v].len(),
    ensures
        all_in_net(&s.network, s.ap_displaced(v, p)), s.ap_displaced(v, p).no_duplicates(),
        s.ap_displaced(v, p).len() == s.ap_e(v, p) - s.ap_s(v, p),
        forall|j: int| 0 <= j < s.ap_displaced(v, p).len() ==> !moved_nd(&s.network, p, #[trigger] s.ap_displaced(v, p)[j]),
        forall|j: int| 0 <= j < s.ap_displaced(v, p).len() ==> tf1[#[trigger] s.ap_displaced(v, p)[j]] == s.train_formations@[s.ap_displaced(v, p)[j]],
{
    let t0 = s.tours@[v];
    let d = s.ap_displaced(v, p);
    lemma_ap_block(&t0, s.ap_s(v, p), s.ap_e(v, p));
    assert forall|j: int| 0 <= j < d.len() implies !moved_nd(&s.network, p, #[trigger] d[j]) && tf1[d[j]] == s.train_formations@[d[j]] && s.network.has(d[j]) by {
        assert(d[j] == t0.nodes@[s.ap_s(v, p) + j]);
        assert(t0.nodes@.contains(d[j]));
        if p.contains(d[j]) && !s.network.sp_node(d[j]).sp_is_depot() {
            let i = choose|i: int| 0 <= i < p.len() && p[i] == d[j];
            assert(!t0.nodes@.contains(p[i]));
        }
        assert(!moved_nd(&s.network, p, d[j]));
        assert(t0.network.has(d[j]));
    }
}
/// the u32 arithmetic of the second formation update at the k-th displaced node, component c
pub proof fn lemma_ap_arith(s: &Schedule, v: VehicleIdx, p: Seq<NodeIdx>, tf1: Formations, u1: (PassengerCount, PassengerCount), k: int, c: int)
    requires
        s.ap_ok(), s.ap_vehicle_ok(v), path_shape(&s.network, p), s.ap_path_fresh(v, p),
        s.ap_between(v, p, tf1, u1),
        0 <= s.ap_s(v, p) <= s.ap_e(v, p) <= s.tours@[v].len(),
        0 <= k < s.ap_displaced(v, p).len(), c == 0 || c == 1,
    ensures
        s.arith_ok_at(tf1, Some(v), None, s.ap_displaced(v, p), (if c == 0 { u1.0 } else { u1.1 }) as int, k, c),
{
    let d = s.ap_displaced(v, p);
    let n = d.len() as int;
    let np = p.len() as int;
    let tf0 = s.train_formations@;
    let pv = Some(v);
    let rv: Option<Vehicle> = None;
    let vh = s.vehicles@[v];
    let u0c = s.unserved_c(c);
    let u1c = (if c == 0 { u1.0 } else { u1.1 }) as int;
    lemma_ap_frame(s, v, p, tf1);
    lemma_path_distinct(&s.network, p);
    if s.dummy_tours@.contains_key(v) { assert(v is Dummy); }
    assert(s.grows(None, Some(vh)));
    // the first delta: what was added is at most what was subtracted, and not negative
    let a_old = s.un_sum(tf0, None, Some(vh), p, np, false, c);
    let a_new = s.un_sum(tf0, None, Some(vh), p, np, true, c);
    assert(u1c == u0c - a_old + a_new);
    lemma_un_new_le_old(s, tf0, vh, p, np, c);
    tfu::lemma_un_sum_mono(s, tf0, None, Some(vh), p, 0, np, true, c);
    // the sums over the displaced nodes do not see the first update
    lemma_un_sum_ext(s, tf1, tf0, pv, rv, d, d, k + 1, false, c);
    lemma_un_sum_ext(s, tf1, tf0, pv, rv, d, d, k, true, c);
    lemma_un_sum_ext(s, tf1, tf0, pv, rv, d, d, k + 1, true, c);
    // (a) no underflow: C09, the cached value covers the old contributions of path + displaced block
    tfu::lemma_un_sum_mono(s, tf0, pv, rv, d, k + 1, n, false, c);
    tfu::lemma_un_sum_mono(s, tf0, pv, rv, d, 0, k, true, c);
    lemma_un_old(s, tf0, pv, rv, d, n, c);
    lemma_un_old(s, tf0, None, Some(vh), p, np, c);
    let pd = p + d;
    lemma_un_sum_concat(s, tf0, None, None, p, d, n, false, c);
    assert(acts_distinct(&s.network, pd)) by {
        assert forall|i: int, j: int| 0 <= i < pd.len() && 0 <= j < pd.len() && i != j && #[trigger] pd[i] == #[trigger] pd[j]
            implies s.network.sp_node(pd[i]).sp_is_depot() by {
            if i < np && j < np { assert(p[i] != p[j]); }
            if i >= np && j >= np { assert(d[i - np] != d[j - np]); }
            if i < np && j >= np { assert(p.contains(p[i])); assert(!moved_nd(&s.network, p, d[j - np])); }
            if j < np && i >= np { assert(p.contains(p[j])); assert(!moved_nd(&s.network, p, d[i - np])); }
        }
    }
    assert(all_in_net(&s.network, pd)) by {
        assert forall|i: int| 0 <= i < pd.len() implies #[trigger] s.network.has(pd[i]) by {
            if i < np { assert(s.network.has(p[i])); } else { assert(s.network.has(d[i - np])); }
        }
    }
    assert(s.un_old(pd, pd.len() as int, c) <= u0c);
    // (b) no overflow: C09 + instance magnitude, for the nodes processed so far
    if s.all_ok(tf1, pv, rv, d, k + 1) {
        let dk = d.take(k + 1);
        assert(dk.no_duplicates()) by {
            assert forall|i: int, j: int| 0 <= i < dk.len() && 0 <= j < dk.len() && i != j implies dk[i] != dk[j] by { assert(d[i] != d[j]); }
        }
        assert(all_in_net(&s.network, dk)) by {
            assert forall|i: int| 0 <= i < dk.len() implies #[trigger] s.network.has(dk[i]) by { assert(s.network.has(d[i])); }
        }
        assert(s.all_ok(tf0, pv, rv, dk, dk.len() as int)) by {
            assert forall|j: int| 0 <= j < dk.len() && !s.network.sp_node(#[trigger] dk[j]).sp_is_depot()
                implies s.repl_ok(tf0[dk[j]].formation@, pv, rv, dk[j]) by {
                assert(dk[j] == d[j]);
                assert(s.repl_ok(tf1[d[j]].formation@, pv, rv, d[j]));
            }
        }
        lemma_un_sum_ext(s, tf0, tf0, pv, rv, dk, d, k + 1, false, c);
        lemma_un_sum_ext(s, tf0, tf0, pv, rv, dk, d, k + 1, true, c);
        assert(u0c - s.un_sum(tf0, pv, rv, dk, dk.len() as int, false, c) + s.un_sum(tf0, pv, rv, dk, dk.len() as int, true, c) <= u32::MAX);
    }
}

/// C10 / C03 / C13 / C09: the two formation updates composed (path and displaced block are disjoint)
pub proof fn lemma_ap_formations(s: &Schedule, v: VehicleIdx, p: Seq<NodeIdx>, second: bool, tf1: Formations, u1: (PassengerCount, PassengerCount),
        tf2: Formations, u2: (PassengerCount, PassengerCount))
    requires
        s.sv_ids_ok(), s.ap_vehicle_ok(v), s.ap_path_fresh(v, p),
        0 <= s.ap_s(v, p) <= s.ap_e(v, p) <= s.tours@[v].len(),
        s.ap_between(v, p, tf1, u1),
        s.ap_second(v, p, second, tf1, u1, tf2, u2),
        !second ==> all_depots(&s.network, s.ap_displaced(v, p)),
    ensures
        s.ap_joins(v, p, tf2),
        s.ap_within_limits(v, p, tf2),
        s.ap_leaves(v, p, tf2),
        s.ap_elsewhere(v, p, tf2),
        s.ap_unserved_after(v, p, u2),
{
    let d = s.ap_displaced(v, p);
    let nd = d.len() as int;
    let tf0 = s.train_formations@;
    let pv = Some(v);
    let rv: Option<Vehicle> = None;
    let vh = s.vehicles@[v];
    let net = &s.network;
    lemma_ap_frame(s, v, p, tf1);
    if s.dummy_tours@.contains_key(v) { assert(v is Dummy); }
    assert(s.grows(None, Some(vh)));
    assert(s.shrinks(pv, rv) && !s.grows(pv, rv) && !s.replaces(pv, rv));
    // path and displaced block are disjoint
    assert forall|n: NodeIdx| !(moved_nd(net, p, n) && moved_nd(net, d, n)) by {
        if p.contains(n) && d.contains(n) {
            let j = choose|j: int| 0 <= j < d.len() && d[j] == n;
            assert(!moved_nd(net, p, d[j]));
        }
    }
    if !second {
        assert forall|n: NodeIdx| !moved_nd(net, d, n) by {
            if d.contains(n) {
                let j = choose|j: int| 0 <= j < d.len() && d[j] == n;
                assert(net.sp_node(d[j]).sp_is_depot());
            }
        }
        lemma_un_zero(s, tf0, pv, rv, d, nd, false, 0); lemma_un_zero(s, tf0, pv, rv, d, nd, true, 0);
        lemma_un_zero(s, tf0, pv, rv, d, nd, false, 1); lemma_un_zero(s, tf0, pv, rv, d, nd, true, 1);
    } else {
        lemma_un_sum_ext(s, tf1, tf0, pv, rv, d, d, nd, false, 0); lemma_un_sum_ext(s, tf1, tf0, pv, rv, d, d, nd, true, 0);
        lemma_un_sum_ext(s, tf1, tf0, pv, rv, d, d, nd, false, 1); lemma_un_sum_ext(s, tf1, tf0, pv, rv, d, d, nd, true, 1);
    }
    assert forall|n: NodeIdx| moved_nd(net, p, n) implies (#[trigger] tf2[n]).formation@ == tf0[n].formation@.push(vh)
        && (s.sp_node_limit(n) is Some ==> tf2[n].formation@.len() <= s.sp_node_limit(n).unwrap()) by {
        assert(!moved_nd(net, d, n));
        assert(tf2[n] == tf1[n]);
        assert(tf1[n].formation@ == s.repl_seq(tf0[n].formation@, None, Some(vh)));
    }
    assert forall|n: NodeIdx| moved_nd(net, d, n) implies has_vehicle((#[trigger] tf0[n]).formation@, v)
        && tf2[n].formation@ == tf0[n].formation@.remove(first_pos(tf0[n].formation@, v)) by {
        assert(second);
        let j = choose|j: int| 0 <= j < d.len() && d[j] == n;
        assert(tf1[d[j]] == tf0[d[j]]);
        assert(tf2[n].formation@ == s.repl_seq(tf1[n].formation@, pv, rv) && s.repl_ok(tf1[n].formation@, pv, rv, n));
    }
    assert forall|n: NodeIdx| moved_nd(net, d, n) implies (#[trigger] tf2[n]).formation@ == tf0[n].formation@.remove(first_pos(tf0[n].formation@, v)) by {
        assert(has_vehicle(tf0[n].formation@, v));
    }
    assert forall|n: NodeIdx| !moved_nd(net, p, n) && !moved_nd(net, d, n) implies #[trigger] tf2[n] == tf0[n] by {
        assert(tf1[n] == tf0[n]);
    }
    assert(tf2.dom() == tf0.dom());
}
/// nodes that are depots contribute nothing
pub proof fn lemma_un_zero(s: &Schedule, tf: Formations, pr: Option<VehicleIdx>, rv: Option<Vehicle>, m: Seq<NodeIdx>, k: int, after: bool, c: int)
    requires 0 <= k <= m.len(), forall|j: int| 0 <= j < k ==> (#[trigger] s.network.sp_node(m[j])).sp_is_depot(),
    ensures s.un_sum(tf, pr, rv, m, k, after, c) == 0,
    decreases k,
{
    if k > 0 {
        lemma_un_zero(s, tf, pr, rv, m, k - 1, after, c);
        assert(s.network.sp_node(m[k - 1]).sp_is_depot());
    }
}

/// the precondition of the rotation-cycle update for the one changed tour (the text of lemma_upd_pre / lemma_upd_pre_0,
/// env/remove_segment_shim.vs, over the invariants of env/spawn_vehicle_shim.vs)
pub proof fn lemma_ap_upd_pre(s: &Schedule, v: VehicleIdx, nt: Tour, tours1: TourMap)
    requires
        s.transitions_ok(), s.sv_ids_ok(), s.vehicles@.contains_key(v), s.type_known(s.type_of(v)),
        tours1 == s.tours@.insert(v, nt),
        tour_ok(&s.network, &nt),
    ensures
        // for `vec![v]`, whatever sequence of one item its view is
        forall|cv: Seq<VehicleIdx>| cv.len() == 1 && cv[0] == v
            ==> #[trigger] s.upd_pre(s.next_period_transitions@, s.maintenance_violation as int, cv, s.vehicles@, tours1),
        forall|cv: Seq<VehicleIdx>, t: VehicleTypeIdx| cv.len() == 1 && cv[0] == v && t != s.type_of(v)
            ==> !#[trigger] s.touches_type(s.vehicles@, cv, t),
{
    let trs = s.next_period_transitions@;
    assert(trs.contains_key(s.type_of(v)));
    assert forall|cv: Seq<VehicleIdx>| cv.len() == 1 && cv[0] == v
        implies #[trigger] s.upd_pre(trs, s.maintenance_violation as int, cv, s.vehicles@, tours1) by {
        assert(cv =~= seq![v]);
        assert(s.eff_type(s.vehicles@, v) == s.type_of(v));
        assert(s.change_ok(trs, s.vehicles@, tours1, v));
        assert forall|i: int| 0 <= i < cv.len() && (#[trigger] cv[i]) is Vehicle implies s.change_ok(trs, s.vehicles@, tours1, cv[i]) by {
            assert(cv[i] == v);
        }
        assert(real_in(cv, v)) by { assert(cv[0] == v); }
        assert forall|u: VehicleIdx| !real_in(cv, u) && #[trigger] s.vehicles@.contains_key(u) implies tours1.contains_key(u) && tours1[u] == s.tours@[u] by {
            assert(s.tours@.contains_key(u));
        }
    }
    assert forall|cv: Seq<VehicleIdx>, t: VehicleTypeIdx| cv.len() == 1 && cv[0] == v && t != s.type_of(v)
        implies !#[trigger] s.touches_type(s.vehicles@, cv, t) by {
        if s.touches_type(s.vehicles@, cv, t) {
            let i = choose|i: int| 0 <= i < cv.len() && (#[trigger] cv[i]) is Vehicle && s.eff_type(s.vehicles@, cv[i]) == t;
            assert(cv[i] == v);
        }
    }
}
/// the new tour: what the cost arithmetic, the depot bookkeeping and the rotation-cycle update need of it
pub proof fn lemma_ap_new_tour(s: &Schedule, v: VehicleIdx, p: Seq<NodeIdx>, nt: Tour)
    requires
        s.ap_ok(), s.ap_vehicle_ok(v), s.ap_counter_ok(v, p),
        nt.nodes@ == s.ap_gained(v, p), nt.wf(), nt.caches_ok(), !nt.is_dummy, nt.network == s.tours@[v].network,
        // (an insertion adds at most the path to the tour)
        len_ok(nt.nodes@),
    ensures
        tour_of_net(&s.network, &nt),
        tour_ok(&s.network, &nt),
        s.costs + nt.costs <= u64::MAX,
        s.tours@[v].costs <= s.costs + nt.costs,
{
    lemma_cost_bounds(&nt.network, nt.nodes@);
    assert(tour_of_net(&s.network, &nt));
    assert(-counter_bound() <= tour_counter(&nt) <= counter_bound());
}

// =====================================================================================================
// CLOSURE (induction step of C10 "after any sequence of schedule modifications …" / C09 / C11 "… for every reachable
// schedule"): the schedule add_path_to_vehicle_tour returns satisfies the invariant bundle `ap_ok` (and `ap_vehicle_ok` for
// the same vehicle) AGAIN.  Everything here is derived from the EFFECT clauses of the contract (collected in `ap_effects`)
// and the invariants of the old schedule: open spec functions and proved lemmas, no assumption.
//   invariant conjunct (ap_ok)               | status for the result r
//   network.wf()                             | proved (network untouched)
//   sv_ids_ok()                              | proved (vehicles, dummy tours, listings, counter untouched; `tours` keeps its key set)
//   sv_formations_ok(): every activity has a formation; trips' types are types of the network; the cached pair covers
//                       any duplicate-free list                  | proved (ap_formations_exact)
//                       formation length <= 2^17; u32 capacity / seat sums fit with one more vehicle of any type
//                                                                | MAGNITUDES, not preserved by a formation that GROWS: proved
//                         for every other formation (untouched / shrunk), for the grown ones under the hypothesis
//                         `ap_grown_small` on the result (= the two clauses for the non-depot nodes of the path)
//   ap_unserved_covers()                     | proved (lemma_apcl_covers)
//   ap_unserved_room()                       | NOT INDUCTIVE as written (see lemma_apcl_closed): hypothesis on the result
//   transitions_ok()                         | proved, including the magnitude len_sum < 2^17 (the cycles of every type hold
//                                              the same vehicles as before: lemma_apcl_transitions)
//   usage_exact(..)                          | proved (was a clause of the contract already)
//   costs <= 2^61                            | MAGNITUDE, costs can grow: hypothesis `r.costs <= sched_cost_bound()`
//   ap_vehicle_ok(v): real vehicle, type known, network's record of the type, tour of the network with exact caches,
//                     tour's costs <= schedule's costs, listed in the formation of every activity of its NEW tour | proved
//                     A-len (tour_len_ok of the new tour)        | MAGNITUDE: hypothesis on the result
// The lemmas on sums over node lists / on the size of a rotation-cycle table are the text of env/sched_ctor_shim.vs
// (lemma_nsum_remove, lemma_nsum_drop_last, cyc_elems, lemma_cyc_elems_member, lemma_cyc_elems_len, lemma_total_len_is_lookup)
// under the prefix `apcl_` (that file cannot be included here; env/spawn_vehicle_shim.vs holds copies under `spcl_`).
// =====================================================================================================
impl Schedule {
    /// the EFFECT clauses of the contract of add_path_to_vehicle_tour that the closure is derived from (each is a
    /// postcondition of its own in slices/add_path.vs; nothing new is claimed here)
    pub open spec fn ap_effects(&self, v: VehicleIdx, p: Seq<NodeIdx>, s1: &Schedule) -> bool {
        &&& self.ap_tour_after(v, p, s1)
        &&& self.ap_rest_untouched(s1)
        &&& self.ap_joins(v, p, s1.train_formations@)
        &&& self.ap_leaves(v, p, s1.train_formations@)
        &&& self.ap_elsewhere(v, p, s1.train_formations@)
        &&& s1.costs == self.costs + s1.tours@[v].costs - self.tours@[v].costs
        &&& usage_exact(s1.depot_usage@, &self.network, s1.vehicles@, s1.tours@)
        &&& self.ap_unserved_after(v, p, s1.unserved_passengers)
        &&& self.transitions_follow(self.type_of(v), s1)
    }
    /// the clauses of sv_formations_ok that are no magnitudes (clauses 1, 3, 5; same text): every activity has a
    /// formation, the trips' types are types of the network, the cached pair covers any duplicate-free list
    pub open spec fn ap_formations_exact(&self) -> bool {
        let tf = self.train_formations@;
        &&& forall|n: NodeIdx| self.network.has(n) && self.network.sp_node(n).sp_is_activity() ==> #[trigger] tf.contains_key(n)
        &&& forall|n: NodeIdx| self.network.has(n) && #[trigger] self.network.sp_node(n) is Service ==> self.network.is_trip(n)
        &&& forall|s: Seq<NodeIdx>, c: int| #![trigger self.un_old(s, s.len() as int, c)] s.no_duplicates() && all_in_net(&self.network, s) && (c == 0 || c == 1)
                ==> self.un_old(s, s.len() as int, c) <= self.unserved_c(c)
    }
    /// the MAGNITUDE clauses of sv_formations_ok (clauses 2, 4; same text)
    pub open spec fn ap_formations_small(&self) -> bool {
        let tf = self.train_formations@;
        &&& forall|n: NodeIdx| #[trigger] tf.contains_key(n) ==> tf[n].formation@.len() <= max_vehicles()
        &&& forall|n: NodeIdx, vt: VehicleTypeIdx| #![trigger tf[n], self.vtypes()[vt]] tf.contains_key(n) && self.vtypes().contains_key(vt)
                ==> fcap(tf[n].formation@) + self.vtypes()[vt].capacity <= u32::MAX && fseats(tf[n].formation@) + self.vtypes()[vt].seats <= u32::MAX
    }
    /// HYPOTHESIS ON THE RESULT s1 (magnitudes; the weakest under which ap_formations_small holds again): the two magnitude
    /// clauses for the formations that GREW, i.e. those of the non-depot nodes of the path (every other formation is
    /// untouched or lost the vehicle)
    pub open spec fn ap_grown_small(&self, p: Seq<NodeIdx>, s1: &Schedule) -> bool {
        let tf = s1.train_formations@;
        &&& forall|n: NodeIdx| moved_nd(&self.network, p, n) ==> (#[trigger] tf[n]).formation@.len() <= max_vehicles()
        &&& forall|n: NodeIdx, vt: VehicleTypeIdx| #![trigger tf[n], self.vtypes()[vt]] moved_nd(&self.network, p, n) && self.vtypes().contains_key(vt)
                ==> fcap(tf[n].formation@) + self.vtypes()[vt].capacity <= u32::MAX && fseats(tf[n].formation@) + self.vtypes()[vt].seats <= u32::MAX
    }
    /// what lemma_apcl_closed proves of the result s1
    pub open spec fn ap_closed(&self, v: VehicleIdx, p: Seq<NodeIdx>, s1: &Schedule) -> bool {
        // ids / listings
        &&& s1.network.wf() && s1.sv_ids_ok()
        // formations
        &&& s1.ap_formations_exact() && s1.ap_unserved_covers()
        &&& (self.ap_grown_small(p, s1) ==> s1.ap_formations_small() && s1.sv_formations_ok())
        // usage
        &&& usage_exact(s1.depot_usage@, &s1.network, s1.vehicles@, s1.tours@)
        // transitions
        &&& s1.transitions_ok()
        // the bundle, under the hypotheses on the result: magnitudes (grown formations, costs) and the non-inductive
        // conjunct ap_unserved_room
        &&& (self.ap_grown_small(p, s1) && s1.ap_unserved_room() && s1.costs <= sched_cost_bound() ==> s1.ap_ok())
        // the receiving vehicle, under A-len for its new tour
        &&& (tour_len_ok(s1.tours@[v].nodes@) ==> s1.ap_vehicle_ok(v))
    }
}

// ---- sums over node lists (nsum: env/sums.vs) ---------------------------------------------------------------------
/// the weight function of the unserved passengers                                   [text of env/sched_ctor_shim.vs, un_fn]
pub open spec fn apcl_un_fn(net: &Network, tf: Formations, c: int) -> spec_fn(NodeIdx) -> int {
    |n: NodeIdx| unserved_at(net, n, tf[n].formation@, c)
}
/// g inside the list q, 0 elsewhere / g outside q, 0 inside
pub open spec fn apcl_inside(q: Seq<NodeIdx>, g: spec_fn(NodeIdx) -> int) -> spec_fn(NodeIdx) -> int {
    |n: NodeIdx| if q.contains(n) { g(n) } else { 0 }
}
pub open spec fn apcl_outside(q: Seq<NodeIdx>, g: spec_fn(NodeIdx) -> int) -> spec_fn(NodeIdx) -> int {
    |n: NodeIdx| if q.contains(n) { 0 } else { g(n) }
}
/// [text of env/sched_ctor_shim.vs]
pub proof fn apcl_lemma_nsum_drop_last(a: Seq<NodeIdx>, g: spec_fn(NodeIdx) -> int)
    requires a.len() > 0,
    ensures nsum(a, g) == nsum(a.drop_last(), g) + g(a.last()),
{
    assert(a.map_values(g).drop_last() =~= a.drop_last().map_values(g));
}
/// [text of env/sched_ctor_shim.vs]
pub proof fn apcl_lemma_nsum_remove(s: Seq<NodeIdx>, g: spec_fn(NodeIdx) -> int, p: int)
    requires 0 <= p < s.len(),
    ensures nsum(s, g) == nsum(s.remove(p), g) + g(s[p]),
{
    let a = s.subrange(0, p);
    let b = s.subrange(p + 1, s.len() as int);
    assert(s =~= a + seq![s[p]] + b);
    assert(s.remove(p) =~= a + b);
    lemma_nsum_append(a + seq![s[p]], b, g);
    lemma_nsum_append(a, seq![s[p]], g);
    lemma_nsum_append(a, b, g);
    assert(seq![s[p]].map_values(g) =~= seq![g(s[p])]);
    lemma_isum_one(g(s[p]));
}
pub proof fn apcl_lemma_nsum_empty(s: Seq<NodeIdx>, g: spec_fn(NodeIdx) -> int)
    requires s.len() == 0,
    ensures nsum(s, g) == 0,
{
    assert(s.map_values(g) =~= Seq::<int>::empty());
}
/// the sum only depends on the weights of the listed nodes
pub proof fn apcl_lemma_nsum_ext(m: Seq<NodeIdx>, g: spec_fn(NodeIdx) -> int, h: spec_fn(NodeIdx) -> int)
    requires forall|i: int| 0 <= i < m.len() ==> g(#[trigger] m[i]) == h(m[i]),
    ensures nsum(m, g) == nsum(m, h),
{
    assert(m.map_values(g) =~= m.map_values(h));
}
/// the sum is additive in the weight
pub proof fn apcl_lemma_nsum_add(m: Seq<NodeIdx>, g: spec_fn(NodeIdx) -> int, a: spec_fn(NodeIdx) -> int, b: spec_fn(NodeIdx) -> int)
    requires forall|i: int| 0 <= i < m.len() ==> g(#[trigger] m[i]) == a(m[i]) + b(m[i]),
    ensures nsum(m, g) == nsum(m, a) + nsum(m, b),
    decreases m.len(),
{
    if m.len() == 0 {
        apcl_lemma_nsum_empty(m, g); apcl_lemma_nsum_empty(m, a); apcl_lemma_nsum_empty(m, b);
    } else {
        let t = m.drop_last();
        assert forall|i: int| 0 <= i < t.len() implies g(#[trigger] t[i]) == a(t[i]) + b(t[i]) by { assert(t[i] == m[i]); }
        apcl_lemma_nsum_add(t, g, a, b);
        apcl_lemma_nsum_drop_last(m, g); apcl_lemma_nsum_drop_last(m, a); apcl_lemma_nsum_drop_last(m, b);
        assert(m.last() == m[m.len() - 1]);
    }
}
pub proof fn apcl_lemma_remove_contains(a: Seq<NodeIdx>, p: int, y: NodeIdx)
    requires 0 <= p < a.len(), a.contains(y), y != a[p],
    ensures a.remove(p).contains(y),
{
    let i = choose|i: int| 0 <= i < a.len() && a[i] == y;
    if i < p { assert(a.remove(p)[i] == y); } else { assert(a.remove(p)[i - 1] == y); }
}
/// a list s in which no node of non-zero (non-negative) weight occurs twice and whose nodes of non-zero weight all occur
/// in the list a weighs at most as much as a
pub proof fn apcl_lemma_nsum_sub(s: Seq<NodeIdx>, a: Seq<NodeIdx>, g: spec_fn(NodeIdx) -> int)
    requires
        forall|n: NodeIdx| 0 <= #[trigger] g(n),
        forall|i: int, j: int| 0 <= i < s.len() && 0 <= j < s.len() && i != j && #[trigger] s[i] == #[trigger] s[j] ==> g(s[i]) == 0,
        forall|i: int| 0 <= i < s.len() && g(#[trigger] s[i]) != 0 ==> a.contains(s[i]),
    ensures nsum(s, g) <= nsum(a, g),
    decreases s.len(),
{
    if s.len() == 0 {
        apcl_lemma_nsum_empty(s, g);
        assert forall|i: int| 0 <= i < a.len() implies 0 <= #[trigger] g(a[i]) <= g(a[i]) + 0 by {}
        lemma_isum_bounds_lo(a.map_values(g));
    } else {
        let t = s.drop_last();
        let x = s.last();
        let n = s.len() as int;
        apcl_lemma_nsum_drop_last(s, g);
        assert forall|i: int, j: int| 0 <= i < t.len() && 0 <= j < t.len() && i != j && #[trigger] t[i] == #[trigger] t[j] implies g(t[i]) == 0 by {
            assert(s[i] == s[j]);
        }
        if g(x) == 0 {
            assert forall|i: int| 0 <= i < t.len() && g(#[trigger] t[i]) != 0 implies a.contains(t[i]) by { assert(t[i] == s[i]); }
            apcl_lemma_nsum_sub(t, a, g);
        } else {
            assert(x == s[n - 1]);
            assert(a.contains(s[n - 1]));
            let p = choose|p: int| 0 <= p < a.len() && a[p] == x;
            let a1 = a.remove(p);
            apcl_lemma_nsum_remove(a, g, p);
            assert forall|i: int| 0 <= i < t.len() && g(#[trigger] t[i]) != 0 implies a1.contains(t[i]) by {
                assert(t[i] == s[i]);
                if s[i] == s[n - 1] { assert(g(s[i]) == 0); }
                assert(a.contains(s[i]));
                apcl_lemma_remove_contains(a, p, t[i]);
            }
            apcl_lemma_nsum_sub(t, a1, g);
        }
    }
}
/// the nodes of s that do not occur in q, in order
pub open spec fn apcl_rest(s: Seq<NodeIdx>, q: Seq<NodeIdx>) -> Seq<NodeIdx>
    decreases s.len(),
{
    if s.len() == 0 { Seq::empty() }
    else if q.contains(s.last()) { apcl_rest(s.drop_last(), q) }
    else { apcl_rest(s.drop_last(), q).push(s.last()) }
}
pub proof fn apcl_lemma_rest(net: &Network, s: Seq<NodeIdx>, q: Seq<NodeIdx>, g: spec_fn(NodeIdx) -> int)
    requires acts_distinct(net, s), all_in_net(net, s),
    ensures
        forall|x: NodeIdx| #[trigger] apcl_rest(s, q).contains(x) ==> s.contains(x) && !q.contains(x),
        acts_distinct(net, apcl_rest(s, q)), all_in_net(net, apcl_rest(s, q)),
        nsum(s, apcl_outside(q, g)) == nsum(apcl_rest(s, q), g),
    decreases s.len(),
{
    let go = apcl_outside(q, g);
    let r = apcl_rest(s, q);
    if s.len() == 0 {
        apcl_lemma_nsum_empty(s, go);
        apcl_lemma_nsum_empty(r, g);
    } else {
        let t = s.drop_last();
        let x = s.last();
        let n = s.len() as int;
        let rt = apcl_rest(t, q);
        assert(acts_distinct(net, t)) by {
            assert forall|i: int, j: int| 0 <= i < t.len() && 0 <= j < t.len() && i != j && #[trigger] t[i] == #[trigger] t[j]
                implies net.sp_node(t[i]).sp_is_depot() by { assert(s[i] == s[j]); }
        }
        assert(all_in_net(net, t)) by {
            assert forall|i: int| 0 <= i < t.len() implies #[trigger] net.has(t[i]) by { assert(net.has(s[i])); }
        }
        apcl_lemma_rest(net, t, q, g);
        apcl_lemma_nsum_drop_last(s, go);
        assert forall|y: NodeIdx| t.contains(y) implies s.contains(y) by {
            let i = choose|i: int| 0 <= i < t.len() && t[i] == y;
            assert(s[i] == y);
        }
        assert(s[n - 1] == x);
        if q.contains(x) {
            assert(r == rt);
            assert forall|y: NodeIdx| #[trigger] r.contains(y) implies s.contains(y) && !q.contains(y) by { assert(t.contains(y)); }
        } else {
            assert(r == rt.push(x));
            assert(r.drop_last() =~= rt);
            apcl_lemma_nsum_drop_last(r, g);
            assert forall|y: NodeIdx| #[trigger] r.contains(y) implies s.contains(y) && !q.contains(y) by {
                let i = choose|i: int| 0 <= i < r.len() && r[i] == y;
                if i < rt.len() { assert(rt[i] == y); assert(rt.contains(y)); assert(t.contains(y)); }
            }
            assert(acts_distinct(net, r)) by {
                assert forall|i: int, j: int| 0 <= i < r.len() && 0 <= j < r.len() && i != j && #[trigger] r[i] == #[trigger] r[j]
                    implies net.sp_node(r[i]).sp_is_depot() by {
                    if i < rt.len() && j < rt.len() {
                        assert(rt[i] == rt[j]);
                    } else {
                        // one of them is x, the other one a node of t
                        let k = if i < rt.len() { i } else { j };
                        assert(rt[k] == x);
                        assert(rt.contains(x));
                        assert(t.contains(x));
                        let m = choose|m: int| 0 <= m < t.len() && t[m] == x;
                        assert(s[m] == s[n - 1]);
                    }
                }
            }
            assert(all_in_net(net, r)) by {
                assert forall|i: int| 0 <= i < r.len() implies #[trigger] net.has(r[i]) by {
                    if i < rt.len() { assert(net.has(rt[i])); } else { assert(net.has(s[n - 1])); }
                }
            }
        }
    }
}
/// two lists without a repeated activity that share no node
pub proof fn apcl_lemma_acts_concat(net: &Network, a: Seq<NodeIdx>, b: Seq<NodeIdx>)
    requires
        acts_distinct(net, a), acts_distinct(net, b), all_in_net(net, a), all_in_net(net, b),
        forall|x: NodeIdx| #[trigger] b.contains(x) ==> !a.contains(x),
    ensures acts_distinct(net, a + b), all_in_net(net, a + b),
{
    let w = a + b;
    let na = a.len() as int;
    assert forall|i: int, j: int| 0 <= i < w.len() && 0 <= j < w.len() && i != j && #[trigger] w[i] == #[trigger] w[j]
        implies net.sp_node(w[i]).sp_is_depot() by {
        if i < na && j < na { assert(a[i] == a[j]); }
        else if i >= na && j >= na { assert(b[i - na] == b[j - na]); }
        else if i < na { assert(b.contains(b[j - na])); assert(a.contains(a[i])); }
        else { assert(b.contains(b[i - na])); assert(a.contains(a[j])); }
    }
    assert forall|i: int| 0 <= i < w.len() implies #[trigger] net.has(w[i]) by {
        if i < na { assert(net.has(a[i])); } else { assert(net.has(b[i - na])); }
    }
}
/// Schedule::un_sum over a table's own formations (`after == false`) is the nsum of the table's weight function
pub proof fn apcl_lemma_un_nsum(sch: &Schedule, tf: Formations, m: Seq<NodeIdx>, k: int, c: int)
    requires 0 <= k <= m.len(),
    ensures sch.un_sum(tf, None, None, m, k, false, c) == nsum(m.take(k), apcl_un_fn(&sch.network, tf, c)),
    decreases k,
{
    let g = apcl_un_fn(&sch.network, tf, c);
    if k > 0 {
        apcl_lemma_un_nsum(sch, tf, m, k - 1, c);
        apcl_lemma_nsum_drop_last(m.take(k), g);
        assert(m.take(k).drop_last() =~= m.take(k - 1));
        assert(m.take(k).last() == m[k - 1]);
    } else {
        apcl_lemma_nsum_empty(m.take(0), g);
    }
}
/// Schedule::un_sum over the formations AFTER the replacement is the nsum of the weight function of the table tf2 that holds
/// these formations
pub proof fn apcl_lemma_un_after(sch: &Schedule, tf0: Formations, tf2: Formations, pr: Option<VehicleIdx>, rv: Option<Vehicle>, m: Seq<NodeIdx>, k: int, c: int)
    requires
        0 <= k <= m.len(),
        forall|j: int| 0 <= j < k && !sch.network.sp_node(#[trigger] m[j]).sp_is_depot()
            ==> tf2[m[j]].formation@ == sch.repl_seq(tf0[m[j]].formation@, pr, rv),
    ensures sch.un_sum(tf0, pr, rv, m, k, true, c) == nsum(m.take(k), apcl_un_fn(&sch.network, tf2, c)),
    decreases k,
{
    let g = apcl_un_fn(&sch.network, tf2, c);
    if k > 0 {
        apcl_lemma_un_after(sch, tf0, tf2, pr, rv, m, k - 1, c);
        apcl_lemma_nsum_drop_last(m.take(k), g);
        assert(m.take(k).drop_last() =~= m.take(k - 1));
        assert(m.take(k).last() == m[k - 1]);
        if !sch.network.sp_node(m[k - 1]).sp_is_depot() {
            assert(tf2[m[k - 1]].formation@ == sch.repl_seq(tf0[m[k - 1]].formation@, pr, rv));
        }
    } else {
        apcl_lemma_nsum_empty(m.take(0), g);
    }
}

// ---- ids / listings -------------------------------------------------------------------------------------------------
pub proof fn lemma_apcl_ids(s: &Schedule, v: VehicleIdx, p: Seq<NodeIdx>, s1: &Schedule)
    requires s.network.wf(), s.sv_ids_ok(), s.vehicles@.contains_key(v), s.ap_tour_after(v, p, s1), s.ap_rest_untouched(s1),
    ensures s1.network.wf(), s1.sv_ids_ok(),
{
    assert forall|u: VehicleIdx| #[trigger] s1.vehicles@.contains_key(u) <==> s1.tours@.contains_key(u) by {
        assert(s.vehicles@.contains_key(u) <==> s.tours@.contains_key(u));
    }
    assert forall|vt: VehicleTypeIdx| #[trigger] s1.vehicle_ids_grouped_and_sorted@.contains_key(vt) implies sorted_cmp(s1.listing(vt)) by {
        assert(s.vehicle_ids_grouped_and_sorted@.contains_key(vt));
        assert(s1.listing(vt) == s.listing(vt));
    }
}

// ---- formations -----------------------------------------------------------------------------------------------------
/// sv_formations_ok is the conjunction of its non-magnitude and its magnitude clauses
pub proof fn lemma_apcl_formations_split(s: &Schedule)
    ensures s.sv_formations_ok() <==> s.ap_formations_exact() && s.ap_formations_small(),
{
}
/// path + displaced block: no activity twice, nodes of the network
pub proof fn lemma_apcl_pd(s: &Schedule, v: VehicleIdx, p: Seq<NodeIdx>)
    requires
        s.network.wf(), s.ap_vehicle_ok(v), path_shape(&s.network, p), s.ap_path_fresh(v, p),
        0 <= s.ap_s(v, p) <= s.ap_e(v, p) <= s.tours@[v].len(),
    ensures
        acts_distinct(&s.network, p + s.ap_displaced(v, p)), all_in_net(&s.network, p + s.ap_displaced(v, p)),
        forall|n: NodeIdx| #[trigger] (p + s.ap_displaced(v, p)).contains(n) <==> p.contains(n) || s.ap_displaced(v, p).contains(n),
{
    let net = &s.network;
    let d = s.ap_displaced(v, p);
    let pd = p + d;
    let np = p.len() as int;
    lemma_ap_frame(s, v, p, s.train_formations@);
    lemma_path_distinct(net, p);
    assert(acts_distinct(net, pd)) by {
        assert forall|i: int, j: int| 0 <= i < pd.len() && 0 <= j < pd.len() && i != j && #[trigger] pd[i] == #[trigger] pd[j]
            implies net.sp_node(pd[i]).sp_is_depot() by {
            if i < np && j < np { assert(p[i] != p[j]); }
            if i >= np && j >= np { assert(d[i - np] != d[j - np]); }
            if i < np && j >= np { assert(p.contains(p[i])); assert(!moved_nd(net, p, d[j - np])); }
            if j < np && i >= np { assert(p.contains(p[j])); assert(!moved_nd(net, p, d[i - np])); }
        }
    }
    assert(all_in_net(net, pd)) by {
        assert forall|i: int| 0 <= i < pd.len() implies #[trigger] net.has(pd[i]) by {
            if i < np { assert(net.has(p[i])); } else { assert(net.has(d[i - np])); }
        }
    }
    assert forall|n: NodeIdx| #[trigger] pd.contains(n) <==> p.contains(n) || d.contains(n) by {
        if pd.contains(n) {
            let i = choose|i: int| 0 <= i < pd.len() && pd[i] == n;
            if i < np { assert(p[i] == n); } else { assert(d[i - np] == n); }
        }
        if p.contains(n) { let i = choose|i: int| 0 <= i < p.len() && p[i] == n; assert(pd[i] == n); }
        if d.contains(n) { let i = choose|i: int| 0 <= i < d.len() && d[i] == n; assert(pd[np + i] == n); }
    }
}
/// the new pair is the old one minus the old contribution of path + displaced block plus their new contribution
pub proof fn lemma_apcl_pair(s: &Schedule, v: VehicleIdx, p: Seq<NodeIdx>, s1: &Schedule, c: int)
    requires
        s.sv_ids_ok(), s.vehicles@.contains_key(v), c == 0 || c == 1,
        s.ap_joins(v, p, s1.train_formations@), s.ap_leaves(v, p, s1.train_formations@),
        s.ap_unserved_after(v, p, s1.unserved_passengers),
    ensures
        s1.unserved_c(c) == s.unserved_c(c)
            - nsum(p + s.ap_displaced(v, p), apcl_un_fn(&s.network, s.train_formations@, c))
            + nsum(p + s.ap_displaced(v, p), apcl_un_fn(&s.network, s1.train_formations@, c)),
{
    let net = &s.network;
    let tf0 = s.train_formations@;
    let tf2 = s1.train_formations@;
    let vh = s.vehicles@[v];
    let rv = Some(vh);
    let d = s.ap_displaced(v, p);
    let np = p.len() as int;
    let nd = d.len() as int;
    let g0 = apcl_un_fn(net, tf0, c);
    let g2 = apcl_un_fn(net, tf2, c);
    if s.dummy_tours@.contains_key(v) { assert(v is Dummy); }
    assert(s.grows(None, rv));
    assert(s.shrinks(Some(v), None::<Vehicle>) && !s.grows(Some(v), None::<Vehicle>) && !s.replaces(Some(v), None::<Vehicle>));
    // the path
    lemma_un_old(s, tf0, None, rv, p, np, c);
    apcl_lemma_un_nsum(s, tf0, p, np, c);
    assert(p.take(np) =~= p);
    assert forall|j: int| 0 <= j < np && !net.sp_node(#[trigger] p[j]).sp_is_depot()
        implies tf2[p[j]].formation@ == s.repl_seq(tf0[p[j]].formation@, None, rv) by {
        assert(p.contains(p[j]));
        assert(moved_nd(net, p, p[j]));
    }
    apcl_lemma_un_after(s, tf0, tf2, None, rv, p, np, c);
    // the displaced block
    lemma_un_old(s, tf0, Some(v), None, d, nd, c);
    apcl_lemma_un_nsum(s, tf0, d, nd, c);
    assert(d.take(nd) =~= d);
    assert forall|j: int| 0 <= j < nd && !net.sp_node(#[trigger] d[j]).sp_is_depot()
        implies tf2[d[j]].formation@ == s.repl_seq(tf0[d[j]].formation@, Some(v), None) by {
        assert(d.contains(d[j]));
        assert(moved_nd(net, d, d[j]));
    }
    apcl_lemma_un_after(s, tf0, tf2, Some(v), None, d, nd, c);
    lemma_nsum_append(p, d, g0);
    lemma_nsum_append(p, d, g2);
}
/// C09: the new pair covers the contribution (w.r.t. the NEW table) of any list of nodes without a repeated activity:
/// ap_unserved_covers holds again (component c)
pub proof fn lemma_apcl_covers(s: &Schedule, v: VehicleIdx, p: Seq<NodeIdx>, s1: &Schedule, c: int)
    requires
        s.network.wf(), s.sv_ids_ok(), s.ap_unserved_covers(), s.ap_vehicle_ok(v), path_shape(&s.network, p), s.ap_path_fresh(v, p),
        0 <= s.ap_s(v, p) <= s.ap_e(v, p) <= s.tours@[v].len(),
        s1.network == s.network,
        s.ap_joins(v, p, s1.train_formations@), s.ap_leaves(v, p, s1.train_formations@), s.ap_elsewhere(v, p, s1.train_formations@),
        s.ap_unserved_after(v, p, s1.unserved_passengers),
        c == 0 || c == 1,
    ensures
        forall|m: Seq<NodeIdx>| #![trigger s1.un_old(m, m.len() as int, c)] acts_distinct(&s1.network, m) && all_in_net(&s1.network, m)
            ==> s1.un_old(m, m.len() as int, c) <= s1.unserved_c(c),
{
    let net = &s.network;
    let tf0 = s.train_formations@;
    let tf2 = s1.train_formations@;
    let d = s.ap_displaced(v, p);
    let pd = p + d;
    let g0 = apcl_un_fn(net, tf0, c);
    let g2 = apcl_un_fn(net, tf2, c);
    lemma_apcl_pair(s, v, p, s1, c);
    lemma_apcl_pd(s, v, p);
    assert forall|m: Seq<NodeIdx>| #![trigger s1.un_old(m, m.len() as int, c)] acts_distinct(&s1.network, m) && all_in_net(&s1.network, m)
        implies s1.un_old(m, m.len() as int, c) <= s1.unserved_c(c) by {
        apcl_lemma_un_nsum(s1, tf2, m, m.len() as int, c);
        assert(m.take(m.len() as int) =~= m);
        assert(s1.un_old(m, m.len() as int, c) == nsum(m, g2));
        let gi = apcl_inside(pd, g2);
        let go = apcl_outside(pd, g2);
        apcl_lemma_nsum_add(m, g2, gi, go);
        // the nodes of m inside path + displaced block weigh at most as much as path + displaced block
        assert forall|n: NodeIdx| 0 <= #[trigger] gi(n) by {}
        assert forall|i: int, j: int| 0 <= i < m.len() && 0 <= j < m.len() && i != j && #[trigger] m[i] == #[trigger] m[j] implies gi(m[i]) == 0 by {
            assert(net.sp_node(m[i]).sp_is_depot());
        }
        apcl_lemma_nsum_sub(m, pd, gi);
        assert forall|i: int| 0 <= i < pd.len() implies gi(#[trigger] pd[i]) == g2(pd[i]) by { assert(pd.contains(pd[i])); }
        apcl_lemma_nsum_ext(pd, gi, g2);
        // the nodes of m outside kept their formation: with path + displaced block they are covered by the OLD pair
        let rest = apcl_rest(m, pd);
        apcl_lemma_rest(net, m, pd, g2);
        assert forall|i: int| 0 <= i < rest.len() implies g2(#[trigger] rest[i]) == g0(rest[i]) by {
            let n = rest[i];
            assert(rest.contains(n));
            assert(!pd.contains(n));
            assert(!moved_nd(net, p, n) && !moved_nd(net, d, n));
            assert(tf2[n] == tf0[n]);
        }
        apcl_lemma_nsum_ext(rest, g2, g0);
        let w = pd + rest;
        apcl_lemma_acts_concat(net, pd, rest);
        assert(s.un_old(w, w.len() as int, c) <= s.unserved_c(c));
        apcl_lemma_un_nsum(s, tf0, w, w.len() as int, c);
        assert(w.take(w.len() as int) =~= w);
        lemma_nsum_append(pd, rest, g0);
    }
}
/// the structure of the formation table and, for the formations that did not grow, the magnitudes
pub proof fn lemma_apcl_formations(s: &Schedule, v: VehicleIdx, p: Seq<NodeIdx>, s1: &Schedule)
    requires
        s.sv_formations_ok(), s1.network == s.network,
        s.ap_leaves(v, p, s1.train_formations@), s.ap_elsewhere(v, p, s1.train_formations@),
    ensures
        forall|n: NodeIdx| s1.network.has(n) && s1.network.sp_node(n).sp_is_activity() ==> #[trigger] s1.train_formations@.contains_key(n),
        forall|n: NodeIdx| s1.network.has(n) && #[trigger] s1.network.sp_node(n) is Service ==> s1.network.is_trip(n),
        s.ap_grown_small(p, s1) ==> s1.ap_formations_small(),
{
    let net = &s.network;
    let tf0 = s.train_formations@;
    let tf2 = s1.train_formations@;
    let d = s.ap_displaced(v, p);
    assert forall|n: NodeIdx| s1.network.has(n) && s1.network.sp_node(n).sp_is_activity() implies #[trigger] tf2.contains_key(n) by {
        assert(tf0.contains_key(n));
        assert(tf0.dom().contains(n));
    }
    if s.ap_grown_small(p, s1) {
        assert forall|n: NodeIdx| #[trigger] tf2.contains_key(n) implies tf2[n].formation@.len() <= max_vehicles() by {
            assert(tf2.dom().contains(n));
            assert(tf0.contains_key(n));
            if moved_nd(net, p, n) {
            } else if moved_nd(net, d, n) {
                let f = tf0[n].formation@;
                assert(has_vehicle(f, v));
                lemma_first_pos(f, v);
            } else {
                assert(tf2[n] == tf0[n]);
            }
        }
        assert forall|n: NodeIdx, vt: VehicleTypeIdx| #![trigger tf2[n], s1.vtypes()[vt]] tf2.contains_key(n) && s1.vtypes().contains_key(vt)
            implies fcap(tf2[n].formation@) + s1.vtypes()[vt].capacity <= u32::MAX && fseats(tf2[n].formation@) + s1.vtypes()[vt].seats <= u32::MAX by {
            assert(tf2.dom().contains(n));
            assert(tf0.contains_key(n));
            assert(s1.vtypes()[vt] == s.vtypes()[vt]);
            assert(fcap(tf0[n].formation@) + s.vtypes()[vt].capacity <= u32::MAX && fseats(tf0[n].formation@) + s.vtypes()[vt].seats <= u32::MAX);
            if moved_nd(net, p, n) {
            } else if moved_nd(net, d, n) {
                let f = tf0[n].formation@;
                assert(has_vehicle(f, v));
                lemma_first_pos(f, v);
                lemma_fcap_remove(f, first_pos(f, v));
            } else {
                assert(tf2[n] == tf0[n]);
            }
        }
    }
}

// ---- rotation cycles ------------------------------------------------------------------------------------------------
/// the vehicles in the first k cycles                                                  [text of env/sched_ctor_shim.vs]
pub open spec fn apcl_cyc_elems(t: TView, k: int) -> Set<VehicleIdx>
    decreases k,
{
    if k <= 0 { Set::empty() } else { apcl_cyc_elems(t, k - 1).union(t.cyc(k - 1).to_set()) }
}
pub proof fn apcl_lemma_cyc_elems_member(t: TView, k: int, v: VehicleIdx)
    requires 0 <= k <= t.n(),
    ensures apcl_cyc_elems(t, k).contains(v) <==> exists|i: int| 0 <= i < k && (#[trigger] t.cyc(i)).contains(v),
    decreases k,
{
    if k > 0 {
        apcl_lemma_cyc_elems_member(t, k - 1, v);
        if apcl_cyc_elems(t, k).contains(v) {
            if t.cyc(k - 1).contains(v) { assert(0 <= k - 1 < k && t.cyc(k - 1).contains(v)); }
            else {
                let i = choose|i: int| 0 <= i < k - 1 && (#[trigger] t.cyc(i)).contains(v);
                assert(0 <= i < k && t.cyc(i).contains(v));
            }
        }
        if exists|i: int| 0 <= i < k && (#[trigger] t.cyc(i)).contains(v) {
            let i = choose|i: int| 0 <= i < k && (#[trigger] t.cyc(i)).contains(v);
            if i < k - 1 { assert(0 <= i < k - 1 && t.cyc(i).contains(v)); }
        }
    }
}
pub proof fn apcl_lemma_cyc_elems_len(t: TView, k: int)
    requires t.wf_cycles(), 0 <= k <= t.n(),
    ensures apcl_cyc_elems(t, k).len() == sum_seq(lens_of(t.cycles).take(k)),
    decreases k,
{
    let l = lens_of(t.cycles);
    if k > 0 {
        apcl_lemma_cyc_elems_len(t, k - 1);
        let a = apcl_cyc_elems(t, k - 1);
        let b = t.cyc(k - 1).to_set();
        assert(a.disjoint(b)) by {
            assert forall|v: VehicleIdx| !(a.contains(v) && b.contains(v)) by {
                if a.contains(v) && b.contains(v) {
                    apcl_lemma_cyc_elems_member(t, k - 1, v);
                    let i = choose|i: int| 0 <= i < k - 1 && (#[trigger] t.cyc(i)).contains(v);
                    let x = choose|x: int| 0 <= x < t.cyc(i).len() && t.cyc(i)[x] == v;
                    let ck = t.cyc(k - 1);
                    let y = choose|y: int| 0 <= y < ck.len() && ck[y] == v;
                    assert(t.cyc(i)[x] != t.cyc(k - 1)[y]);
                }
            }
        }
        vstd::set_lib::lemma_set_disjoint_lens(a, b);
        t.cyc(k - 1).unique_seq_to_set();
        assert(l.take(k).drop_last() =~= l.take(k - 1));
        assert(l.take(k).last() == t.cyc(k - 1).len());
    } else {
        assert(l.take(0) =~= Seq::<int>::empty());
    }
}
/// C15: a consistent transition holds as many vehicles as its lookup has keys          [text of env/sched_ctor_shim.vs]
pub proof fn apcl_lemma_total_len_is_lookup(t: TView)
    requires t.wf_cycles(), t.wf_lookup(),
    ensures t.total_len() == t.lookup.dom().len(),
{
    let l = lens_of(t.cycles);
    apcl_lemma_cyc_elems_len(t, t.n());
    assert(l.take(t.n()) =~= l);
    assert(apcl_cyc_elems(t, t.n()) =~= t.lookup.dom()) by {
        assert forall|v: VehicleIdx| apcl_cyc_elems(t, t.n()).contains(v) <==> t.lookup.dom().contains(v) by {
            apcl_lemma_cyc_elems_member(t, t.n(), v);
            if apcl_cyc_elems(t, t.n()).contains(v) {
                let i = choose|i: int| 0 <= i < t.n() && (#[trigger] t.cyc(i)).contains(v);
                let x = choose|x: int| 0 <= x < t.cyc(i).len() && t.cyc(i)[x] == v;
                assert(t.lookup.contains_key(t.cyc(i)[x]));
            }
            if t.lookup.contains_key(v) {
                assert(0 <= t.cycle_of(v) < t.n() && t.cyc(t.cycle_of(v)).contains(v));
            }
        }
    }
}
pub proof fn apcl_lemma_len_sum_same(t1: Map<VehicleTypeIdx, Transition>, t2: Map<VehicleTypeIdx, Transition>, vts: Seq<VehicleTypeIdx>)
    requires forall|i: int| 0 <= i < vts.len() ==> (#[trigger] t1[vts[i]]).total_len() == t2[vts[i]].total_len(),
    ensures len_sum(t1, vts) == len_sum(t2, vts),
    decreases vts.len(),
{
    if vts.len() > 0 {
        let d = vts.drop_last();
        assert forall|i: int| 0 <= i < d.len() implies (#[trigger] t1[d[i]]).total_len() == t2[d[i]].total_len() by { assert(d[i] == vts[i]); }
        apcl_lemma_len_sum_same(t1, t2, d);
        assert(vts.last() == vts[vts.len() - 1]);
    }
}
/// C15 / C10 / C09: transitions_ok holds again -- including its magnitude clause: the cycles of every type hold exactly
/// the vehicles of the type, before and after, and the vehicles are untouched
pub proof fn lemma_apcl_transitions(s: &Schedule, vt: VehicleTypeIdx, s1: &Schedule)
    requires s.transitions_ok(), s.ap_rest_untouched(s1), s.transitions_follow(vt, s1),
    ensures s1.transitions_ok(),
{
    let trs0 = s.next_period_transitions@;
    let trs1 = s1.next_period_transitions@;
    let vts = sched_types(s);
    assert(sched_types(s1) == vts);
    assert forall|t: VehicleTypeIdx| #[trigger] trs1.contains_key(t) <==> vts.contains(t) by {
        assert(trs0.contains_key(t) <==> vts.contains(t));
    }
    assert forall|t: VehicleTypeIdx, u: VehicleIdx| #![trigger trs1[t].has_vehicle(u)] trs1.contains_key(t)
        implies (trs1[t].has_vehicle(u) <==> s1.vehicles@.contains_key(u) && s1.type_of(u) == t) by {
        assert(vtype(s1.vehicles@[u]) == s1.type_of(u));
    }
    assert forall|i: int| 0 <= i < vts.len() implies (#[trigger] trs1[vts[i]]).total_len() == trs0[vts[i]].total_len() by {
        let t = vts[i];
        assert(vts.contains(t));
        assert(trs0.contains_key(t) && trs1.contains_key(t));
        assert(trs0[t].wf(&s.network, s.tours@) && trs1[t].wf(&s.network, s1.tours@));
        apcl_lemma_total_len_is_lookup(trs0[t]@);
        apcl_lemma_total_len_is_lookup(trs1[t]@);
        assert(trs0[t]@.lookup.dom() =~= trs1[t]@.lookup.dom()) by {
            assert forall|u: VehicleIdx| trs0[t]@.lookup.dom().contains(u) <==> trs1[t]@.lookup.dom().contains(u) by {
                assert(trs0[t].has_vehicle(u) <==> s.vehicles@.contains_key(u) && s.type_of(u) == t);
                assert(trs1[t].has_vehicle(u) <==> (s1.vehicles@.contains_key(u) && vtype(s1.vehicles@[u]) == t));
            }
        }
    }
    apcl_lemma_len_sum_same(trs1, trs0, vts);
}

// ---- the receiving vehicle ------------------------------------------------------------------------------------------
/// C10 "a vehicle is in the formation of a node exactly if its tour contains the node": the vehicle is listed in the
/// formation of every activity of its NEW tour (prefix and suffix: as before, untouched; path: it joined)
pub proof fn lemma_apcl_listed(s: &Schedule, v: VehicleIdx, p: Seq<NodeIdx>, s1: &Schedule)
    requires
        s.sv_ids_ok(), s.ap_vehicle_ok(v), s.ap_path_fresh(v, p),
        s.ap_tour_after(v, p, s1),
        s.ap_joins(v, p, s1.train_formations@), s.ap_elsewhere(v, p, s1.train_formations@),
    ensures s1.ap_listed(v),
{
    let net = &s.network;
    let t0 = s.tours@[v];
    let nt = s1.tours@[v];
    let a = s.ap_s(v, p);
    let b = s.ap_e(v, p);
    let d = s.ap_displaced(v, p);
    let tf0 = s.train_formations@;
    let tf2 = s1.train_formations@;
    let vh = s.vehicles@[v];
    let n0 = t0.nodes@.len() as int;
    lemma_ap_block(&t0, a, b);
    assert forall|i: int| 0 < i < nt.nodes@.len() - 1 implies has_vehicle(tf2[#[trigger] nt.nodes@[i]].formation@, v) by {
        let x = nt.nodes@[i];
        lemma_tour_kinds(&nt, i);
        assert(net.sp_node(x).sp_is_activity());
        if a <= i < a + p.len() {
            assert(x == p[i - a]);
            assert(p.contains(x));
            assert(moved_nd(net, p, x));
            let f = tf0[x].formation@;
            assert(tf2[x].formation@ == f.push(vh));
            assert(f.push(vh)[f.len() as int].idx == v);
        } else {
            // a node of the old tour, outside the displaced block
            let k = if i < a { i } else { i - a - p.len() + b };
            assert(x == t0.nodes@[k]);
            assert(0 <= k < n0 && !(a <= k < b));
            lemma_tour_kinds(&t0, k);
            assert(0 < k < n0 - 1);
            assert(has_vehicle(tf0[t0.nodes@[k]].formation@, v));
            assert(t0.nodes@.contains(x));
            if p.contains(x) {
                let j = choose|j: int| 0 <= j < p.len() && p[j] == x;
                assert(!t0.nodes@.contains(p[j]));
            }
            if d.contains(x) {
                let j = choose|j: int| 0 <= j < d.len() && d[j] == x;
                assert(d[j] == t0.nodes@[a + j]);
                lemma_tour_distinct(&t0, k, a + j);
            }
            assert(!moved_nd(net, p, x) && !moved_nd(net, d, x));
            assert(tf2[x] == tf0[x]);
        }
    }
}
pub proof fn lemma_apcl_vehicle(s: &Schedule, v: VehicleIdx, p: Seq<NodeIdx>, s1: &Schedule)
    requires
        s.sv_ids_ok(), s.ap_vehicle_ok(v), s.ap_path_fresh(v, p),
        s.ap_tour_after(v, p, s1), s.ap_rest_untouched(s1),
        s.ap_joins(v, p, s1.train_formations@), s.ap_elsewhere(v, p, s1.train_formations@),
        s1.costs == s.costs + s1.tours@[v].costs - s.tours@[v].costs,
    ensures tour_len_ok(s1.tours@[v].nodes@) ==> s1.ap_vehicle_ok(v),
{
    lemma_apcl_listed(s, v, p, s1);
    assert(s1.type_of(v) == s.type_of(v));
    assert(s1.vtypes() == s.vtypes());
    assert(sched_types(s1) == sched_types(s));
    assert(s1.type_known(s1.type_of(v)));
}

// ---- the closure -----------------------------------------------------------------------------------------------------
/// CLOSURE: a schedule s1 that relates to the valid schedule s as the contract of add_path_to_vehicle_tour says (ap_effects)
/// satisfies the invariants again (ap_closed: conjunct by conjunct; the bundle under the hypotheses on the result).
/// ap_unserved_room is NOT derivable (and not inductive as written): it bounds "pair - Σ_m unserved(formation) + Σ_m
/// unserved(formation - x)" for the removal of ONE vehicle x from the OLD table; in the result the displaced nodes have lost v
/// already, and removing another vehicle x there is the removal of TWO vehicles from the old table.  A model of ap_ok that
/// breaks it: one trip n with demand 10, formation [v (capacity 5), x (capacity 5)], pair.0 = u32::MAX - 5 (ap_unserved_covers:
/// 0 <= pair; ap_unserved_room: MAX - 5 - 0 + 5 <= MAX); v's tour loses n: pair.0 = MAX - 5 - 0 + 5 = MAX, formation [x]; now
/// m = [n], x: MAX - 5 + 10 > MAX.  (Spurious for the real code, where the pair IS the sum over all trips -- 0 in the model --;
/// the bundle only has consequences of that: the inductive form is "pair == Σ over all service trips" + "total demand fits
/// u32", env/sched_ctor_shim.vs unserved_from_scratch.)
pub proof fn lemma_apcl_closed(s: &Schedule, v: VehicleIdx, p: Seq<NodeIdx>, s1: &Schedule)
    requires s.ap_ok(), s.ap_vehicle_ok(v), path_shape(&s.network, p), s.ap_path_fresh(v, p), s.ap_effects(v, p, s1),
    ensures s.ap_closed(v, p, s1),
{
    lemma_apcl_ids(s, v, p, s1);
    lemma_apcl_formations(s, v, p, s1);
    lemma_apcl_covers(s, v, p, s1, 0);
    lemma_apcl_covers(s, v, p, s1, 1);
    assert(s1.ap_unserved_covers());
    assert(s1.ap_formations_exact()) by {
        assert forall|m: Seq<NodeIdx>, c: int| #![trigger s1.un_old(m, m.len() as int, c)] m.no_duplicates() && all_in_net(&s1.network, m) && (c == 0 || c == 1)
            implies s1.un_old(m, m.len() as int, c) <= s1.unserved_c(c) by {
            assert(acts_distinct(&s1.network, m));
        }
    }
    lemma_apcl_formations_split(s1);
    lemma_apcl_transitions(s, s.type_of(v), s1);
    lemma_apcl_vehicle(s, v, p, s1);
}
/// two schedules with the same abstract state (the views of the maps / lists, the scalar fields, the network): what
/// `Schedule::new(self.vehicles.clone(), tours, …)` and a ghost `Schedule { vehicles: self.vehicles, tours, … }` have in common
pub open spec fn apcl_same_views(a: &Schedule, b: &Schedule) -> bool {
    &&& b.vehicles@ == a.vehicles@ && b.tours@ == a.tours@ && b.next_period_transitions@ == a.next_period_transitions@
    &&& b.train_formations@ == a.train_formations@ && b.depot_usage@ == a.depot_usage@ && b.dummy_tours@ == a.dummy_tours@
    &&& b.vehicle_counter == a.vehicle_counter && b.vehicle_ids_grouped_and_sorted@ == a.vehicle_ids_grouped_and_sorted@
    &&& b.dummy_ids_sorted@ == a.dummy_ids_sorted@ && b.unserved_passengers == a.unserved_passengers
    &&& b.maintenance_violation == a.maintenance_violation && b.costs == a.costs && b.network == a.network
}
/// the effect clauses only speak about the abstract state of the result
pub proof fn lemma_apcl_effects_same(s: &Schedule, v: VehicleIdx, p: Seq<NodeIdx>, a: &Schedule, b: &Schedule)
    requires apcl_same_views(a, b), s.ap_effects(v, p, a),
    ensures s.ap_effects(v, p, b),
{
    assert(s.ap_tour_after(v, p, b));
    assert(s.ap_rest_untouched(b));
    assert(s.transitions_follow(s.type_of(v), b));
}
/// CLOSURE for whatever schedule the function returns.  The result only exists in the tail expression of the body, so the body
/// proves the effect clauses for a ghost schedule `res` built from the same components and this lemma hands effects + closure
/// on to every schedule with the same abstract state.  The quantifier has one trigger per postcondition atom that speaks about
/// the result (so it is instantiated in whichever postcondition the solver looks at), and its hypothesis is 13 equalities that
/// follow from the postcondition of Schedule::new and the specifications of `clone`.
pub proof fn lemma_apcl_closed_like(s: &Schedule, v: VehicleIdx, p: Seq<NodeIdx>, res: &Schedule)
    requires s.ap_ok(), s.ap_vehicle_ok(v), path_shape(&s.network, p), s.ap_path_fresh(v, p), s.ap_effects(v, p, res),
    ensures
        forall|s1: Schedule|
            #![trigger s.ap_effects(v, p, &s1)]
            #![trigger s1.sv_ids_ok()]
            #![trigger s1.ap_formations_exact()]
            #![trigger s1.ap_unserved_covers()]
            #![trigger s1.sv_formations_ok()]
            #![trigger s1.transitions_ok()]
            #![trigger s1.ap_ok()]
            #![trigger s1.ap_vehicle_ok(v)]
            #![trigger usage_exact(s1.depot_usage@, &s1.network, s1.vehicles@, s1.tours@)]
            apcl_same_views(res, &s1) ==> s.ap_effects(v, p, &s1) && s.ap_closed(v, p, &s1),
{
    assert forall|s1: Schedule| apcl_same_views(res, &s1) implies s.ap_effects(v, p, &s1) && s.ap_closed(v, p, &s1) by {
        lemma_apcl_effects_same(s, v, p, res, &s1);
        lemma_apcl_closed(s, v, p, &s1);
    }
}
