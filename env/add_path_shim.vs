// ---- environment of the slice `add_path` (Schedule::add_path_to_vehicle_tour) ----------------------------
// Included inside `pub mod tr { … }` after env/im_shim.vs, env/transition_spec.vs, env/schedule_shim.vs,
// env/sched_guard_shim.vs and env/spawn_vehicle_shim.vs, whose vocabulary it builds on (usage_exact*, the module `tfu`
// = env/train_formation_update_shim.vs, sv_ids_ok, sv_formations_ok, transitions_ok, transitions_follow, type_known,
// all_compatible, lemma_fcap_push, lemma_un_old, lemma_un_new_le_old, lemma_usage_exact_step).
// ASSUMPTIONS in this file (listed in the header of slices/add_path.vs): A-display (`{}` of a Path), the uninterpreted
// result of Schedule::can_depot_spawn_vehicle.  Everything else is an open spec function or a proved lemma.
// Copied text (the files that define it cannot be included next to env/spawn_vehicle_shim.vs, or are slices):
//   * `ins_pos`, `lemma_ins_unique`: env/override_reassign_shim.vs (that file re-declares the vocabulary of
//     env/sched_guard_shim.vs);
//   * `lemma_first_pos`: slices/admission.vs; `lemma_isum_remove`: env/depot_usage_shim.vs.

// A-display: `{}` of a Path (hand written Display impl of the repository, which prints the nodes; a no-op outside
// verus!): no precondition
impl vstd::std_specs::fmt::DisplaySpecImpl for Path {
    open spec fn fmt_req(&self, f: &std::fmt::Formatter<'_>) -> bool { true }
}

// =====================================================================================================
// copied text
// =====================================================================================================
/// THE pair of positions of an insertion (C12: "longest prefix whose last node reaches the path" / "longest suffix the
/// path reaches"; lemma_ins_unique: there is at most one such pair)      [text of env/override_reassign_shim.vs]
pub open spec fn ins_pos(t: &Tour, n: Seq<NodeIdx>) -> (int, int) { choose|s: int, e: int| ins_positions(t, n, s, e) }
pub proof fn lemma_ins_unique(t: &Tour, n: Seq<NodeIdx>, s: int, e: int)
    requires ins_positions(t, n, s, e),
    ensures ins_pos(t, n) == (s, e),
{
    let (s2, e2) = ins_pos(t, n);
    assert(ins_positions(t, n, s2, e2));
    let first = n[0];
    let last = n[n.len() - 1];
    if !t.network.sp_node(first).sp_is_depot() {
        if s < s2 { assert(!t.network.reach(t.nodes@[s2 - 1], first)); }
        if s2 < s { assert(!t.network.reach(t.nodes@[s - 1], first)); }
    }
    if !t.network.sp_node(last).sp_is_depot() {
        if e < e2 { assert(!t.network.reach(last, t.nodes@[e])); }
        if e2 < e { assert(!t.network.reach(last, t.nodes@[e2])); }
    }
}
/// [text of slices/admission.vs]
pub proof fn lemma_first_pos(s: Seq<Vehicle>, v: VehicleIdx)
    ensures
        0 <= first_pos(s, v) <= s.len(),
        forall|i: int| 0 <= i < first_pos(s, v) ==> (#[trigger] s[i]).idx != v,
        first_pos(s, v) < s.len() ==> s[first_pos(s, v)].idx == v,
        has_vehicle(s, v) <==> first_pos(s, v) < s.len(),
    decreases s.len(),
{
    if s.len() == 0 {
    } else if s[0].idx == v {
    } else {
        let t = s.drop_first();
        lemma_first_pos(t, v);
        assert forall|i: int| 0 <= i < first_pos(s, v) implies (#[trigger] s[i]).idx != v by {
            if i > 0 { assert(t[i - 1] == s[i]); }
        }
        if first_pos(s, v) < s.len() { assert(t[first_pos(t, v)] == s[first_pos(s, v)]); }
        if has_vehicle(s, v) {
            let i = choose|i: int| 0 <= i < s.len() && #[trigger] s[i].idx == v;
            assert(t[i - 1].idx == v);
        }
    }
}
/// [text of env/depot_usage_shim.vs]
pub proof fn lemma_isum_remove(s: Seq<int>, p: int)
    requires 0 <= p < s.len(),
    ensures isum(s) == s[p] + isum(s.remove(p)),
    decreases s.len(),
{
    if p == s.len() - 1 {
        assert(s.remove(p) =~= s.drop_last());
    } else {
        lemma_isum_remove(s.drop_last(), p);
        assert(s.remove(p).drop_last() =~= s.drop_last().remove(p));
        assert(s.remove(p).last() == s.last());
    }
}

// =====================================================================================================
// depot admission (C02): the vocabulary of the contract of Schedule::can_depot_spawn_vehicle_custom_usage
// [text of slices/admission.vs, where that function is verified]
// =====================================================================================================
// Depot::sp_capacity_for, Network::{has_depot, sp_depot, sp_depot_idx_of}, spawned_of_type, spawned_counts, spawned_total:
// defined (same text) in the last block of env/spawn_vehicle_shim.vs, which slices/add_path.vs includes before this file.
impl Schedule {
    /// C02 "depot limits hold": the depot of the start depot node n has room for one more vehicle of type vt: the type is
    /// listed there, fewer vehicles of the type start there than its capacity for the type, and fewer vehicles in total
    /// than its total capacity (= the result of can_depot_spawn_vehicle on the schedule's own usage table)
    pub open spec fn ap_depot_has_room(&self, n: NodeIdx, vt: VehicleTypeIdx) -> bool {
        let d = self.network.sp_depot_idx_of(n);
        &&& self.network.sp_depot(d).sp_capacity_for(vt) > 0
        &&& spawned_of_type(self.depot_usage@, d, vt) < self.network.sp_depot(d).sp_capacity_for(vt)
        &&& spawned_total(self.depot_usage@, d, self.network.vehicle_types.ids_sorted@) < self.network.sp_depot(d).total_capacity
    }
    /// what the admission check needs if the node is a depot node: A-depots (the depot node belongs to a depot of the
    /// network's table) and magnitudes (the `as VehicleCount` casts of the set sizes: u32)
    pub open spec fn ap_admission_pre(&self, n: NodeIdx, vt: VehicleTypeIdx) -> bool {
        let d = self.network.sp_depot_idx_of(n);
        self.network.sp_node(n).sp_is_depot() ==> {
            &&& self.network.has_depot(d)
            &&& spawned_of_type(self.depot_usage@, d, vt) <= u32::MAX
            &&& spawned_total(self.depot_usage@, d, self.network.vehicle_types.ids_sorted@) <= u32::MAX
        }
    }
}

// =====================================================================================================
// small lemmas about formations, paths and blocks of a tour
// =====================================================================================================
/// a vehicle that leaves a formation takes its capacity / seats along
pub proof fn lemma_fcap_remove(f: Seq<Vehicle>, p: int)
    requires 0 <= p < f.len(),
    ensures
        fcap(f) == fcap(f.remove(p)) + f[p].vehicle_type.capacity,
        fseats(f) == fseats(f.remove(p)) + f[p].vehicle_type.seats,
{
    let gc = |v: Vehicle| v.vehicle_type.capacity as int;
    let gs = |v: Vehicle| v.vehicle_type.seats as int;
    lemma_isum_remove(f.map_values(gc), p);
    lemma_isum_remove(f.map_values(gs), p);
    assert(f.map_values(gc).remove(p) =~= f.remove(p).map_values(gc));
    assert(f.map_values(gs).remove(p) =~= f.remove(p).map_values(gs));
}
/// the sum only depends on the moved nodes it ranges over and on their formations
pub proof fn lemma_un_sum_ext(s: &Schedule, tfa: Formations, tfb: Formations, pr: Option<VehicleIdx>, rv: Option<Vehicle>,
        ma: Seq<NodeIdx>, mb: Seq<NodeIdx>, k: int, after: bool, c: int)
    requires forall|j: int| 0 <= j < k ==> #[trigger] ma[j] == mb[j] && tfa[ma[j]] == tfb[ma[j]],
    ensures s.un_sum(tfa, pr, rv, ma, k, after, c) == s.un_sum(tfb, pr, rv, mb, k, after, c),
    decreases k,
{
    if k > 0 {
        lemma_un_sum_ext(s, tfa, tfb, pr, rv, ma, mb, k - 1, after, c);
        assert(ma[k - 1] == mb[k - 1] && tfa[ma[k - 1]] == tfb[ma[k - 1]]);
    }
}
/// the sum over a concatenation
pub proof fn lemma_un_sum_concat(s: &Schedule, tf: Formations, pr: Option<VehicleIdx>, rv: Option<Vehicle>, a: Seq<NodeIdx>, b: Seq<NodeIdx>, j: int, after: bool, c: int)
    requires 0 <= j <= b.len(),
    ensures s.un_sum(tf, pr, rv, a + b, a.len() + j, after, c)
        == s.un_sum(tf, pr, rv, a, a.len() as int, after, c) + s.un_sum(tf, pr, rv, b, j, after, c),
    decreases j,
{
    if j == 0 {
        lemma_un_sum_ext(s, tf, tf, pr, rv, a + b, a, a.len() as int, after, c);
    } else {
        lemma_un_sum_concat(s, tf, pr, rv, a, b, j - 1, after, c);
        assert((a + b)[a.len() + j - 1] == b[j - 1]);
    }
}
/// A-path => a path is duplicate-free: along a connected sequence the activities are strictly ordered in time,
/// nothing reaches a start depot and an end depot reaches nothing
pub proof fn lemma_path_distinct(net: &Network, n: Seq<NodeIdx>)
    requires net.wf(), path_shape(net, n),
    ensures n.no_duplicates(),
{
    assert forall|i: int, j: int| 0 <= i < n.len() && 0 <= j < n.len() && i != j implies n[i] != n[j] by {
        if n[i] == n[j] {
            if i < j { lemma_path_distinct_at(net, n, i, j); } else { lemma_path_distinct_at(net, n, j, i); }
        }
    }
}
pub proof fn lemma_path_distinct_at(net: &Network, n: Seq<NodeIdx>, i: int, j: int)
    requires net.wf(), path_shape(net, n), 0 <= i < j < n.len(), n[i] == n[j],
    ensures false,
{
    let x = n[i];
    assert(net.has(n[i]) && net.has(n[j]) && net.has(n[j - 1]) && net.has(n[i + 1]));
    assert(net.nodes@.contains_key(x) && net.nodes@.contains_key(n[j - 1]) && net.nodes@.contains_key(n[i + 1]));
    assert(net.reach(n[j - 1], n[(j - 1) + 1]));
    assert(net.reach(n[i], n[i + 1]));
    if net.sp_node(x).sp_is_activity() {
        lemma_node_start_le_end(net, x);
        lemma_ends_sorted(net, n, i, j - 1);
        lemma_later_end_not_reach(net, n[j - 1], x);
    }
}
/// a block [s, e) of a well-formed tour: its nodes, in order, are nodes of the network and pairwise distinct
pub proof fn lemma_ap_block(t: &Tour, s: int, e: int)
    requires t.wf(), 0 <= s <= e <= t.len(),
    ensures
        t.mid(s, e) == t.nodes@.subrange(s, e),
        t.mid(s, e).len() == e - s,
        forall|i: int| 0 <= i < e - s ==> #[trigger] t.mid(s, e)[i] == t.nodes@[s + i],
        all_in_net(&t.network, t.mid(s, e)),
        t.mid(s, e).no_duplicates(),
{
    reveal(Tour::mid);
    let m = t.mid(s, e);
    assert forall|i: int| 0 <= i < m.len() implies #[trigger] t.network.has(m[i]) by { assert(t.network.has(t.nodes@[s + i])); }
    assert forall|i: int, j: int| 0 <= i < m.len() && 0 <= j < m.len() && i != j implies m[i] != m[j] by {
        if m[i] == m[j] { lemma_tour_distinct(t, s + i, s + j); }
    }
}
/// C01, type clause: prefix + path + suffix of a compatible tour and a compatible path is compatible
pub proof fn lemma_ap_compatible(net: &Network, t: &Tour, a: int, b: int, p: Seq<NodeIdx>, vt: VehicleTypeIdx)
    requires 0 <= a <= b <= t.len(), all_compatible(net, p, vt), all_compatible(net, t.nodes@, vt),
    ensures
        all_compatible(net, t.spliced(a, b, p), vt),
        t.spliced(a, b, p) == t.nodes@.subrange(0, a) + p + t.nodes@.subrange(b, t.len()),
{
    reveal(Tour::spliced);
    let x = t.spliced(a, b, p);
    assert forall|i: int| 0 <= i < x.len() implies net.sp_compatible(#[trigger] x[i], vt) by {
        if i < a { assert(x[i] == t.nodes@[i]); }
        else if i < a + p.len() { assert(x[i] == p[i - a]); }
        else { assert(x[i] == t.nodes@[i - a - p.len() + b]); }
    }
}

// =====================================================================================================
// Schedule::add_path_to_vehicle_tour: vocabulary of the contract
// =====================================================================================================
/// no activity occurs twice in the list
pub open spec fn acts_distinct(net: &Network, m: Seq<NodeIdx>) -> bool {
    forall|i: int, j: int| 0 <= i < m.len() && 0 <= j < m.len() && i != j && #[trigger] m[i] == #[trigger] m[j] ==> net.sp_node(m[i]).sp_is_depot()
}
impl Schedule {
    // ---- the insertion into the vehicle's tour (vocabulary of Tour::insert_path's contract) -------------------
    /// the positions Tour::insert_path cuts the old tour at: [0, s) is "the longest prefix whose last node reaches the
    /// path", [e, len) "the longest suffix the path reaches" (ins_positions, env/insert_lemmas.vs)
    pub open spec fn ap_s(&self, v: VehicleIdx, p: Seq<NodeIdx>) -> int { ins_pos(&self.tours@[v], p).0 }
    pub open spec fn ap_e(&self, v: VehicleIdx, p: Seq<NodeIdx>) -> int { ins_pos(&self.tours@[v], p).1 }
    /// the block of the old tour that clashes with the path: the DISPLACED nodes
    pub open spec fn ap_displaced(&self, v: VehicleIdx, p: Seq<NodeIdx>) -> Seq<NodeIdx> {
        self.tours@[v].mid(self.ap_s(v, p), self.ap_e(v, p))
    }
    /// the new tour: prefix + whole path + suffix
    pub open spec fn ap_gained(&self, v: VehicleIdx, p: Seq<NodeIdx>) -> Seq<NodeIdx> {
        self.tours@[v].spliced(self.ap_s(v, p), self.ap_e(v, p), p)
    }

    // ---- PRECONDITIONS ---------------------------------------------------------------------------------------
    /// C09 + instance magnitude, for the u32 additions of the second formation update: the unserved-passengers pair is
    /// the sum over ALL service trips of the network of their unserved passengers (C09), and the total demand of all
    /// service trips fits into u32 (instance magnitude); hence taking a vehicle x out of the formations of any
    /// duplicate-free list of nodes that list x leaves the pair within u32 (it is still at most the total demand)
    pub open spec fn ap_unserved_room(&self) -> bool {
        let tf = self.train_formations@;
        forall|m: Seq<NodeIdx>, x: VehicleIdx, c: int| #![trigger self.un_sum(tf, Some(x), None::<Vehicle>, m, m.len() as int, true, c)]
            m.no_duplicates() && all_in_net(&self.network, m) && (c == 0 || c == 1)
            && self.all_ok(tf, Some(x), None::<Vehicle>, m, m.len() as int)
            ==> self.unserved_c(c) - self.un_sum(tf, Some(x), None::<Vehicle>, m, m.len() as int, false, c)
                    + self.un_sum(tf, Some(x), None::<Vehicle>, m, m.len() as int, true, c) <= u32::MAX
    }
    /// C09 for the u32 subtractions of the two formation updates: the unserved-passengers pair is the sum over ALL
    /// service trips of the network of their unserved passengers; hence it covers the contribution of any list of nodes
    /// in which no activity occurs twice (depots contribute nothing).  (The clause of sv_formations_ok with
    /// `no_duplicates` is the special case; a path and the block it displaces may share a depot.)
    pub open spec fn ap_unserved_covers(&self) -> bool {
        forall|m: Seq<NodeIdx>, c: int| #![trigger self.un_old(m, m.len() as int, c)] acts_distinct(&self.network, m) && all_in_net(&self.network, m) && (c == 0 || c == 1)
            ==> self.un_old(m, m.len() as int, c) <= self.unserved_c(c)
    }
    /// schedule-level validity as far as add_path_to_vehicle_tour needs it (parts of C10, C09, C15; the clauses are
    /// those of `sv_ok`, env/spawn_vehicle_shim.vs, without the depot lists, plus ap_unserved_room)
    pub open spec fn ap_ok(&self) -> bool {
        // instance validity
        &&& self.network.wf()
        // C10 (ids): vehicles stored under their own `Vehicle` id and have a tour; dummy tours under `Dummy` ids
        &&& self.sv_ids_ok()
        // C10 / C09 for the formation table: every activity has a formation; magnitudes; the cached pair covers the
        // contribution of any duplicate-free list of nodes
        &&& self.sv_formations_ok()
        &&& self.ap_unserved_covers()
        &&& self.ap_unserved_room()
        // C15 / C10 / C09: one transition per listed type, consistent with the tours, holding exactly the type's vehicles;
        // the maintenance violation is their sum; fewer than 2^17 vehicles
        &&& self.transitions_ok()
        // C09: the depot usage table has its from-scratch value
        &&& usage_exact(self.depot_usage@, &self.network, self.vehicles@, self.tours@)
        // C09 / magnitude: the schedule's cost figure is below 2^61
        &&& self.costs <= sched_cost_bound()
    }
    /// C10 / C01 / C09 for the receiving vehicle
    pub open spec fn ap_vehicle_ok(&self, v: VehicleIdx) -> bool {
        // derived from the code: `self.vehicles.get(&vehicle_idx).cloned().unwrap()` and `tours.get(&vehicle_idx).unwrap()`
        // panic unless v is a REAL vehicle (a dummy has no entry in `vehicles` / `tours`)
        &&& self.vehicles@.contains_key(v)
        // C10 (listings / types): its type is a vehicle type of the network, stored under its own index, listed; the
        // vehicle carries the network's record of its type
        &&& self.type_known(self.type_of(v))
        &&& self.vehicles@[v].vehicle_type == self.vtypes()[self.type_of(v)]
        // C01 / C10 clause 1: its tour is a well-formed real tour over the schedule's network; C09: the tour's cached
        // figures are exact; A-len
        &&& self.tours@.contains_key(v)
        &&& tour_of_net(&self.network, &self.tours@[v]) && self.tours@[v].caches_ok() && tour_len_ok(self.tours@[v].nodes@)
        // C09: the schedule's costs cover the tour's costs (they are the sum of all tours' costs plus non-negative terms)
        &&& self.tours@[v].costs <= self.costs
        // C10 "a vehicle is in the formation of a node exactly if its tour contains the node": the vehicle is listed in
        // the formation of every activity of its tour
        &&& self.ap_listed(v)
    }
    pub open spec fn ap_listed(&self, v: VehicleIdx) -> bool {
        forall|i: int| 0 < i < self.tours@[v].nodes@.len() - 1
            ==> has_vehicle(self.train_formations@[#[trigger] self.tours@[v].nodes@[i]].formation@, v)
    }
    /// C02 "formation … limits hold": every non-depot node of the path has room for one more vehicle (its formation is
    /// strictly below the node's limit: repl_ok, case `grows`, env/train_formation_update_shim.vs)
    pub open spec fn ap_room(&self, v: VehicleIdx, p: Seq<NodeIdx>) -> bool {
        self.all_ok(self.train_formations@, None, Some(self.vehicles@[v]), p, p.len() as int)
    }
    /// no ACTIVITY of the path is a node of the vehicle's old tour (see "NOT covered" in the slice header: otherwise the
    /// node is both added and displaced).  A depot of the path may be the tour's own depot (schedule/tests.rs,
    /// add_path_to_vehicle_tour_with_same_start_depot_test): depots have no formations
    pub open spec fn ap_path_fresh(&self, v: VehicleIdx, p: Seq<NodeIdx>) -> bool {
        forall|i: int| 0 <= i < p.len() && !self.network.sp_node(#[trigger] p[i]).sp_is_depot() ==> !self.tours@[v].nodes@.contains(p[i])
    }
    /// what the path must be
    pub open spec fn ap_path_ok(&self, v: VehicleIdx, path: &Path) -> bool {
        let p = path.node_sequence@;
        // a path over the schedule's network
        &&& path.network == self.network
        // A-path: the path is a path of the network (nodes of the network, connected, not only depots); A-len
        &&& path_shape(&self.network, p) && tour_len_ok(p)
        &&& self.ap_path_fresh(v, p)
    }
    /// A-counter (magnitude): the maintenance counter of the new tour is small (the counter is an uninterpreted atom of
    /// the rotation-cycle vocabulary, env/transition_spec.vs)
    pub open spec fn ap_counter_ok(&self, v: VehicleIdx, p: Seq<NodeIdx>) -> bool {
        forall|t: Tour| t.nodes@ == self.ap_gained(v, p) && tour_of_net(&self.network, &t) && t.caches_ok()
            ==> -counter_bound() <= #[trigger] tour_counter(&t) <= counter_bound()
    }

    // ---- POSTCONDITIONS --------------------------------------------------------------------------------------
    /// C13: "the receiver gains them … displaced … service trips are handed back (as the returned conflict path …) … all
    /// other vehicles' tours … stay untouched": the vehicle's new tour is prefix + whole path + suffix of its old tour, a
    /// valid real tour with exact caches; the returned path is exactly the dropped block (None iff it holds no activity);
    /// every other key of `tours` keeps its tour
    pub open spec fn ap_tours_after(&self, v: VehicleIdx, p: Seq<NodeIdx>, s1: &Schedule, removed: Option<Path>) -> bool {
        let t0 = self.tours@[v];
        let s = self.ap_s(v, p);
        let e = self.ap_e(v, p);
        let d = self.ap_displaced(v, p);
        &&& ins_positions(&t0, p, s, e) && 0 <= s <= e <= t0.len()
        &&& s1.tours@.contains_key(v) && s1.tours@ == self.tours@.insert(v, s1.tours@[v])
        &&& s1.tours@[v].nodes@ == self.ap_gained(v, p)
        &&& self.ap_gained(v, p) == t0.nodes@.subrange(0, s) + p + t0.nodes@.subrange(e, t0.len())
        &&& tour_of_net(&self.network, &s1.tours@[v]) && s1.tours@[v].caches_ok()
        &&& d == t0.nodes@.subrange(s, e)
        &&& all_depots(&self.network, d) ==> removed is None
        &&& !all_depots(&self.network, d) ==> removed is Some && removed.unwrap().node_sequence@ == d
    }
    /// C13: "… and nothing else": vehicles, dummy tours, the listings, the id counter and the network are untouched
    pub open spec fn ap_rest_untouched(&self, s1: &Schedule) -> bool {
        &&& s1.vehicles@ == self.vehicles@
        &&& s1.dummy_tours@ == self.dummy_tours@ && s1.dummy_ids_sorted@ == self.dummy_ids_sorted@
        &&& s1.vehicle_ids_grouped_and_sorted@ == self.vehicle_ids_grouped_and_sorted@
        &&& s1.vehicle_counter == self.vehicle_counter
        &&& s1.network == self.network
    }
    /// C10 / C03: the vehicle joins (at the tail) the formation of every non-depot node of the path
    pub open spec fn ap_joins(&self, v: VehicleIdx, p: Seq<NodeIdx>, tf2: Formations) -> bool {
        forall|n: NodeIdx| moved_nd(&self.network, p, n)
            ==> (#[trigger] tf2[n]).formation@ == self.train_formations@[n].formation@.push(self.vehicles@[v])
    }
    /// C02: … and these formations are within their limits
    pub open spec fn ap_within_limits(&self, v: VehicleIdx, p: Seq<NodeIdx>, tf2: Formations) -> bool {
        forall|n: NodeIdx| moved_nd(&self.network, p, n) && self.sp_node_limit(n) is Some
            ==> (#[trigger] tf2[n]).formation@.len() <= self.sp_node_limit(n).unwrap()
    }
    /// C10 / C03: the vehicle leaves the formation of every non-depot node of the displaced block (it was listed
    /// there; the others keep their order)
    pub open spec fn ap_leaves(&self, v: VehicleIdx, p: Seq<NodeIdx>, tf2: Formations) -> bool {
        &&& forall|n: NodeIdx| moved_nd(&self.network, self.ap_displaced(v, p), n)
                ==> has_vehicle((#[trigger] self.train_formations@[n]).formation@, v)
        &&& forall|n: NodeIdx| moved_nd(&self.network, self.ap_displaced(v, p), n)
                ==> (#[trigger] tf2[n]).formation@ == self.train_formations@[n].formation@.remove(first_pos(self.train_formations@[n].formation@, v))
    }
    /// C13: "formations elsewhere … stay untouched"
    pub open spec fn ap_elsewhere(&self, v: VehicleIdx, p: Seq<NodeIdx>, tf2: Formations) -> bool {
        &&& tf2.dom() == self.train_formations@.dom()
        &&& forall|n: NodeIdx| !moved_nd(&self.network, p, n) && !moved_nd(&self.network, self.ap_displaced(v, p), n)
                ==> #[trigger] tf2[n] == self.train_formations@[n]
    }
    /// C09: the unserved-passengers pair changes by exactly the two deltas: - Σ unserved(old formation) + Σ unserved(new
    /// formation) over the path (vehicle added) and over the displaced block (vehicle removed), both read off the OLD
    /// table (path and displaced block are disjoint)
    pub open spec fn ap_unserved_after(&self, v: VehicleIdx, p: Seq<NodeIdx>, u2: (PassengerCount, PassengerCount)) -> bool {
        let tf0 = self.train_formations@;
        let rv = Some(self.vehicles@[v]);
        let d = self.ap_displaced(v, p);
        let np = p.len() as int;
        let nd = d.len() as int;
        &&& u2.0 == self.unserved_passengers.0
                - self.un_sum(tf0, None, rv, p, np, false, 0) + self.un_sum(tf0, None, rv, p, np, true, 0)
                - self.un_sum(tf0, Some(v), None, d, nd, false, 0) + self.un_sum(tf0, Some(v), None, d, nd, true, 0)
        &&& u2.1 == self.unserved_passengers.1
                - self.un_sum(tf0, None, rv, p, np, false, 1) + self.un_sum(tf0, None, rv, p, np, true, 1)
                - self.un_sum(tf0, Some(v), None, d, nd, false, 1) + self.un_sum(tf0, Some(v), None, d, nd, true, 1)
    }
    /// the state between the two formation updates: the table / the pair the first one leaves (its contract)
    pub open spec fn ap_between(&self, v: VehicleIdx, p: Seq<NodeIdx>, tf1: Formations, u1: (PassengerCount, PassengerCount)) -> bool {
        let tf0 = self.train_formations@;
        let rv = Some(self.vehicles@[v]);
        let k = p.len() as int;
        &&& self.formations_elsewhere_untouched(p, tf0, tf1)
        &&& self.moved_get_replacement(p, tf0, tf1, None, rv)
        &&& self.grown_within_limits(p, tf1, None, rv)
        &&& u1.0 == self.unserved_passengers.0 - self.un_sum(tf0, None, rv, p, k, false, 0) + self.un_sum(tf0, None, rv, p, k, true, 0)
        &&& u1.1 == self.unserved_passengers.1 - self.un_sum(tf0, None, rv, p, k, false, 1) + self.un_sum(tf0, None, rv, p, k, true, 1)
    }
    /// what the second formation update (if it runs: `second`) makes of the state in between
    pub open spec fn ap_second(&self, v: VehicleIdx, p: Seq<NodeIdx>, second: bool, tf1: Formations, u1: (PassengerCount, PassengerCount),
            tf2: Formations, u2: (PassengerCount, PassengerCount)) -> bool {
        let d = self.ap_displaced(v, p);
        let k = d.len() as int;
        if second {
            &&& self.formations_elsewhere_untouched(d, tf1, tf2)
            &&& self.moved_get_replacement(d, tf1, tf2, Some(v), None)
            &&& u2.0 == u1.0 - self.un_sum(tf1, Some(v), None, d, k, false, 0) + self.un_sum(tf1, Some(v), None, d, k, true, 0)
            &&& u2.1 == u1.1 - self.un_sum(tf1, Some(v), None, d, k, false, 1) + self.un_sum(tf1, Some(v), None, d, k, true, 1)
        } else {
            tf2 == tf1 && u2 == u1
        }
    }
}

// =====================================================================================================
// lemmas
// =====================================================================================================
/// what a valid schedule, a real vehicle and a fresh path provide for the guards and for the first formation update
pub proof fn lemma_ap_setup(s: &Schedule, v: VehicleIdx, path: &Path)
    requires s.ap_ok(), s.ap_vehicle_ok(v), s.ap_path_ok(v, path),
    ensures
        // the guards: `path.first()`, `self.network.node(..)`, the closure of the type guard
        path.node_sequence@.len() >= 1, all_in_net(&s.network, path.node_sequence@),
        // `self.tour_of(vehicle_idx).unwrap().start_depot().unwrap()`
        s.has_tour(v), s.sp_tour_of(v) == s.tours@[v], s.tours@[v].wf(), !s.tours@[v].is_dummy,
        !s.sp_is_dummy(v), v is Vehicle, s.vehicles@[v].idx == v,
        // Tour::insert_path
        s.tours@[v].caches_ok(), tour_len_ok(s.tours@[v].nodes@), path.network == s.tours@[v].network,
        path_shape(&s.tours@[v].network, path.node_sequence@), tour_len_ok(path.node_sequence@),
        eff_path(&s.tours@[v], path.node_sequence@) == path.node_sequence@,
        // the first formation update
        path.node_sequence@.no_duplicates(),
        s.grows(None, Some(s.vehicles@[v])),
        s.tfu_pre(s.train_formations@, s.unserved_passengers, None, Some(s.vehicles@[v]), path.node_sequence@),
        // the depot bookkeeping
        s.real_tour_ok(v),
        usage_exact_for(s.depot_usage@, &s.network, s.vehicles@, s.tours@, v),
{
    let p = path.node_sequence@;
    let vh = s.vehicles@[v];
    if s.dummy_tours@.contains_key(v) { assert(v is Dummy); }
    lemma_tfu_pre_path(s, s.type_of(v), vh, p);
    assert(usage_exact_for(s.depot_usage@, &s.network, s.vehicles@, s.tours@, v));
}

/// what update_train_formation needs when vehicle `vh` of type vt is added to the formations of the nodes of a path
/// (the text of lemma_tfu_pre, env/spawn_vehicle_shim.vs, with a path instead of a tour)
pub proof fn lemma_tfu_pre_path(s: &Schedule, vt: VehicleTypeIdx, vh: Vehicle, p: Seq<NodeIdx>)
    requires
        s.network.wf(), s.sv_formations_ok(), s.type_known(vt), !s.dummy_tours@.contains_key(vh.idx), vh.vehicle_type == s.vtypes()[vt],
        path_shape(&s.network, p),
    ensures
        s.grows(None, Some(vh)),
        p.no_duplicates(),
        s.tfu_pre(s.train_formations@, s.unserved_passengers, None, Some(vh), p),
{
    let tf0 = s.train_formations@;
    let rv = Some(vh);
    let pv: Option<VehicleIdx> = None;
    let moved = p;
    let net = &s.network;
    assert(s.grows(pv, rv));
    lemma_path_distinct(net, p);
    assert forall|i: int| 0 <= i < moved.len() implies s.node_pre(tf0, pv, rv, #[trigger] moved[i]) by {
        let n = moved[i];
        assert(net.has(n));
        if !net.sp_node(n).sp_is_depot() {
            assert(net.sp_node(n).sp_is_activity());
            assert(tf0.contains_key(n));
            let f = tf0[n].formation@;
            assert(f.len() <= max_vehicles());
            if net.sp_node(n) is Service { assert(net.is_trip(n)); }
            assert(fcap(tf0[n].formation@) + s.vtypes()[vt].capacity <= u32::MAX && fseats(tf0[n].formation@) + s.vtypes()[vt].seats <= u32::MAX);
            lemma_fcap_push(f, vh);
            assert(s.repl_seq(f, pv, rv) == f.push(vh));
        }
    }
    let n = moved.len() as int;
    assert forall|c: int, k: int| (c == 0 || c == 1) && 0 <= k < n implies #[trigger] s.arith_ok_at(tf0, pv, rv, moved, s.unserved_c(c), k, c) by {
        // what is subtracted so far is covered by the cached value (C09) ...
        tfu::lemma_un_sum_mono(s, tf0, pv, rv, moved, k + 1, n, false, c);
        lemma_un_old(s, tf0, pv, rv, moved, n, c);
        assert(s.un_old(moved, moved.len() as int, c) <= s.unserved_c(c));
        tfu::lemma_un_sum_mono(s, tf0, pv, rv, moved, 0, k, true, c);
        // ... and what is added is at most what was subtracted (an additional vehicle only adds capacity)
        lemma_un_new_le_old(s, tf0, vh, moved, k + 1, c);
    }
    assert forall|k: int| 0 <= k < n implies #[trigger] s.arith_ok_at(tf0, pv, rv, moved, s.unserved_passengers.0 as int, k, 0) by {
        assert(s.arith_ok_at(tf0, pv, rv, moved, s.unserved_c(0), k, 0));
    }
    assert forall|k: int| 0 <= k < n implies #[trigger] s.arith_ok_at(tf0, pv, rv, moved, s.unserved_passengers.1 as int, k, 1) by {
        assert(s.arith_ok_at(tf0, pv, rv, moved, s.unserved_c(1), k, 1));
    }
}

/// Tour::insert_path's contract, read with THE positions ap_s / ap_e
pub proof fn lemma_ap_inserted(s: &Schedule, v: VehicleIdx, p: Seq<NodeIdx>, nt: Tour, rp: Option<Path>)
    requires
        s.tours@[v].wf(), *s.tours@[v].network == *s.network, tour_len_ok(s.tours@[v].nodes@),
        p.len() >= 1, all_in_net(&s.network, p), tour_len_ok(p),
        exists|a: int, b: int| {
            &&& ins_positions(&s.tours@[v], p, a, b) && 0 <= a <= b <= s.tours@[v].len()
            &&& nt.nodes@ == #[trigger] s.tours@[v].spliced(a, b, p)
            &&& (all_depots(&s.tours@[v].network, s.tours@[v].mid(a, b)) ==> rp is None)
            &&& (!all_depots(&s.tours@[v].network, s.tours@[v].mid(a, b)) ==> rp is Some && rp.unwrap().node_sequence@ == s.tours@[v].mid(a, b))
        },
    ensures
        ins_positions(&s.tours@[v], p, s.ap_s(v, p), s.ap_e(v, p)),
        0 <= s.ap_s(v, p) <= s.ap_e(v, p) <= s.tours@[v].len(),
        nt.nodes@ == s.ap_gained(v, p), len_ok(s.ap_gained(v, p)),
        s.ap_gained(v, p) == s.tours@[v].nodes@.subrange(0, s.ap_s(v, p)) + p + s.tours@[v].nodes@.subrange(s.ap_e(v, p), s.tours@[v].len()),
        s.ap_displaced(v, p) == s.tours@[v].nodes@.subrange(s.ap_s(v, p), s.ap_e(v, p)),
        all_depots(&s.network, s.ap_displaced(v, p)) ==> rp is None,
        !all_depots(&s.network, s.ap_displaced(v, p)) ==> rp is Some && rp.unwrap().node_sequence@ == s.ap_displaced(v, p),
{
    let t0 = s.tours@[v];
    let (a, b) = choose|a: int, b: int| {
        &&& ins_positions(&t0, p, a, b) && 0 <= a <= b <= t0.len()
        &&& nt.nodes@ == #[trigger] t0.spliced(a, b, p)
        &&& (all_depots(&t0.network, t0.mid(a, b)) ==> rp is None)
        &&& (!all_depots(&t0.network, t0.mid(a, b)) ==> rp is Some && rp.unwrap().node_sequence@ == t0.mid(a, b))
    };
    lemma_ins_unique(&t0, p, a, b);
    lemma_ap_block(&t0, a, b);
    lemma_spliced(&t0, a, b, p);
    reveal(Tour::spliced);
}

/// the precondition of the second formation update (the vehicle leaves the formations of the displaced block), which
/// runs on the table / the pair the first one leaves: derived from the schedule invariants
pub proof fn lemma_ap_displace_pre(s: &Schedule, v: VehicleIdx, p: Seq<NodeIdx>, tf1: Formations, u1: (PassengerCount, PassengerCount))
    requires
        s.ap_ok(), s.ap_vehicle_ok(v), path_shape(&s.network, p), s.ap_path_fresh(v, p),
        s.ap_between(v, p, tf1, u1),
        0 <= s.ap_s(v, p) <= s.ap_e(v, p) <= s.tours@[v].len(),
    ensures
        s.tfu_pre(tf1, u1, Some(v), None, s.ap_displaced(v, p)),
        // C10: the vehicle is listed in the formations of the displaced activities: the second update does not refuse
        s.all_ok(tf1, Some(v), None, s.ap_displaced(v, p), s.ap_displaced(v, p).len() as int),
        // the displaced block: nodes of the network, pairwise distinct, disjoint from the path; the first update did
        // not touch their formations
        all_in_net(&s.network, s.ap_displaced(v, p)), s.ap_displaced(v, p).no_duplicates(),
        forall|j: int| 0 <= j < s.ap_displaced(v, p).len() ==> !moved_nd(&s.network, p, #[trigger] s.ap_displaced(v, p)[j]),
        forall|j: int| 0 <= j < s.ap_displaced(v, p).len() ==> tf1[#[trigger] s.ap_displaced(v, p)[j]] == s.train_formations@[s.ap_displaced(v, p)[j]],
{
    let t0 = s.tours@[v];
    let d = s.ap_displaced(v, p);
    let n = d.len() as int;
    let tf0 = s.train_formations@;
    let pv = Some(v);
    let rv: Option<Vehicle> = None;
    let vh = s.vehicles@[v];
    let vt = s.type_of(v);
    let net = &s.network;
    lemma_ap_frame(s, v, p, tf1);
    lemma_ap_block(&t0, s.ap_s(v, p), s.ap_e(v, p));
    if s.dummy_tours@.contains_key(v) { assert(v is Dummy); }
    assert(s.shrinks(pv, rv));
    assert(!s.grows(pv, rv) && !s.replaces(pv, rv));
    // what the body needs of every displaced node
    assert forall|i: int| 0 <= i < n && s.all_ok(tf1, pv, rv, d, i) implies s.node_pre(tf1, pv, rv, #[trigger] d[i]) by {
        let x = d[i];
        assert(net.has(x));
        assert(tf1[x] == tf0[x]);
        if !net.sp_node(x).sp_is_depot() {
            assert(net.sp_node(x).sp_is_activity());
            assert(tf0.contains_key(x));
            assert(tf1.dom().contains(x));
            let f = tf0[x].formation@;
            assert(f.len() <= max_vehicles());
            if net.sp_node(x) is Service { assert(net.is_trip(x)); }
            assert(fcap(tf0[x].formation@) + s.vtypes()[vt].capacity <= u32::MAX && fseats(tf0[x].formation@) + s.vtypes()[vt].seats <= u32::MAX);
            if s.repl_ok(f, pv, rv, x) {
                lemma_first_pos(f, v);
                lemma_fcap_remove(f, first_pos(f, v));
                assert(s.repl_seq(f, pv, rv) == f.remove(first_pos(f, v)));
            }
        }
    }
    assert forall|j: int| 0 <= j < n && !net.sp_node(#[trigger] d[j]).sp_is_depot() implies s.repl_ok(tf1[d[j]].formation@, pv, rv, d[j]) by {
        let i = s.ap_s(v, p) + j;
        assert(d[j] == t0.nodes@[i]);
        lemma_tour_kinds(&t0, i);
        assert(0 < i < t0.nodes@.len() - 1);
        assert(has_vehicle(tf0[t0.nodes@[i]].formation@, v));
        assert(tf1[d[j]] == tf0[d[j]]);
    }
    assert forall|k: int| 0 <= k < n implies #[trigger] s.arith_ok_at(tf1, pv, rv, d, u1.0 as int, k, 0) by {
        lemma_ap_arith(s, v, p, tf1, u1, k, 0);
    }
    assert forall|k: int| 0 <= k < n implies #[trigger] s.arith_ok_at(tf1, pv, rv, d, u1.1 as int, k, 1) by {
        lemma_ap_arith(s, v, p, tf1, u1, k, 1);
    }
}
/// the displaced block is disjoint from a fresh path, and the first update left its formations alone
pub proof fn lemma_ap_frame(s: &Schedule, v: VehicleIdx, p: Seq<NodeIdx>, tf1: Formations)
    requires
        s.ap_vehicle_ok(v), s.ap_path_fresh(v, p),
        s.formations_elsewhere_untouched(p, s.train_formations@, tf1),
        0 <= s.ap_s(v, p) <= s.ap_e(v, p) <= s.tours@[v].len(),
    ensures
        all_in_net(&s.network, s.ap_displaced(v, p)), s.ap_displaced(v, p).no_duplicates(),
        s.ap_displaced(v, p).len() == s.ap_e(v, p) - s.ap_s(v, p),
        forall|j: int| 0 <= j < s.ap_displaced(v, p).len() ==> !moved_nd(&s.network, p, #[trigger] s.ap_displaced(v, p)[j]),
        forall|j: int| 0 <= j < s.ap_displaced(v, p).len() ==> tf1[#[trigger] s.ap_displaced(v, p)[j]] == s.train_formations@[s.ap_displaced(v, p)[j]],
{
    let t0 = s.tours@[v];
    let d = s.ap_displaced(v, p);
    lemma_ap_block(&t0, s.ap_s(v, p), s.ap_e(v, p));
    assert forall|j: int| 0 <= j < d.len() implies !moved_nd(&s.network, p, #[trigger] d[j]) && tf1[d[j]] == s.train_formations@[d[j]] && s.network.has(d[j]) by {
        assert(d[j] == t0.nodes@[s.ap_s(v, p) + j]);
        assert(t0.nodes@.contains(d[j]));
        if p.contains(d[j]) && !s.network.sp_node(d[j]).sp_is_depot() {
            let i = choose|i: int| 0 <= i < p.len() && p[i] == d[j];
            assert(!t0.nodes@.contains(p[i]));
        }
        assert(!moved_nd(&s.network, p, d[j]));
        assert(t0.network.has(d[j]));
    }
}
/// the u32 arithmetic of the second formation update at the k-th displaced node, component c
pub proof fn lemma_ap_arith(s: &Schedule, v: VehicleIdx, p: Seq<NodeIdx>, tf1: Formations, u1: (PassengerCount, PassengerCount), k: int, c: int)
    requires
        s.ap_ok(), s.ap_vehicle_ok(v), path_shape(&s.network, p), s.ap_path_fresh(v, p),
        s.ap_between(v, p, tf1, u1),
        0 <= s.ap_s(v, p) <= s.ap_e(v, p) <= s.tours@[v].len(),
        0 <= k < s.ap_displaced(v, p).len(), c == 0 || c == 1,
    ensures
        s.arith_ok_at(tf1, Some(v), None, s.ap_displaced(v, p), (if c == 0 { u1.0 } else { u1.1 }) as int, k, c),
{
    let d = s.ap_displaced(v, p);
    let n = d.len() as int;
    let np = p.len() as int;
    let tf0 = s.train_formations@;
    let pv = Some(v);
    let rv: Option<Vehicle> = None;
    let vh = s.vehicles@[v];
    let u0c = s.unserved_c(c);
    let u1c = (if c == 0 { u1.0 } else { u1.1 }) as int;
    lemma_ap_frame(s, v, p, tf1);
    lemma_path_distinct(&s.network, p);
    if s.dummy_tours@.contains_key(v) { assert(v is Dummy); }
    assert(s.grows(None, Some(vh)));
    // the first delta: what was added is at most what was subtracted, and not negative
    let a_old = s.un_sum(tf0, None, Some(vh), p, np, false, c);
    let a_new = s.un_sum(tf0, None, Some(vh), p, np, true, c);
    assert(u1c == u0c - a_old + a_new);
    lemma_un_new_le_old(s, tf0, vh, p, np, c);
    tfu::lemma_un_sum_mono(s, tf0, None, Some(vh), p, 0, np, true, c);
    // the sums over the displaced nodes do not see the first update
    lemma_un_sum_ext(s, tf1, tf0, pv, rv, d, d, k + 1, false, c);
    lemma_un_sum_ext(s, tf1, tf0, pv, rv, d, d, k, true, c);
    lemma_un_sum_ext(s, tf1, tf0, pv, rv, d, d, k + 1, true, c);
    // (a) no underflow: C09, the cached value covers the old contributions of path + displaced block
    tfu::lemma_un_sum_mono(s, tf0, pv, rv, d, k + 1, n, false, c);
    tfu::lemma_un_sum_mono(s, tf0, pv, rv, d, 0, k, true, c);
    lemma_un_old(s, tf0, pv, rv, d, n, c);
    lemma_un_old(s, tf0, None, Some(vh), p, np, c);
    let pd = p + d;
    lemma_un_sum_concat(s, tf0, None, None, p, d, n, false, c);
    assert(acts_distinct(&s.network, pd)) by {
        assert forall|i: int, j: int| 0 <= i < pd.len() && 0 <= j < pd.len() && i != j && #[trigger] pd[i] == #[trigger] pd[j]
            implies s.network.sp_node(pd[i]).sp_is_depot() by {
            if i < np && j < np { assert(p[i] != p[j]); }
            if i >= np && j >= np { assert(d[i - np] != d[j - np]); }
            if i < np && j >= np { assert(p.contains(p[i])); assert(!moved_nd(&s.network, p, d[j - np])); }
            if j < np && i >= np { assert(p.contains(p[j])); assert(!moved_nd(&s.network, p, d[i - np])); }
        }
    }
    assert(all_in_net(&s.network, pd)) by {
        assert forall|i: int| 0 <= i < pd.len() implies #[trigger] s.network.has(pd[i]) by {
            if i < np { assert(s.network.has(p[i])); } else { assert(s.network.has(d[i - np])); }
        }
    }
    assert(s.un_old(pd, pd.len() as int, c) <= u0c);
    // (b) no overflow: C09 + instance magnitude, for the nodes processed so far
    if s.all_ok(tf1, pv, rv, d, k + 1) {
        let dk = d.take(k + 1);
        assert(dk.no_duplicates()) by {
            assert forall|i: int, j: int| 0 <= i < dk.len() && 0 <= j < dk.len() && i != j implies dk[i] != dk[j] by { assert(d[i] != d[j]); }
        }
        assert(all_in_net(&s.network, dk)) by {
            assert forall|i: int| 0 <= i < dk.len() implies #[trigger] s.network.has(dk[i]) by { assert(s.network.has(d[i])); }
        }
        assert(s.all_ok(tf0, pv, rv, dk, dk.len() as int)) by {
            assert forall|j: int| 0 <= j < dk.len() && !s.network.sp_node(#[trigger] dk[j]).sp_is_depot()
                implies s.repl_ok(tf0[dk[j]].formation@, pv, rv, dk[j]) by {
                assert(dk[j] == d[j]);
                assert(s.repl_ok(tf1[d[j]].formation@, pv, rv, d[j]));
            }
        }
        lemma_un_sum_ext(s, tf0, tf0, pv, rv, dk, d, k + 1, false, c);
        lemma_un_sum_ext(s, tf0, tf0, pv, rv, dk, d, k + 1, true, c);
        assert(u0c - s.un_sum(tf0, pv, rv, dk, dk.len() as int, false, c) + s.un_sum(tf0, pv, rv, dk, dk.len() as int, true, c) <= u32::MAX);
    }
}

/// C10 / C03 / C13 / C09: the two formation updates composed (path and displaced block are disjoint)
pub proof fn lemma_ap_formations(s: &Schedule, v: VehicleIdx, p: Seq<NodeIdx>, second: bool, tf1: Formations, u1: (PassengerCount, PassengerCount),
        tf2: Formations, u2: (PassengerCount, PassengerCount))
    requires
        s.sv_ids_ok(), s.ap_vehicle_ok(v), s.ap_path_fresh(v, p),
        0 <= s.ap_s(v, p) <= s.ap_e(v, p) <= s.tours@[v].len(),
        s.ap_between(v, p, tf1, u1),
        s.ap_second(v, p, second, tf1, u1, tf2, u2),
        !second ==> all_depots(&s.network, s.ap_displaced(v, p)),
    ensures
        s.ap_joins(v, p, tf2),
        s.ap_within_limits(v, p, tf2),
        s.ap_leaves(v, p, tf2),
        s.ap_elsewhere(v, p, tf2),
        s.ap_unserved_after(v, p, u2),
{
    let d = s.ap_displaced(v, p);
    let nd = d.len() as int;
    let tf0 = s.train_formations@;
    let pv = Some(v);
    let rv: Option<Vehicle> = None;
    let vh = s.vehicles@[v];
    let net = &s.network;
    lemma_ap_frame(s, v, p, tf1);
    if s.dummy_tours@.contains_key(v) { assert(v is Dummy); }
    assert(s.grows(None, Some(vh)));
    assert(s.shrinks(pv, rv) && !s.grows(pv, rv) && !s.replaces(pv, rv));
    // path and displaced block are disjoint
    assert forall|n: NodeIdx| !(moved_nd(net, p, n) && moved_nd(net, d, n)) by {
        if p.contains(n) && d.contains(n) {
            let j = choose|j: int| 0 <= j < d.len() && d[j] == n;
            assert(!moved_nd(net, p, d[j]));
        }
    }
    if !second {
        assert forall|n: NodeIdx| !moved_nd(net, d, n) by {
            if d.contains(n) {
                let j = choose|j: int| 0 <= j < d.len() && d[j] == n;
                assert(net.sp_node(d[j]).sp_is_depot());
            }
        }
        lemma_un_zero(s, tf0, pv, rv, d, nd, false, 0); lemma_un_zero(s, tf0, pv, rv, d, nd, true, 0);
        lemma_un_zero(s, tf0, pv, rv, d, nd, false, 1); lemma_un_zero(s, tf0, pv, rv, d, nd, true, 1);
    } else {
        lemma_un_sum_ext(s, tf1, tf0, pv, rv, d, d, nd, false, 0); lemma_un_sum_ext(s, tf1, tf0, pv, rv, d, d, nd, true, 0);
        lemma_un_sum_ext(s, tf1, tf0, pv, rv, d, d, nd, false, 1); lemma_un_sum_ext(s, tf1, tf0, pv, rv, d, d, nd, true, 1);
    }
    assert forall|n: NodeIdx| moved_nd(net, p, n) implies (#[trigger] tf2[n]).formation@ == tf0[n].formation@.push(vh)
        && (s.sp_node_limit(n) is Some ==> tf2[n].formation@.len() <= s.sp_node_limit(n).unwrap()) by {
        assert(!moved_nd(net, d, n));
        assert(tf2[n] == tf1[n]);
        assert(tf1[n].formation@ == s.repl_seq(tf0[n].formation@, None, Some(vh)));
    }
    assert forall|n: NodeIdx| moved_nd(net, d, n) implies has_vehicle((#[trigger] tf0[n]).formation@, v)
        && tf2[n].formation@ == tf0[n].formation@.remove(first_pos(tf0[n].formation@, v)) by {
        assert(second);
        let j = choose|j: int| 0 <= j < d.len() && d[j] == n;
        assert(tf1[d[j]] == tf0[d[j]]);
        assert(tf2[n].formation@ == s.repl_seq(tf1[n].formation@, pv, rv) && s.repl_ok(tf1[n].formation@, pv, rv, n));
    }
    assert forall|n: NodeIdx| moved_nd(net, d, n) implies (#[trigger] tf2[n]).formation@ == tf0[n].formation@.remove(first_pos(tf0[n].formation@, v)) by {
        assert(has_vehicle(tf0[n].formation@, v));
    }
    assert forall|n: NodeIdx| !moved_nd(net, p, n) && !moved_nd(net, d, n) implies #[trigger] tf2[n] == tf0[n] by {
        assert(tf1[n] == tf0[n]);
    }
    assert(tf2.dom() == tf0.dom());
}
/// nodes that are depots contribute nothing
pub proof fn lemma_un_zero(s: &Schedule, tf: Formations, pr: Option<VehicleIdx>, rv: Option<Vehicle>, m: Seq<NodeIdx>, k: int, after: bool, c: int)
    requires 0 <= k <= m.len(), forall|j: int| 0 <= j < k ==> (#[trigger] s.network.sp_node(m[j])).sp_is_depot(),
    ensures s.un_sum(tf, pr, rv, m, k, after, c) == 0,
    decreases k,
{
    if k > 0 {
        lemma_un_zero(s, tf, pr, rv, m, k - 1, after, c);
        assert(s.network.sp_node(m[k - 1]).sp_is_depot());
    }
}

/// the precondition of the rotation-cycle update for the one changed tour (the text of lemma_upd_pre / lemma_upd_pre_0,
/// env/remove_segment_shim.vs, over the invariants of env/spawn_vehicle_shim.vs)
pub proof fn lemma_ap_upd_pre(s: &Schedule, v: VehicleIdx, nt: Tour, tours1: TourMap)
    requires
        s.transitions_ok(), s.sv_ids_ok(), s.vehicles@.contains_key(v), s.type_known(s.type_of(v)),
        tours1 == s.tours@.insert(v, nt),
        tour_ok(&s.network, &nt),
    ensures
        // for `vec![v]`, whatever sequence of one item its view is
        forall|cv: Seq<VehicleIdx>| cv.len() == 1 && cv[0] == v
            ==> #[trigger] s.upd_pre(s.next_period_transitions@, s.maintenance_violation as int, cv, s.vehicles@, tours1),
        forall|cv: Seq<VehicleIdx>, t: VehicleTypeIdx| cv.len() == 1 && cv[0] == v && t != s.type_of(v)
            ==> !#[trigger] s.touches_type(s.vehicles@, cv, t),
{
    let trs = s.next_period_transitions@;
    assert(trs.contains_key(s.type_of(v)));
    assert forall|cv: Seq<VehicleIdx>| cv.len() == 1 && cv[0] == v
        implies #[trigger] s.upd_pre(trs, s.maintenance_violation as int, cv, s.vehicles@, tours1) by {
        assert(cv =~= seq![v]);
        assert(s.eff_type(s.vehicles@, v) == s.type_of(v));
        assert(s.change_ok(trs, s.vehicles@, tours1, v));
        assert forall|i: int| 0 <= i < cv.len() && (#[trigger] cv[i]) is Vehicle implies s.change_ok(trs, s.vehicles@, tours1, cv[i]) by {
            assert(cv[i] == v);
        }
        assert(real_in(cv, v)) by { assert(cv[0] == v); }
        assert forall|u: VehicleIdx| !real_in(cv, u) && #[trigger] s.vehicles@.contains_key(u) implies tours1.contains_key(u) && tours1[u] == s.tours@[u] by {
            assert(s.tours@.contains_key(u));
        }
    }
    assert forall|cv: Seq<VehicleIdx>, t: VehicleTypeIdx| cv.len() == 1 && cv[0] == v && t != s.type_of(v)
        implies !#[trigger] s.touches_type(s.vehicles@, cv, t) by {
        if s.touches_type(s.vehicles@, cv, t) {
            let i = choose|i: int| 0 <= i < cv.len() && (#[trigger] cv[i]) is Vehicle && s.eff_type(s.vehicles@, cv[i]) == t;
            assert(cv[i] == v);
        }
    }
}
/// the new tour: what the cost arithmetic, the depot bookkeeping and the rotation-cycle update need of it
pub proof fn lemma_ap_new_tour(s: &Schedule, v: VehicleIdx, p: Seq<NodeIdx>, nt: Tour)
    requires
        s.ap_ok(), s.ap_vehicle_ok(v), s.ap_counter_ok(v, p),
        nt.nodes@ == s.ap_gained(v, p), nt.wf(), nt.caches_ok(), !nt.is_dummy, nt.network == s.tours@[v].network,
        // (an insertion adds at most the path to the tour)
        len_ok(nt.nodes@),
    ensures
        tour_of_net(&s.network, &nt),
        tour_ok(&s.network, &nt),
        s.costs + nt.costs <= u64::MAX,
        s.tours@[v].costs <= s.costs + nt.costs,
{
    lemma_cost_bounds(&nt.network, nt.nodes@);
    assert(tour_of_net(&s.network, &nt));
    assert(-counter_bound() <= tour_counter(&nt) <= counter_bound());
}
