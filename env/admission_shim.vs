// ---- A-im (continued): shim for `im::HashSet` (persistent hash set of the `im` crate) -----------------
// Included at the top level of the slice; `pub mod tr { use super::*; use self::im::HashMap; use crate::im_set::HashSet; … }`
// then sees it next to env/im_shim.vs.  The type is opaque; `self@` is the abstract (finite) `Set<T>`; `len` carries the
// *assumed* semantics of im 15 `HashSet::len` (number of elements).  Only what solution/src/schedule.rs
// needs for the depot admission checks is declared.
pub mod im_set {
use vstd::prelude::*;

#[verifier::external_body]
#[verifier::reject_recursive_types(T)]
pub struct HashSet<T> { inner: std::collections::HashSet<T> }

impl<T> View for HashSet<T> {
    type V = Set<T>;
    uninterp spec fn view(&self) -> Set<T>;
}

impl<T> HashSet<T> {
    /// im: `len(&self) -> usize`
    #[verifier::external_body]
    pub fn len(&self) -> (r: usize)
        ensures r == self@.len(),
    { unimplemented!() }
}

impl<T> Clone for HashSet<T> {
    #[verifier::external_body]
    fn clone(&self) -> (r: Self)
        ensures r@ == self@,
    { unimplemented!() }
}
} // mod im_set

// ---- A-std5: `map[&k]` on a std HashMap (`impl Index<&Q> for HashMap`), which vstd leaves unspecified ----
// std: "Returns a reference to the value corresponding to the supplied key.  Panics if the key is not
// present in the HashMap."  (belongs into env/std_specs.vs)
pub assume_specification<'a, 'b, 'c, K: Eq + std::hash::Hash + std::borrow::Borrow<Q>, Q: Eq + std::hash::Hash + ?Sized, V, S: std::hash::BuildHasher, A: std::alloc::Allocator>[ <std::collections::HashMap<K, V, S, A> as std::ops::Index<&'a Q>>::index ](m: &'b std::collections::HashMap<K, V, S, A>, k: &'c Q) -> (r: &'b V)
    ensures vstd::std_specs::hash::obeys_key_model::<K>() && vstd::std_specs::hash::builds_valid_hashers::<S>()
        ==> vstd::std_specs::hash::maps_borrowed_key_to_value(m@, k, *r);
/// the precondition vstd attaches to every `Index::index` call (`index_req`, uninterpreted for HashMap)
/// holds when the key is present
pub broadcast axiom fn axiom_hashmap_index_req<'a, K: Eq + std::hash::Hash + std::borrow::Borrow<Q>, Q: Eq + std::hash::Hash + ?Sized, V, S: std::hash::BuildHasher, A: std::alloc::Allocator>(m: &std::collections::HashMap<K, V, S, A>, k: &'a Q)
    requires vstd::std_specs::hash::contains_borrowed_key(m@, k),
    ensures #[trigger] vstd::std_specs::core::IndexSpec::<&'a Q>::index_req(m, &k);
