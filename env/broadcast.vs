// the single module-level broadcast group of a slice
broadcast use {key_axioms::axiom_key_model_node_idx, key_axioms::axiom_key_model_location_idx,
    key_axioms::axiom_key_model_vehicle_type_idx, key_axioms::axiom_key_model_depot_idx,
    key_axioms::axiom_key_model_vehicle_idx};
