// the single module-level broadcast group of a slice that contains the model's Node type
broadcast use {key_axioms::axiom_key_model_node_idx, key_axioms::axiom_key_model_location_idx,
    key_axioms::axiom_key_model_vehicle_type_idx, key_axioms::axiom_key_model_depot_idx,
    key_axioms::axiom_key_model_vehicle_idx,
    vstd::std_specs::fmt::axiom_fmt_req_all_ref, fmt_axioms::axiom_fmt_node};
