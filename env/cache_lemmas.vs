// ---- lemmas connecting the shim's `.sum()` to the cache specs --------------------------------------
// Pattern: the iterator chain is one expression, its intermediate SeqIter values are anonymous.  A
// lemma quantified over *every* sequence that is pointwise the expected one (triggered on the terms
// `sum_req(s)` / `spec_sum(s)` that the call to `sum` introduces) lets the solver pick the anonymous
// sequence itself.
pub open spec fn is_dist_of_nodes(net: &Network, nodes: Seq<NodeIdx>, s: Seq<Distance>) -> bool {
    s.len() == nodes.len() && forall|i: int| 0 <= i < s.len() ==> #[trigger] s[i] == net.sp_node(nodes[i]).sp_travel_distance()
}
pub proof fn lemma_service_distance_sum(net: &Network, nodes: Seq<NodeIdx>)
    requires net.wf(), all_in_net(net, nodes), len_ok(nodes),
    ensures
        forall|s: Seq<Distance>| is_dist_of_nodes(net, nodes, s) ==> #[trigger] <Distance as VSum<Distance>>::sum_req(s),
        forall|s: Seq<Distance>| is_dist_of_nodes(net, nodes, s) ==> #[trigger] <Distance as VSum<Distance>>::spec_sum(s) == net.spec_service_distance(nodes),
{
    assert forall|s: Seq<Distance>| is_dist_of_nodes(net, nodes, s) implies
        <Distance as VSum<Distance>>::sum_req(s) && <Distance as VSum<Distance>>::spec_sum(s) == net.spec_service_distance(nodes) by {
        assert(s.map_values(|d: Distance| denc(d)) =~= nodes.map_values(net.f_node_dist()));
        let v = s.map_values(|d: Distance| dval(d));
        assert forall|i: int| 0 <= i < v.len() implies 0 <= #[trigger] v[i] <= 0x100_0000_0000 by {
            assert(net.has(nodes[i]));
            assert(net.nodes@.contains_key(nodes[i]));
        }
        lemma_isum_bounds(v, 0, 0x100_0000_0000);
        assert(0x100_0000_0000 * v.len() <= u64::MAX) by (nonlinear_arith) requires v.len() <= 0x4_0004;
    }
}

/// basic facts about a valid node used all over the cache proofs
pub proof fn lemma_node_facts(net: &Network, n: NodeIdx)
    requires net.wf(), net.has(n),
    ensures
        net.sp_node(n).wf(),
        net.sp_node(n).sp_duration() is Length,
        0 <= net.node_dur(n) <= 0x1000_0000,
        0 <= net.node_dist(n) <= 0x100_0000_0000,
        0 <= net.node_cost(n) <= 0x1000_0000 * 0xffff,
        net.locations.has(net.sp_node(n).sp_start_location()),
        net.locations.has(net.sp_node(n).sp_end_location()),
{
    assert(net.nodes@.contains_key(n));
    let nd = net.sp_node(n);
    reveal(Network::bounded_pairs);
    if nd.sp_is_activity() {
        assert(dt_rank(nd.sp_end_time()) - dt_rank(nd.sp_start_time()) <= 0x1000_0000);
    }
    let d = net.node_dur(n);
    let r = net.node_rate(n);
    assert(0 <= d * r <= 0x1000_0000 * 0xffff) by (nonlinear_arith) requires 0 <= d <= 0x1000_0000, 0 <= r <= 0xffff;
}

pub open spec fn is_dur_of_nodes(net: &Network, nodes: Seq<NodeIdx>, s: Seq<Duration>) -> bool {
    s.len() == nodes.len() && forall|i: int| 0 <= i < s.len() ==> #[trigger] s[i] == net.sp_node(nodes[i]).sp_duration()
}
pub proof fn lemma_useful_duration_sum(net: &Network, nodes: Seq<NodeIdx>)
    requires net.wf(), all_in_net(net, nodes), len_ok(nodes),
    ensures
        forall|s: Seq<Duration>| is_dur_of_nodes(net, nodes, s) ==> #[trigger] <Duration as VSum<Duration>>::sum_req(s),
        forall|s: Seq<Duration>| is_dur_of_nodes(net, nodes, s) ==> #[trigger] <Duration as VSum<Duration>>::spec_sum(s) == net.spec_useful_duration(nodes),
        0 <= nsum(nodes, net.f_node_dur()) <= 0x1000_0000 * nodes.len(),
{
    assert forall|i: int| 0 <= i < nodes.len() implies 0 <= #[trigger] (net.f_node_dur())(nodes[i]) <= 0x1000_0000 by {
        lemma_node_facts(net, nodes[i]);
    }
    lemma_nsum_nonneg(nodes, net.f_node_dur(), 0x1000_0000);
    assert forall|s: Seq<Duration>| is_dur_of_nodes(net, nodes, s) implies
        <Duration as VSum<Duration>>::sum_req(s) && <Duration as VSum<Duration>>::spec_sum(s) == net.spec_useful_duration(nodes) by {
        assert(s.map_values(|d: Duration| tenc(d)) =~= nodes.map_values(net.f_node_dur()));
        assert(s.map_values(|d: Duration| tval(d)) =~= nodes.map_values(net.f_node_dur())) by {
            assert forall|i: int| 0 <= i < s.len() implies tval(s[i]) == (net.f_node_dur())(nodes[i]) by { lemma_node_facts(net, nodes[i]); }
        }
        assert(0x1000_0000 * nodes.len() <= u64::MAX) by (nonlinear_arith) requires nodes.len() <= 0x4_0004;
    }
}

pub open spec fn is_legdist_of_nodes(net: &Network, nodes: Seq<NodeIdx>, s: Seq<Distance>) -> bool {
    s.len() == (if nodes.len() > 0 { nodes.len() - 1 } else { 0 })
        && forall|i: int| 0 <= i < s.len() ==> #[trigger] s[i] == net.locations.sp_distance(net.sp_node(nodes[i]).sp_end_location(), net.sp_node(nodes[i + 1]).sp_start_location())
}
pub proof fn lemma_leg_facts(net: &Network, a: NodeIdx, b: NodeIdx)
    requires net.wf(), net.has(a), net.has(b),
    ensures
        0 <= dval(net.locations.sp_distance(net.sp_node(a).sp_end_location(), net.sp_node(b).sp_start_location())) <= 0x100_0000_0000,
        0 <= net.leg_dist(a, b),
        net.leg_dist(a, b) < DBIG ==> net.leg_dist(a, b) <= 0x100_0000_0000,
        0 <= net.secs_or_planning(net.leg_time(a, b)) <= 0x1000_0000,
        0 <= net.secs_or_planning(net.leg_idle(a, b)) <= 0x1000_0000,
        0 <= net.leg_cost(a, b) <= 2 * 0x1000_0000 * 0xffff,
{
    lemma_node_facts(net, a);
    lemma_node_facts(net, b);
    let l1 = net.sp_node(a).sp_end_location(); let l2 = net.sp_node(b).sp_start_location();
    lemma_locations_wf2(&net.locations, l1, l2);
    reveal(Network::bounded_pairs);
    if l1 is Station && l2 is Station {
        assert(net.locations.stations@.contains_key(l1->Station_0) && net.locations.stations@.contains_key(l2->Station_0));
    }
    let t = net.secs_or_planning(net.leg_time(a, b));
    let idle = net.leg_idle(a, b);
    // idle time is bounded by the span between two activity times
    if !(net.sp_node(a) is StartDepot || net.sp_node(b) is EndDepot) {
        let arrive = dt_add(net.sp_node(a).sp_end_time(), net.leg_time(a, b));
        if dt_le(arrive, net.sp_node(b).sp_start_time()) {
            lemma_dt_add_monotone(net.sp_node(a).sp_end_time(), net.leg_time(a, b));
            assert(net.nodes@.contains_key(a) && net.nodes@.contains_key(b));
            // a is not a start depot, b is not an end depot; arrive <= start(b) rules out the other depots
            lemma_dt_add_rank(net.sp_node(a).sp_end_time(), net.leg_time(a, b));
        }
    }
    let i = net.secs_or_planning(idle);
    let cd = net.config.costs.dead_head_trip as int; let ci = net.config.costs.idle as int;
    assert(0 <= t * cd + i * ci <= 2 * 0x1000_0000 * 0xffff) by (nonlinear_arith)
        requires 0 <= t <= 0x1000_0000, 0 <= i <= 0x1000_0000, 0 <= cd <= 0xffff, 0 <= ci <= 0xffff;
}
/// rank of t + d for a proper point and a finite duration
pub proof fn lemma_dt_add_rank(t: DateTime, d: Duration)
    requires dt_ok(t), dt_small(t), d is Length ==> d->Length_0.seconds < 0x4000_0000_0000_0000,
    ensures
        t is Point && d is Length ==> dt_add(t, d) is Point && dt_rank(dt_add(t, d)) == dt_rank(t) + d->Length_0.seconds && dt_ok(dt_add(t, d)),
{
    if let DateTime::Point(p) = t {
        if let Duration::Length(l) = d {
            let s = p.seconds as int + l.seconds as int;
            assert(86400 * (s / 86400) + s % 86400 == s && 0 <= s % 86400 < 86400 && s / 86400 >= 0) by (nonlinear_arith) requires s >= 0;
            assert(86400 * (p.days + s / 86400) == 86400 * p.days + 86400 * (s / 86400)) by (nonlinear_arith);
        }
    }
}
pub proof fn lemma_dead_head_distance_sum(net: &Network, nodes: Seq<NodeIdx>)
    requires net.wf(), all_in_net(net, nodes), len_ok(nodes),
    ensures
        forall|s: Seq<Distance>| is_legdist_of_nodes(net, nodes, s) ==> #[trigger] <Distance as VSum<Distance>>::sum_req(s),
        forall|s: Seq<Distance>| is_legdist_of_nodes(net, nodes, s) ==> #[trigger] <Distance as VSum<Distance>>::spec_sum(s) == net.spec_dead_head_distance(nodes),
{
    assert forall|s: Seq<Distance>| is_legdist_of_nodes(net, nodes, s) implies
        <Distance as VSum<Distance>>::sum_req(s) && <Distance as VSum<Distance>>::spec_sum(s) == net.spec_dead_head_distance(nodes) by {
        assert(s.map_values(|d: Distance| denc(d)) =~= legs(nodes, net.f_leg_dist()));
        let v = s.map_values(|d: Distance| dval(d));
        assert forall|i: int| 0 <= i < v.len() implies 0 <= #[trigger] v[i] <= 0x100_0000_0000 by {
            assert(net.has(nodes[i]) && net.has(nodes[i + 1]));
            lemma_leg_facts(net, nodes[i], nodes[i + 1]);
        }
        lemma_isum_bounds(v, 0, 0x100_0000_0000);
        assert(0x100_0000_0000 * v.len() <= u64::MAX) by (nonlinear_arith) requires v.len() <= 0x4_0004;
    }
}

pub open spec fn is_nodecost_of_nodes(net: &Network, nodes: Seq<NodeIdx>, s: Seq<u64>) -> bool {
    s.len() == nodes.len() && forall|i: int| 0 <= i < s.len() ==> (#[trigger] s[i]) as int == net.node_cost(nodes[i])
}
pub open spec fn is_legcost_of_nodes(net: &Network, nodes: Seq<NodeIdx>, s: Seq<u64>) -> bool {
    s.len() == (if nodes.len() > 0 { nodes.len() - 1 } else { 0 })
        && forall|i: int| 0 <= i < s.len() ==> (#[trigger] s[i]) as int == net.leg_cost(nodes[i], nodes[i + 1])
}
pub open spec const NODE_COST_MAX: int = 0x0fff_f000_0000;
pub open spec const LEG_COST_MAX: int = 0x1fff_e000_0000;
pub proof fn lemma_cost_bounds(net: &Network, nodes: Seq<NodeIdx>)
    requires net.wf(), all_in_net(net, nodes), len_ok(nodes),
    ensures
        0 <= nsum(nodes, net.f_node_cost()) <= NODE_COST_MAX * nodes.len() <= 0x4000_0000_0000_0000,
        0 <= psum(nodes, net.f_leg_cost()) <= LEG_COST_MAX * nodes.len() <= 0x8000_0000_0000_0000,
        0 <= net.spec_costs(nodes) <= 0xC000_0000_0000_0000,
{
    assert forall|i: int| 0 <= i < nodes.len() implies 0 <= #[trigger] (net.f_node_cost())(nodes[i]) <= NODE_COST_MAX by {
        lemma_node_facts(net, nodes[i]);
    }
    lemma_nsum_nonneg(nodes, net.f_node_cost(), NODE_COST_MAX);
    assert forall|i: int| 0 <= i < nodes.len() - 1 implies 0 <= #[trigger] (net.f_leg_cost())(nodes[i], nodes[i + 1]) <= LEG_COST_MAX by {
        assert(net.has(nodes[i]) && net.has(nodes[i + 1]));
        lemma_leg_facts(net, nodes[i], nodes[i + 1]);
    }
    lemma_psum_nonneg(nodes, net.f_leg_cost(), LEG_COST_MAX);
    let n = nodes.len() as int;
    assert(NODE_COST_MAX * n <= 0x4000_0000_0000_0000 && LEG_COST_MAX * n <= 0x8000_0000_0000_0000) by (nonlinear_arith)
        requires 0 <= n <= 0x4_0004, NODE_COST_MAX == 0x0fff_f000_0000, LEG_COST_MAX == 0x1fff_e000_0000;
}
pub proof fn lemma_cost_sums(net: &Network, nodes: Seq<NodeIdx>)
    requires net.wf(), all_in_net(net, nodes), len_ok(nodes),
    ensures
        forall|s: Seq<u64>| is_nodecost_of_nodes(net, nodes, s) ==> #[trigger] <u64 as VSum<u64>>::sum_req(s),
        forall|s: Seq<u64>| is_nodecost_of_nodes(net, nodes, s) ==> (#[trigger] <u64 as VSum<u64>>::spec_sum(s)) as int == nsum(nodes, net.f_node_cost()),
        forall|s: Seq<u64>| is_legcost_of_nodes(net, nodes, s) ==> #[trigger] <u64 as VSum<u64>>::sum_req(s),
        forall|s: Seq<u64>| is_legcost_of_nodes(net, nodes, s) ==> (#[trigger] <u64 as VSum<u64>>::spec_sum(s)) as int == psum(nodes, net.f_leg_cost()),
{
    lemma_cost_bounds(net, nodes);
    assert forall|s: Seq<u64>| is_nodecost_of_nodes(net, nodes, s) implies
        <u64 as VSum<u64>>::sum_req(s) && (<u64 as VSum<u64>>::spec_sum(s)) as int == nsum(nodes, net.f_node_cost()) by {
        assert(s.map_values(|x: u64| x as int) =~= nodes.map_values(net.f_node_cost()));
    }
    assert forall|s: Seq<u64>| is_legcost_of_nodes(net, nodes, s) implies
        <u64 as VSum<u64>>::sum_req(s) && (<u64 as VSum<u64>>::spec_sum(s)) as int == psum(nodes, net.f_leg_cost()) by {
        assert(s.map_values(|x: u64| x as int) =~= legs(nodes, net.f_leg_cost()));
    }
}

/// all cached figures of `[x] + tail` in terms of those of `tail` (and symmetric for `head + [x]`)
pub proof fn lemma_sums_cons(net: &Network, x: NodeIdx, tail: Seq<NodeIdx>)
    ensures
        nsum(seq![x] + tail, net.f_node_dur()) == net.node_dur(x) + nsum(tail, net.f_node_dur()),
        nsum(seq![x] + tail, net.f_node_dist()) == net.node_dist(x) + nsum(tail, net.f_node_dist()),
        nsum(seq![x] + tail, net.f_node_cost()) == net.node_cost(x) + nsum(tail, net.f_node_cost()),
        tail.len() > 0 ==> psum(seq![x] + tail, net.f_leg_dist()) == net.leg_dist(x, tail[0]) + psum(tail, net.f_leg_dist()),
        tail.len() > 0 ==> psum(seq![x] + tail, net.f_leg_cost()) == net.leg_cost(x, tail[0]) + psum(tail, net.f_leg_cost()),
{
    let one = seq![x];
    lemma_nsum_append(one, tail, net.f_node_dur());
    lemma_nsum_append(one, tail, net.f_node_dist());
    lemma_nsum_append(one, tail, net.f_node_cost());
    lemma_psum_append(one, tail, net.f_leg_dist());
    lemma_psum_append(one, tail, net.f_leg_cost());
    assert(one.map_values(net.f_node_dur()) =~= seq![net.node_dur(x)]);
    assert(one.map_values(net.f_node_dist()) =~= seq![net.node_dist(x)]);
    assert(one.map_values(net.f_node_cost()) =~= seq![net.node_cost(x)]);
    lemma_isum_one(net.node_dur(x));
    lemma_isum_one(net.node_dist(x));
    lemma_isum_one(net.node_cost(x));
    assert(legs(one, net.f_leg_dist()) =~= Seq::<int>::empty());
    assert(legs(one, net.f_leg_cost()) =~= Seq::<int>::empty());
}
pub proof fn lemma_sums_snoc(net: &Network, head: Seq<NodeIdx>, x: NodeIdx)
    ensures
        nsum(head + seq![x], net.f_node_dur()) == nsum(head, net.f_node_dur()) + net.node_dur(x),
        nsum(head + seq![x], net.f_node_dist()) == nsum(head, net.f_node_dist()) + net.node_dist(x),
        nsum(head + seq![x], net.f_node_cost()) == nsum(head, net.f_node_cost()) + net.node_cost(x),
        head.len() > 0 ==> psum(head + seq![x], net.f_leg_dist()) == psum(head, net.f_leg_dist()) + net.leg_dist(head.last(), x),
        head.len() > 0 ==> psum(head + seq![x], net.f_leg_cost()) == psum(head, net.f_leg_cost()) + net.leg_cost(head.last(), x),
{
    let one = seq![x];
    lemma_nsum_append(head, one, net.f_node_dur());
    lemma_nsum_append(head, one, net.f_node_dist());
    lemma_nsum_append(head, one, net.f_node_cost());
    lemma_psum_append(head, one, net.f_leg_dist());
    lemma_psum_append(head, one, net.f_leg_cost());
    assert(one.map_values(net.f_node_dur()) =~= seq![net.node_dur(x)]);
    assert(one.map_values(net.f_node_dist()) =~= seq![net.node_dist(x)]);
    assert(one.map_values(net.f_node_cost()) =~= seq![net.node_cost(x)]);
    lemma_isum_one(net.node_dur(x));
    lemma_isum_one(net.node_dist(x));
    lemma_isum_one(net.node_cost(x));
    assert(legs(one, net.f_leg_dist()) =~= Seq::<int>::empty());
    assert(legs(one, net.f_leg_cost()) =~= Seq::<int>::empty());
}
/// visits-maintenance is unaffected by exchanging a depot for a depot
pub proof fn lemma_vm_update_depot(net: &Network, s: Seq<NodeIdx>, i: int, x: NodeIdx)
    requires 0 <= i < s.len(), net.sp_node(s[i]).sp_is_depot(), net.sp_node(x).sp_is_depot(),
    ensures net.spec_visits_maintenance(s.update(i, x)) == net.spec_visits_maintenance(s),
{
    let t = s.update(i, x);
    if net.spec_visits_maintenance(s) {
        let k = choose|k: int| 0 <= k < s.len() && #[trigger] net.sp_node(s[k]) is Maintenance;
        assert(t[k] == s[k]);
        assert(net.sp_node(t[k]) is Maintenance);
    }
    if net.spec_visits_maintenance(t) {
        let k = choose|k: int| 0 <= k < t.len() && #[trigger] net.sp_node(t[k]) is Maintenance;
        assert(t[k] == s[k]);
        assert(net.sp_node(s[k]) is Maintenance);
    }
}
/// a depot costs nothing, lasts no time and covers no distance
pub proof fn lemma_depot_zero(net: &Network, x: NodeIdx)
    requires net.wf(), net.has(x), net.sp_node(x).sp_is_depot(),
    ensures net.node_dur(x) == 0, net.node_dist(x) == 0, net.node_cost(x) == 0,
{
    assert(net.node_rate(x) == 0);
    let d = net.secs_or_planning(net.sp_node(x).sp_duration());
    assert(d * 0 == 0) by (nonlinear_arith);
}

/// the finite part of the dead-head legs is small; the encoded sum is either >= DBIG or that finite part
pub proof fn lemma_dhd_bounds(net: &Network, nodes: Seq<NodeIdx>)
    requires net.wf(), all_in_net(net, nodes), len_ok(nodes),
    ensures 0 <= psum(nodes, net.f_leg_dist()),
        psum(nodes, net.f_leg_dist()) < DBIG ==> psum(nodes, net.f_leg_dist()) <= 0x100_0000_0000 * nodes.len() <= 0x2000_0000_0000_0000,
        0 <= nsum(nodes, net.f_node_dist()) <= 0x100_0000_0000 * nodes.len() <= 0x2000_0000_0000_0000,
{
    let g = net.f_leg_dist();
    let l = legs(nodes, g);
    assert forall|i: int| 0 <= i < l.len() implies 0 <= #[trigger] l[i] by {
        assert(net.has(nodes[i]) && net.has(nodes[i + 1]));
        lemma_leg_facts(net, nodes[i], nodes[i + 1]);
    }
    lemma_isum_lower(l);
    if isum(l) < DBIG {
        lemma_isum_small_items(l, DBIG);
        assert forall|i: int| 0 <= i < l.len() implies 0 <= #[trigger] l[i] <= 0x100_0000_0000 by {
            assert(net.has(nodes[i]) && net.has(nodes[i + 1]));
            lemma_leg_facts(net, nodes[i], nodes[i + 1]);
        }
        lemma_isum_bounds(l, 0, 0x100_0000_0000);
    }
    let n = nodes.len() as int; let m = l.len() as int;
    assert(0x100_0000_0000 * m <= 0x100_0000_0000 * n <= 0x2000_0000_0000_0000) by (nonlinear_arith) requires 0 <= m <= n <= 0x4_0004;
    assert forall|i: int| 0 <= i < nodes.len() implies 0 <= #[trigger] (net.f_node_dist())(nodes[i]) <= 0x100_0000_0000 by {
        lemma_node_facts(net, nodes[i]);
    }
    lemma_nsum_nonneg(nodes, net.f_node_dist(), 0x100_0000_0000);
}
pub proof fn lemma_isum_lower(s: Seq<int>)
    requires forall|i: int| 0 <= i < s.len() ==> 0 <= #[trigger] s[i],
    ensures 0 <= isum(s),
    decreases s.len(),
{
    if s.len() > 0 { lemma_isum_lower(s.drop_last()); }
}
/// a non-negative sum below a bound has every item below that bound
pub proof fn lemma_isum_small_items(s: Seq<int>, b: int)
    requires forall|i: int| 0 <= i < s.len() ==> 0 <= #[trigger] s[i], isum(s) < b,
    ensures forall|i: int| 0 <= i < s.len() ==> #[trigger] s[i] < b,
    decreases s.len(),
{
    if s.len() > 0 {
        lemma_isum_lower(s.drop_last());
        lemma_isum_small_items(s.drop_last(), b);
        assert forall|i: int| 0 <= i < s.len() implies #[trigger] s[i] < b by {
            if i < s.len() - 1 { assert(s.drop_last()[i] == s[i]); }
        }
    }
}

// ---- splicing: old = P + M + S, new = P + N + S ----------------------------------------------------
/// what the middle part contributes to a sum over consecutive pairs
pub open spec fn mid_p(p: Seq<NodeIdx>, m: Seq<NodeIdx>, s: Seq<NodeIdx>, g: spec_fn(NodeIdx, NodeIdx) -> int) -> int {
    if m.len() == 0 { junction(p, s, g) } else { junction(p, m, g) + psum(m, g) + junction(m, s, g) }
}
pub proof fn lemma_psum_3(p: Seq<NodeIdx>, m: Seq<NodeIdx>, s: Seq<NodeIdx>, g: spec_fn(NodeIdx, NodeIdx) -> int)
    ensures psum(p + m + s, g) == psum(p, g) + mid_p(p, m, s, g) + psum(s, g),
{
    if m.len() == 0 {
        assert(p + m + s =~= p + s);
        lemma_psum_append(p, s, g);
    } else {
        assert(p + m + s =~= p + (m + s));
        lemma_psum_append(p, m + s, g);
        lemma_psum_append(m, s, g);
        assert((m + s).first() == m.first());
    }
}
pub proof fn lemma_nsum_3(p: Seq<NodeIdx>, m: Seq<NodeIdx>, s: Seq<NodeIdx>, f: spec_fn(NodeIdx) -> int)
    ensures nsum(p + m + s, f) == nsum(p, f) + nsum(m, f) + nsum(s, f),
{
    lemma_nsum_append(p + m, s, f);
    lemma_nsum_append(p, m, f);
}
/// "small or infinite": an encoded distance sum
pub open spec fn dsmall(x: int) -> bool { x >= 0 && (x < DBIG ==> x <= 0x2000_0000_0000_0000) }
pub proof fn lemma_dist_add_enc(x: int, y: int)
    requires dsmall(x), dsmall(y),
    ensures dist_add(ddec(x), ddec(y)) == ddec(x + y),
        ddec(x) is Distance && ddec(y) is Distance ==> ddec(x)->Distance_0 + ddec(y)->Distance_0 <= u64::MAX,
        x + y >= 0, x + y < DBIG ==> x + y <= 0x4000_0000_0000_0000,
{
}
/// a leg is infinitely long exactly when it touches Nowhere
pub proof fn lemma_leg_inf(net: &Network, a: NodeIdx, b: NodeIdx)
    requires net.wf(), net.has(a), net.has(b),
    ensures
        net.leg_dist(a, b) == DBIG <==> (net.sp_node(a).sp_end_location() is Nowhere || net.sp_node(b).sp_start_location() is Nowhere),
        net.leg_dist(a, b) != DBIG ==> 0 <= net.leg_dist(a, b) <= 0x100_0000_0000,
{
    lemma_leg_facts(net, a, b);
    let l1 = net.sp_node(a).sp_end_location(); let l2 = net.sp_node(b).sp_start_location();
    lemma_node_facts(net, a); lemma_node_facts(net, b);
    lemma_locations_wf2(&net.locations, l1, l2);
}
/// legs between activities are finite, so is their sum
pub proof fn lemma_psum_dist_activities(net: &Network, m: Seq<NodeIdx>)
    requires net.wf(), all_in_net(net, m), no_depot(net, m), len_ok(m),
    ensures 0 <= psum(m, net.f_leg_dist()) <= 0x2000_0000_0000_0000,
{
    let l = legs(m, net.f_leg_dist());
    assert forall|i: int| 0 <= i < l.len() implies 0 <= #[trigger] l[i] <= 0x100_0000_0000 by {
        assert(net.has(m[i]) && net.has(m[i + 1]));
        assert(net.sp_node(m[i]).sp_is_activity() && net.sp_node(m[i + 1]).sp_is_activity());
        lemma_node_facts(net, m[i]); lemma_node_facts(net, m[i + 1]);
        lemma_leg_inf(net, m[i], m[i + 1]);
    }
    lemma_isum_bounds(l, 0, 0x100_0000_0000);
    let a = l.len() as int;
    assert(0x100_0000_0000 * a <= 0x2000_0000_0000_0000) by (nonlinear_arith) requires 0 <= a <= 0x4_0004;
}

/// all sums of a tour split at positions s <= e1 into P = [..s], M = [s..e1], S = [e1..]
pub proof fn lemma_split3(net: &Network, nodes: Seq<NodeIdx>, s: int, e1: int)
    requires net.wf(), all_in_net(net, nodes), len_ok(nodes), 0 <= s <= e1 <= nodes.len(),
    ensures ({
        let p = nodes.subrange(0, s); let m = nodes.subrange(s, e1); let u = nodes.subrange(e1, nodes.len() as int);
        &&& nodes =~= p + m + u
        &&& all_in_net(net, p) && all_in_net(net, m) && all_in_net(net, u) && all_in_net(net, p + u)
        &&& nsum(nodes, net.f_node_dur()) == nsum(p, net.f_node_dur()) + nsum(m, net.f_node_dur()) + nsum(u, net.f_node_dur())
        &&& nsum(nodes, net.f_node_dist()) == nsum(p, net.f_node_dist()) + nsum(m, net.f_node_dist()) + nsum(u, net.f_node_dist())
        &&& nsum(nodes, net.f_node_cost()) == nsum(p, net.f_node_cost()) + nsum(m, net.f_node_cost()) + nsum(u, net.f_node_cost())
        &&& psum(nodes, net.f_leg_dist()) == psum(p, net.f_leg_dist()) + mid_p(p, m, u, net.f_leg_dist()) + psum(u, net.f_leg_dist())
        &&& psum(nodes, net.f_leg_cost()) == psum(p, net.f_leg_cost()) + mid_p(p, m, u, net.f_leg_cost()) + psum(u, net.f_leg_cost())
        &&& 0 <= nsum(p, net.f_node_dur()) && 0 <= nsum(m, net.f_node_dur()) && 0 <= nsum(u, net.f_node_dur())
        &&& nsum(nodes, net.f_node_dur()) <= 0x1000_0000 * 0x4_0004
        &&& 0 <= nsum(p, net.f_node_dist()) && 0 <= nsum(m, net.f_node_dist()) && 0 <= nsum(u, net.f_node_dist())
        &&& nsum(nodes, net.f_node_dist()) <= 0x2000_0000_0000_0000
        &&& 0 <= nsum(p, net.f_node_cost()) && 0 <= nsum(m, net.f_node_cost()) && 0 <= nsum(u, net.f_node_cost())
        &&& 0 <= psum(p, net.f_leg_cost()) && 0 <= psum(u, net.f_leg_cost()) && 0 <= mid_p(p, m, u, net.f_leg_cost())
        &&& 0 <= psum(p, net.f_leg_dist()) && 0 <= psum(u, net.f_leg_dist()) && 0 <= mid_p(p, m, u, net.f_leg_dist())
        &&& dsmall(psum(p, net.f_leg_dist())) && dsmall(psum(u, net.f_leg_dist())) && dsmall(psum(nodes, net.f_leg_dist()))
        &&& net.spec_costs(nodes) <= 0xC000_0000_0000_0000
    }),
{
    let p = nodes.subrange(0, s); let m = nodes.subrange(s, e1); let u = nodes.subrange(e1, nodes.len() as int);
    assert(nodes =~= p + m + u);
    assert forall|i: int| 0 <= i < p.len() implies #[trigger] net.has(p[i]) by { assert(net.has(nodes[i])); }
    assert forall|i: int| 0 <= i < m.len() implies #[trigger] net.has(m[i]) by { assert(net.has(nodes[s + i])); }
    assert forall|i: int| 0 <= i < u.len() implies #[trigger] net.has(u[i]) by { assert(net.has(nodes[e1 + i])); }
    assert forall|i: int| 0 <= i < (p + u).len() implies #[trigger] net.has((p + u)[i]) by {
        if i < p.len() { assert(net.has(p[i])); } else { assert(net.has(u[i - p.len()])); }
    }
    lemma_nsum_3(p, m, u, net.f_node_dur());
    lemma_nsum_3(p, m, u, net.f_node_dist());
    lemma_nsum_3(p, m, u, net.f_node_cost());
    lemma_psum_3(p, m, u, net.f_leg_dist());
    lemma_psum_3(p, m, u, net.f_leg_cost());
    lemma_useful_duration_sum(net, p); lemma_useful_duration_sum(net, m); lemma_useful_duration_sum(net, u); lemma_useful_duration_sum(net, nodes);
    lemma_dhd_bounds(net, p); lemma_dhd_bounds(net, m); lemma_dhd_bounds(net, u); lemma_dhd_bounds(net, nodes);
    lemma_cost_bounds(net, p); lemma_cost_bounds(net, m); lemma_cost_bounds(net, u); lemma_cost_bounds(net, nodes);
    lemma_mid_nonneg(net, p, m, u);
    let n = nodes.len() as int;
    assert(0x1000_0000 * n <= 0x1000_0000 * 0x4_0004) by (nonlinear_arith) requires 0 <= n <= 0x4_0004;
}
pub proof fn lemma_mid_nonneg(net: &Network, p: Seq<NodeIdx>, m: Seq<NodeIdx>, u: Seq<NodeIdx>)
    requires net.wf(), all_in_net(net, p), all_in_net(net, m), all_in_net(net, u), len_ok(m),
    ensures 0 <= mid_p(p, m, u, net.f_leg_cost()), 0 <= mid_p(p, m, u, net.f_leg_dist()),
        0 <= junction(p, u, net.f_leg_dist()), 0 <= junction(p, u, net.f_leg_cost()),
        0 <= junction(p, m, net.f_leg_dist()), 0 <= junction(m, u, net.f_leg_dist()),
        0 <= junction(p, m, net.f_leg_cost()), 0 <= junction(m, u, net.f_leg_cost()),
        junction(p, u, net.f_leg_cost()) <= LEG_COST_MAX, junction(p, m, net.f_leg_cost()) <= LEG_COST_MAX, junction(m, u, net.f_leg_cost()) <= LEG_COST_MAX,
        dsmall(junction(p, u, net.f_leg_dist())), dsmall(junction(p, m, net.f_leg_dist())), dsmall(junction(m, u, net.f_leg_dist())),
{
    if p.len() > 0 && u.len() > 0 { assert(net.has(p[p.len() - 1]) && net.has(u[0])); lemma_leg_facts(net, p.last(), u.first()); }
    if p.len() > 0 && m.len() > 0 { assert(net.has(p[p.len() - 1]) && net.has(m[0])); lemma_leg_facts(net, p.last(), m.first()); }
    if m.len() > 0 && u.len() > 0 { assert(net.has(m[m.len() - 1]) && net.has(u[0])); lemma_leg_facts(net, m.last(), u.first()); }
    lemma_cost_bounds(net, m);
    lemma_dhd_bounds(net, m);
}
/// sums of the remaining tour P + S
pub proof fn lemma_join2(net: &Network, p: Seq<NodeIdx>, u: Seq<NodeIdx>)
    ensures
        nsum(p + u, net.f_node_dur()) == nsum(p, net.f_node_dur()) + nsum(u, net.f_node_dur()),
        nsum(p + u, net.f_node_dist()) == nsum(p, net.f_node_dist()) + nsum(u, net.f_node_dist()),
        nsum(p + u, net.f_node_cost()) == nsum(p, net.f_node_cost()) + nsum(u, net.f_node_cost()),
        psum(p + u, net.f_leg_dist()) == psum(p, net.f_leg_dist()) + junction(p, u, net.f_leg_dist()) + psum(u, net.f_leg_dist()),
        psum(p + u, net.f_leg_cost()) == psum(p, net.f_leg_cost()) + junction(p, u, net.f_leg_cost()) + psum(u, net.f_leg_cost()),
{
    lemma_nsum_append(p, u, net.f_node_dur());
    lemma_nsum_append(p, u, net.f_node_dist());
    lemma_nsum_append(p, u, net.f_node_cost());
    lemma_psum_append(p, u, net.f_leg_dist());
    lemma_psum_append(p, u, net.f_leg_cost());
}
/// removing activities from between two remaining nodes cannot make an infinite dead-head distance finite
pub proof fn lemma_remove_keeps_infinity(net: &Network, p: Seq<NodeIdx>, m: Seq<NodeIdx>, u: Seq<NodeIdx>)
    requires net.wf(), all_in_net(net, p), all_in_net(net, m), all_in_net(net, u), len_ok(p), len_ok(m), len_ok(u),
        p.len() > 0, u.len() > 0, m.len() > 0, no_depot(net, m),
        psum(p, net.f_leg_dist()) + mid_p(p, m, u, net.f_leg_dist()) + psum(u, net.f_leg_dist()) >= DBIG,
    ensures psum(p, net.f_leg_dist()) + junction(p, u, net.f_leg_dist()) + psum(u, net.f_leg_dist()) >= DBIG,
{
    let g = net.f_leg_dist();
    lemma_dhd_bounds(net, p); lemma_dhd_bounds(net, u);
    lemma_mid_nonneg(net, p, m, u);
    lemma_psum_dist_activities(net, m);
    if psum(p, g) < DBIG && psum(u, g) < DBIG {
        assert(net.has(p[p.len() - 1]) && net.has(u[0]) && net.has(m[0]) && net.has(m[m.len() - 1]));
        assert(net.sp_node(m[0]).sp_is_activity() && net.sp_node(m[m.len() - 1]).sp_is_activity());
        lemma_node_facts(net, m[0]); lemma_node_facts(net, m[m.len() - 1]);
        assert(net.nodes@.contains_key(m[0]) && net.nodes@.contains_key(m[m.len() - 1]));
        lemma_leg_inf(net, p.last(), m.first());
        lemma_leg_inf(net, m.last(), u.first());
        lemma_leg_inf(net, p.last(), u.first());
    }
}
/// visits-maintenance of the concatenation
pub proof fn lemma_vm_concat(net: &Network, a: Seq<NodeIdx>, b: Seq<NodeIdx>)
    ensures net.spec_visits_maintenance(a + b) == (net.spec_visits_maintenance(a) || net.spec_visits_maintenance(b)),
{
    let c = a + b;
    if net.spec_visits_maintenance(a) {
        let k = choose|k: int| 0 <= k < a.len() && #[trigger] net.sp_node(a[k]) is Maintenance;
        assert(c[k] == a[k]); assert(net.sp_node(c[k]) is Maintenance);
    }
    if net.spec_visits_maintenance(b) {
        let k = choose|k: int| 0 <= k < b.len() && #[trigger] net.sp_node(b[k]) is Maintenance;
        assert(c[a.len() + k] == b[k]); assert(net.sp_node(c[a.len() + k]) is Maintenance);
    }
    if net.spec_visits_maintenance(c) {
        let k = choose|k: int| 0 <= k < c.len() && #[trigger] net.sp_node(c[k]) is Maintenance;
        if k < a.len() { assert(c[k] == a[k]); assert(net.sp_node(a[k]) is Maintenance); }
        else { assert(c[k] == b[k - a.len()]); assert(net.sp_node(b[k - a.len()]) is Maintenance); }
    }
}
