// ---- meaning of the cached aggregates of a tour (C09, C04) -------------------------------------------
// written from the property text: service distance = sum of the service trips' distances; dead-head
// distance = sum over consecutive nodes of the distance between them (infinite via the overflow
// depot); useful duration = sum of the activities' durations; costs = per-second service /
// maintenance cost of every activity + per-second dead-head and idle cost of every leg (an infinite
// duration counts as the planning days); visits-maintenance = some node is a maintenance slot.
impl Network {
    pub open spec fn planning_secs(&self) -> int { self.planning_days->Length_0.seconds as int }
    pub open spec fn node_dur(&self, n: NodeIdx) -> int { tenc(self.sp_node(n).sp_duration()) }
    pub open spec fn node_dist(&self, n: NodeIdx) -> int { denc(self.sp_node(n).sp_travel_distance()) }
    pub open spec fn leg_dist(&self, a: NodeIdx, b: NodeIdx) -> int {
        denc(self.locations.sp_distance(self.sp_node(a).sp_end_location(), self.sp_node(b).sp_start_location()))
    }
    pub open spec fn secs_or_planning(&self, d: Duration) -> int {
        match d { Duration::Length(l) => l.seconds as int, Duration::Infinity => self.planning_secs() }
    }
    pub open spec fn node_rate(&self, n: NodeIdx) -> int {
        match self.sp_node(n) {
            Node::Service(_) => self.config.costs.service_trip as int,
            Node::Maintenance(_) => self.config.costs.maintenance as int,
            _ => 0,
        }
    }
    pub open spec fn node_cost(&self, n: NodeIdx) -> int {
        self.secs_or_planning(self.sp_node(n).sp_duration()) * self.node_rate(n)
    }
    pub open spec fn leg_cost(&self, a: NodeIdx, b: NodeIdx) -> int {
        self.secs_or_planning(self.leg_time(a, b)) * (self.config.costs.dead_head_trip as int)
            + self.secs_or_planning(self.leg_idle(a, b)) * (self.config.costs.idle as int)
    }
    pub open spec fn f_node_dur(&self) -> spec_fn(NodeIdx) -> int { |n: NodeIdx| self.node_dur(n) }
    pub open spec fn f_node_dist(&self) -> spec_fn(NodeIdx) -> int { |n: NodeIdx| self.node_dist(n) }
    pub open spec fn f_node_cost(&self) -> spec_fn(NodeIdx) -> int { |n: NodeIdx| self.node_cost(n) }
    pub open spec fn f_leg_dist(&self) -> spec_fn(NodeIdx, NodeIdx) -> int { |a: NodeIdx, b: NodeIdx| self.leg_dist(a, b) }
    pub open spec fn f_leg_cost(&self) -> spec_fn(NodeIdx, NodeIdx) -> int { |a: NodeIdx, b: NodeIdx| self.leg_cost(a, b) }

    pub open spec fn spec_useful_duration(&self, s: Seq<NodeIdx>) -> Duration { tdec(nsum(s, self.f_node_dur())) }
    pub open spec fn spec_service_distance(&self, s: Seq<NodeIdx>) -> Distance { ddec(nsum(s, self.f_node_dist())) }
    pub open spec fn spec_dead_head_distance(&self, s: Seq<NodeIdx>) -> Distance { ddec(psum(s, self.f_leg_dist())) }
    pub open spec fn spec_costs(&self, s: Seq<NodeIdx>) -> int { nsum(s, self.f_node_cost()) + psum(s, self.f_leg_cost()) }
    pub open spec fn spec_visits_maintenance(&self, s: Seq<NodeIdx>) -> bool {
        exists|i: int| 0 <= i < s.len() && #[trigger] self.sp_node(s[i]) is Maintenance
    }

}

impl Tour {
    /// C09: every cached figure equals its from-scratch value
    pub open spec fn caches_ok(&self) -> bool {
        &&& self.useful_duration == self.network.spec_useful_duration(self.nodes@)
        &&& self.service_distance == self.network.spec_service_distance(self.nodes@)
        &&& self.dead_head_distance == self.network.spec_dead_head_distance(self.nodes@)
        &&& self.costs as int == self.network.spec_costs(self.nodes@)
        &&& self.visits_maintenance == self.network.spec_visits_maintenance(self.nodes@)
    }
}
