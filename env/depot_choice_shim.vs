// ---- environment of the slice `depot_choice` ------------------------------------------------------------
// Included inside `pub mod tr { use super::*; use self::im::HashMap; use crate::im_set::HashSet; … }` after
// env/im_shim.vs (env/admission_shim.vs is included at the top level of the slice: the opaque im::HashSet).
// Everything `assume_specification` / `external_body` / `axiom` / hand-written trait impl in this file is an
// ASSUMPTION (listed in the header of slices/depot_choice.vs): A-display (Display of VehicleTypeIdx), A-derive
// (PartialOrd / Ord of Distance), A-std9 (<[T]>::sort_by_key), A-iter (SeqIter::{find, rev, last}).  The rest are open
// spec functions and proved lemmas; the vocabulary copied from other slices / shims says where it comes from.
use vstd::std_specs::cmp::OrdSpec;

// A-display: `{}` of a VehicleTypeIdx (derive_more Display of the repository; a no-op outside verus!; text as in
// env/spawn_vehicle_shim.vs)
impl vstd::std_specs::fmt::DisplaySpecImpl for VehicleTypeIdx {
    open spec fn fmt_req(&self, f: &std::fmt::Formatter<'_>) -> bool { true }
}

// ---- A-derive: derived PartialOrd / Ord of Distance (`enum Distance { Distance(Meter), Infinity }`): variant
// order, then the metres -- the order of the integer encoding `denc` (env/dist_ops.vs: Infinity = 2^80) -----------
impl vstd::std_specs::cmp::PartialOrdSpecImpl for Distance {
    open spec fn obeys_partial_cmp_spec() -> bool { true }
    open spec fn partial_cmp_spec(&self, other: &Distance) -> Option<core::cmp::Ordering> { Some(int_cmp(denc(*self), denc(*other))) }
}
impl vstd::std_specs::cmp::OrdSpecImpl for Distance {
    open spec fn obeys_cmp_spec() -> bool { true }
    open spec fn cmp_spec(&self, other: &Distance) -> core::cmp::Ordering { int_cmp(denc(*self), denc(*other)) }
}
/// "at most as far as"
pub open spec fn dist_le(a: Distance, b: Distance) -> bool { denc(a) <= denc(b) }

// ---- A-std9: `<[T]>::sort_by_key` (belongs into env/std_specs.vs) ------------------------------------------------
/// `new` is `old` rearranged (new[i] == old[p[i]], p one-to-one), `ks[i]` is the key of new[i]: the keys ascend w.r.t.
/// `Ord::cmp`, and elements with equal keys are in the order they had in `old`
pub open spec fn sorted_stable_by<T, K: Ord>(old: Seq<T>, new: Seq<T>, ks: Seq<K>, p: Seq<int>) -> bool {
    &&& new.len() == old.len() && ks.len() == old.len() && p.len() == old.len()
    &&& forall|i: int| 0 <= i < p.len() ==> 0 <= #[trigger] p[i] < old.len() && new[i] == old[p[i]]
    &&& forall|i: int, j: int| #![trigger p[i], p[j]] 0 <= i < j < p.len() ==> p[i] != p[j]
    // (`cmp_spec` is `Ord::cmp` only for key types that say so)
    &&& K::obeys_cmp_spec() ==> forall|i: int, j: int| #![trigger ks[i], ks[j]] 0 <= i < j < ks.len() ==> !(ks[i].cmp_spec(&ks[j]) is Greater)
    &&& K::obeys_cmp_spec() ==> forall|i: int, j: int| #![trigger ks[i], ks[j]] 0 <= i < j < ks.len() && ks[i].cmp_spec(&ks[j]) is Equal ==> p[i] < p[j]
}
/// std: "Sorts the slice in ascending order with a key extraction function, preserving initial order of equal
/// elements.  This sort is stable (i.e., does not reorder equal elements) and O(m * n * log(n)) worst-case, where the
/// key function is O(m)."  Stated for a key function that IS a function (second precondition: its contract fixes
/// one key per element; std may evaluate the key of an element more than once):
///   * the result is a rearrangement of the input (same multiset),
///   * with `ks` = the keys of its elements and `p[i]` = the position the i-th element of the result had in the input:
///     the keys ascend w.r.t. `Ord::cmp`, and elements with equal keys keep their relative order (sorted_stable_by).
pub assume_specification<T, K: Ord, F: FnMut(&T) -> K>[ <[T]>::sort_by_key::<K, F> ](s: &mut [T], f: F)
    requires
        forall|i: int| #![trigger old(s)@[i]] 0 <= i < old(s)@.len() ==> f.requires((&old(s)@[i],)),
        forall|x: &T, k1: K, k2: K| #![trigger f.ensures((x,), k1), f.ensures((x,), k2)] f.ensures((x,), k1) && f.ensures((x,), k2) ==> k1 == k2,
    ensures
        final(s)@.to_multiset() == old(s)@.to_multiset(),
        exists|ks: Seq<K>, p: Seq<int>| #![trigger sorted_stable_by(old(s)@, final(s)@, ks, p)] sorted_stable_by(old(s)@, final(s)@, ks, p)
            && forall|i: int| #![trigger final(s)@[i]] #![trigger ks[i]] 0 <= i < final(s)@.len() ==> f.ensures((&final(s)@[i],), ks[i]);

// ---- A-iter additions (belong into env/seqiter.vs) ------------------------------------------------------------------
impl<T> SeqIter<T> {
    /// std `Iterator::find`: "Searches for an element of an iterator that satisfies a predicate.  find() takes a
    /// closure that returns true or false.  It applies this closure to each element of the iterator, and if any of
    /// them return true, then find() returns Some(element).  If they all return false, it returns None.  find() is
    /// short-circuiting": the FIRST item the predicate accepts; every item before it was refused.
    /// Declared with `self` by value (std: `&mut self`; the only call site applies it to a temporary).
    #[verifier::external_body]
    pub fn find<P: FnMut(&T) -> bool>(self, predicate: P) -> (r: Option<T>)
        requires
            forall|i: int| #![trigger self@[i]] 0 <= i < self@.len() ==> predicate.requires((&self@[i],)),
        ensures
            r is Some ==> exists|k: int| #![trigger self@[k]] 0 <= k < self@.len() && r == Some(self@[k]) && predicate.ensures((&self@[k],), true)
                && forall|i: int| #![trigger self@[i]] 0 <= i < k ==> predicate.ensures((&self@[i],), false),
            r is None ==> forall|i: int| #![trigger self@[i]] 0 <= i < self@.len() ==> predicate.ensures((&self@[i],), false),
    { unimplemented!() }

    /// std `DoubleEndedIterator::rev`: the items in reverse order (NOT used by the unchanged source: keeps an edit that
    /// searches from the far end decidable; text as in env/objective_eval_shim.vs)
    #[verifier::external_body]
    pub fn rev(self) -> (r: SeqIter<T>)
        ensures r@ == self@.reverse(),
    { unimplemented!() }

    /// std `Iterator::last`: "Consumes the iterator, returning the last element." (NOT used by the unchanged source;
    /// text as in env/fit_reassign_shim.vs)
    #[verifier::external_body]
    pub fn last(self) -> (r: Option<T>)
        ensures self@.len() == 0 ==> r is None, self@.len() > 0 ==> r == Some(self@[self@.len() - 1]),
    { unimplemented!() }
}

// =====================================================================================================
// depot admission vocabulary (C02): text copied from slices/admission.vs, where
// Schedule::can_depot_spawn_vehicle_custom_usage is verified against it
// =====================================================================================================
impl Depot {
    /// C02: the number of vehicles of a type that may start at a depot: 0 if the type is not listed,
    /// the depot's total capacity if it is listed without a limit, the smaller of both otherwise
    pub open spec fn sp_capacity_for(&self, vt: VehicleTypeIdx) -> VehicleCount {
        if !self.allowed_types@.contains_key(vt) { 0 }
        else {
            match self.allowed_types@[vt] {
                Some(c) => if c <= self.total_capacity { c } else { self.total_capacity },
                None => self.total_capacity,
            }
        }
    }
}
impl Network {
    pub open spec fn has_depot(&self, d: DepotIdx) -> bool { self.depots@.contains_key(d) }
    pub open spec fn sp_depot(&self, d: DepotIdx) -> Depot { self.depots@[d].0 }
    /// the depot a start / end depot node belongs to
    pub open spec fn sp_depot_idx_of(&self, n: NodeIdx) -> DepotIdx {
        match self.sp_node(n) {
            Node::StartDepot((_, d)) => d.depot_idx,
            Node::EndDepot((_, d)) => d.depot_idx,
            _ => arbitrary(),
        }
    }
}
/// the abstract depot usage: (depot, type) -> (vehicles spawned there, vehicles despawned there)
pub type UsageMap = Map<(DepotIdx, VehicleTypeIdx), (HashSet<VehicleIdx>, HashSet<VehicleIdx>)>;
/// C02: "the number of vehicles [of a type] starting there"
pub open spec fn spawned_of_type(du: UsageMap, d: DepotIdx, vt: VehicleTypeIdx) -> nat {
    if du.contains_key((d, vt)) { du[(d, vt)].0@.len() } else { 0 }
}
pub open spec fn spawned_counts(du: UsageMap, d: DepotIdx, types: Seq<VehicleTypeIdx>) -> Seq<int> {
    types.map_values(|vt: VehicleTypeIdx| spawned_of_type(du, d, vt) as int)
}
/// C02: "the number of vehicles starting there": the total over the given vehicle types
pub open spec fn spawned_total(du: UsageMap, d: DepotIdx, types: Seq<VehicleTypeIdx>) -> int {
    isum(spawned_counts(du, d, types))
}

// =====================================================================================================
// depot usage vocabulary (C09): text copied from env/depot_usage_shim.vs (contract of Schedule::depot_balance,
// Schedule::update_depot_usage), which cannot be included next to env/admission_shim.vs (both declare im_set)
// =====================================================================================================
/// `usage(d, vt).0`; "absent keys count as empty sets"
pub open spec fn sp_spawned(du: UsageMap, d: DepotIdx, vt: VehicleTypeIdx) -> Set<VehicleIdx> {
    if du.contains_key((d, vt)) { du[(d, vt)].0@ } else { Set::empty() }
}
/// `usage(d, vt).1`; "absent keys count as empty sets"
pub open spec fn sp_despawned(du: UsageMap, d: DepotIdx, vt: VehicleTypeIdx) -> Set<VehicleIdx> {
    if du.contains_key((d, vt)) { du[(d, vt)].1@ } else { Set::empty() }
}
/// "the number of vehicles spawned at the depot minus the number despawned there"
pub open spec fn sp_balance(du: UsageMap, d: DepotIdx, vt: VehicleTypeIdx) -> int {
    sp_spawned(du, d, vt).len() - sp_despawned(du, d, vt).len()
}
/// the entries of every vehicle but v are the same in both tables
pub open spec fn usage_same_except(du0: UsageMap, du1: UsageMap, v: VehicleIdx) -> bool {
    &&& forall|d: DepotIdx, vt: VehicleTypeIdx, u: VehicleIdx| u != v ==>
            ((#[trigger] sp_spawned(du1, d, vt).contains(u)) <==> sp_spawned(du0, d, vt).contains(u))
    &&& forall|d: DepotIdx, vt: VehicleTypeIdx, u: VehicleIdx| u != v ==>
            ((#[trigger] sp_despawned(du1, d, vt).contains(u)) <==> sp_despawned(du0, d, vt).contains(u))
}

// =====================================================================================================
// the choice of a depot (NEW)
// =====================================================================================================
impl Network {
    /// the sort key of Network::start_depots_sorted_by_distance_to: the dead-head distance FROM the node d (its start
    /// location; for a depot node: the depot's location) TO the given location
    pub open spec fn dist_to(&self, d: NodeIdx, location: Location) -> Distance {
        self.locations.sp_distance(self.sp_node(d).sp_start_location(), location)
    }
    /// the sort key of Network::end_depots_sorted_by_distance_from: the dead-head distance FROM the given location TO
    /// the node d (the code reads its START location; for a depot node start and end location are the depot's location)
    pub open spec fn dist_from(&self, location: Location, d: NodeIdx) -> Distance {
        self.locations.sp_distance(location, self.sp_node(d).sp_start_location())
    }
    /// instance validity (A-index: how Network::new fills the list): the start depot node list holds StartDepot nodes
    /// of the network whose depot is a depot of the network's depot table
    pub open spec fn start_depots_ok(&self) -> bool {
        forall|i: int| 0 <= i < self.start_depot_nodes@.len() ==> self.has(#[trigger] self.start_depot_nodes@[i])
            && self.sp_node(self.start_depot_nodes@[i]) is StartDepot
            && self.has_depot(self.sp_depot_idx_of(self.start_depot_nodes@[i]))
    }
}
/// x occurs in `list` before some occurrence of y
pub open spec fn listed_before(list: Seq<NodeIdx>, x: NodeIdx, y: NodeIdx) -> bool {
    exists|a: int, b: int| #![trigger list[a], list[b]] 0 <= a < b < list.len() && list[a] == x && list[b] == y
}
impl Network {
    /// s is in ascending order of the distance to the location
    pub open spec fn sorted_to(&self, s: Seq<NodeIdx>, location: Location) -> bool {
        forall|i: int, j: int| #![trigger s[i], s[j]] 0 <= i < j < s.len() ==> dist_le(self.dist_to(s[i], location), self.dist_to(s[j], location))
    }
    /// the tie-break of a stable sort: equally distant nodes are in the order they have in the start depot node list
    /// (opaque: the existential inside is only unfolded by the lemmas / functions that need it)
    #[verifier::opaque]
    pub open spec fn ties_to(&self, s: Seq<NodeIdx>, location: Location) -> bool {
        forall|i: int, j: int| #![trigger s[i], s[j]] 0 <= i < j < s.len() && self.dist_to(s[i], location) == self.dist_to(s[j], location)
            ==> listed_before(self.start_depot_nodes@, s[i], s[j])
    }
    /// s is in ascending order of the distance from the location
    pub open spec fn sorted_from(&self, s: Seq<NodeIdx>, location: Location) -> bool {
        forall|i: int, j: int| #![trigger s[i], s[j]] 0 <= i < j < s.len() ==> dist_le(self.dist_from(location, s[i]), self.dist_from(location, s[j]))
    }
    /// the tie-break of a stable sort: equally distant nodes are in the order they have in the end depot node list
    #[verifier::opaque]
    pub open spec fn ties_from(&self, s: Seq<NodeIdx>, location: Location) -> bool {
        forall|i: int, j: int| #![trigger s[i], s[j]] 0 <= i < j < s.len() && self.dist_from(location, s[i]) == self.dist_from(location, s[j])
            ==> listed_before(self.end_depot_nodes@, s[i], s[j])
    }
    /// what Network::start_depots_sorted_by_distance_to(location) returns: the start depot nodes, nearest first
    pub open spec fn is_start_depots_by_distance(&self, s: Seq<NodeIdx>, location: Location) -> bool {
        s.to_multiset() == self.start_depot_nodes@.to_multiset() && self.sorted_to(s, location) && self.ties_to(s, location)
    }
    /// what Network::end_depots_sorted_by_distance_from(location) returns: the end depot nodes, nearest first
    pub open spec fn is_end_depots_by_distance(&self, s: Seq<NodeIdx>, location: Location) -> bool {
        s.to_multiset() == self.end_depot_nodes@.to_multiset() && self.sorted_from(s, location) && self.ties_from(s, location)
    }
    /// the nearest end depot node (ties: the one listed first)
    pub open spec fn nearest_end_depot(&self, r: NodeIdx, location: Location) -> bool {
        &&& self.end_depot_nodes@.contains(r)
        &&& forall|d: NodeIdx| #[trigger] self.end_depot_nodes@.contains(d) ==> dist_le(self.dist_from(location, r), self.dist_from(location, d))
        &&& forall|d: NodeIdx| #[trigger] self.end_depot_nodes@.contains(d) && d != r && self.dist_from(location, d) == self.dist_from(location, r)
                ==> listed_before(self.end_depot_nodes@, r, d)
    }
}
/// the first node of the end depot nodes sorted by distance is the nearest end depot
pub proof fn lemma_first_is_nearest(net: &Network, s: Seq<NodeIdx>, location: Location)
    requires net.is_end_depots_by_distance(s, location),
    ensures
        s.len() == net.end_depot_nodes@.len(),
        s.len() > 0 ==> net.nearest_end_depot(s[0], location),
{
    let edn = net.end_depot_nodes@;
    reveal(Network::ties_from);
    lemma_perm_members(s, edn);
    if s.len() > 0 {
        assert(s.contains(s[0]));
        assert forall|d: NodeIdx| #[trigger] edn.contains(d) implies dist_le(net.dist_from(location, s[0]), net.dist_from(location, d))
            && (d != s[0] && net.dist_from(location, d) == net.dist_from(location, s[0]) ==> listed_before(edn, s[0], d)) by {
            assert(s.contains(d));
            let m = choose|m: int| 0 <= m < s.len() && s[m] == d;
            if m > 0 { assert(dist_le(net.dist_from(location, s[0]), net.dist_from(location, s[m]))); }
        }
    }
}
/// a rearrangement has the same length and the same members
pub proof fn lemma_perm_members(a: Seq<NodeIdx>, b: Seq<NodeIdx>)
    requires a.to_multiset() == b.to_multiset(),
    ensures
        a.len() == b.len(),
        forall|x: NodeIdx| #[trigger] a.contains(x) <==> b.contains(x),
        forall|i: int| 0 <= i < a.len() ==> b.contains(#[trigger] a[i]),
{
    a.to_multiset_ensures();
    b.to_multiset_ensures();
    assert forall|x: NodeIdx| #[trigger] a.contains(x) <==> b.contains(x) by {
        assert(a.to_multiset().count(x) == b.to_multiset().count(x));
        assert(a.contains(x) <==> a.to_multiset().count(x) > 0);
        assert(b.contains(x) <==> b.to_multiset().count(x) > 0);
    }
    assert forall|i: int| 0 <= i < a.len() implies b.contains(#[trigger] a[i]) by {
        assert(a.contains(a[i]));
    }
}

impl Schedule {
    /// C02 "no more vehicles start at a depot than its total and per-type capacity": the depot of the start depot node n
    /// lists the type and has room for one more vehicle of it, per type and in total, w.r.t. the usage table du.  This is
    /// (verbatim) the value Schedule::can_depot_spawn_vehicle_custom_usage is verified to return (slices/admission.vs)
    pub open spec fn sp_can_spawn(&self, n: NodeIdx, vehicle_type: VehicleTypeIdx, du: UsageMap) -> bool {
        let d = self.network.sp_depot_idx_of(n);
        &&& self.network.sp_depot(d).sp_capacity_for(vehicle_type) > 0
        &&& spawned_of_type(du, d, vehicle_type) < self.network.sp_depot(d).sp_capacity_for(vehicle_type)
        &&& spawned_total(du, d, self.network.vehicle_types.ids_sorted@) < self.network.sp_depot(d).total_capacity
    }
    /// what Schedule::can_depot_spawn_vehicle_custom_usage(n, vehicle_type, du) requires (slices/admission.vs)
    pub open spec fn spawn_check_pre(&self, n: NodeIdx, vehicle_type: VehicleTypeIdx, du: UsageMap) -> bool {
        &&& self.network.has(n) && self.network.sp_node(n).sp_is_depot()
        &&& self.network.has_depot(self.network.sp_depot_idx_of(n))
        &&& spawned_of_type(du, self.network.sp_depot_idx_of(n), vehicle_type) <= u32::MAX
        &&& spawned_total(du, self.network.sp_depot_idx_of(n), self.network.vehicle_types.ids_sorted@) <= u32::MAX
    }
    /// magnitude (`as VehicleCount` of a set size / the u32 sum over the types): the counts of the table fit u32 for the
    /// depots of the network's start depot nodes (vehicle ids are 16 bit: a set has at most 2^17 members)
    pub open spec fn usage_counts_small(&self, vehicle_type: VehicleTypeIdx, du: UsageMap) -> bool {
        forall|i: int| 0 <= i < self.network.start_depot_nodes@.len() ==> {
            let d = self.network.sp_depot_idx_of(#[trigger] self.network.start_depot_nodes@[i]);
            &&& spawned_of_type(du, d, vehicle_type) <= u32::MAX
            &&& spawned_total(du, d, self.network.vehicle_types.ids_sorted@) <= u32::MAX
        }
    }
    /// C06: some start depot node of the network can spawn a vehicle of the type w.r.t. the table
    pub open spec fn some_depot_has_room(&self, vehicle_type: VehicleTypeIdx, du: UsageMap) -> bool {
        exists|i: int| 0 <= i < self.network.start_depot_nodes@.len() && self.sp_can_spawn(#[trigger] self.network.start_depot_nodes@[i], vehicle_type, du)
    }
}

impl Schedule {
    /// the nearest start depot node with room for one more vehicle of the type w.r.t. the table (ties: the one listed first)
    pub open spec fn best_start_depot(&self, r: NodeIdx, vehicle_type: VehicleTypeIdx, location: Location, du: UsageMap) -> bool {
        let sdn = self.network.start_depot_nodes@;
        &&& sdn.contains(r)
        &&& self.sp_can_spawn(r, vehicle_type, du)
        &&& forall|d: NodeIdx| sdn.contains(d) && #[trigger] self.sp_can_spawn(d, vehicle_type, du)
                ==> dist_le(self.network.dist_to(r, location), self.network.dist_to(d, location))
        &&& forall|d: NodeIdx| sdn.contains(d) && #[trigger] self.sp_can_spawn(d, vehicle_type, du) && d != r
                && self.network.dist_to(d, location) == self.network.dist_to(r, location) ==> listed_before(sdn, r, d)
    }
    /// what the search over the sorted start depot nodes s needs and yields
    pub open spec fn choice_facts(&self, s: Seq<NodeIdx>, vehicle_type: VehicleTypeIdx, location: Location, du: UsageMap) -> bool {
        // the admission check may be asked for every item
        &&& forall|i: int| 0 <= i < s.len() ==> self.spawn_check_pre(#[trigger] s[i], vehicle_type, du)
        // some item is accepted
        &&& exists|i: int| 0 <= i < s.len() && self.sp_can_spawn(#[trigger] s[i], vehicle_type, du)
        // the first accepted item is the nearest start depot node with room
        &&& forall|k: int| 0 <= k < s.len() && #[trigger] self.sp_can_spawn(s[k], vehicle_type, du)
                && (forall|i: int| 0 <= i < k ==> !self.sp_can_spawn(#[trigger] s[i], vehicle_type, du))
                ==> self.best_start_depot(s[k], vehicle_type, location, du)
    }
}
pub proof fn lemma_choice(sch: &Schedule, s: Seq<NodeIdx>, vehicle_type: VehicleTypeIdx, location: Location, du: UsageMap)
    requires
        sch.network.is_start_depots_by_distance(s, location),
        sch.network.start_depots_ok(), sch.usage_counts_small(vehicle_type, du), sch.some_depot_has_room(vehicle_type, du),
    ensures
        sch.choice_facts(s, vehicle_type, location, du),
{
    let net = &sch.network;
    let sdn = net.start_depot_nodes@;
    reveal(Network::ties_to);
    lemma_perm_members(s, sdn);
    assert forall|i: int| 0 <= i < s.len() implies sch.spawn_check_pre(#[trigger] s[i], vehicle_type, du) by {
        assert(sdn.contains(s[i]));
        let a = choose|a: int| 0 <= a < sdn.len() && sdn[a] == s[i];
        assert(net.has(sdn[a]));
    }
    let j = choose|j: int| 0 <= j < sdn.len() && sch.sp_can_spawn(#[trigger] sdn[j], vehicle_type, du);
    assert(sdn.contains(sdn[j]));
    assert(s.contains(sdn[j]));
    let i0 = choose|i: int| 0 <= i < s.len() && s[i] == sdn[j];
    assert(sch.sp_can_spawn(s[i0], vehicle_type, du));
    assert forall|k: int| 0 <= k < s.len() && #[trigger] sch.sp_can_spawn(s[k], vehicle_type, du)
        && (forall|i: int| 0 <= i < k ==> !sch.sp_can_spawn(#[trigger] s[i], vehicle_type, du))
        implies sch.best_start_depot(s[k], vehicle_type, location, du) by {
        assert(s.contains(s[k]));
        assert forall|d: NodeIdx| sdn.contains(d) && #[trigger] sch.sp_can_spawn(d, vehicle_type, du)
            implies dist_le(net.dist_to(s[k], location), net.dist_to(d, location))
                && (d != s[k] && net.dist_to(d, location) == net.dist_to(s[k], location) ==> listed_before(sdn, s[k], d)) by {
            assert(s.contains(d));
            let m = choose|m: int| 0 <= m < s.len() && s[m] == d;
            if m < k { assert(!sch.sp_can_spawn(s[m], vehicle_type, du)); }
            if m > k { assert(dist_le(net.dist_to(s[k], location), net.dist_to(s[m], location))); }
        }
    }
}
/// instance validity: the locations of a node of the network are locations of the network
pub proof fn lemma_node_locations(net: &Network, n: NodeIdx)
    requires net.wf(), net.has(n),
    ensures net.locations.wf(), net.locations.has(net.sp_node(n).sp_start_location()), net.locations.has(net.sp_node(n).sp_end_location()),
{
    assert(net.nodes@.contains_key(n));
}

// ---- sums: a count is at most the total (text copied from slices/admission.vs) ------------------------------------------
pub proof fn lemma_isum_bounds_lo(s: Seq<int>)
    requires forall|i: int| 0 <= i < s.len() ==> 0 <= #[trigger] s[i],
    ensures 0 <= isum(s),
    decreases s.len(),
{
    if s.len() > 0 {
        let t = s.drop_last();
        assert forall|i: int| 0 <= i < t.len() implies 0 <= #[trigger] t[i] by { assert(t[i] == s[i]); }
        lemma_isum_bounds_lo(t);
    }
}
pub proof fn lemma_isum_nonneg_le(s: Seq<int>, k: int)
    requires forall|i: int| 0 <= i < s.len() ==> 0 <= #[trigger] s[i], 0 <= k < s.len(),
    ensures 0 <= s[k] <= isum(s),
    decreases s.len(),
{
    let t = s.drop_last();
    assert forall|i: int| 0 <= i < t.len() implies 0 <= #[trigger] t[i] by { assert(t[i] == s[i]); }
    lemma_isum_bounds_lo(t);
    if k < t.len() {
        lemma_isum_nonneg_le(t, k);
        assert(t[k] == s[k]);
    }
}
// ---- sums: one more vehicle of one type ---------------------------------------------------------------------------
/// if b exceeds a by at most 1 at no more than one position and nowhere else, the sum grows by at most 1
pub proof fn lemma_isum_one_more(a: Seq<int>, b: Seq<int>, k: int)
    requires
        a.len() == b.len(),
        forall|i: int| 0 <= i < a.len() && i != k ==> #[trigger] b[i] <= a[i],
        0 <= k < a.len() ==> b[k] <= a[k] + 1,
    ensures
        isum(b) <= isum(a) + (if 0 <= k < a.len() { 1int } else { 0int }),
    decreases a.len(),
{
    if a.len() > 0 {
        let n = a.len() - 1;
        let a0 = a.drop_last();
        let b0 = b.drop_last();
        assert forall|i: int| 0 <= i < a0.len() && i != k implies #[trigger] b0[i] <= a0[i] by { assert(b[i] <= a[i]); }
        lemma_isum_one_more(a0, b0, k);
        if k != n { assert(b[n] <= a[n]); }
    }
}
