// ---- environment of the slice `depot_ops` ---------------------------------------------------------------
// Included inside `pub mod tr { … }` after env/im_shim.vs, env/transition_spec.vs, env/schedule_shim.vs and
// env/sched_guard_shim.vs.  Everything `external_body` / `assume_specification` / `axiom` in this file is an
// ASSUMPTION (listed in the header of slices/depot_ops.vs).  env/depot_usage_shim.vs cannot be included next to
// env/schedule_shim.vs (both declare the module `im_set` and the type `Vehicle`) nor next to env/sched_guard_shim.vs
// (both declare `keys()` of im::HashMap), so the pieces of it that are needed here are COPIED (text unchanged):
// the methods of im::HashSet, `Entry` / `entry` / `or_insert`, and the depot-usage vocabulary.

// ---- A-im (copied from env/depot_usage_shim.vs): methods of im::HashSet --------------------------------
impl<T> self::im_set::HashSet<T> {
    /// im: `new() -> Self` (the empty set)
    #[verifier::external_body]
    pub fn new() -> (r: Self)
        ensures r@ == Set::<T>::empty(),
    { unimplemented!() }

    /// im: `insert(&mut self, a: A) -> Option<A>` (returns the previous equal element, if any)
    #[verifier::external_body]
    pub fn insert(&mut self, a: T) -> (r: Option<T>)
        ensures
            final(self)@ == old(self)@.insert(a),
            r is Some <==> old(self)@.contains(a),
    { unimplemented!() }

    /// im: `remove<BA>(&mut self, a: &BA) -> Option<A>` (returns the removed element, None if absent)
    #[verifier::external_body]
    pub fn remove(&mut self, a: &T) -> (r: Option<T>)
        ensures
            final(self)@ == old(self)@.remove(*a),
            r is Some <==> old(self)@.contains(*a),
            r is Some ==> r->Some_0 == *a,
    { unimplemented!() }
}

// ---- A-im (copied from env/depot_usage_shim.vs): `entry(k).or_insert(default)` of im::HashMap -----------
/// im: `Entry<'a, K, V, S>`, the result of `HashMap::entry`: a mutable borrow of the map plus the key.
/// `map_now` is the map when the entry was taken, `map_final` the map once the borrow ends (prophecy).
#[verifier::external_body]
#[verifier::reject_recursive_types(K)]
#[verifier::accept_recursive_types(V)]
pub struct Entry<'a, K, V> { m: &'a mut self::im::HashMap<K, V>, key: K }

impl<'a, K, V> Entry<'a, K, V> {
    pub uninterp spec fn key(&self) -> K;
    pub uninterp spec fn map_now(&self) -> Map<K, V>;
    pub uninterp spec fn map_final(&self) -> Map<K, V>;

    /// im: `or_insert(self, default: V) -> &'a mut V`: "Insert the default value provided if there was no
    /// value already, and return a mutable reference to the value."  So the reference starts at the
    /// stored value (the default if the key was absent), and when the borrow ends the map is the old
    /// map with the key bound to whatever the reference then holds.
    #[verifier::external_body]
    pub fn or_insert(self, default: V) -> (r: &'a mut V)
        ensures
            *r == (if self.map_now().contains_key(self.key()) { self.map_now()[self.key()] } else { default }),
            self.map_final() == self.map_now().insert(self.key(), *final(r)),
    { unimplemented!() }
}

impl<K, V> self::im::HashMap<K, V> {
    /// im: `entry(&mut self, key: K) -> Entry<'_, K, V, S>`
    #[verifier::external_body]
    pub fn entry(&mut self, key: K) -> (e: Entry<'_, K, V>)
        ensures e.key() == key, e.map_now() == old(self)@, e.map_final() == final(self)@,
    { unimplemented!() }
}

// =====================================================================================================
// depot usage vocabulary (C09 last part): text copied from env/depot_usage_shim.vs
// =====================================================================================================
/// the abstract depot usage: (depot, type) -> (vehicles spawned there, vehicles despawned there)
pub type UsageMap = Map<(DepotIdx, VehicleTypeIdx), (HashSet<VehicleIdx>, HashSet<VehicleIdx>)>;
pub type VehicleMap = Map<VehicleIdx, Vehicle>;
pub type TourMap = Map<VehicleIdx, Tour>;

/// `usage(d, vt).0`; "absent keys count as empty sets"
pub open spec fn sp_spawned(du: UsageMap, d: DepotIdx, vt: VehicleTypeIdx) -> Set<VehicleIdx> {
    if du.contains_key((d, vt)) { du[(d, vt)].0@ } else { Set::empty() }
}
/// `usage(d, vt).1`; "absent keys count as empty sets"
pub open spec fn sp_despawned(du: UsageMap, d: DepotIdx, vt: VehicleTypeIdx) -> Set<VehicleIdx> {
    if du.contains_key((d, vt)) { du[(d, vt)].1@ } else { Set::empty() }
}
/// the depot a start / end depot node belongs to
pub open spec fn sp_depot_idx_of(net: &Network, n: NodeIdx) -> DepotIdx {
    match net.sp_node(n) {
        Node::StartDepot((_, d)) => d.depot_idx,
        Node::EndDepot((_, d)) => d.depot_idx,
        _ => arbitrary(),
    }
}
/// "v in V of type vt whose tour's start depot node belongs to depot d"
pub open spec fn starts_at(net: &Network, vehicles: VehicleMap, tours: TourMap, v: VehicleIdx, d: DepotIdx, vt: VehicleTypeIdx) -> bool {
    &&& vehicles.contains_key(v) && tours.contains_key(v)
    &&& vehicles[v].vehicle_type.idx == vt
    &&& sp_depot_idx_of(net, sp_start_depot(&tours[v])) == d
}
/// "… whose tour's end depot node belongs to depot d"
pub open spec fn ends_at(net: &Network, vehicles: VehicleMap, tours: TourMap, v: VehicleIdx, d: DepotIdx, vt: VehicleTypeIdx) -> bool {
    &&& vehicles.contains_key(v) && tours.contains_key(v)
    &&& vehicles[v].vehicle_type.idx == vt
    &&& sp_depot_idx_of(net, sp_end_depot(&tours[v])) == d
}
/// the same, read per vehicle: v is in exactly the sets it belongs to
pub open spec fn usage_exact_for(du: UsageMap, net: &Network, vehicles: VehicleMap, tours: TourMap, v: VehicleIdx) -> bool {
    &&& forall|d: DepotIdx, vt: VehicleTypeIdx| (#[trigger] sp_spawned(du, d, vt)).contains(v) <==> starts_at(net, vehicles, tours, v, d, vt)
    &&& forall|d: DepotIdx, vt: VehicleTypeIdx| (#[trigger] sp_despawned(du, d, vt)).contains(v) <==> ends_at(net, vehicles, tours, v, d, vt)
}
/// C09: the usage table has its from-scratch value for the real vehicles `vehicles` with tours `tours`
pub open spec fn usage_exact(du: UsageMap, net: &Network, vehicles: VehicleMap, tours: TourMap) -> bool {
    forall|v: VehicleIdx| #[trigger] usage_exact_for(du, net, vehicles, tours, v)
}
/// the entries of every vehicle but v are the same in both tables
pub open spec fn usage_same_except(du0: UsageMap, du1: UsageMap, v: VehicleIdx) -> bool {
    &&& forall|d: DepotIdx, vt: VehicleTypeIdx, u: VehicleIdx| u != v ==>
            ((#[trigger] sp_spawned(du1, d, vt).contains(u)) <==> sp_spawned(du0, d, vt).contains(u))
    &&& forall|d: DepotIdx, vt: VehicleTypeIdx, u: VehicleIdx| u != v ==>
            ((#[trigger] sp_despawned(du1, d, vt).contains(u)) <==> sp_despawned(du0, d, vt).contains(u))
}
/// C09 ("… equal their from-scratch value after any modification"), one step of a modification: the
/// table was exact for the old vehicles / tours, vehicle v (and only v) changed, the table was brought
/// up to date for v and left alone for everybody else: it is exact for the new vehicles / tours
pub proof fn lemma_usage_exact_step(du0: UsageMap, du1: UsageMap, net: &Network,
        vehicles0: VehicleMap, tours0: TourMap, vehicles1: VehicleMap, tours1: TourMap, v: VehicleIdx)
    requires
        usage_exact(du0, net, vehicles0, tours0),
        usage_exact_for(du1, net, vehicles1, tours1, v),
        usage_same_except(du0, du1, v),
        forall|u: VehicleIdx| #![trigger vehicles1.contains_key(u)] #![trigger vehicles1[u]] u != v ==> (vehicles1.contains_key(u) <==> vehicles0.contains_key(u)) && vehicles1[u] == vehicles0[u],
        forall|u: VehicleIdx| #![trigger tours1.contains_key(u)] #![trigger tours1[u]] u != v ==> (tours1.contains_key(u) <==> tours0.contains_key(u)) && tours1[u] == tours0[u],
    ensures
        usage_exact(du1, net, vehicles1, tours1),
{
    assert forall|u: VehicleIdx| #[trigger] usage_exact_for(du1, net, vehicles1, tours1, u) by {
        if u != v {
            assert(usage_exact_for(du0, net, vehicles0, tours0, u));
            assert forall|d: DepotIdx, vt: VehicleTypeIdx| (#[trigger] sp_spawned(du1, d, vt)).contains(u) <==> starts_at(net, vehicles1, tours1, u, d, vt) by {
                assert(sp_spawned(du1, d, vt).contains(u) <==> sp_spawned(du0, d, vt).contains(u));
            }
            assert forall|d: DepotIdx, vt: VehicleTypeIdx| (#[trigger] sp_despawned(du1, d, vt)).contains(u) <==> ends_at(net, vehicles1, tours1, u, d, vt) by {
                assert(sp_despawned(du1, d, vt).contains(u) <==> sp_despawned(du0, d, vt).contains(u));
            }
        }
    }
}
/// a real well-formed tour over the network `net` (text as in slices/depot_usage.vs)
pub open spec fn tour_of_net(net: &Network, t: &Tour) -> bool { t.wf() && !t.is_dummy && *t.network == *net }
impl Schedule {
    /// a real vehicle of this schedule (text as in slices/depot_usage.vs)
    pub open spec fn sp_is_vehicle(&self, v: VehicleIdx) -> bool { self.vehicles@.contains_key(v) }
    pub open spec fn sp_is_dummy(&self, v: VehicleIdx) -> bool { self.dummy_tours@.contains_key(v) }
    /// part of C10 (schedule validity): a real vehicle has a real (non-dummy) well-formed tour over the
    /// schedule's network
    pub open spec fn real_tour_ok(&self, v: VehicleIdx) -> bool {
        self.tours@.contains_key(v) && tour_of_net(&self.network, &self.tours@[v])
    }
}

// =====================================================================================================
// NEW vocabulary of the slice `depot_ops`
// =====================================================================================================
/// instance validity (A-index: how Network::new fills the lists): the network's list of end (start) depot nodes
/// holds end-depot (start-depot) nodes of the network
pub open spec fn depot_nodes_ok(net: &Network) -> bool {
    &&& forall|i: int| 0 <= i < net.end_depot_nodes@.len() ==> net.has(#[trigger] net.end_depot_nodes@[i]) && net.sp_node(net.end_depot_nodes@[i]) is EndDepot
    &&& forall|i: int| 0 <= i < net.start_depot_nodes@.len() ==> net.has(#[trigger] net.start_depot_nodes@[i]) && net.sp_node(net.start_depot_nodes@[i]) is StartDepot
}

/// C13 "depot-only operations change no activity": `t` is the tour `o` with (possibly) another END depot node and
/// nothing else changed -- same length, same nodes in the same order at every other position (start depot and all
/// activities), same kind, same network
pub open spec fn only_end_depot_differs(o: &Tour, t: &Tour) -> bool {
    &&& t.nodes@ == o.nodes@.update(o.nodes@.len() - 1, sp_end_depot(t))
    &&& t.is_dummy == o.is_dummy
    &&& t.network == o.network
}
/// C13 "depot-only operations change no activity": `t` has the inner nodes (the activities) of `o` in the same order;
/// only the first and / or the last node (the depots) may differ
pub open spec fn same_activities(o: &Tour, t: &Tour) -> bool {
    &&& t.nodes@.len() == o.nodes@.len()
    &&& forall|i: int| 0 < i < o.nodes@.len() - 1 ==> #[trigger] t.nodes@[i] == o.nodes@[i]
    &&& t.is_dummy == o.is_dummy
    &&& t.network == o.network
}

impl Schedule {
    /// what the depot-only operations need of one real vehicle (part of C10): it is stored under its own id and has a
    /// valid real tour of the schedule's network with exact caches (C09) (A-len: tour_len_ok)
    pub open spec fn dp_vehicle_ok(&self, v: VehicleIdx) -> bool {
        let t = self.tours@[v];
        &&& self.vehicles@.contains_key(v) && self.vehicles@[v].idx == v
        &&& t.wf() && !t.is_dummy && *t.network == *self.network && t.caches_ok() && tour_len_ok(t.nodes@)
    }
    /// schedule-level validity as far as the depot-only operations need it (parts of C10 / C09)
    pub open spec fn dp_ok(&self) -> bool {
        let vs = sched_vehicles(self);
        // instance validity
        &&& self.network.wf()
        &&& depot_nodes_ok(&self.network)
        // C10 "listings match": the vehicle listing is duplicate-free and lists exactly the vehicles with a tour
        &&& vs.no_duplicates()
        &&& vs.len() <= max_vehicles()
        &&& forall|v: VehicleIdx| #[trigger] vs.contains(v) <==> self.tours@.contains_key(v)
        &&& forall|v: VehicleIdx| #[trigger] self.tours@.contains_key(v) ==> self.dp_vehicle_ok(v)
        // C09 / magnitudes: the schedule's costs are the tours' costs plus non-negative terms, below 2^61
        &&& tours_costs(self.tours@, vs) <= self.costs <= sched_cost_bound()
        // C09: the depot usage table has its from-scratch value
        &&& usage_exact(self.depot_usage@, &self.network, self.vehicles@, self.tours@)
    }
}

// ---- C13: the documented effect of the end-depot reassignment on one vehicle ----------------------------------
impl Schedule {
    /// `t` is the tour of v with (possibly) another end depot -- a member of the network's end depot node list -- and
    /// nothing else changed; it is a valid tour again (C01) with exact caches (C09)
    pub open spec fn end_reassigned(&self, v: VehicleIdx, t: Tour) -> bool {
        &&& only_end_depot_differs(&self.tours@[v], &t)
        &&& self.network.end_depot_nodes@.contains(sp_end_depot(&t))
        &&& t.wf()
        &&& t.caches_ok()
    }
}
/// Tour::last_non_depot: "returns the last non-depot (service node or maintenance node) of the tour, ignoring depot.
/// If the tour does only contain depots None is returned."
pub open spec fn is_last_non_depot(t: &Tour, r: Option<NodeIdx>) -> bool {
    &&& r is Some ==> exists|i: int| 0 <= i < t.len() && #[trigger] t.nodes@[i] == r->Some_0 && !t.node_at(i).sp_is_depot()
            && forall|j: int| i < j < t.len() ==> (#[trigger] t.node_at(j)).sp_is_depot()
    &&& r is None ==> forall|j: int| 0 <= j < t.len() ==> (#[trigger] t.node_at(j)).sp_is_depot()
}
/// Tour::first_non_depot (= `all_non_depot_nodes_iter().next()`): the first node that is no depot, None if there is none
pub open spec fn is_first_non_depot(t: &Tour, r: Option<NodeIdx>) -> bool {
    &&& r is Some ==> exists|i: int| 0 <= i < t.len() && #[trigger] t.nodes@[i] == r->Some_0 && !t.node_at(i).sp_is_depot()
            && forall|j: int| 0 <= j < i ==> (#[trigger] t.node_at(j)).sp_is_depot()
    &&& r is None ==> forall|j: int| 0 <= j < t.len() ==> (#[trigger] t.node_at(j)).sp_is_depot()
}
/// the last non-depot of a valid real tour is its last but one node
pub proof fn lemma_last_non_depot(t: &Tour, r: Option<NodeIdx>)
    requires
        t.wf(), !t.is_dummy,
        is_last_non_depot(t, r),
    ensures
        r == Some(t.nodes@[t.len() - 2]),
        t.network.has(t.nodes@[t.len() - 2]),
{
    let n = t.len();
    lemma_tour_kinds(t, n - 2);
    lemma_tour_kinds(t, n - 1);
    lemma_tour_kinds(t, 0);
    if r is None {
        assert(t.node_at(n - 2).sp_is_depot());
    } else {
        let i = choose|i: int| 0 <= i < t.len() && #[trigger] t.nodes@[i] == r->Some_0 && !t.node_at(i).sp_is_depot()
            && forall|j: int| i < j < t.len() ==> (#[trigger] t.node_at(j)).sp_is_depot();
        if i < n - 2 { assert(t.node_at(n - 2).sp_is_depot()); }
        if i == n - 1 { assert(t.node_at(i) is EndDepot); }
    }
}
/// the first non-depot of a valid real tour is its second node
pub proof fn lemma_first_non_depot(t: &Tour, r: Option<NodeIdx>)
    requires
        t.wf(), !t.is_dummy,
        is_first_non_depot(t, r),
    ensures
        r == Some(t.nodes@[1]),
        t.network.has(t.nodes@[1]),
{
    let n = t.len();
    lemma_tour_kinds(t, 1);
    lemma_tour_kinds(t, 0);
    if r is None {
        assert(t.node_at(1).sp_is_depot());
    } else {
        let i = choose|i: int| 0 <= i < t.len() && #[trigger] t.nodes@[i] == r->Some_0 && !t.node_at(i).sp_is_depot()
            && forall|j: int| 0 <= j < i ==> (#[trigger] t.node_at(j)).sp_is_depot();
        if i > 1 { assert(t.node_at(1).sp_is_depot()); }
        if i == 0 { assert(t.node_at(i) is StartDepot); }
    }
}
/// the table's entries of one vehicle only depend on that vehicle's tour
pub proof fn lemma_exact_for_same_tour(du: UsageMap, net: &Network, vehicles: VehicleMap, t1: TourMap, t2: TourMap, v: VehicleIdx)
    requires
        usage_exact_for(du, net, vehicles, t1, v),
        t1.contains_key(v) <==> t2.contains_key(v),
        t1[v] == t2[v],
    ensures usage_exact_for(du, net, vehicles, t2, v),
{
    assert forall|d: DepotIdx, vt: VehicleTypeIdx| (#[trigger] sp_spawned(du, d, vt)).contains(v) <==> starts_at(net, vehicles, t2, v, d, vt) by {
        assert(starts_at(net, vehicles, t1, v, d, vt) <==> starts_at(net, vehicles, t2, v, d, vt));
    }
    assert forall|d: DepotIdx, vt: VehicleTypeIdx| (#[trigger] sp_despawned(du, d, vt)).contains(v) <==> ends_at(net, vehicles, t2, v, d, vt) by {
        assert(ends_at(net, vehicles, t1, v, d, vt) <==> ends_at(net, vehicles, t2, v, d, vt));
    }
}

// =====================================================================================================
// recompute_transitions_and_violation_fast
// =====================================================================================================
/// A-stub: the transition `Transition::new_fast` builds for the listed vehicles from their tours (NOT under contract in
/// any slice: an uninterpreted value)
pub uninterp spec fn spec_new_fast(vehicles: Seq<VehicleIdx>, tours: Map<VehicleIdx, Tour>, net: Network) -> Transition;

pub type IdLists = Map<VehicleTypeIdx, Vec<VehicleIdx>>;

/// vt is one of the first k listed types
pub open spec fn type_done(list: Seq<VehicleTypeIdx>, k: int, vt: VehicleTypeIdx) -> bool { exists|j: int| 0 <= j < k && #[trigger] list[j] == vt }
/// magnitude: the number of vehicles in the old transitions plus the number of listed ids, over the types `vts`
pub open spec fn cap_sum(trs: Map<VehicleTypeIdx, Transition>, ids: IdLists, vts: Seq<VehicleTypeIdx>) -> int
    decreases vts.len(),
{
    if vts.len() == 0 { 0 } else { cap_sum(trs, ids, vts.drop_last()) + trs[vts.last()].total_len() + ids[vts.last()]@.len() }
}
/// the rebuilt transition of a type
pub open spec fn rebuilt(ids: IdLists, tours: Map<VehicleIdx, Tour>, net: Network, vt: VehicleTypeIdx) -> Transition {
    spec_new_fast(ids[vt]@, tours, net)
}
impl Schedule {
    /// the precondition of recompute_transitions_and_violation_fast
    pub open spec fn rc_pre(&self, trs: Map<VehicleTypeIdx, Transition>, mv: int, ids: IdLists, tours: Map<VehicleIdx, Tour>, list: Seq<VehicleTypeIdx>) -> bool {
        let vts = sched_types(self);
        // C10: there is one transition per vehicle type of the network (`.expect("Each vehicle type must be a key in transitions.")`)
        &&& vts.no_duplicates()
        &&& forall|vt: VehicleTypeIdx| #[trigger] trs.contains_key(vt) <==> vts.contains(vt)
        // every listed type is a vehicle type of the network and has an id list (`vehicle_ids_grouped_by_type.get(..).unwrap()`)
        &&& forall|i: int| 0 <= i < list.len() ==> vts.contains(#[trigger] list[i]) && ids.contains_key(list[i])
        // C10 "listings match": every listed id has a tour (`tours.get(vehicle_id).unwrap()` in Transition::new_fast)
        &&& forall|i: int, j: int| 0 <= i < list.len() && 0 <= j < ids[list[i]]@.len() ==> tours.contains_key(#[trigger] ids[#[trigger] list[i]]@[j])
        // C09 for the old schedule: "the schedule's maintenance violation equals its from-scratch value"
        &&& mv == viol_sum(trs, vts)
        // magnitudes: the old transitions' violations are at most 2^41 per vehicle (what C15 consistency implies,
        // TView::lemma_bounds), and there are at most 2^18 vehicles in old transitions and id lists together
        &&& forall|vt: VehicleTypeIdx| #[trigger] trs.contains_key(vt) ==> 0 <= trs[vt].total_maintenance_violation <= trs[vt].total_len() * vehicle_bound()
        &&& cap_sum(trs, ids, vts) <= 2 * max_vehicles()
    }
    /// the state after the first k listed types have been rebuilt
    pub open spec fn rc_inv(&self, trs0: Map<VehicleTypeIdx, Transition>, trs: Map<VehicleTypeIdx, Transition>, ids: IdLists, tours: Map<VehicleIdx, Tour>,
        list: Seq<VehicleTypeIdx>, k: int) -> bool {
        &&& forall|vt: VehicleTypeIdx| trs0.contains_key(vt) <==> #[trigger] trs.contains_key(vt)
        &&& forall|vt: VehicleTypeIdx| #[trigger] trs.contains_key(vt) ==>
                trs[vt] == (if type_done(list, k, vt) { rebuilt(ids, tours, *self.network, vt) } else { trs0[vt] })
    }
    /// the postcondition of recompute_transitions_and_violation_fast: same key set; the transition of every listed type
    /// is what Transition::new_fast builds from the type's id list and the given tours, the others are untouched
    pub open spec fn rc_post(&self, trs0: Map<VehicleTypeIdx, Transition>, trs: Map<VehicleTypeIdx, Transition>, ids: IdLists, tours: Map<VehicleIdx, Tour>,
        list: Seq<VehicleTypeIdx>) -> bool {
        &&& forall|vt: VehicleTypeIdx| trs0.contains_key(vt) <==> #[trigger] trs.contains_key(vt)
        &&& forall|vt: VehicleTypeIdx| #[trigger] trs.contains_key(vt) ==>
                trs[vt] == (if list.contains(vt) { rebuilt(ids, tours, *self.network, vt) } else { trs0[vt] })
    }
    /// magnitude of a rebuilt transition's violation (ensured by the stub of Transition::new_fast)
    pub open spec fn rebuilt_small(ids: IdLists, tours: Map<VehicleIdx, Tour>, net: Network, vt: VehicleTypeIdx) -> bool {
        0 <= rebuilt(ids, tours, net, vt).total_maintenance_violation <= ids[vt]@.len() * vehicle_bound()
    }
}
/// magnitudes: if every transition is an old one or a rebuilt one (with a small violation), the violation sum is small
pub proof fn lemma_viol_cap(trs0: Map<VehicleTypeIdx, Transition>, trs: Map<VehicleTypeIdx, Transition>, ids: IdLists, vts: Seq<VehicleTypeIdx>)
    requires
        forall|i: int| 0 <= i < vts.len() ==> 0 <= (#[trigger] trs0[vts[i]]).total_maintenance_violation <= trs0[vts[i]].total_len() * vehicle_bound(),
        forall|i: int| 0 <= i < vts.len() ==> (#[trigger] trs[vts[i]]) == trs0[vts[i]]
            || 0 <= trs[vts[i]].total_maintenance_violation <= ids[vts[i]]@.len() * vehicle_bound(),
    ensures
        0 <= viol_sum(trs, vts) <= cap_sum(trs0, ids, vts) * vehicle_bound(),
        0 <= cap_sum(trs0, ids, vts),
        forall|i: int| 0 <= i < vts.len() ==> 0 <= (#[trigger] trs0[vts[i]]).total_len() + ids[vts[i]]@.len() <= cap_sum(trs0, ids, vts),
    decreases vts.len(),
{
    if vts.len() > 0 {
        let d = vts.drop_last();
        let n = vts.len() as int;
        let vt = vts.last();
        assert(vt == vts[n - 1]);
        assert forall|i: int| 0 <= i < d.len() implies 0 <= (#[trigger] trs0[d[i]]).total_maintenance_violation <= trs0[d[i]].total_len() * vehicle_bound() by { assert(d[i] == vts[i]); }
        assert forall|i: int| 0 <= i < d.len() implies (#[trigger] trs[d[i]]) == trs0[d[i]]
            || 0 <= trs[d[i]].total_maintenance_violation <= ids[d[i]]@.len() * vehicle_bound() by { assert(d[i] == vts[i]); }
        lemma_viol_cap(trs0, trs, ids, d);
        let a = cap_sum(trs0, ids, d);
        let b = trs0[vt].total_len();
        let c = ids[vt]@.len() as int;
        lemma_sum_nonneg(lens_of(trs0[vt]@.cycles));
        assert(b >= 0);
        assert((a + b + c) * vehicle_bound() == a * vehicle_bound() + b * vehicle_bound() + c * vehicle_bound()) by (nonlinear_arith);
        assert(0 <= b * vehicle_bound() && 0 <= c * vehicle_bound()) by (nonlinear_arith) requires b >= 0, c >= 0, vehicle_bound() > 0;
        assert forall|i: int| 0 <= i < vts.len() implies 0 <= (#[trigger] trs0[vts[i]]).total_len() + ids[vts[i]]@.len() <= cap_sum(trs0, ids, vts) by {
            if i < n - 1 { assert(d[i] == vts[i]); assert(0 <= trs0[d[i]].total_len() + ids[d[i]]@.len() <= a); }
        }
    } else {
        assert(0 * vehicle_bound() == 0);
    }
}
/// one more listed type is done
pub proof fn lemma_type_done_step(list: Seq<VehicleTypeIdx>, k: int)
    requires 0 <= k < list.len(),
    ensures forall|x: VehicleTypeIdx| type_done(list, k + 1, x) <==> (type_done(list, k, x) || x == list[k]),
{
    assert forall|x: VehicleTypeIdx| type_done(list, k + 1, x) <==> (type_done(list, k, x) || x == list[k]) by {
        if type_done(list, k + 1, x) {
            let j = choose|j: int| 0 <= j < k + 1 && #[trigger] list[j] == x;
            if j < k { assert(type_done(list, k, x)); }
        }
        if type_done(list, k, x) {
            let j = choose|j: int| 0 <= j < k && #[trigger] list[j] == x;
            assert(0 <= j < k + 1 && list[j] == x);
        }
        if x == list[k] { assert(0 <= k < k + 1 && list[k] == x); }
    }
}

// =====================================================================================================
// improve_depots_of_tour / improve_depots
// =====================================================================================================

/// C13 "depot-only operations change no activity": `t` is the tour `o` with (possibly) another start depot node and
/// (possibly) another end depot node -- members of the network's start / end depot node lists -- and nothing else
/// changed; it is a valid tour again (C01) with exact caches (C09)
pub open spec fn depots_replaced(net: &Network, o: &Tour, t: &Tour) -> bool {
    &&& t.nodes@ == o.nodes@.update(0, sp_start_depot(t)).update(o.nodes@.len() - 1, sp_end_depot(t))
    &&& t.is_dummy == o.is_dummy
    &&& t.network == o.network
    &&& net.start_depot_nodes@.contains(sp_start_depot(t))
    &&& net.end_depot_nodes@.contains(sp_end_depot(t))
    &&& t.wf()
    &&& t.caches_ok()
}
/// ... in particular the activities are the same, in the same order
pub proof fn lemma_replaced_same_activities(net: &Network, o: &Tour, t: &Tour)
    requires depots_replaced(net, o, t), o.nodes@.len() >= 2,
    ensures same_activities(o, t),
{
}
