// ---- environment of the slice `depot_ops` ---------------------------------------------------------------
// Included inside `pub mod tr { … }` after env/im_shim.vs, env/transition_spec.vs, env/schedule_shim.vs and
// env/sched_guard_shim.vs.  Everything `external_body` / `assume_specification` / `axiom` in this file is an
// ASSUMPTION (listed in the header of slices/depot_ops.vs).  env/depot_usage_shim.vs cannot be included next to
// env/schedule_shim.vs (both declare the module `im_set` and the type `Vehicle`) nor next to env/sched_guard_shim.vs
// (both declare `keys()` of im::HashMap), so the pieces of it that are needed here are COPIED (text unchanged):
// the methods of im::HashSet, `Entry` / `entry` / `or_insert`, and the depot-usage vocabulary.  NEW assumptions of this file:
// im::HashMap::get_mut (A-im) and the uninterpreted `spec_new_fast` (what Transition::new_fast builds).  Everything else is open
// spec functions and proved lemmas.
// LAST BUT ONE SECTION: the vocabulary of the contracts of Network::end_depots_sorted_by_distance_from / Schedule::find_best_start_
// depot_for_spawning / find_best_end_depot_for_despawning, COPIED (text unchanged) from env/depot_choice_shim.vs (which declares
// UsageMap, sp_spawned, … again and cannot be included), lemma_depot_without_type_limit_suffices from slices/depot_choice.vs, and NEW:
// Schedule::{improve_progress, dp_room_ok, end_is_nearest}.  No assumption in that section.
// LAST SECTION (CLOSURE): the results of the depot-only operations satisfy dp_ok / rc_base / dp_transitions_ok again.  ONE new
// assumption: axiom_sched_vehicles_frame (A-iter: the listing only depends on the network's vehicle types and the id lists).
// given_ok / new_fast_post are the vocabulary of the contract of Transition::new_fast (text of env/new_fast_shim.vs / the header of
// slices/new_fast.vs); the assumption itself is the stub in slices/depot_ops.vs.  Everything else there: open spec functions and
// proved lemmas (the counting lemmas dpcl_* are copied from env/sched_ctor_shim.vs / env/add_path_shim.vs, text unchanged).

// ---- A-im (copied from env/depot_usage_shim.vs): methods of im::HashSet --------------------------------
impl<T> self::im_set::HashSet<T> {
    /// im: `new() -> Self` (the empty set)
    #[verifier::external_body]
    pub fn new() -> (r: Self)
        ensures r@ == Set::<T>::empty(),
    { unimplemented!() }

    /// im: `insert(&mut self, a: A) -> Option<A>` (returns the previous equal element, if any)
    #[verifier::external_body]
    pub fn insert(&mut self, a: T) -> (r: Option<T>)
        ensures
            final(self)@ == old(self)@.insert(a),
            r is Some <==> old(self)@.contains(a),
    { unimplemented!() }

    /// im: `remove<BA>(&mut self, a: &BA) -> Option<A>` (returns the removed element, None if absent)
    #[verifier::external_body]
    pub fn remove(&mut self, a: &T) -> (r: Option<T>)
        ensures
            final(self)@ == old(self)@.remove(*a),
            r is Some <==> old(self)@.contains(*a),
            r is Some ==> r->Some_0 == *a,
    { unimplemented!() }
}

// ---- A-im (copied from env/depot_usage_shim.vs): `entry(k).or_insert(default)` of im::HashMap -----------
/// im: `Entry<'a, K, V, S>`, the result of `HashMap::entry`: a mutable borrow of the map plus the key.
/// `map_now` is the map when the entry was taken, `map_final` the map once the borrow ends (prophecy).
#[verifier::external_body]
#[verifier::reject_recursive_types(K)]
#[verifier::accept_recursive_types(V)]
pub struct Entry<'a, K, V> { m: &'a mut self::im::HashMap<K, V>, key: K }

impl<'a, K, V> Entry<'a, K, V> {
    pub uninterp spec fn key(&self) -> K;
    pub uninterp spec fn map_now(&self) -> Map<K, V>;
    pub uninterp spec fn map_final(&self) -> Map<K, V>;

    /// im: `or_insert(self, default: V) -> &'a mut V`: "Insert the default value provided if there was no
    /// value already, and return a mutable reference to the value."  So the reference starts at the
    /// stored value (the default if the key was absent), and when the borrow ends the map is the old
    /// map with the key bound to whatever the reference then holds.
    #[verifier::external_body]
    pub fn or_insert(self, default: V) -> (r: &'a mut V)
        ensures
            *r == (if self.map_now().contains_key(self.key()) { self.map_now()[self.key()] } else { default }),
            self.map_final() == self.map_now().insert(self.key(), *final(r)),
    { unimplemented!() }
}

impl<K, V> self::im::HashMap<K, V> {
    /// im: `entry(&mut self, key: K) -> Entry<'_, K, V, S>`
    #[verifier::external_body]
    pub fn entry(&mut self, key: K) -> (e: Entry<'_, K, V>)
        ensures e.key() == key, e.map_now() == old(self)@, e.map_final() == final(self)@,
    { unimplemented!() }
}

// =====================================================================================================
// depot usage vocabulary (C09 last part): text copied from env/depot_usage_shim.vs
// =====================================================================================================
/// the abstract depot usage: (depot, type) -> (vehicles spawned there, vehicles despawned there)
pub type UsageMap = Map<(DepotIdx, VehicleTypeIdx), (HashSet<VehicleIdx>, HashSet<VehicleIdx>)>;
pub type VehicleMap = Map<VehicleIdx, Vehicle>;
pub type TourMap = Map<VehicleIdx, Tour>;

/// `usage(d, vt).0`; "absent keys count as empty sets"
pub open spec fn sp_spawned(du: UsageMap, d: DepotIdx, vt: VehicleTypeIdx) -> Set<VehicleIdx> {
    if du.contains_key((d, vt)) { du[(d, vt)].0@ } else { Set::empty() }
}
/// `usage(d, vt).1`; "absent keys count as empty sets"
pub open spec fn sp_despawned(du: UsageMap, d: DepotIdx, vt: VehicleTypeIdx) -> Set<VehicleIdx> {
    if du.contains_key((d, vt)) { du[(d, vt)].1@ } else { Set::empty() }
}
/// the depot a start / end depot node belongs to
pub open spec fn sp_depot_idx_of(net: &Network, n: NodeIdx) -> DepotIdx {
    match net.sp_node(n) {
        Node::StartDepot((_, d)) => d.depot_idx,
        Node::EndDepot((_, d)) => d.depot_idx,
        _ => arbitrary(),
    }
}
/// "v in V of type vt whose tour's start depot node belongs to depot d"
pub open spec fn starts_at(net: &Network, vehicles: VehicleMap, tours: TourMap, v: VehicleIdx, d: DepotIdx, vt: VehicleTypeIdx) -> bool {
    &&& vehicles.contains_key(v) && tours.contains_key(v)
    &&& vehicles[v].vehicle_type.idx == vt
    &&& sp_depot_idx_of(net, sp_start_depot(&tours[v])) == d
}
/// "… whose tour's end depot node belongs to depot d"
pub open spec fn ends_at(net: &Network, vehicles: VehicleMap, tours: TourMap, v: VehicleIdx, d: DepotIdx, vt: VehicleTypeIdx) -> bool {
    &&& vehicles.contains_key(v) && tours.contains_key(v)
    &&& vehicles[v].vehicle_type.idx == vt
    &&& sp_depot_idx_of(net, sp_end_depot(&tours[v])) == d
}
/// the same, read per vehicle: v is in exactly the sets it belongs to
pub open spec fn usage_exact_for(du: UsageMap, net: &Network, vehicles: VehicleMap, tours: TourMap, v: VehicleIdx) -> bool {
    &&& forall|d: DepotIdx, vt: VehicleTypeIdx| (#[trigger] sp_spawned(du, d, vt)).contains(v) <==> starts_at(net, vehicles, tours, v, d, vt)
    &&& forall|d: DepotIdx, vt: VehicleTypeIdx| (#[trigger] sp_despawned(du, d, vt)).contains(v) <==> ends_at(net, vehicles, tours, v, d, vt)
}
/// C09: the usage table has its from-scratch value for the real vehicles `vehicles` with tours `tours`
pub open spec fn usage_exact(du: UsageMap, net: &Network, vehicles: VehicleMap, tours: TourMap) -> bool {
    forall|v: VehicleIdx| #[trigger] usage_exact_for(du, net, vehicles, tours, v)
}
/// the entries of every vehicle but v are the same in both tables
pub open spec fn usage_same_except(du0: UsageMap, du1: UsageMap, v: VehicleIdx) -> bool {
    &&& forall|d: DepotIdx, vt: VehicleTypeIdx, u: VehicleIdx| u != v ==>
            ((#[trigger] sp_spawned(du1, d, vt).contains(u)) <==> sp_spawned(du0, d, vt).contains(u))
    &&& forall|d: DepotIdx, vt: VehicleTypeIdx, u: VehicleIdx| u != v ==>
            ((#[trigger] sp_despawned(du1, d, vt).contains(u)) <==> sp_despawned(du0, d, vt).contains(u))
}
/// C09 ("… equal their from-scratch value after any modification"), one step of a modification: the
/// table was exact for the old vehicles / tours, vehicle v (and only v) changed, the table was brought
/// up to date for v and left alone for everybody else: it is exact for the new vehicles / tours
pub proof fn lemma_usage_exact_step(du0: UsageMap, du1: UsageMap, net: &Network,
        vehicles0: VehicleMap, tours0: TourMap, vehicles1: VehicleMap, tours1: TourMap, v: VehicleIdx)
    requires
        usage_exact(du0, net, vehicles0, tours0),
        usage_exact_for(du1, net, vehicles1, tours1, v),
        usage_same_except(du0, du1, v),
        forall|u: VehicleIdx| #![trigger vehicles1.contains_key(u)] #![trigger vehicles1[u]] u != v ==> (vehicles1.contains_key(u) <==> vehicles0.contains_key(u)) && vehicles1[u] == vehicles0[u],
        forall|u: VehicleIdx| #![trigger tours1.contains_key(u)] #![trigger tours1[u]] u != v ==> (tours1.contains_key(u) <==> tours0.contains_key(u)) && tours1[u] == tours0[u],
    ensures
        usage_exact(du1, net, vehicles1, tours1),
{
    assert forall|u: VehicleIdx| #[trigger] usage_exact_for(du1, net, vehicles1, tours1, u) by {
        if u != v {
            assert(usage_exact_for(du0, net, vehicles0, tours0, u));
            assert forall|d: DepotIdx, vt: VehicleTypeIdx| (#[trigger] sp_spawned(du1, d, vt)).contains(u) <==> starts_at(net, vehicles1, tours1, u, d, vt) by {
                assert(sp_spawned(du1, d, vt).contains(u) <==> sp_spawned(du0, d, vt).contains(u));
            }
            assert forall|d: DepotIdx, vt: VehicleTypeIdx| (#[trigger] sp_despawned(du1, d, vt)).contains(u) <==> ends_at(net, vehicles1, tours1, u, d, vt) by {
                assert(sp_despawned(du1, d, vt).contains(u) <==> sp_despawned(du0, d, vt).contains(u));
            }
        }
    }
}
/// a real well-formed tour over the network `net` (text as in slices/depot_usage.vs)
pub open spec fn tour_of_net(net: &Network, t: &Tour) -> bool { t.wf() && !t.is_dummy && *t.network == *net }
impl Schedule {
    /// a real vehicle of this schedule (text as in slices/depot_usage.vs)
    pub open spec fn sp_is_vehicle(&self, v: VehicleIdx) -> bool { self.vehicles@.contains_key(v) }
    pub open spec fn sp_is_dummy(&self, v: VehicleIdx) -> bool { self.dummy_tours@.contains_key(v) }
    /// part of C10 (schedule validity): a real vehicle has a real (non-dummy) well-formed tour over the
    /// schedule's network
    pub open spec fn real_tour_ok(&self, v: VehicleIdx) -> bool {
        self.tours@.contains_key(v) && tour_of_net(&self.network, &self.tours@[v])
    }
}

// =====================================================================================================
// NEW vocabulary of the slice `depot_ops`
// =====================================================================================================
/// instance validity (A-index: how Network::new fills the lists): the network's list of end (start) depot nodes
/// holds end-depot (start-depot) nodes of the network
pub open spec fn depot_nodes_ok(net: &Network) -> bool {
    &&& forall|i: int| 0 <= i < net.end_depot_nodes@.len() ==> net.has(#[trigger] net.end_depot_nodes@[i]) && net.sp_node(net.end_depot_nodes@[i]) is EndDepot
    &&& forall|i: int| 0 <= i < net.start_depot_nodes@.len() ==> net.has(#[trigger] net.start_depot_nodes@[i]) && net.sp_node(net.start_depot_nodes@[i]) is StartDepot
}

/// C13 "depot-only operations change no activity": `t` is the tour `o` with (possibly) another END depot node and
/// nothing else changed -- same length, same nodes in the same order at every other position (start depot and all
/// activities), same kind, same network
pub open spec fn only_end_depot_differs(o: &Tour, t: &Tour) -> bool {
    &&& t.nodes@ == o.nodes@.update(o.nodes@.len() - 1, sp_end_depot(t))
    &&& t.is_dummy == o.is_dummy
    &&& t.network == o.network
}
/// C13 "depot-only operations change no activity": `t` has the inner nodes (the activities) of `o` in the same order;
/// only the first and / or the last node (the depots) may differ
pub open spec fn same_activities(o: &Tour, t: &Tour) -> bool {
    &&& t.nodes@.len() == o.nodes@.len()
    &&& forall|i: int| 0 < i < o.nodes@.len() - 1 ==> #[trigger] t.nodes@[i] == o.nodes@[i]
    &&& t.is_dummy == o.is_dummy
    &&& t.network == o.network
}

impl Schedule {
    /// what the depot-only operations need of one real vehicle (part of C10): it is stored under its own id and has a
    /// valid real tour of the schedule's network with exact caches (C09) (A-len: tour_len_ok)
    pub open spec fn dp_vehicle_ok(&self, v: VehicleIdx) -> bool {
        let t = self.tours@[v];
        &&& self.vehicles@.contains_key(v) && self.vehicles@[v].idx == v
        &&& t.wf() && !t.is_dummy && *t.network == *self.network && t.caches_ok() && tour_len_ok(t.nodes@)
    }
    /// schedule-level validity as far as the depot-only operations need it (parts of C10 / C09)
    pub open spec fn dp_ok(&self) -> bool {
        let vs = sched_vehicles(self);
        // instance validity
        &&& self.network.wf()
        &&& depot_nodes_ok(&self.network)
        // C10 "listings match": the vehicle listing is duplicate-free and lists exactly the vehicles with a tour
        &&& vs.no_duplicates()
        &&& vs.len() <= max_vehicles()
        &&& forall|v: VehicleIdx| #[trigger] vs.contains(v) <==> self.tours@.contains_key(v)
        &&& forall|v: VehicleIdx| #[trigger] self.tours@.contains_key(v) ==> self.dp_vehicle_ok(v)
        // C09 / magnitudes: the schedule's costs are the tours' costs plus non-negative terms, below 2^61
        &&& tours_costs(self.tours@, vs) <= self.costs <= sched_cost_bound()
        // C09: the depot usage table has its from-scratch value
        &&& usage_exact(self.depot_usage@, &self.network, self.vehicles@, self.tours@)
    }
}

// ---- C13: the documented effect of the end-depot reassignment on one vehicle ----------------------------------
impl Schedule {
    /// `t` is the tour of v with (possibly) another end depot -- a member of the network's end depot node list -- and
    /// nothing else changed; it is a valid tour again (C01) with exact caches (C09)
    pub open spec fn end_reassigned(&self, v: VehicleIdx, t: Tour) -> bool {
        &&& only_end_depot_differs(&self.tours@[v], &t)
        &&& self.network.end_depot_nodes@.contains(sp_end_depot(&t))
        &&& t.wf()
        &&& t.caches_ok()
    }
}
/// Tour::last_non_depot: "returns the last non-depot (service node or maintenance node) of the tour, ignoring depot.
/// If the tour does only contain depots None is returned."
pub open spec fn is_last_non_depot(t: &Tour, r: Option<NodeIdx>) -> bool {
    &&& r is Some ==> exists|i: int| 0 <= i < t.len() && #[trigger] t.nodes@[i] == r->Some_0 && !t.node_at(i).sp_is_depot()
            && forall|j: int| i < j < t.len() ==> (#[trigger] t.node_at(j)).sp_is_depot()
    &&& r is None ==> forall|j: int| 0 <= j < t.len() ==> (#[trigger] t.node_at(j)).sp_is_depot()
}
/// Tour::first_non_depot (= `all_non_depot_nodes_iter().next()`): the first node that is no depot, None if there is none
pub open spec fn is_first_non_depot(t: &Tour, r: Option<NodeIdx>) -> bool {
    &&& r is Some ==> exists|i: int| 0 <= i < t.len() && #[trigger] t.nodes@[i] == r->Some_0 && !t.node_at(i).sp_is_depot()
            && forall|j: int| 0 <= j < i ==> (#[trigger] t.node_at(j)).sp_is_depot()
    &&& r is None ==> forall|j: int| 0 <= j < t.len() ==> (#[trigger] t.node_at(j)).sp_is_depot()
}
/// the last non-depot of a valid real tour is its last but one node
pub proof fn lemma_last_non_depot(t: &Tour, r: Option<NodeIdx>)
    requires
        t.wf(), !t.is_dummy,
        is_last_non_depot(t, r),
    ensures
        r == Some(t.nodes@[t.len() - 2]),
        t.network.has(t.nodes@[t.len() - 2]),
{
    let n = t.len();
    lemma_tour_kinds(t, n - 2);
    lemma_tour_kinds(t, n - 1);
    lemma_tour_kinds(t, 0);
    if r is None {
        assert(t.node_at(n - 2).sp_is_depot());
    } else {
        let i = choose|i: int| 0 <= i < t.len() && #[trigger] t.nodes@[i] == r->Some_0 && !t.node_at(i).sp_is_depot()
            && forall|j: int| i < j < t.len() ==> (#[trigger] t.node_at(j)).sp_is_depot();
        if i < n - 2 { assert(t.node_at(n - 2).sp_is_depot()); }
        if i == n - 1 { assert(t.node_at(i) is EndDepot); }
    }
}
/// the first non-depot of a valid real tour is its second node
pub proof fn lemma_first_non_depot(t: &Tour, r: Option<NodeIdx>)
    requires
        t.wf(), !t.is_dummy,
        is_first_non_depot(t, r),
    ensures
        r == Some(t.nodes@[1]),
        t.network.has(t.nodes@[1]),
{
    let n = t.len();
    lemma_tour_kinds(t, 1);
    lemma_tour_kinds(t, 0);
    if r is None {
        assert(t.node_at(1).sp_is_depot());
    } else {
        let i = choose|i: int| 0 <= i < t.len() && #[trigger] t.nodes@[i] == r->Some_0 && !t.node_at(i).sp_is_depot()
            && forall|j: int| 0 <= j < i ==> (#[trigger] t.node_at(j)).sp_is_depot();
        if i > 1 { assert(t.node_at(1).sp_is_depot()); }
        if i == 0 { assert(t.node_at(i) is StartDepot); }
    }
}
/// the table's entries of one vehicle only depend on that vehicle's tour
pub proof fn lemma_exact_for_same_tour(du: UsageMap, net: &Network, vehicles: VehicleMap, t1: TourMap, t2: TourMap, v: VehicleIdx)
    requires
        usage_exact_for(du, net, vehicles, t1, v),
        t1.contains_key(v) <==> t2.contains_key(v),
        t1[v] == t2[v],
    ensures usage_exact_for(du, net, vehicles, t2, v),
{
    assert forall|d: DepotIdx, vt: VehicleTypeIdx| (#[trigger] sp_spawned(du, d, vt)).contains(v) <==> starts_at(net, vehicles, t2, v, d, vt) by {
        assert(starts_at(net, vehicles, t1, v, d, vt) <==> starts_at(net, vehicles, t2, v, d, vt));
    }
    assert forall|d: DepotIdx, vt: VehicleTypeIdx| (#[trigger] sp_despawned(du, d, vt)).contains(v) <==> ends_at(net, vehicles, t2, v, d, vt) by {
        assert(ends_at(net, vehicles, t1, v, d, vt) <==> ends_at(net, vehicles, t2, v, d, vt));
    }
}

// =====================================================================================================
// recompute_transitions_and_violation_fast
// =====================================================================================================
/// A-stub: the transition `Transition::new_fast` builds for the listed vehicles from their tours (NOT under contract in
/// any slice: an uninterpreted value)
pub uninterp spec fn spec_new_fast(vehicles: Seq<VehicleIdx>, tours: Map<VehicleIdx, Tour>, net: Network) -> Transition;

pub type IdLists = Map<VehicleTypeIdx, Vec<VehicleIdx>>;

/// vt is one of the first k listed types
pub open spec fn type_done(list: Seq<VehicleTypeIdx>, k: int, vt: VehicleTypeIdx) -> bool { exists|j: int| 0 <= j < k && #[trigger] list[j] == vt }
/// magnitude: the number of vehicles in the old transitions plus the number of listed ids, over the types `vts`
pub open spec fn cap_sum(trs: Map<VehicleTypeIdx, Transition>, ids: IdLists, vts: Seq<VehicleTypeIdx>) -> int
    decreases vts.len(),
{
    if vts.len() == 0 { 0 } else { cap_sum(trs, ids, vts.drop_last()) + trs[vts.last()].total_len() + ids[vts.last()]@.len() }
}
/// the rebuilt transition of a type
pub open spec fn rebuilt(ids: IdLists, tours: Map<VehicleIdx, Tour>, net: Network, vt: VehicleTypeIdx) -> Transition {
    spec_new_fast(ids[vt]@, tours, net)
}
impl Schedule {
    /// the precondition of recompute_transitions_and_violation_fast but for the magnitude of the rebuilt transitions
    pub open spec fn rc_base(&self, trs: Map<VehicleTypeIdx, Transition>, mv: int, ids: IdLists, tours: Map<VehicleIdx, Tour>, list: Seq<VehicleTypeIdx>) -> bool {
        let vts = sched_types(self);
        // C10: there is one transition per vehicle type of the network (`.expect("Each vehicle type must be a key in transitions.")`)
        &&& vts.no_duplicates()
        &&& forall|vt: VehicleTypeIdx| #[trigger] trs.contains_key(vt) <==> vts.contains(vt)
        // every listed type is a vehicle type of the network and has an id list (`vehicle_ids_grouped_by_type.get(..).unwrap()`)
        &&& forall|i: int| 0 <= i < list.len() ==> vts.contains(#[trigger] list[i]) && ids.contains_key(list[i])
        // C10 "listings match": every listed id has a tour (`tours.get(vehicle_id).unwrap()` in Transition::new_fast)
        &&& forall|i: int, j: int| 0 <= i < list.len() && 0 <= j < ids[list[i]]@.len() ==> tours.contains_key(#[trigger] ids[#[trigger] list[i]]@[j])
        // C09 for the old schedule: "the schedule's maintenance violation equals its from-scratch value"
        &&& mv == viol_sum(trs, vts)
        // magnitudes: the old transitions' violations are at most 2^41 per vehicle (what C15 consistency implies,
        // TView::lemma_bounds), and there are at most 2^18 vehicles in old transitions and id lists together
        &&& forall|vt: VehicleTypeIdx| #[trigger] trs.contains_key(vt) ==> 0 <= trs[vt].total_maintenance_violation <= trs[vt].total_len() * vehicle_bound()
        &&& cap_sum(trs, ids, vts) <= 2 * max_vehicles()
    }
    /// the precondition of recompute_transitions_and_violation_fast
    pub open spec fn rc_pre(&self, trs: Map<VehicleTypeIdx, Transition>, mv: int, ids: IdLists, tours: Map<VehicleIdx, Tour>, list: Seq<VehicleTypeIdx>) -> bool {
        &&& self.rc_base(trs, mv, ids, tours, list)
        // A-counter (magnitude): the violation of each rebuilt transition is at most 2^41 per listed vehicle (as for a
        // transition that is consistent with tours whose counters are within +-2^40; `spec_new_fast` is uninterpreted, so no
        // caller can discharge this: it is an assumption stated as a precondition)
        &&& forall|i: int| 0 <= i < list.len() ==> Schedule::rebuilt_small(ids, tours, *self.network, #[trigger] list[i])
    }
    /// A-counter (magnitude) for all vehicle types of the network and the schedule's id lists
    pub open spec fn rebuilt_all_small(&self, tours: Map<VehicleIdx, Tour>) -> bool {
        forall|i: int| 0 <= i < sched_types(self).len() ==> Schedule::rebuilt_small(self.vehicle_ids_grouped_and_sorted@, tours, *self.network, #[trigger] sched_types(self)[i])
    }
    /// the tour maps reassign_end_depots_greedily can produce
    pub open spec fn all_end_reassigned(&self, t: Map<VehicleIdx, Tour>) -> bool {
        t.dom() == self.tours@.dom() && forall|v: VehicleIdx| #[trigger] self.tours@.contains_key(v) ==> self.end_reassigned(v, t[v])
    }
    /// the state after the first k listed types have been rebuilt
    pub open spec fn rc_inv(&self, trs0: Map<VehicleTypeIdx, Transition>, trs: Map<VehicleTypeIdx, Transition>, ids: IdLists, tours: Map<VehicleIdx, Tour>,
        list: Seq<VehicleTypeIdx>, k: int) -> bool {
        &&& forall|vt: VehicleTypeIdx| trs0.contains_key(vt) <==> #[trigger] trs.contains_key(vt)
        &&& forall|vt: VehicleTypeIdx| #[trigger] trs.contains_key(vt) ==>
                trs[vt] == (if type_done(list, k, vt) { rebuilt(ids, tours, *self.network, vt) } else { trs0[vt] })
    }
    /// the postcondition of recompute_transitions_and_violation_fast: same key set; the transition of every listed type
    /// is what Transition::new_fast builds from the type's id list and the given tours, the others are untouched
    pub open spec fn rc_post(&self, trs0: Map<VehicleTypeIdx, Transition>, trs: Map<VehicleTypeIdx, Transition>, ids: IdLists, tours: Map<VehicleIdx, Tour>,
        list: Seq<VehicleTypeIdx>) -> bool {
        &&& forall|vt: VehicleTypeIdx| trs0.contains_key(vt) <==> #[trigger] trs.contains_key(vt)
        &&& forall|vt: VehicleTypeIdx| #[trigger] trs.contains_key(vt) ==>
                trs[vt] == (if list.contains(vt) { rebuilt(ids, tours, *self.network, vt) } else { trs0[vt] })
    }
    /// magnitude of a rebuilt transition's violation
    pub open spec fn rebuilt_small(ids: IdLists, tours: Map<VehicleIdx, Tour>, net: Network, vt: VehicleTypeIdx) -> bool {
        0 <= rebuilt(ids, tours, net, vt).total_maintenance_violation <= ids[vt]@.len() * vehicle_bound()
    }
}
/// magnitudes: if every transition is an old one or a rebuilt one (with a small violation), the violation sum is small
pub proof fn lemma_viol_cap(trs0: Map<VehicleTypeIdx, Transition>, trs: Map<VehicleTypeIdx, Transition>, ids: IdLists, vts: Seq<VehicleTypeIdx>)
    requires
        forall|i: int| 0 <= i < vts.len() ==> 0 <= (#[trigger] trs0[vts[i]]).total_maintenance_violation <= trs0[vts[i]].total_len() * vehicle_bound(),
        forall|i: int| 0 <= i < vts.len() ==> (#[trigger] trs[vts[i]]) == trs0[vts[i]]
            || 0 <= trs[vts[i]].total_maintenance_violation <= ids[vts[i]]@.len() * vehicle_bound(),
    ensures
        0 <= viol_sum(trs, vts) <= cap_sum(trs0, ids, vts) * vehicle_bound(),
        0 <= cap_sum(trs0, ids, vts),
        forall|i: int| 0 <= i < vts.len() ==> 0 <= (#[trigger] trs0[vts[i]]).total_len() + ids[vts[i]]@.len() <= cap_sum(trs0, ids, vts),
    decreases vts.len(),
{
    if vts.len() > 0 {
        let d = vts.drop_last();
        let n = vts.len() as int;
        let vt = vts.last();
        assert(vt == vts[n - 1]);
        assert forall|i: int| 0 <= i < d.len() implies 0 <= (#[trigger] trs0[d[i]]).total_maintenance_violation <= trs0[d[i]].total_len() * vehicle_bound() by { assert(d[i] == vts[i]); }
        assert forall|i: int| 0 <= i < d.len() implies (#[trigger] trs[d[i]]) == trs0[d[i]]
            || 0 <= trs[d[i]].total_maintenance_violation <= ids[d[i]]@.len() * vehicle_bound() by { assert(d[i] == vts[i]); }
        lemma_viol_cap(trs0, trs, ids, d);
        let a = cap_sum(trs0, ids, d);
        let b = trs0[vt].total_len();
        let c = ids[vt]@.len() as int;
        lemma_sum_nonneg(lens_of(trs0[vt]@.cycles));
        assert(b >= 0);
        assert((a + b + c) * vehicle_bound() == a * vehicle_bound() + b * vehicle_bound() + c * vehicle_bound()) by (nonlinear_arith);
        assert(0 <= b * vehicle_bound() && 0 <= c * vehicle_bound()) by (nonlinear_arith) requires b >= 0, c >= 0, vehicle_bound() > 0;
        assert forall|i: int| 0 <= i < vts.len() implies 0 <= (#[trigger] trs0[vts[i]]).total_len() + ids[vts[i]]@.len() <= cap_sum(trs0, ids, vts) by {
            if i < n - 1 { assert(d[i] == vts[i]); assert(0 <= trs0[d[i]].total_len() + ids[d[i]]@.len() <= a); }
        }
    } else {
        assert(0 * vehicle_bound() == 0);
    }
}
/// one more listed type is done
pub proof fn lemma_type_done_step(list: Seq<VehicleTypeIdx>, k: int)
    requires 0 <= k < list.len(),
    ensures forall|x: VehicleTypeIdx| type_done(list, k + 1, x) <==> (type_done(list, k, x) || x == list[k]),
{
    assert forall|x: VehicleTypeIdx| type_done(list, k + 1, x) <==> (type_done(list, k, x) || x == list[k]) by {
        if type_done(list, k + 1, x) {
            let j = choose|j: int| 0 <= j < k + 1 && #[trigger] list[j] == x;
            if j < k { assert(type_done(list, k, x)); }
        }
        if type_done(list, k, x) {
            let j = choose|j: int| 0 <= j < k && #[trigger] list[j] == x;
            assert(0 <= j < k + 1 && list[j] == x);
        }
        if x == list[k] { assert(0 <= k < k + 1 && list[k] == x); }
    }
}

// =====================================================================================================
// improve_depots_of_tour / improve_depots
// =====================================================================================================

/// C13 "depot-only operations change no activity": `t` is the tour `o` with (possibly) another start depot node and
/// (possibly) another end depot node -- members of the network's start / end depot node lists -- and nothing else
/// changed; it is a valid tour again (C01) with exact caches (C09)
pub open spec fn depots_replaced(net: &Network, o: &Tour, t: &Tour) -> bool {
    &&& t.nodes@ == o.nodes@.update(0, sp_start_depot(t)).update(o.nodes@.len() - 1, sp_end_depot(t))
    &&& t.is_dummy == o.is_dummy
    &&& t.network == o.network
    &&& net.start_depot_nodes@.contains(sp_start_depot(t))
    &&& net.end_depot_nodes@.contains(sp_end_depot(t))
    &&& t.wf()
    &&& t.caches_ok()
}
/// ... in particular the activities are the same, in the same order
pub proof fn lemma_replaced_same_activities(net: &Network, o: &Tour, t: &Tour)
    requires depots_replaced(net, o, t), o.nodes@.len() >= 2,
    ensures same_activities(o, t),
{
}
/// C09 for a depot-only change: replacing the start depot changes the costs by the difference of the first leg's
/// costs, which is small (mirror image of lemma_end_depot_costs, env/schedule_shim.vs)
pub proof fn lemma_start_depot_costs(t: &Tour, nt: &Tour, s: NodeIdx)
    requires
        t.wf(), !t.is_dummy, t.caches_ok(), tour_len_ok(t.nodes@),
        t.network.has(s), t.network.sp_node(s) is StartDepot,
        nt.nodes@ == t.nodes@.update(0, s), nt.network == t.network, nt.caches_ok(),
    ensures
        -leg_cost_bound() <= nt.costs - t.costs <= leg_cost_bound(),
{
    let net = &t.network;
    let old = t.nodes@;
    let tail = old.subrange(1, old.len() as int);
    assert(old =~= seq![old[0]] + tail);
    assert(nt.nodes@ =~= seq![s] + tail);
    lemma_sums_cons(net, old[0], tail);
    lemma_sums_cons(net, s, tail);
    lemma_tour_kinds(t, 0);
    lemma_tour_kinds(t, 1);
    lemma_depot_zero(net, old[0]);
    lemma_depot_zero(net, s);
    assert(net.has(old[0]) && net.has(old[1]));
    assert(tail[0] == old[1]);
    lemma_leg_facts(net, old[0], old[1]);
    lemma_leg_facts(net, s, old[1]);
}

// ---- A-im (NEW): `get_mut` of im::HashMap ------------------------------------------------------------------
impl<K, V> self::im::HashMap<K, V> {
    /// im: `get_mut<BK>(&mut self, key: &BK) -> Option<&mut V>`: "Get a mutable reference to the value for a key from a
    /// hash map."  A reference INTO the map (the map is persistent: the entry is copied on write): when the borrow ends the
    /// map is the old one with the key bound to the final value of the reference; an absent key leaves the map alone.
    #[verifier::external_body]
    pub fn get_mut(&mut self, key: &K) -> (r: Option<&mut V>)
        ensures
            old(self)@.contains_key(*key) ==> r is Some && *r->Some_0 == old(self)@[*key] && final(self)@ == old(self)@.insert(*key, *final(r->Some_0)),
            !old(self)@.contains_key(*key) ==> r is None && final(self)@ == old(self)@,
    { unimplemented!() }
}

impl Schedule {
    /// the depot where the tour of v starts / ends in this schedule (text as in slices/depot_usage.vs)
    pub open spec fn start_depot_of(&self, v: VehicleIdx) -> DepotIdx { sp_depot_idx_of(&self.network, sp_start_depot(&self.tours@[v])) }
    pub open spec fn end_depot_of(&self, v: VehicleIdx) -> DepotIdx { sp_depot_idx_of(&self.network, sp_end_depot(&self.tours@[v])) }
}
/// both depot nodes of a real tour of the network are depot nodes of the network (text as in slices/depot_usage.vs)
pub proof fn lemma_tour_depots(net: &Network, t: &Tour)
    requires tour_of_net(net, t),
    ensures
        net.has(sp_start_depot(t)) && net.sp_node(sp_start_depot(t)).sp_is_depot(),
        net.has(sp_end_depot(t)) && net.sp_node(sp_end_depot(t)).sp_is_depot(),
{
    assert(t.network.has(t.nodes@[0]));
    assert(t.network.has(t.nodes@[t.nodes@.len() - 1]));
}

/// one more listed vehicle is done
pub proof fn lemma_done_step(rc: Seq<VehicleIdx>, k: int)
    requires 0 <= k < rc.len(),
    ensures
        forall|x: VehicleIdx| #[trigger] done(rc, k + 1, x) <==> (done(rc, k, x) || x == rc[k]),
        rc.no_duplicates() ==> !done(rc, k, rc[k]),
{
    assert forall|x: VehicleIdx| #[trigger] done(rc, k + 1, x) <==> (done(rc, k, x) || x == rc[k]) by {
        if done(rc, k + 1, x) {
            let j = choose|j: int| 0 <= j < k + 1 && #[trigger] rc[j] == x;
            if j < k { assert(done(rc, k, x)); }
        }
        if done(rc, k, x) {
            let j = choose|j: int| 0 <= j < k && #[trigger] rc[j] == x;
            assert(0 <= j < k + 1 && rc[j] == x);
        }
        if x == rc[k] { assert(0 <= k < k + 1 && rc[k] == x); }
    }
    if rc.no_duplicates() && done(rc, k, rc[k]) {
        let j = choose|j: int| 0 <= j < k && #[trigger] rc[j] == rc[k];
        assert(rc[j] == rc[k]);
    }
}
/// all listed vehicles are done at the end
pub proof fn lemma_done_all(rc: Seq<VehicleIdx>)
    ensures forall|x: VehicleIdx| #[trigger] done(rc, rc.len() as int, x) <==> rc.contains(x),
{
    let n = rc.len() as int;
    assert forall|x: VehicleIdx| #[trigger] done(rc, n, x) <==> rc.contains(x) by {
        if done(rc, n, x) {
            let j = choose|j: int| 0 <= j < n && #[trigger] rc[j] == x;
            assert(rc[j] == x);
        }
        if rc.contains(x) {
            let j = choose|j: int| 0 <= j < rc.len() && rc[j] == x;
            assert(0 <= j < n && rc[j] == x);
        }
    }
}

// ---- first loop of improve_depots: the listed vehicles leave the table -----------------------------------------
/// the spawned sets are those of du0 without the first ks listed vehicles, the despawned sets those of du0 without the
/// first ke listed vehicles
pub open spec fn usage_minus(du0: UsageMap, du: UsageMap, ids: Seq<VehicleIdx>, ks: int, ke: int) -> bool {
    &&& forall|d: DepotIdx, vt: VehicleTypeIdx, u: VehicleIdx| (#[trigger] sp_spawned(du, d, vt).contains(u)) <==> (sp_spawned(du0, d, vt).contains(u) && !done(ids, ks, u))
    &&& forall|d: DepotIdx, vt: VehicleTypeIdx, u: VehicleIdx| (#[trigger] sp_despawned(du, d, vt).contains(u)) <==> (sp_despawned(du0, d, vt).contains(u) && !done(ids, ke, u))
}
/// `.get_mut(&(start depot, type)).unwrap().0.remove(vehicle_id).unwrap()`: the entry exists and holds the vehicle
pub proof fn lemma_rm_spawn_pre(s: &Schedule, du: UsageMap, ids: Seq<VehicleIdx>, k: int)
    requires
        s.dp_ok(), ids.no_duplicates(), 0 <= k < ids.len(), s.tours@.contains_key(ids[k]),
        usage_minus(s.depot_usage@, du, ids, k, k),
    ensures
        du.contains_key((s.start_depot_of(ids[k]), s.type_of(ids[k]))),
        du[(s.start_depot_of(ids[k]), s.type_of(ids[k]))].0@.contains(ids[k]),
{
    let v = ids[k];
    let d = s.start_depot_of(v);
    let vt = s.type_of(v);
    lemma_done_step(ids, k);
    assert(s.dp_vehicle_ok(v));
    assert(usage_exact_for(s.depot_usage@, &s.network, s.vehicles@, s.tours@, v));
    assert(starts_at(&s.network, s.vehicles@, s.tours@, v, d, vt));
    assert(sp_spawned(s.depot_usage@, d, vt).contains(v));
    assert(sp_spawned(du, d, vt).contains(v));
}
/// ... afterwards the vehicle is in no spawned set
pub proof fn lemma_rm_spawn_post(s: &Schedule, du: UsageMap, du1: UsageMap, ids: Seq<VehicleIdx>, k: int)
    requires
        s.dp_ok(), ids.no_duplicates(), 0 <= k < ids.len(), s.tours@.contains_key(ids[k]),
        usage_minus(s.depot_usage@, du, ids, k, k),
        ({
            let key = (s.start_depot_of(ids[k]), s.type_of(ids[k]));
            du.contains_key(key) && du1 == du.insert(key, du1[key]) && du1[key].0@ == du[key].0@.remove(ids[k]) && du1[key].1@ == du[key].1@
        }),
    ensures usage_minus(s.depot_usage@, du1, ids, k + 1, k),
{
    let du0 = s.depot_usage@;
    let v = ids[k];
    let key = (s.start_depot_of(v), s.type_of(v));
    lemma_done_step(ids, k);
    assert(usage_exact_for(du0, &s.network, s.vehicles@, s.tours@, v));
    assert forall|d: DepotIdx, vt: VehicleTypeIdx, u: VehicleIdx| (#[trigger] sp_spawned(du1, d, vt).contains(u)) <==> (sp_spawned(du0, d, vt).contains(u) && !done(ids, k + 1, u)) by {
        assert(sp_spawned(du, d, vt).contains(u) <==> (sp_spawned(du0, d, vt).contains(u) && !done(ids, k, u)));
        assert(done(ids, k + 1, u) <==> (done(ids, k, u) || u == v));
        if (d, vt) != key {
            assert(du1.contains_key((d, vt)) <==> du.contains_key((d, vt)));
            assert(sp_spawned(du0, d, vt).contains(v) <==> starts_at(&s.network, s.vehicles@, s.tours@, v, d, vt));
        }
    }
    assert forall|d: DepotIdx, vt: VehicleTypeIdx, u: VehicleIdx| (#[trigger] sp_despawned(du1, d, vt).contains(u)) <==> (sp_despawned(du0, d, vt).contains(u) && !done(ids, k, u)) by {
        assert(sp_despawned(du, d, vt).contains(u) <==> (sp_despawned(du0, d, vt).contains(u) && !done(ids, k, u)));
        if (d, vt) != key { assert(du1.contains_key((d, vt)) <==> du.contains_key((d, vt))); }
    }
}
/// `.get_mut(&(end depot, type)).unwrap().1.remove(vehicle_id).unwrap()`: the entry exists and holds the vehicle
pub proof fn lemma_rm_despawn_pre(s: &Schedule, du: UsageMap, ids: Seq<VehicleIdx>, k: int)
    requires
        s.dp_ok(), ids.no_duplicates(), 0 <= k < ids.len(), s.tours@.contains_key(ids[k]),
        usage_minus(s.depot_usage@, du, ids, k + 1, k),
    ensures
        du.contains_key((s.end_depot_of(ids[k]), s.type_of(ids[k]))),
        du[(s.end_depot_of(ids[k]), s.type_of(ids[k]))].1@.contains(ids[k]),
{
    let v = ids[k];
    let d = s.end_depot_of(v);
    let vt = s.type_of(v);
    lemma_done_step(ids, k);
    assert(s.dp_vehicle_ok(v));
    assert(usage_exact_for(s.depot_usage@, &s.network, s.vehicles@, s.tours@, v));
    assert(ends_at(&s.network, s.vehicles@, s.tours@, v, d, vt));
    assert(sp_despawned(s.depot_usage@, d, vt).contains(v));
    assert(sp_despawned(du, d, vt).contains(v));
}
/// ... afterwards the vehicle is in no despawned set either
pub proof fn lemma_rm_despawn_post(s: &Schedule, du: UsageMap, du1: UsageMap, ids: Seq<VehicleIdx>, k: int)
    requires
        s.dp_ok(), ids.no_duplicates(), 0 <= k < ids.len(), s.tours@.contains_key(ids[k]),
        usage_minus(s.depot_usage@, du, ids, k + 1, k),
        ({
            let key = (s.end_depot_of(ids[k]), s.type_of(ids[k]));
            du.contains_key(key) && du1 == du.insert(key, du1[key]) && du1[key].1@ == du[key].1@.remove(ids[k]) && du1[key].0@ == du[key].0@
        }),
    ensures usage_minus(s.depot_usage@, du1, ids, k + 1, k + 1),
{
    let du0 = s.depot_usage@;
    let v = ids[k];
    let key = (s.end_depot_of(v), s.type_of(v));
    lemma_done_step(ids, k);
    assert(usage_exact_for(du0, &s.network, s.vehicles@, s.tours@, v));
    assert forall|d: DepotIdx, vt: VehicleTypeIdx, u: VehicleIdx| (#[trigger] sp_despawned(du1, d, vt).contains(u)) <==> (sp_despawned(du0, d, vt).contains(u) && !done(ids, k + 1, u)) by {
        assert(sp_despawned(du, d, vt).contains(u) <==> (sp_despawned(du0, d, vt).contains(u) && !done(ids, k, u)));
        assert(done(ids, k + 1, u) <==> (done(ids, k, u) || u == v));
        if (d, vt) != key {
            assert(du1.contains_key((d, vt)) <==> du.contains_key((d, vt)));
            assert(sp_despawned(du0, d, vt).contains(v) <==> ends_at(&s.network, s.vehicles@, s.tours@, v, d, vt));
        }
    }
    assert forall|d: DepotIdx, vt: VehicleTypeIdx, u: VehicleIdx| (#[trigger] sp_spawned(du1, d, vt).contains(u)) <==> (sp_spawned(du0, d, vt).contains(u) && !done(ids, k + 1, u)) by {
        assert(sp_spawned(du, d, vt).contains(u) <==> (sp_spawned(du0, d, vt).contains(u) && !done(ids, k + 1, u)));
        if (d, vt) != key { assert(du1.contains_key((d, vt)) <==> du.contains_key((d, vt))); }
    }
}

// ---- second loop of improve_depots: the listed vehicles enter the table at their new depots ----------------------
/// the vehicle is in no set of the table
pub open spec fn usage_absent(du: UsageMap, u: VehicleIdx) -> bool {
    &&& forall|d: DepotIdx, vt: VehicleTypeIdx| !(#[trigger] sp_spawned(du, d, vt)).contains(u)
    &&& forall|d: DepotIdx, vt: VehicleTypeIdx| !(#[trigger] sp_despawned(du, d, vt)).contains(u)
}
impl Schedule {
    /// the table's entries of vehicle u after the first k listed vehicles have been put back: a listed vehicle that
    /// is not yet put back is in no set; for everybody else the table is exact w.r.t. the tours built so far
    pub open spec fn usage_row(&self, du: UsageMap, tours: TourMap, ids: Seq<VehicleIdx>, k: int, u: VehicleIdx) -> bool {
        if ids.contains(u) && !done(ids, k, u) { usage_absent(du, u) } else { usage_exact_for(du, &self.network, self.vehicles@, tours, u) }
    }
    pub open spec fn usage_partial(&self, du: UsageMap, tours: TourMap, ids: Seq<VehicleIdx>, k: int) -> bool {
        forall|u: VehicleIdx| #[trigger] self.usage_row(du, tours, ids, k, u)
    }
}
/// after the first loop: all listed vehicles are out, everybody else is where the (exact) old table has them
pub proof fn lemma_partial_init(s: &Schedule, du: UsageMap, ids: Seq<VehicleIdx>)
    requires
        usage_exact(s.depot_usage@, &s.network, s.vehicles@, s.tours@),
        usage_minus(s.depot_usage@, du, ids, ids.len() as int, ids.len() as int),
    ensures s.usage_partial(du, s.tours@, ids, 0),
{
    let du0 = s.depot_usage@;
    lemma_done_all(ids);
    assert forall|u: VehicleIdx| #[trigger] s.usage_row(du, s.tours@, ids, 0, u) by {
        assert(done(ids, ids.len() as int, u) <==> ids.contains(u));
        assert(usage_exact_for(du0, &s.network, s.vehicles@, s.tours@, u));
        if ids.contains(u) {
            assert(!done(ids, 0, u));
            assert forall|d: DepotIdx, vt: VehicleTypeIdx| !(#[trigger] sp_spawned(du, d, vt)).contains(u) by {
                assert(sp_spawned(du, d, vt).contains(u) <==> (sp_spawned(du0, d, vt).contains(u) && !done(ids, ids.len() as int, u)));
            }
            assert forall|d: DepotIdx, vt: VehicleTypeIdx| !(#[trigger] sp_despawned(du, d, vt)).contains(u) by {
                assert(sp_despawned(du, d, vt).contains(u) <==> (sp_despawned(du0, d, vt).contains(u) && !done(ids, ids.len() as int, u)));
            }
        } else {
            assert forall|d: DepotIdx, vt: VehicleTypeIdx| (#[trigger] sp_spawned(du, d, vt)).contains(u) <==> starts_at(&s.network, s.vehicles@, s.tours@, u, d, vt) by {
                assert(sp_spawned(du, d, vt).contains(u) <==> (sp_spawned(du0, d, vt).contains(u) && !done(ids, ids.len() as int, u)));
            }
            assert forall|d: DepotIdx, vt: VehicleTypeIdx| (#[trigger] sp_despawned(du, d, vt)).contains(u) <==> ends_at(&s.network, s.vehicles@, s.tours@, u, d, vt) by {
                assert(sp_despawned(du, d, vt).contains(u) <==> (sp_despawned(du0, d, vt).contains(u) && !done(ids, ids.len() as int, u)));
            }
        }
    }
}
/// `.entry(key).or_insert((HashSet::new(), HashSet::new())).0.insert(v)`: v enters the spawned set of `key`, nothing else changes
pub proof fn lemma_add_spawn(du: UsageMap, du1: UsageMap, key: (DepotIdx, VehicleTypeIdx), v: VehicleIdx)
    requires
        du1 == du.insert(key, du1[key]),
        du1[key].0@ == sp_spawned(du, key.0, key.1).insert(v),
        du1[key].1@ == sp_despawned(du, key.0, key.1),
    ensures
        forall|d: DepotIdx, vt: VehicleTypeIdx| #[trigger] sp_spawned(du1, d, vt) == (if (d, vt) == key { sp_spawned(du, d, vt).insert(v) } else { sp_spawned(du, d, vt) }),
        forall|d: DepotIdx, vt: VehicleTypeIdx| #[trigger] sp_despawned(du1, d, vt) == sp_despawned(du, d, vt),
{
    assert forall|d: DepotIdx, vt: VehicleTypeIdx| #[trigger] sp_spawned(du1, d, vt) == (if (d, vt) == key { sp_spawned(du, d, vt).insert(v) } else { sp_spawned(du, d, vt) }) by {
        if (d, vt) != key { assert(du1.contains_key((d, vt)) <==> du.contains_key((d, vt))); }
    }
    assert forall|d: DepotIdx, vt: VehicleTypeIdx| #[trigger] sp_despawned(du1, d, vt) == sp_despawned(du, d, vt) by {
        if (d, vt) != key { assert(du1.contains_key((d, vt)) <==> du.contains_key((d, vt))); }
    }
}
/// `.entry(key).or_insert((HashSet::new(), HashSet::new())).1.insert(v)`: v enters the despawned set of `key`, nothing else changes
pub proof fn lemma_add_despawn(du: UsageMap, du1: UsageMap, key: (DepotIdx, VehicleTypeIdx), v: VehicleIdx)
    requires
        du1 == du.insert(key, du1[key]),
        du1[key].1@ == sp_despawned(du, key.0, key.1).insert(v),
        du1[key].0@ == sp_spawned(du, key.0, key.1),
    ensures
        forall|d: DepotIdx, vt: VehicleTypeIdx| #[trigger] sp_despawned(du1, d, vt) == (if (d, vt) == key { sp_despawned(du, d, vt).insert(v) } else { sp_despawned(du, d, vt) }),
        forall|d: DepotIdx, vt: VehicleTypeIdx| #[trigger] sp_spawned(du1, d, vt) == sp_spawned(du, d, vt),
{
    assert forall|d: DepotIdx, vt: VehicleTypeIdx| #[trigger] sp_despawned(du1, d, vt) == (if (d, vt) == key { sp_despawned(du, d, vt).insert(v) } else { sp_despawned(du, d, vt) }) by {
        if (d, vt) != key { assert(du1.contains_key((d, vt)) <==> du.contains_key((d, vt))); }
    }
    assert forall|d: DepotIdx, vt: VehicleTypeIdx| #[trigger] sp_spawned(du1, d, vt) == sp_spawned(du, d, vt) by {
        if (d, vt) != key { assert(du1.contains_key((d, vt)) <==> du.contains_key((d, vt))); }
    }
}
/// one step of the second loop: the k-th listed vehicle v got the tour nt and was put into the spawned set of its new
/// start depot and the despawned set of its new end depot
pub proof fn lemma_partial_step(s: &Schedule, du: UsageMap, du2: UsageMap, tours: TourMap, ids: Seq<VehicleIdx>, k: int, nt: Tour)
    requires
        s.usage_partial(du, tours, ids, k), ids.no_duplicates(), 0 <= k < ids.len(), s.vehicles@.contains_key(ids[k]),
        ({
            let v = ids[k];
            let ks = (sp_depot_idx_of(&s.network, sp_start_depot(&nt)), s.type_of(v));
            let ke = (sp_depot_idx_of(&s.network, sp_end_depot(&nt)), s.type_of(v));
            &&& forall|d: DepotIdx, vt: VehicleTypeIdx| #[trigger] sp_spawned(du2, d, vt) == (if (d, vt) == ks { sp_spawned(du, d, vt).insert(v) } else { sp_spawned(du, d, vt) })
            &&& forall|d: DepotIdx, vt: VehicleTypeIdx| #[trigger] sp_despawned(du2, d, vt) == (if (d, vt) == ke { sp_despawned(du, d, vt).insert(v) } else { sp_despawned(du, d, vt) })
        }),
    ensures s.usage_partial(du2, tours.insert(ids[k], nt), ids, k + 1),
{
    let v = ids[k];
    let net = &s.network;
    let vm = s.vehicles@;
    let tours2 = tours.insert(v, nt);
    let ks = (sp_depot_idx_of(net, sp_start_depot(&nt)), s.type_of(v));
    let ke = (sp_depot_idx_of(net, sp_end_depot(&nt)), s.type_of(v));
    lemma_done_step(ids, k);
    assert(ids.contains(v));
    assert forall|u: VehicleIdx| #[trigger] s.usage_row(du2, tours2, ids, k + 1, u) by {
        assert(s.usage_row(du, tours, ids, k, u));
        assert(done(ids, k + 1, u) <==> (done(ids, k, u) || u == v));
        if u == v {
            assert(usage_absent(du, v));
            assert forall|d: DepotIdx, vt: VehicleTypeIdx| (#[trigger] sp_spawned(du2, d, vt)).contains(v) <==> starts_at(net, vm, tours2, v, d, vt) by {
                assert(!sp_spawned(du, d, vt).contains(v));
            }
            assert forall|d: DepotIdx, vt: VehicleTypeIdx| (#[trigger] sp_despawned(du2, d, vt)).contains(v) <==> ends_at(net, vm, tours2, v, d, vt) by {
                assert(!sp_despawned(du, d, vt).contains(v));
            }
        } else if ids.contains(u) && !done(ids, k, u) {
            assert forall|d: DepotIdx, vt: VehicleTypeIdx| !(#[trigger] sp_spawned(du2, d, vt)).contains(u) by {
                assert(!sp_spawned(du, d, vt).contains(u));
            }
            assert forall|d: DepotIdx, vt: VehicleTypeIdx| !(#[trigger] sp_despawned(du2, d, vt)).contains(u) by {
                assert(!sp_despawned(du, d, vt).contains(u));
            }
        } else {
            assert(usage_exact_for(du, net, vm, tours, u));
            assert forall|d: DepotIdx, vt: VehicleTypeIdx| (#[trigger] sp_spawned(du2, d, vt)).contains(u) <==> starts_at(net, vm, tours2, u, d, vt) by {
                assert(sp_spawned(du, d, vt).contains(u) <==> starts_at(net, vm, tours, u, d, vt));
            }
            assert forall|d: DepotIdx, vt: VehicleTypeIdx| (#[trigger] sp_despawned(du2, d, vt)).contains(u) <==> ends_at(net, vm, tours2, u, d, vt) by {
                assert(sp_despawned(du, d, vt).contains(u) <==> ends_at(net, vm, tours, u, d, vt));
            }
        }
    }
}
/// after the second loop the table is exact
pub proof fn lemma_partial_finish(s: &Schedule, du: UsageMap, tours: TourMap, ids: Seq<VehicleIdx>)
    requires s.usage_partial(du, tours, ids, ids.len() as int),
    ensures usage_exact(du, &s.network, s.vehicles@, tours),
{
    lemma_done_all(ids);
    assert forall|u: VehicleIdx| #[trigger] usage_exact_for(du, &s.network, s.vehicles@, tours, u) by {
        assert(s.usage_row(du, tours, ids, ids.len() as int, u));
        assert(done(ids, ids.len() as int, u) <==> ids.contains(u));
    }
}

// ---- costs: the listed vehicles' tours are among all tours -------------------------------------------------------
/// the sum over a prefix only depends on the prefix
pub proof fn lemma_pre_costs_seq_frame(tours: TourMap, a: Seq<VehicleIdx>, b: Seq<VehicleIdx>, k: int)
    requires 0 <= k <= a.len(), k <= b.len(), forall|j: int| 0 <= j < k ==> a[j] == b[j],
    ensures pre_costs(tours, a, k) == pre_costs(tours, b, k),
    decreases k,
{
    if k > 0 { lemma_pre_costs_seq_frame(tours, a, b, k - 1); }
}
/// taking one vehicle out of the list takes its tour's costs out of the sum
pub proof fn lemma_pre_costs_remove(tours: TourMap, s: Seq<VehicleIdx>, p: int)
    requires 0 <= p < s.len(),
    ensures pre_costs(tours, s, s.len() as int) == pre_costs(tours, s.remove(p), s.len() - 1) + tours[s[p]].costs,
    decreases s.len(),
{
    let n = s.len() as int;
    let r = s.remove(p);
    if p == n - 1 {
        lemma_pre_costs_seq_frame(tours, s, r, n - 1);
    } else {
        let s1 = s.drop_last();
        lemma_pre_costs_remove(tours, s1, p);
        lemma_pre_costs_seq_frame(tours, s, s1, n - 1);
        assert(s1.remove(p) =~= r.drop_last());
        lemma_pre_costs_seq_frame(tours, r, s1.remove(p), n - 2);
        assert(r[n - 2] == s[n - 1]);
    }
}
/// C09: a duplicate-free list of vehicles that are all among the (duplicate-free) list vs: their tours' costs are part
/// of the costs of all tours
pub proof fn lemma_sub_costs(tours: TourMap, ids: Seq<VehicleIdx>, vs: Seq<VehicleIdx>)
    requires ids.no_duplicates(), forall|i: int| 0 <= i < ids.len() ==> vs.contains(#[trigger] ids[i]),
    ensures pre_costs(tours, ids, ids.len() as int) <= pre_costs(tours, vs, vs.len() as int),
    decreases ids.len(),
{
    let n = ids.len() as int;
    if n == 0 {
        lemma_pre_costs_mono(tours, vs, 0, vs.len() as int);
    } else {
        let x = ids[n - 1];
        let ids1 = ids.drop_last();
        assert(vs.contains(ids[n - 1]));
        let q = choose|q: int| 0 <= q < vs.len() && vs[q] == x;
        let vs1 = vs.remove(q);
        assert forall|i: int| 0 <= i < ids1.len() implies vs1.contains(#[trigger] ids1[i]) by {
            assert(ids1[i] == ids[i]);
            assert(ids[i] != ids[n - 1]);
            assert(vs.contains(ids[i]));
            let j = choose|j: int| 0 <= j < vs.len() && vs[j] == ids[i];
            if j < q { assert(vs1[j] == ids[i]); } else { assert(vs1[j - 1] == ids[i]); }
        }
        assert(ids1.no_duplicates());
        lemma_sub_costs(tours, ids1, vs1);
        lemma_pre_costs_remove(tours, vs, q);
        lemma_pre_costs_seq_frame(tours, ids, ids1, n - 1);
    }
}

// ---- improve_depots: contract vocabulary --------------------------------------------------------------------------
impl Schedule {
    /// C13: what improve_depots does to the tour of vehicle v: a listed vehicle keeps all its activities in order, only its
    /// depots may differ; every other vehicle keeps its tour
    pub open spec fn depots_improved(&self, ids: Seq<VehicleIdx>, v: VehicleIdx, t: Tour) -> bool {
        if ids.contains(v) { depots_replaced(&self.network, &self.tours@[v], &t) && same_activities(&self.tours@[v], &t) } else { t == self.tours@[v] }
    }
    /// the tour maps improve_depots can produce for the listed vehicles
    pub open spec fn all_depots_improved(&self, ids: Seq<VehicleIdx>, t: Map<VehicleIdx, Tour>) -> bool {
        t.dom() == self.tours@.dom() && forall|v: VehicleIdx| #[trigger] self.tours@.contains_key(v) ==> self.depots_improved(ids, v, t[v])
    }
    /// "Assumes that vehicle are real vehicle in schedule.  Panics if a vehicle is not a real vehicle": the listed vehicles
    /// are vehicles of the schedule (with a tour), and no vehicle is listed twice (the second `.remove(vehicle_id).unwrap()`
    /// of the first loop would panic; update_transitions_and_violation_fast assumes it, too)
    pub open spec fn listed_ok(&self, ids: Seq<VehicleIdx>) -> bool {
        &&& ids.no_duplicates()
        &&& ids.len() <= max_vehicles()
        &&& forall|i: int| 0 <= i < ids.len() ==> self.tours@.contains_key(#[trigger] ids[i])
    }
    /// C15 / C10 / C09 for the rotation cycles, as far as update_transitions_and_violation_fast needs it for n changed
    /// vehicles (the clauses of `upd_pre`, env/sched_guard_shim.vs, that speak about the old schedule only), plus C10 for
    /// the ids: a real vehicle has an id of the Vehicle kind, a tour, and a type that has a transition
    pub open spec fn dp_transitions_ok(&self, n: int) -> bool {
        let trs = self.next_period_transitions@;
        let vts = sched_types(self);
        &&& vts.no_duplicates()
        &&& forall|vt: VehicleTypeIdx| #[trigger] trs.contains_key(vt) <==> vts.contains(vt)
        &&& forall|vt: VehicleTypeIdx| #[trigger] trs.contains_key(vt) ==> trs[vt].wf(&self.network, self.tours@)
        &&& forall|vt: VehicleTypeIdx, v: VehicleIdx| #![trigger trs[vt].has_vehicle(v)] trs.contains_key(vt)
                ==> (trs[vt].has_vehicle(v) <==> self.vehicles@.contains_key(v) && self.type_of(v) == vt)
        &&& self.maintenance_violation as int == viol_sum(trs, vts)
        &&& len_sum(trs, vts) + n <= max_vehicles()
        &&& forall|v: VehicleIdx| #[trigger] self.vehicles@.contains_key(v) ==> v is Vehicle && self.tours@.contains_key(v) && trs.contains_key(self.type_of(v))
    }
    /// A-counter (magnitude): the maintenance counter of whatever tour the depot improvement makes of v's tour is small (the
    /// counter is an uninterpreted atom of the rotation-cycle vocabulary, env/transition_spec.vs)
    pub open spec fn dp_counter_ok(&self, v: VehicleIdx) -> bool {
        forall|t: Tour| depots_replaced(&self.network, &self.tours@[v], &t) ==> -counter_bound() <= #[trigger] tour_counter(&t) <= counter_bound()
    }
    /// the postcondition of update_transitions_and_violation_fast (text of its `ensures`, slices/sched_guard.vs)
    pub open spec fn upd_post(&self, trs0: Map<VehicleTypeIdx, Transition>, trs1: Map<VehicleTypeIdx, Transition>, mv1: int, cv: Seq<VehicleIdx>,
        vehicles: Map<VehicleIdx, Vehicle>, tours: Map<VehicleIdx, Tour>) -> bool {
        &&& forall|vt: VehicleTypeIdx| trs0.contains_key(vt) <==> #[trigger] trs1.contains_key(vt)
        &&& forall|vt: VehicleTypeIdx| #[trigger] trs1.contains_key(vt) ==> trs1[vt].wf(&self.network, tours)
        &&& forall|vt: VehicleTypeIdx, v: VehicleIdx| #![trigger trs1[vt].has_vehicle(v)] trs1.contains_key(vt)
                ==> (trs1[vt].has_vehicle(v) <==> (vehicles.contains_key(v) && vtype(vehicles[v]) == vt))
        &&& mv1 == viol_sum(trs1, sched_types(self))
        &&& forall|vt: VehicleTypeIdx| #[trigger] trs1.contains_key(vt) && !self.touches_type(vehicles, cv, vt) ==> trs1[vt] == trs0[vt]
    }
}
/// the precondition of update_transitions_and_violation_fast for the listed vehicles and their improved tours
pub proof fn lemma_upd_pre_listed(s: &Schedule, ids: Seq<VehicleIdx>, tours: TourMap)
    requires
        s.dp_ok(), s.listed_ok(ids), s.dp_transitions_ok(ids.len() as int),
        forall|i: int| 0 <= i < ids.len() ==> s.dp_counter_ok(#[trigger] ids[i]),
        tours.dom() == s.tours@.dom(),
        forall|v: VehicleIdx| #[trigger] s.tours@.contains_key(v) ==> s.depots_improved(ids, v, tours[v]),
    ensures
        s.upd_pre(s.next_period_transitions@, s.maintenance_violation as int, ids, s.vehicles@, tours),
{
    let trs = s.next_period_transitions@;
    let vm = s.vehicles@;
    assert forall|i: int| 0 <= i < ids.len() && (#[trigger] ids[i]) is Vehicle implies s.change_ok(trs, vm, tours, ids[i]) by {
        let v = ids[i];
        assert(s.tours@.contains_key(v));
        assert(s.dp_vehicle_ok(v));
        assert(ids.contains(v));
        assert(s.depots_improved(ids, v, tours[v]));
        assert(s.dp_counter_ok(v));
        assert(tours.contains_key(v));
        assert(tour_ok(&s.network, &tours[v]));
    }
    assert forall|v: VehicleIdx| !real_in(ids, v) && #[trigger] vm.contains_key(v) implies tours.contains_key(v) && tours[v] == s.tours@[v] by {
        assert(v is Vehicle && s.tours@.contains_key(v));
        assert(s.depots_improved(ids, v, tours[v]));
    }
    assert forall|i: int, j: int| 0 <= i < j < ids.len() && ids[i] is Vehicle implies #[trigger] ids[i] != #[trigger] ids[j] by {}
}

/// what the recomputation needs of the tours is only that the listed ids have one: a tour map with the same keys does
pub proof fn lemma_rc_base_same_keys(s: &Schedule, t1: TourMap, t2: TourMap, list: Seq<VehicleTypeIdx>)
    requires
        s.rc_base(s.next_period_transitions@, s.maintenance_violation as int, s.vehicle_ids_grouped_and_sorted@, t1, list),
        t1.dom() == t2.dom(),
    ensures
        s.rc_base(s.next_period_transitions@, s.maintenance_violation as int, s.vehicle_ids_grouped_and_sorted@, t2, list),
{
    let ids = s.vehicle_ids_grouped_and_sorted@;
    assert forall|i: int, j: int| 0 <= i < list.len() && 0 <= j < ids[list[i]]@.len() implies t2.contains_key(#[trigger] ids[#[trigger] list[i]]@[j]) by {
        assert(t1.contains_key(ids[list[i]]@[j]));
        assert(t1.dom().contains(ids[list[i]]@[j]));
    }
}

// =====================================================================================================
// the choice of a depot: vocabulary of the contracts of Network::end_depots_sorted_by_distance_from,
// Schedule::find_best_start_depot_for_spawning / find_best_end_depot_for_despawning.  TEXT COPIED from
// env/depot_choice_shim.vs (slice depot_choice verifies the three functions against it), which cannot be included
// here: it declares UsageMap, sp_spawned, sp_despawned, usage_same_except again (see above) and expects
// env/admission_shim.vs' im_set.  No assumption: open spec functions and proved lemmas.
// =====================================================================================================
// ---- depot admission vocabulary (C02); in env/depot_choice_shim.vs copied from slices/admission.vs ----------------
impl Depot {
    /// C02: the number of vehicles of a type that may start at a depot: 0 if the type is not listed,
    /// the depot's total capacity if it is listed without a limit, the smaller of both otherwise
    pub open spec fn sp_capacity_for(&self, vt: VehicleTypeIdx) -> VehicleCount {
        if !self.allowed_types@.contains_key(vt) { 0 }
        else {
            match self.allowed_types@[vt] {
                Some(c) => if c <= self.total_capacity { c } else { self.total_capacity },
                None => self.total_capacity,
            }
        }
    }
}
impl Network {
    pub open spec fn has_depot(&self, d: DepotIdx) -> bool { self.depots@.contains_key(d) }
    pub open spec fn sp_depot(&self, d: DepotIdx) -> Depot { self.depots@[d].0 }
    /// the depot a start / end depot node belongs to (the free function sp_depot_idx_of(net, n) above has the same body)
    pub open spec fn sp_depot_idx_of(&self, n: NodeIdx) -> DepotIdx {
        match self.sp_node(n) {
            Node::StartDepot((_, d)) => d.depot_idx,
            Node::EndDepot((_, d)) => d.depot_idx,
            _ => arbitrary(),
        }
    }
}
/// C02: "the number of vehicles [of a type] starting there"
pub open spec fn spawned_of_type(du: UsageMap, d: DepotIdx, vt: VehicleTypeIdx) -> nat {
    if du.contains_key((d, vt)) { du[(d, vt)].0@.len() } else { 0 }
}
pub open spec fn spawned_counts(du: UsageMap, d: DepotIdx, types: Seq<VehicleTypeIdx>) -> Seq<int> {
    types.map_values(|vt: VehicleTypeIdx| spawned_of_type(du, d, vt) as int)
}
/// C02: "the number of vehicles starting there": the total over the given vehicle types
pub open spec fn spawned_total(du: UsageMap, d: DepotIdx, types: Seq<VehicleTypeIdx>) -> int {
    isum(spawned_counts(du, d, types))
}
// ---- the choice of a depot (env/depot_choice_shim.vs) -------------------------------------------------------------
/// "at most as far as"
pub open spec fn dist_le(a: Distance, b: Distance) -> bool { denc(a) <= denc(b) }
impl Network {
    /// the sort key of Network::start_depots_sorted_by_distance_to: the dead-head distance FROM the node d (its start
    /// location; for a depot node: the depot's location) TO the given location
    pub open spec fn dist_to(&self, d: NodeIdx, location: Location) -> Distance {
        self.locations.sp_distance(self.sp_node(d).sp_start_location(), location)
    }
    /// the sort key of Network::end_depots_sorted_by_distance_from: the dead-head distance FROM the given location TO
    /// the node d (the code reads its START location; for a depot node start and end location are the depot's location)
    pub open spec fn dist_from(&self, location: Location, d: NodeIdx) -> Distance {
        self.locations.sp_distance(location, self.sp_node(d).sp_start_location())
    }
    /// instance validity (A-index: how Network::new fills the list): the start depot node list holds StartDepot nodes
    /// of the network whose depot is a depot of the network's depot table
    pub open spec fn start_depots_ok(&self) -> bool {
        forall|i: int| 0 <= i < self.start_depot_nodes@.len() ==> self.has(#[trigger] self.start_depot_nodes@[i])
            && self.sp_node(self.start_depot_nodes@[i]) is StartDepot
            && self.has_depot(self.sp_depot_idx_of(self.start_depot_nodes@[i]))
    }
}
/// x occurs in `list` before some occurrence of y
pub open spec fn listed_before(list: Seq<NodeIdx>, x: NodeIdx, y: NodeIdx) -> bool {
    exists|a: int, b: int| #![trigger list[a], list[b]] 0 <= a < b < list.len() && list[a] == x && list[b] == y
}
impl Network {
    /// the nearest end depot node (ties: the one listed first)
    pub open spec fn nearest_end_depot(&self, r: NodeIdx, location: Location) -> bool {
        &&& self.end_depot_nodes@.contains(r)
        &&& forall|d: NodeIdx| #[trigger] self.end_depot_nodes@.contains(d) ==> dist_le(self.dist_from(location, r), self.dist_from(location, d))
        &&& forall|d: NodeIdx| #[trigger] self.end_depot_nodes@.contains(d) && d != r && self.dist_from(location, d) == self.dist_from(location, r)
                ==> listed_before(self.end_depot_nodes@, r, d)
    }
}
impl Network {
    /// s is in ascending order of the distance from the location
    pub open spec fn sorted_from(&self, s: Seq<NodeIdx>, location: Location) -> bool {
        forall|i: int, j: int| #![trigger s[i], s[j]] 0 <= i < j < s.len() ==> dist_le(self.dist_from(location, s[i]), self.dist_from(location, s[j]))
    }
    /// the tie-break of a stable sort: equally distant nodes are in the order they have in the end depot node list
    #[verifier::opaque]
    pub open spec fn ties_from(&self, s: Seq<NodeIdx>, location: Location) -> bool {
        forall|i: int, j: int| #![trigger s[i], s[j]] 0 <= i < j < s.len() && self.dist_from(location, s[i]) == self.dist_from(location, s[j])
            ==> listed_before(self.end_depot_nodes@, s[i], s[j])
    }
    /// what Network::end_depots_sorted_by_distance_from(location) returns: the end depot nodes, nearest first
    pub open spec fn is_end_depots_by_distance(&self, s: Seq<NodeIdx>, location: Location) -> bool {
        s.to_multiset() == self.end_depot_nodes@.to_multiset() && self.sorted_from(s, location) && self.ties_from(s, location)
    }
}
/// the first node of the end depot nodes sorted by distance is the nearest end depot
pub proof fn lemma_first_is_nearest(net: &Network, s: Seq<NodeIdx>, location: Location)
    requires net.is_end_depots_by_distance(s, location),
    ensures
        s.len() == net.end_depot_nodes@.len(),
        s.len() > 0 ==> net.nearest_end_depot(s[0], location),
{
    let edn = net.end_depot_nodes@;
    reveal(Network::ties_from);
    lemma_perm_members(s, edn);
    if s.len() > 0 {
        assert(s.contains(s[0]));
        assert forall|d: NodeIdx| #[trigger] edn.contains(d) implies dist_le(net.dist_from(location, s[0]), net.dist_from(location, d))
            && (d != s[0] && net.dist_from(location, d) == net.dist_from(location, s[0]) ==> listed_before(edn, s[0], d)) by {
            assert(s.contains(d));
            let m = choose|m: int| 0 <= m < s.len() && s[m] == d;
            if m > 0 { assert(dist_le(net.dist_from(location, s[0]), net.dist_from(location, s[m]))); }
        }
    }
}
/// a rearrangement has the same length and the same members
pub proof fn lemma_perm_members(a: Seq<NodeIdx>, b: Seq<NodeIdx>)
    requires a.to_multiset() == b.to_multiset(),
    ensures
        a.len() == b.len(),
        forall|x: NodeIdx| #[trigger] a.contains(x) <==> b.contains(x),
        forall|i: int| 0 <= i < a.len() ==> b.contains(#[trigger] a[i]),
{
    a.to_multiset_ensures();
    b.to_multiset_ensures();
    assert forall|x: NodeIdx| #[trigger] a.contains(x) <==> b.contains(x) by {
        assert(a.to_multiset().count(x) == b.to_multiset().count(x));
        assert(a.contains(x) <==> a.to_multiset().count(x) > 0);
        assert(b.contains(x) <==> b.to_multiset().count(x) > 0);
    }
    assert forall|i: int| 0 <= i < a.len() implies b.contains(#[trigger] a[i]) by {
        assert(a.contains(a[i]));
    }
}
impl Schedule {
    /// C02 "no more vehicles start at a depot than its total and per-type capacity": the depot of the start depot node n
    /// lists the type and has room for one more vehicle of it, per type and in total, w.r.t. the usage table du.  This is
    /// (verbatim) the value Schedule::can_depot_spawn_vehicle_custom_usage is verified to return (slices/admission.vs)
    pub open spec fn sp_can_spawn(&self, n: NodeIdx, vehicle_type: VehicleTypeIdx, du: UsageMap) -> bool {
        let d = self.network.sp_depot_idx_of(n);
        &&& self.network.sp_depot(d).sp_capacity_for(vehicle_type) > 0
        &&& spawned_of_type(du, d, vehicle_type) < self.network.sp_depot(d).sp_capacity_for(vehicle_type)
        &&& spawned_total(du, d, self.network.vehicle_types.ids_sorted@) < self.network.sp_depot(d).total_capacity
    }
    /// magnitude (`as VehicleCount` of a set size / the u32 sum over the types): the counts of the table fit u32 for the
    /// depots of the network's start depot nodes (vehicle ids are 16 bit: a set has at most 2^17 members)
    pub open spec fn usage_counts_small(&self, vehicle_type: VehicleTypeIdx, du: UsageMap) -> bool {
        forall|i: int| 0 <= i < self.network.start_depot_nodes@.len() ==> {
            let d = self.network.sp_depot_idx_of(#[trigger] self.network.start_depot_nodes@[i]);
            &&& spawned_of_type(du, d, vehicle_type) <= u32::MAX
            &&& spawned_total(du, d, self.network.vehicle_types.ids_sorted@) <= u32::MAX
        }
    }
    /// C06: some start depot node of the network can spawn a vehicle of the type w.r.t. the table
    pub open spec fn some_depot_has_room(&self, vehicle_type: VehicleTypeIdx, du: UsageMap) -> bool {
        exists|i: int| 0 <= i < self.network.start_depot_nodes@.len() && self.sp_can_spawn(#[trigger] self.network.start_depot_nodes@[i], vehicle_type, du)
    }
    /// the nearest start depot node with room for one more vehicle of the type w.r.t. the table (ties: the one listed first)
    pub open spec fn best_start_depot(&self, r: NodeIdx, vehicle_type: VehicleTypeIdx, location: Location, du: UsageMap) -> bool {
        let sdn = self.network.start_depot_nodes@;
        &&& sdn.contains(r)
        &&& self.sp_can_spawn(r, vehicle_type, du)
        &&& forall|d: NodeIdx| sdn.contains(d) && #[trigger] self.sp_can_spawn(d, vehicle_type, du)
                ==> dist_le(self.network.dist_to(r, location), self.network.dist_to(d, location))
        &&& forall|d: NodeIdx| sdn.contains(d) && #[trigger] self.sp_can_spawn(d, vehicle_type, du) && d != r
                && self.network.dist_to(d, location) == self.network.dist_to(r, location) ==> listed_before(sdn, r, d)
    }
}
// ---- sums: a count is at most the total (in env/depot_choice_shim.vs copied from slices/admission.vs) ---------------
pub proof fn lemma_isum_bounds_lo(s: Seq<int>)
    requires forall|i: int| 0 <= i < s.len() ==> 0 <= #[trigger] s[i],
    ensures 0 <= isum(s),
    decreases s.len(),
{
    if s.len() > 0 {
        let t = s.drop_last();
        assert forall|i: int| 0 <= i < t.len() implies 0 <= #[trigger] t[i] by { assert(t[i] == s[i]); }
        lemma_isum_bounds_lo(t);
    }
}
pub proof fn lemma_isum_nonneg_le(s: Seq<int>, k: int)
    requires forall|i: int| 0 <= i < s.len() ==> 0 <= #[trigger] s[i], 0 <= k < s.len(),
    ensures 0 <= s[k] <= isum(s),
    decreases s.len(),
{
    let t = s.drop_last();
    assert forall|i: int| 0 <= i < t.len() implies 0 <= #[trigger] t[i] by { assert(t[i] == s[i]); }
    lemma_isum_bounds_lo(t);
    if k < t.len() {
        lemma_isum_nonneg_le(t, k);
        assert(t[k] == s[k]);
    }
}
// ---- C06: how a caller meets some_depot_has_room -- "at least the overflow depot" (text of slices/depot_choice.vs) ------
/// A start depot node n of the network whose depot lists the type WITHOUT a per-type limit (the overflow depot lists every type
/// of the network so: slices/network_new.vs, C17.overflow_depot.no_per_type_limit_for_any_type) can spawn a vehicle of the type
/// as long as fewer vehicles start there in total than its total capacity -- then `expect` cannot panic.
pub proof fn lemma_depot_without_type_limit_suffices(s: &Schedule, n: NodeIdx, vehicle_type: VehicleTypeIdx, du: UsageMap)
    requires
        s.network.start_depot_nodes@.contains(n),
        // the type is one of the network's types (the total is the sum over them)
        s.network.vehicle_types.ids_sorted@.contains(vehicle_type),
        ({
            let d = s.network.sp_depot_idx_of(n);
            let dep = s.network.sp_depot(d);
            &&& dep.allowed_types@.contains_key(vehicle_type) && dep.allowed_types@[vehicle_type] is None
            &&& spawned_total(du, d, s.network.vehicle_types.ids_sorted@) < dep.total_capacity
        }),
    ensures
        s.sp_can_spawn(n, vehicle_type, du),
        s.some_depot_has_room(vehicle_type, du), // @obl C06.improve_depots.a_depot_without_type_limit_and_room_in_total_suffices
{
    let d = s.network.sp_depot_idx_of(n);
    let types = s.network.vehicle_types.ids_sorted@;
    let c = spawned_counts(du, d, types);
    let k = choose|k: int| 0 <= k < types.len() && types[k] == vehicle_type;
    lemma_isum_nonneg_le(c, k);
    assert(c[k] == spawned_of_type(du, d, vehicle_type));
    let sdn = s.network.start_depot_nodes@;
    let i = choose|i: int| 0 <= i < sdn.len() && sdn[i] == n;
    assert(s.sp_can_spawn(sdn[i], vehicle_type, du));
}

// ---- NEW (not in env/depot_choice_shim.vs): what improve_depots / reassign_end_depots_greedily need of / say about the choice ----
impl Schedule {
    /// the tour maps the second loop of improve_depots can have built when it turns to the k-th listed vehicle: the first k
    /// listed vehicles have their depots replaced, everybody else has the old tour
    pub open spec fn improve_progress(&self, tours: TourMap, ids: Seq<VehicleIdx>, k: int) -> bool {
        &&& tours.dom() == self.tours@.dom()
        &&& forall|j: int| 0 <= j < k ==> depots_replaced(&self.network, &self.tours@[#[trigger] ids[j]], &tours[ids[j]])
        &&& forall|j: int| k <= j < ids.len() ==> tours[#[trigger] ids[j]] == self.tours@[ids[j]]
        &&& forall|v: VehicleIdx| !ids.contains(v) ==> #[trigger] tours[v] == self.tours@[v]
    }
    /// C06 / C17 (and magnitude) for improve_depots: WHENEVER find_best_start_depot_for_spawning is consulted -- for the k-th
    /// listed vehicle, with a PARTIAL usage table du (usage_partial: exact for the unlisted vehicles and for the first k listed
    /// ones at their new depots, without the listed vehicles still to come) -- some start depot node of the network can spawn
    /// the vehicle's type w.r.t. du ("There should be at least the overflow depot available."; `expect` panics otherwise), and
    /// the counts of du fit u32.  Quantified over every table / tour map that can arise, because which depots the earlier
    /// vehicles got depends on the distances.  lemma_depot_without_type_limit_suffices: a start depot node whose depot lists
    /// the type without per-type limit (the overflow depot: slices/network_new.vs, C17) and where, according to du, fewer
    /// vehicles start in total than its total capacity suffices for some_depot_has_room.
    pub open spec fn dp_room_ok(&self, ids: Seq<VehicleIdx>) -> bool {
        forall|du: UsageMap, tours: TourMap, k: int| #![trigger self.usage_partial(du, tours, ids, k)]
            0 <= k < ids.len() && self.improve_progress(tours, ids, k) && self.usage_partial(du, tours, ids, k)
            ==> self.usage_counts_small(self.type_of(ids[k]), du) && self.some_depot_has_room(self.type_of(ids[k]), du)
    }
    /// C13 (reassign_end_depots_greedily): the end depot node of t is the end depot node of the network that is nearest to the
    /// end location of the last activity of v's tour (dead-head distance; ties: the one listed first; capacities ignored)
    pub open spec fn end_is_nearest(&self, v: VehicleIdx, t: Tour) -> bool {
        let o = self.tours@[v];
        self.network.nearest_end_depot(sp_end_depot(&t), self.network.sp_node(o.nodes@[o.nodes@.len() - 2]).sp_end_location())
    }
}

// =====================================================================================================
// CLOSURE (C10 "after any sequence of schedule modifications", the induction step): the result of a depot-only operation
// satisfies the invariant bundle of its own precondition again -- dp_ok, rc_base, dp_transitions_ok.  Everything in this
// section is open spec functions and proved lemmas, EXCEPT axiom_sched_vehicles_frame (A-iter, NEW) and the vocabulary of
// the contract of Transition::new_fast (given_ok / new_fast_post: text of slices/new_fast.vs / env/new_fast_shim.vs).
// =====================================================================================================

/// A-iter (NEW; frame of the uninterpreted listing `sched_vehicles`): the order in which Schedule::vehicles_iter_all yields the
/// vehicles only depends on the vehicle types of the network and on the id lists -- its body is
/// `self.network.vehicle_types().iter().collect::<Vec<_>>().into_iter().flat_map(|vt| self.vehicles_iter(vt))` with
/// vehicles_iter(vt) = `self.vehicle_ids_grouped_and_sorted[&vt].iter().copied()`: no other field of the schedule is read.
/// Without it NO listing conjunct of dp_ok could be stated for the result (sched_vehicles is uninterpreted per schedule).
pub proof fn axiom_sched_vehicles_frame(a: &Schedule, b: &Schedule)
    requires
        sched_types(a) == sched_types(b),
        a.vehicle_ids_grouped_and_sorted@ == b.vehicle_ids_grouped_and_sorted@,
    ensures sched_vehicles(a) == sched_vehicles(b),
{
    // no longer an assumption: sched_vehicles is defined over the vehicle types and the id lists (env/schedule_shim.vs)
    lemma_sched_vehicles_frame(a, b);
}

// ---- the contract of Transition::new_fast that slices/new_fast.vs justifies -------------------------------------------------
/// PRECONDITION of Transition::new_fast in slices/new_fast.vs (text copied from env/new_fast_shim.vs): every given vehicle has an
/// admissible tour (real, well-formed, of this network, counter within +-2^40), no vehicle is listed twice, at most 2^17 vehicles
pub open spec fn given_ok(net: &Network, tours: Map<VehicleIdx, Tour>, vs: Seq<VehicleIdx>) -> bool {
    &&& net.wf()
    &&& vs.no_duplicates()
    &&& vs.len() <= max_vehicles()
    &&& cycle_tours_ok(net, tours, vs)
}
/// POSTCONDITION of Transition::new_fast that slices/new_fast.vs justifies (its header, "CONTRACT this justifies for stubs"):
/// consistent with the tours (C15: Transition::wf), exactly the listed vehicles as members (C10), no empty cycle slot, totals
/// exact (part of wf), violation within [0, len * 2^41]
pub open spec fn new_fast_post(r: &Transition, net: &Network, tours: Map<VehicleIdx, Tour>, vs: Seq<VehicleIdx>) -> bool {
    &&& r.wf(net, tours)
    &&& forall|v: VehicleIdx| #[trigger] r.has_vehicle(v) <==> vs.contains(v)
    &&& r.total_len() == vs.len()
    &&& r.empty_cycles@.len() == 0
    &&& 0 <= r.total_maintenance_violation <= vs.len() * vehicle_bound()
}
/// the rebuilt transition of type vt is what that contract promises, PROVIDED its precondition holds for the type's id list and
/// the given tours (the depot-only operations do not require given_ok: see the header of slices/depot_ops.vs)
pub open spec fn rebuilt_ok(ids: IdLists, tours: Map<VehicleIdx, Tour>, net: Network, vt: VehicleTypeIdx) -> bool {
    given_ok(&net, tours, ids[vt]@) ==> new_fast_post(&rebuilt(ids, tours, net, vt), &net, tours, ids[vt]@)
}
/// C15 / C10 for the rebuilt transitions: the transition of every listed type whose id list and tours meet the precondition of
/// Transition::new_fast is consistent with the tours and holds exactly the listed vehicles
pub open spec fn rebuilt_exact(net: &Network, trs: Map<VehicleTypeIdx, Transition>, ids: IdLists, tours: Map<VehicleIdx, Tour>, list: Seq<VehicleTypeIdx>) -> bool {
    forall|i: int| 0 <= i < list.len() && given_ok(net, tours, ids[#[trigger] list[i]]@) ==> new_fast_post(&trs[list[i]], net, tours, ids[list[i]]@)
}

// ---- rc_base, split into its structural conjuncts and its two magnitude conjuncts ----------------------------------------------
/// hypothesis on the RESULT under which magnitude conjunct 1 of rc_base holds again: the transition of every listed (= rebuilt)
/// type holds at least as many vehicles as the type's id list lists (under given_ok: exactly as many, see rebuilt_exact)
pub open spec fn lens_cover(trs: Map<VehicleTypeIdx, Transition>, ids: IdLists, list: Seq<VehicleTypeIdx>) -> bool {
    forall|i: int| 0 <= i < list.len() ==> ids[#[trigger] list[i]]@.len() <= trs[list[i]].total_len()
}
/// hypothesis on the RESULT under which magnitude conjunct 2 of rc_base holds again: the rebuilt transitions hold no more
/// vehicles than the ones they replace
pub open spec fn lens_not_grown(trs0: Map<VehicleTypeIdx, Transition>, trs: Map<VehicleTypeIdx, Transition>, list: Seq<VehicleTypeIdx>) -> bool {
    forall|i: int| 0 <= i < list.len() ==> trs[#[trigger] list[i]].total_len() <= trs0[list[i]].total_len()
}
/// magnitude conjunct 1 of rc_base (text of rc_base): every transition's violation is at most 2^41 per vehicle
pub open spec fn rc_viol_small(trs: Map<VehicleTypeIdx, Transition>) -> bool {
    forall|vt: VehicleTypeIdx| #[trigger] trs.contains_key(vt) ==> 0 <= trs[vt].total_maintenance_violation <= trs[vt].total_len() * vehicle_bound()
}
impl Schedule {
    /// the conjuncts of rc_base that are no magnitudes (text of rc_base): the network's types are duplicate-free and exactly the
    /// keys of the transitions, every listed type is one of them and has an id list, every listed id has a tour, C09 violation sum
    pub open spec fn rc_struct(&self, trs: Map<VehicleTypeIdx, Transition>, mv: int, ids: IdLists, tours: Map<VehicleIdx, Tour>, list: Seq<VehicleTypeIdx>) -> bool {
        let vts = sched_types(self);
        &&& vts.no_duplicates()
        &&& forall|vt: VehicleTypeIdx| #[trigger] trs.contains_key(vt) <==> vts.contains(vt)
        &&& forall|i: int| 0 <= i < list.len() ==> vts.contains(#[trigger] list[i]) && ids.contains_key(list[i])
        &&& forall|i: int, j: int| 0 <= i < list.len() && 0 <= j < ids[list[i]]@.len() ==> tours.contains_key(#[trigger] ids[#[trigger] list[i]]@[j])
        &&& mv == viol_sum(trs, vts)
    }
    /// magnitude conjunct 2 of rc_base (text of rc_base): at most 2^18 vehicles in transitions and id lists together
    pub open spec fn rc_cap_small(&self, trs: Map<VehicleTypeIdx, Transition>, ids: IdLists) -> bool {
        cap_sum(trs, ids, sched_types(self)) <= 2 * max_vehicles()
    }
}
/// rc_base is exactly the three parts together
pub proof fn lemma_rc_base_split(s: &Schedule, trs: Map<VehicleTypeIdx, Transition>, mv: int, ids: IdLists, tours: Map<VehicleIdx, Tour>, list: Seq<VehicleTypeIdx>)
    ensures s.rc_base(trs, mv, ids, tours, list) <==> (s.rc_struct(trs, mv, ids, tours, list) && rc_viol_small(trs) && s.rc_cap_small(trs, ids)),
{
}
/// the three parts only read the schedule's network
pub proof fn lemma_rc_same_network(s: &Schedule, r: &Schedule, trs: Map<VehicleTypeIdx, Transition>, mv: int, ids: IdLists, tours: Map<VehicleIdx, Tour>, list: Seq<VehicleTypeIdx>)
    requires r.network == s.network,
    ensures
        r.rc_struct(trs, mv, ids, tours, list) == s.rc_struct(trs, mv, ids, tours, list),
        r.rc_cap_small(trs, ids) == s.rc_cap_small(trs, ids),
        r.rc_base(trs, mv, ids, tours, list) == s.rc_base(trs, mv, ids, tours, list),
{
    assert(sched_types(r) == sched_types(s));
}
/// the number of vehicles in transitions and id lists does not grow if no transition grows
pub proof fn lemma_cap_mono(trs0: Map<VehicleTypeIdx, Transition>, trs1: Map<VehicleTypeIdx, Transition>, ids: IdLists, vts: Seq<VehicleTypeIdx>)
    requires forall|i: int| 0 <= i < vts.len() ==> trs1[#[trigger] vts[i]].total_len() <= trs0[vts[i]].total_len(),
    ensures cap_sum(trs1, ids, vts) <= cap_sum(trs0, ids, vts),
    decreases vts.len(),
{
    if vts.len() > 0 {
        let d = vts.drop_last();
        assert forall|i: int| 0 <= i < d.len() implies trs1[#[trigger] d[i]].total_len() <= trs0[d[i]].total_len() by { assert(d[i] == vts[i]); }
        lemma_cap_mono(trs0, trs1, ids, d);
        assert(vts.last() == vts[vts.len() - 1]);
    }
}
/// CLOSURE of rc_base under recompute_transitions_and_violation_fast, from its precondition and its effect clauses (rc_post,
/// violation sum): the structural conjuncts hold again unconditionally; magnitude conjunct 1 if the rebuilt transitions hold at
/// least the listed vehicles (lens_cover), magnitude conjunct 2 if they hold no more vehicles than the old ones (lens_not_grown)
pub proof fn lemma_rc_closure(s: &Schedule, trs0: Map<VehicleTypeIdx, Transition>, mv0: int, trs1: Map<VehicleTypeIdx, Transition>, mv1: int,
        ids: IdLists, tours: Map<VehicleIdx, Tour>, list: Seq<VehicleTypeIdx>)
    requires
        s.rc_pre(trs0, mv0, ids, tours, list),
        s.rc_post(trs0, trs1, ids, tours, list),
        mv1 == viol_sum(trs1, sched_types(s)),
    ensures
        s.rc_struct(trs1, mv1, ids, tours, list),
        lens_cover(trs1, ids, list) ==> rc_viol_small(trs1),
        lens_not_grown(trs0, trs1, list) ==> s.rc_cap_small(trs1, ids),
        lens_cover(trs1, ids, list) && lens_not_grown(trs0, trs1, list) ==> s.rc_base(trs1, mv1, ids, tours, list),
{
    let vts = sched_types(s);
    assert forall|vt: VehicleTypeIdx| #[trigger] trs1.contains_key(vt) <==> vts.contains(vt) by {
        assert(trs0.contains_key(vt) <==> trs1.contains_key(vt));
    }
    assert(s.rc_struct(trs1, mv1, ids, tours, list));
    if lens_cover(trs1, ids, list) {
        assert forall|vt: VehicleTypeIdx| #[trigger] trs1.contains_key(vt) implies 0 <= trs1[vt].total_maintenance_violation <= trs1[vt].total_len() * vehicle_bound() by {
            assert(trs0.contains_key(vt));
            if list.contains(vt) {
                let i = choose|i: int| 0 <= i < list.len() && list[i] == vt;
                assert(Schedule::rebuilt_small(ids, tours, *s.network, list[i]));
                assert(trs1[vt] == rebuilt(ids, tours, *s.network, vt));
                let a = ids[list[i]]@.len() as int;
                let b = trs1[list[i]].total_len();
                assert(a <= b);
                assert(a * vehicle_bound() <= b * vehicle_bound()) by (nonlinear_arith) requires a <= b, vehicle_bound() > 0;
            } else {
                assert(trs1[vt] == trs0[vt]);
            }
        }
    }
    if lens_not_grown(trs0, trs1, list) {
        assert forall|i: int| 0 <= i < vts.len() implies trs1[#[trigger] vts[i]].total_len() <= trs0[vts[i]].total_len() by {
            let vt = vts[i];
            assert(vts.contains(vt));
            assert(trs0.contains_key(vt) && trs1.contains_key(vt));
            if list.contains(vt) {
                let j = choose|j: int| 0 <= j < list.len() && list[j] == vt;
                assert(trs1[list[j]].total_len() <= trs0[list[j]].total_len());
            } else {
                assert(trs1[vt] == trs0[vt]);
            }
        }
        lemma_cap_mono(trs0, trs1, ids, vts);
    }
    lemma_rc_base_split(s, trs1, mv1, ids, tours, list);
}
/// how a caller discharges the two hypotheses: if the id list of every listed type meets the precondition of Transition::new_fast
/// (given_ok), the rebuilt transitions hold exactly the listed vehicles (rebuilt_exact); so lens_cover holds, and lens_not_grown
/// holds if the old transitions held at least the listed vehicles (C10 "listings match": they hold exactly those)
pub proof fn lemma_lens_from_exact(net: &Network, trs0: Map<VehicleTypeIdx, Transition>, trs1: Map<VehicleTypeIdx, Transition>, ids: IdLists, tours: Map<VehicleIdx, Tour>, list: Seq<VehicleTypeIdx>)
    requires
        rebuilt_exact(net, trs1, ids, tours, list),
        forall|i: int| 0 <= i < list.len() ==> given_ok(net, tours, ids[#[trigger] list[i]]@),
    ensures
        lens_cover(trs1, ids, list),
        forall|i: int| 0 <= i < list.len() ==> trs1[#[trigger] list[i]].total_len() == ids[list[i]]@.len(),
        lens_cover(trs0, ids, list) ==> lens_not_grown(trs0, trs1, list),
{
    assert forall|i: int| 0 <= i < list.len() implies trs1[#[trigger] list[i]].total_len() == ids[list[i]]@.len() by {
        assert(given_ok(net, tours, ids[list[i]]@));
        assert(new_fast_post(&trs1[list[i]], net, tours, ids[list[i]]@));
    }
}

// ---- dp_ok: closure --------------------------------------------------------------------------------------------------------------
impl Schedule {
    /// every conjunct of dp_ok (text of dp_ok) but the upper bound of the costs (`self.costs <= sched_cost_bound()`, a magnitude
    /// that a depot-only operation does not preserve: the costs of a tour can grow by up to two legs' costs per vehicle)
    pub open spec fn dp_ok_but_cost_bound(&self) -> bool {
        let vs = sched_vehicles(self);
        &&& self.network.wf()
        &&& depot_nodes_ok(&self.network)
        &&& vs.no_duplicates()
        &&& vs.len() <= max_vehicles()
        &&& forall|v: VehicleIdx| #[trigger] vs.contains(v) <==> self.tours@.contains_key(v)
        &&& forall|v: VehicleIdx| #[trigger] self.tours@.contains_key(v) ==> self.dp_vehicle_ok(v)
        &&& tours_costs(self.tours@, vs) <= self.costs
        &&& usage_exact(self.depot_usage@, &self.network, self.vehicles@, self.tours@)
    }
    /// the effect clause "everything else untouched" of the depot-only operations (text of their `ensures`)
    pub open spec fn rest_untouched(&self, r: &Schedule) -> bool {
        r.tours@.dom() == self.tours@.dom()
            && r.dummy_tours@ == self.dummy_tours@ && r.vehicles@ == self.vehicles@ && r.train_formations@ == self.train_formations@
            && r.vehicle_ids_grouped_and_sorted@ == self.vehicle_ids_grouped_and_sorted@ && r.dummy_ids_sorted@ == self.dummy_ids_sorted@
            && r.vehicle_counter == self.vehicle_counter && r.unserved_passengers == self.unserved_passengers && r.network == self.network
    }
    /// the effect clauses of reassign_end_depots_greedily the closure of dp_ok is derived from (text of its `ensures`)
    pub open spec fn end_reassign_effect(&self, r: &Schedule) -> bool {
        &&& forall|v: VehicleIdx| #[trigger] self.tours@.contains_key(v) ==> self.end_reassigned(v, r.tours@[v])
        &&& self.rest_untouched(r)
        &&& r.costs - tours_costs(r.tours@, sched_vehicles(self)) == self.costs - tours_costs(self.tours@, sched_vehicles(self))
        &&& usage_exact(r.depot_usage@, &self.network, r.vehicles@, r.tours@)
    }
    /// the effect clauses of improve_depots the closure of dp_ok is derived from (text of its `ensures`; ids = the listed vehicles)
    pub open spec fn improve_effect(&self, r: &Schedule, ids: Seq<VehicleIdx>) -> bool {
        &&& forall|v: VehicleIdx| #[trigger] self.tours@.contains_key(v) ==> self.depots_improved(ids, v, r.tours@[v])
        &&& self.rest_untouched(r)
        &&& r.costs - tours_costs(r.tours@, ids) == self.costs - tours_costs(self.tours@, ids)
        &&& usage_exact(r.depot_usage@, &self.network, r.vehicles@, r.tours@)
    }
}
/// dp_ok is dp_ok_but_cost_bound plus the bound
pub proof fn lemma_dp_ok_split(s: &Schedule)
    ensures s.dp_ok() <==> (s.dp_ok_but_cost_bound() && s.costs <= sched_cost_bound()),
{
}
/// membership after taking one element out of a duplicate-free list
pub proof fn lemma_remove_no_dup(s: Seq<VehicleIdx>, q: int)
    requires s.no_duplicates(), 0 <= q < s.len(),
    ensures
        s.remove(q).no_duplicates(),
        forall|v: VehicleIdx| #[trigger] s.remove(q).contains(v) <==> (s.contains(v) && v != s[q]),
{
    let r = s.remove(q);
    assert forall|a: int, b: int| 0 <= a < r.len() && 0 <= b < r.len() && a != b implies r[a] != r[b] by {
        let a1 = if a < q { a } else { a + 1 };
        let b1 = if b < q { b } else { b + 1 };
        assert(r[a] == s[a1] && r[b] == s[b1]);
    }
    assert forall|v: VehicleIdx| #[trigger] r.contains(v) <==> (s.contains(v) && v != s[q]) by {
        if r.contains(v) {
            let a = choose|a: int| 0 <= a < r.len() && r[a] == v;
            let a1 = if a < q { a } else { a + 1 };
            assert(r[a] == s[a1]);
            assert(s[a1] != s[q]);
        }
        if s.contains(v) && v != s[q] {
            let j = choose|j: int| 0 <= j < s.len() && s[j] == v;
            if j < q { assert(r[j] == v); } else { assert(r[j - 1] == v); }
        }
    }
}
/// C09: two tour maps that agree on the vehicles of vs that are not in ids: the costs of the tours of vs differ by what the costs
/// of the tours of ids differ (ids duplicate-free and among the duplicate-free vs)
pub proof fn lemma_costs_rest(t1: TourMap, t2: TourMap, ids: Seq<VehicleIdx>, vs: Seq<VehicleIdx>)
    requires
        ids.no_duplicates(), vs.no_duplicates(),
        forall|i: int| 0 <= i < ids.len() ==> vs.contains(#[trigger] ids[i]),
        forall|v: VehicleIdx| vs.contains(v) && !ids.contains(v) ==> #[trigger] t1[v] == t2[v],
    ensures
        pre_costs(t1, vs, vs.len() as int) - pre_costs(t1, ids, ids.len() as int) == pre_costs(t2, vs, vs.len() as int) - pre_costs(t2, ids, ids.len() as int),
    decreases ids.len(),
{
    let n = ids.len() as int;
    if n == 0 {
        assert forall|j: int| 0 <= j < vs.len() implies t1[#[trigger] vs[j]] == t2[vs[j]] by {
            assert(vs.contains(vs[j]));
            assert(!ids.contains(vs[j]));
        }
        lemma_pre_costs_frame(t1, t2, vs, vs.len() as int);
    } else {
        let x = ids[n - 1];
        let ids1 = ids.drop_last();
        assert(vs.contains(ids[n - 1]));
        let q = choose|q: int| 0 <= q < vs.len() && vs[q] == x;
        let vs1 = vs.remove(q);
        lemma_remove_no_dup(vs, q);
        assert(ids1.no_duplicates());
        assert forall|i: int| 0 <= i < ids1.len() implies vs1.contains(#[trigger] ids1[i]) by {
            assert(ids1[i] == ids[i]);
            assert(ids[i] != ids[n - 1]);
            assert(vs.contains(ids[i]));
        }
        assert forall|v: VehicleIdx| vs1.contains(v) && !ids1.contains(v) implies #[trigger] t1[v] == t2[v] by {
            assert(vs.contains(v) && v != x);
            if ids.contains(v) {
                let j = choose|j: int| 0 <= j < ids.len() && ids[j] == v;
                assert(j < n - 1);
                assert(ids1[j] == v);
            }
        }
        lemma_costs_rest(t1, t2, ids1, vs1);
        lemma_pre_costs_remove(t1, vs, q);
        lemma_pre_costs_remove(t2, vs, q);
        lemma_pre_costs_seq_frame(t1, ids, ids1, n - 1);
        lemma_pre_costs_seq_frame(t2, ids, ids1, n - 1);
    }
}
/// CLOSURE of dp_ok (all conjuncts but the cost bound), common part: the listing is the old one (A-iter frame), every vehicle's
/// tour is admissible again, the costs follow the tours of the listed vehicles, the usage table is exact for the new tours
pub proof fn lemma_close_dp(s: &Schedule, r: &Schedule, ids: Seq<VehicleIdx>)
    requires
        s.dp_ok(), s.rest_untouched(r),
        forall|v: VehicleIdx| #[trigger] r.tours@.contains_key(v) ==> r.dp_vehicle_ok(v),
        ids.no_duplicates(),
        forall|i: int| 0 <= i < ids.len() ==> s.tours@.contains_key(#[trigger] ids[i]),
        forall|v: VehicleIdx| s.tours@.contains_key(v) && !ids.contains(v) ==> #[trigger] r.tours@[v] == s.tours@[v],
        r.costs - tours_costs(r.tours@, ids) == s.costs - tours_costs(s.tours@, ids),
        usage_exact(r.depot_usage@, &s.network, r.vehicles@, r.tours@),
    ensures
        sched_vehicles(r) == sched_vehicles(s),
        r.dp_ok_but_cost_bound(),
{
    let vs = sched_vehicles(s);
    assert(sched_types(r) == sched_types(s));
    axiom_sched_vehicles_frame(r, s);
    assert forall|v: VehicleIdx| #[trigger] vs.contains(v) <==> r.tours@.contains_key(v) by {
        assert(r.tours@.contains_key(v) <==> r.tours@.dom().contains(v));
        assert(s.tours@.contains_key(v) <==> s.tours@.dom().contains(v));
    }
    assert forall|i: int| 0 <= i < ids.len() implies vs.contains(#[trigger] ids[i]) by {}
    assert forall|v: VehicleIdx| vs.contains(v) && !ids.contains(v) implies #[trigger] r.tours@[v] == s.tours@[v] by {}
    lemma_costs_rest(r.tours@, s.tours@, ids, vs);
}
/// CLOSURE of dp_ok under reassign_end_depots_greedily, from dp_ok of the input and the effect clauses of the contract
pub proof fn lemma_close_dp_end_reassigned(s: &Schedule, r: &Schedule)
    requires s.dp_ok(), s.end_reassign_effect(r),
    ensures
        sched_vehicles(r) == sched_vehicles(s),
        r.dp_ok_but_cost_bound(),
        r.costs <= sched_cost_bound() ==> r.dp_ok(),
{
    let vs = sched_vehicles(s);
    assert forall|v: VehicleIdx| #[trigger] r.tours@.contains_key(v) implies r.dp_vehicle_ok(v) by {
        assert(r.tours@.dom().contains(v));
        assert(s.tours@.contains_key(v));
        assert(s.dp_vehicle_ok(v));
        assert(s.end_reassigned(v, r.tours@[v]));
    }
    assert forall|i: int| 0 <= i < vs.len() implies s.tours@.contains_key(#[trigger] vs[i]) by { assert(vs.contains(vs[i])); }
    assert forall|v: VehicleIdx| s.tours@.contains_key(v) && !vs.contains(v) implies #[trigger] r.tours@[v] == s.tours@[v] by {}
    lemma_close_dp(s, r, vs);
    lemma_dp_ok_split(r);
}
/// CLOSURE of dp_ok under improve_depots, from dp_ok of the input and the effect clauses of the contract
pub proof fn lemma_close_dp_improved(s: &Schedule, r: &Schedule, ids: Seq<VehicleIdx>)
    requires s.dp_ok(), s.listed_ok(ids), s.improve_effect(r, ids),
    ensures
        sched_vehicles(r) == sched_vehicles(s),
        r.dp_ok_but_cost_bound(),
        r.costs <= sched_cost_bound() ==> r.dp_ok(),
{
    assert forall|v: VehicleIdx| #[trigger] r.tours@.contains_key(v) implies r.dp_vehicle_ok(v) by {
        assert(r.tours@.dom().contains(v));
        assert(s.tours@.contains_key(v));
        assert(s.dp_vehicle_ok(v));
        assert(s.depots_improved(ids, v, r.tours@[v]));
    }
    assert forall|v: VehicleIdx| s.tours@.contains_key(v) && !ids.contains(v) implies #[trigger] r.tours@[v] == s.tours@[v] by {
        assert(s.depots_improved(ids, v, r.tours@[v]));
    }
    lemma_close_dp(s, r, ids);
    lemma_dp_ok_split(r);
}
/// the same, for whatever schedule the function returns (the result only exists in the tail expression of the verbatim body)
pub proof fn lemma_close_dp_end_reassigned_all(s: &Schedule)
    requires s.dp_ok(),
    ensures
        forall|r: Schedule| #![trigger r.dp_ok_but_cost_bound()] s.end_reassign_effect(&r) ==> r.dp_ok_but_cost_bound(),
        forall|r: Schedule| #![trigger sched_vehicles(&r)] s.rest_untouched(&r) ==> sched_vehicles(&r) == sched_vehicles(s),
        forall|r: Schedule| #![trigger r.dp_ok()] s.end_reassign_effect(&r) && r.costs <= sched_cost_bound() ==> r.dp_ok(),
{
    assert forall|r: Schedule| #![trigger r.dp_ok_but_cost_bound()] s.end_reassign_effect(&r) implies r.dp_ok_but_cost_bound() by {
        lemma_close_dp_end_reassigned(s, &r);
    }
    assert forall|r: Schedule| #![trigger sched_vehicles(&r)] s.rest_untouched(&r) implies sched_vehicles(&r) == sched_vehicles(s) by {
        assert(sched_types(&r) == sched_types(s));
        axiom_sched_vehicles_frame(&r, s);
    }
    assert forall|r: Schedule| #![trigger r.dp_ok()] s.end_reassign_effect(&r) && r.costs <= sched_cost_bound() implies r.dp_ok() by {
        lemma_close_dp_end_reassigned(s, &r);
    }
}
pub proof fn lemma_close_dp_improved_all(s: &Schedule, ids: Seq<VehicleIdx>)
    requires s.dp_ok(), s.listed_ok(ids),
    ensures
        forall|r: Schedule| #![trigger r.dp_ok_but_cost_bound()] s.improve_effect(&r, ids) ==> r.dp_ok_but_cost_bound(),
        forall|r: Schedule| #![trigger sched_vehicles(&r)] s.rest_untouched(&r) ==> sched_vehicles(&r) == sched_vehicles(s),
        forall|r: Schedule| #![trigger r.dp_ok()] s.improve_effect(&r, ids) && r.costs <= sched_cost_bound() ==> r.dp_ok(),
{
    assert forall|r: Schedule| #![trigger r.dp_ok_but_cost_bound()] s.improve_effect(&r, ids) implies r.dp_ok_but_cost_bound() by {
        lemma_close_dp_improved(s, &r, ids);
    }
    assert forall|r: Schedule| #![trigger sched_vehicles(&r)] s.rest_untouched(&r) implies sched_vehicles(&r) == sched_vehicles(s) by {
        assert(sched_types(&r) == sched_types(s));
        axiom_sched_vehicles_frame(&r, s);
    }
    assert forall|r: Schedule| #![trigger r.dp_ok()] s.improve_effect(&r, ids) && r.costs <= sched_cost_bound() implies r.dp_ok() by {
        lemma_close_dp_improved(s, &r, ids);
    }
}
/// the transition conjuncts: what recompute_transitions_and_violation_fast ensures w.r.t. the input schedule holds w.r.t. whatever
/// schedule over the same network is built from the parts (rc_struct / rc_cap_small / rc_base only read the network's types)
pub proof fn lemma_close_rc_all(s: &Schedule, trs: Map<VehicleTypeIdx, Transition>, mv: int, ids: IdLists, tours: Map<VehicleIdx, Tour>, list: Seq<VehicleTypeIdx>)
    ensures
        forall|r: Schedule| #![trigger r.rc_struct(trs, mv, ids, tours, list)] r.network == s.network ==> r.rc_struct(trs, mv, ids, tours, list) == s.rc_struct(trs, mv, ids, tours, list),
        forall|r: Schedule| #![trigger r.rc_cap_small(trs, ids)] r.network == s.network ==> r.rc_cap_small(trs, ids) == s.rc_cap_small(trs, ids),
        forall|r: Schedule| #![trigger r.rc_base(trs, mv, ids, tours, list)] r.network == s.network ==> r.rc_base(trs, mv, ids, tours, list) == s.rc_base(trs, mv, ids, tours, list),
{
    assert forall|r: Schedule| #![trigger r.rc_struct(trs, mv, ids, tours, list)] r.network == s.network implies r.rc_struct(trs, mv, ids, tours, list) == s.rc_struct(trs, mv, ids, tours, list) by {
        lemma_rc_same_network(s, &r, trs, mv, ids, tours, list);
    }
    assert forall|r: Schedule| #![trigger r.rc_cap_small(trs, ids)] r.network == s.network implies r.rc_cap_small(trs, ids) == s.rc_cap_small(trs, ids) by {
        lemma_rc_same_network(s, &r, trs, mv, ids, tours, list);
    }
    assert forall|r: Schedule| #![trigger r.rc_base(trs, mv, ids, tours, list)] r.network == s.network implies r.rc_base(trs, mv, ids, tours, list) == s.rc_base(trs, mv, ids, tours, list) by {
        lemma_rc_same_network(s, &r, trs, mv, ids, tours, list);
    }
}
/// recompute_transitions_for keeps everything dp_ok reads
pub proof fn lemma_close_dp_same(s: &Schedule, r: &Schedule)
    requires
        s.dp_ok(), s.rest_untouched(r), r.tours@ == s.tours@, r.depot_usage@ == s.depot_usage@, r.costs == s.costs,
    ensures r.dp_ok(), sched_vehicles(r) == sched_vehicles(s),
{
    assert(sched_types(r) == sched_types(s));
    axiom_sched_vehicles_frame(r, s);
    assert forall|v: VehicleIdx| #[trigger] r.tours@.contains_key(v) implies r.dp_vehicle_ok(v) by { assert(s.dp_vehicle_ok(v)); }
}
pub proof fn lemma_close_dp_same_all(s: &Schedule)
    requires s.dp_ok(),
    ensures
        forall|r: Schedule| #![trigger r.dp_ok()] s.rest_untouched(&r) && r.tours@ == s.tours@ && r.depot_usage@ == s.depot_usage@ && r.costs == s.costs ==> r.dp_ok(),
{
    assert forall|r: Schedule| #![trigger r.dp_ok()] s.rest_untouched(&r) && r.tours@ == s.tours@ && r.depot_usage@ == s.depot_usage@ && r.costs == s.costs implies r.dp_ok() by {
        lemma_close_dp_same(s, &r);
    }
}

// ---- dp_transitions_ok: closure (improve_depots with a list) -------------------------------------------------------------------
/// the vehicles in the first k cycles                                                  [text of env/sched_ctor_shim.vs]
pub open spec fn dpcl_cyc_elems(t: TView, k: int) -> Set<VehicleIdx>
    decreases k,
{
    if k <= 0 { Set::empty() } else { dpcl_cyc_elems(t, k - 1).union(t.cyc(k - 1).to_set()) }
}
pub proof fn dpcl_lemma_cyc_elems_member(t: TView, k: int, v: VehicleIdx)
    requires 0 <= k <= t.n(),
    ensures dpcl_cyc_elems(t, k).contains(v) <==> exists|i: int| 0 <= i < k && (#[trigger] t.cyc(i)).contains(v),
    decreases k,
{
    if k > 0 {
        dpcl_lemma_cyc_elems_member(t, k - 1, v);
        if dpcl_cyc_elems(t, k).contains(v) {
            if t.cyc(k - 1).contains(v) { assert(0 <= k - 1 < k && t.cyc(k - 1).contains(v)); }
            else {
                let i = choose|i: int| 0 <= i < k - 1 && (#[trigger] t.cyc(i)).contains(v);
                assert(0 <= i < k && t.cyc(i).contains(v));
            }
        }
        if exists|i: int| 0 <= i < k && (#[trigger] t.cyc(i)).contains(v) {
            let i = choose|i: int| 0 <= i < k && (#[trigger] t.cyc(i)).contains(v);
            if i < k - 1 { assert(0 <= i < k - 1 && t.cyc(i).contains(v)); }
        }
    }
}
pub proof fn dpcl_lemma_cyc_elems_len(t: TView, k: int)
    requires t.wf_cycles(), 0 <= k <= t.n(),
    ensures dpcl_cyc_elems(t, k).len() == sum_seq(lens_of(t.cycles).take(k)),
    decreases k,
{
    let l = lens_of(t.cycles);
    if k > 0 {
        dpcl_lemma_cyc_elems_len(t, k - 1);
        let a = dpcl_cyc_elems(t, k - 1);
        let b = t.cyc(k - 1).to_set();
        assert(a.disjoint(b)) by {
            assert forall|v: VehicleIdx| !(a.contains(v) && b.contains(v)) by {
                if a.contains(v) && b.contains(v) {
                    dpcl_lemma_cyc_elems_member(t, k - 1, v);
                    let i = choose|i: int| 0 <= i < k - 1 && (#[trigger] t.cyc(i)).contains(v);
                    let x = choose|x: int| 0 <= x < t.cyc(i).len() && t.cyc(i)[x] == v;
                    let ck = t.cyc(k - 1);
                    let y = choose|y: int| 0 <= y < ck.len() && ck[y] == v;
                    assert(t.cyc(i)[x] != t.cyc(k - 1)[y]);
                }
            }
        }
        vstd::set_lib::lemma_set_disjoint_lens(a, b);
        t.cyc(k - 1).unique_seq_to_set();
        assert(l.take(k).drop_last() =~= l.take(k - 1));
        assert(l.take(k).last() == t.cyc(k - 1).len());
    } else {
        assert(l.take(0) =~= Seq::<int>::empty());
    }
}
/// C15: a consistent transition holds as many vehicles as its lookup has keys          [text of env/sched_ctor_shim.vs]
pub proof fn dpcl_lemma_total_len_is_lookup(t: TView)
    requires t.wf_cycles(), t.wf_lookup(),
    ensures t.total_len() == t.lookup.dom().len(),
{
    let l = lens_of(t.cycles);
    dpcl_lemma_cyc_elems_len(t, t.n());
    assert(l.take(t.n()) =~= l);
    assert(dpcl_cyc_elems(t, t.n()) =~= t.lookup.dom()) by {
        assert forall|v: VehicleIdx| dpcl_cyc_elems(t, t.n()).contains(v) <==> t.lookup.dom().contains(v) by {
            dpcl_lemma_cyc_elems_member(t, t.n(), v);
            if dpcl_cyc_elems(t, t.n()).contains(v) {
                let i = choose|i: int| 0 <= i < t.n() && (#[trigger] t.cyc(i)).contains(v);
                let x = choose|x: int| 0 <= x < t.cyc(i).len() && t.cyc(i)[x] == v;
                assert(t.lookup.contains_key(t.cyc(i)[x]));
            }
            if t.lookup.contains_key(v) {
                assert(0 <= t.cycle_of(v) < t.n() && t.cyc(t.cycle_of(v)).contains(v));
            }
        }
    }
}
pub proof fn dpcl_lemma_len_sum_same(t1: Map<VehicleTypeIdx, Transition>, t2: Map<VehicleTypeIdx, Transition>, vts: Seq<VehicleTypeIdx>)
    requires forall|i: int| 0 <= i < vts.len() ==> (#[trigger] t1[vts[i]]).total_len() == t2[vts[i]].total_len(),
    ensures len_sum(t1, vts) == len_sum(t2, vts),
    decreases vts.len(),
{
    if vts.len() > 0 {
        let d = vts.drop_last();
        assert forall|i: int| 0 <= i < d.len() implies (#[trigger] t1[d[i]]).total_len() == t2[d[i]].total_len() by { assert(d[i] == vts[i]); }
        dpcl_lemma_len_sum_same(t1, t2, d);
        assert(vts.last() == vts[vts.len() - 1]);
    }
}
impl Schedule {
    /// the effect clauses of improve_depots(Some(list)) the closure of dp_transitions_ok is derived from (text of its `ensures`)
    pub open spec fn improve_listed_effect(&self, r: &Schedule, ids: Seq<VehicleIdx>) -> bool {
        &&& self.rest_untouched(r)
        &&& self.upd_post(self.next_period_transitions@, r.next_period_transitions@, r.maintenance_violation as int, ids, self.vehicles@, r.tours@)
    }
}
/// CLOSURE of dp_transitions_ok(n) under improve_depots(Some(list)), from dp_transitions_ok(n) of the input and the effect clauses
/// (the postcondition of update_transitions_and_violation_fast): one transition per type, each consistent with the NEW tours and
/// holding exactly the vehicles of its type, violation sum exact, real vehicles have Vehicle-kind ids / tours / a transition --
/// and the magnitude clause `len_sum + n <= 2^17` by counting: the cycles of every type hold exactly the vehicles of the type
/// before and after, and the vehicles are untouched, so every transition holds as many vehicles as before
pub proof fn lemma_close_transitions_listed(s: &Schedule, r: &Schedule, ids: Seq<VehicleIdx>, n: int)
    requires s.dp_transitions_ok(n), s.improve_listed_effect(r, ids),
    ensures
        r.dp_transitions_ok(n),
        len_sum(r.next_period_transitions@, sched_types(r)) == len_sum(s.next_period_transitions@, sched_types(s)),
{
    let trs0 = s.next_period_transitions@;
    let trs1 = r.next_period_transitions@;
    let vts = sched_types(s);
    assert(sched_types(r) == vts);
    assert forall|t: VehicleTypeIdx| #[trigger] trs1.contains_key(t) <==> vts.contains(t) by {
        assert(trs0.contains_key(t) <==> trs1.contains_key(t));
        assert(trs0.contains_key(t) <==> vts.contains(t));
    }
    assert forall|t: VehicleTypeIdx| #[trigger] trs1.contains_key(t) implies trs1[t].wf(&r.network, r.tours@) by {
        assert(trs1[t].wf(&s.network, r.tours@));
    }
    assert forall|t: VehicleTypeIdx, u: VehicleIdx| #![trigger trs1[t].has_vehicle(u)] trs1.contains_key(t)
        implies (trs1[t].has_vehicle(u) <==> r.vehicles@.contains_key(u) && r.type_of(u) == t) by {
        assert(trs1[t].has_vehicle(u) <==> (s.vehicles@.contains_key(u) && vtype(s.vehicles@[u]) == t));
        assert(vtype(r.vehicles@[u]) == r.type_of(u));
    }
    assert forall|i: int| 0 <= i < vts.len() implies (#[trigger] trs1[vts[i]]).total_len() == trs0[vts[i]].total_len() by {
        let t = vts[i];
        assert(vts.contains(t));
        assert(trs0.contains_key(t) && trs1.contains_key(t));
        assert(trs0[t].wf(&s.network, s.tours@) && trs1[t].wf(&s.network, r.tours@));
        dpcl_lemma_total_len_is_lookup(trs0[t]@);
        dpcl_lemma_total_len_is_lookup(trs1[t]@);
        assert(trs0[t]@.lookup.dom() =~= trs1[t]@.lookup.dom()) by {
            assert forall|u: VehicleIdx| trs0[t]@.lookup.dom().contains(u) <==> trs1[t]@.lookup.dom().contains(u) by {
                assert(trs0[t].has_vehicle(u) <==> s.vehicles@.contains_key(u) && s.type_of(u) == t);
                assert(trs1[t].has_vehicle(u) <==> (s.vehicles@.contains_key(u) && vtype(s.vehicles@[u]) == t));
            }
        }
    }
    dpcl_lemma_len_sum_same(trs1, trs0, vts);
    assert forall|v: VehicleIdx| #[trigger] r.vehicles@.contains_key(v) implies v is Vehicle && r.tours@.contains_key(v) && trs1.contains_key(r.type_of(v)) by {
        assert(s.vehicles@.contains_key(v));
        assert(s.tours@.contains_key(v));
        assert(s.tours@.dom().contains(v));
        assert(r.tours@.dom().contains(v));
        assert(trs0.contains_key(s.type_of(v)));
    }
}
pub proof fn lemma_close_transitions_listed_all(s: &Schedule, ids: Seq<VehicleIdx>, n: int)
    requires s.dp_transitions_ok(n),
    ensures forall|r: Schedule| #![trigger r.dp_transitions_ok(n)] s.improve_listed_effect(&r, ids) ==> r.dp_transitions_ok(n),
{
    assert forall|r: Schedule| #![trigger r.dp_transitions_ok(n)] s.improve_listed_effect(&r, ids) implies r.dp_transitions_ok(n) by {
        lemma_close_transitions_listed(s, &r, ids, n);
    }
}
