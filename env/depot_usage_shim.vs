// ---- A-im (continued): what the depot-usage bookkeeping needs of the `im` crate ----------------------
// Included inside `pub mod tr { use super::*; use self::im::HashMap; use self::im_set::HashSet; … }`
// after env/im_shim.vs.  Everything `external_body` / `assume_specification` / `axiom` in this file is an
// ASSUMPTION (listed in the header of slices/depot_usage.vs).

// ---- im::HashSet: opaque, `self@` is the abstract set; methods carry the assumed semantics of im 15 ----
pub mod im_set {
use vstd::prelude::*;

#[verifier::external_body]
#[verifier::reject_recursive_types(T)]
pub struct HashSet<T> { inner: std::collections::HashSet<T> }

impl<T> View for HashSet<T> {
    type V = Set<T>;
    uninterp spec fn view(&self) -> Set<T>;
}

impl<T> HashSet<T> {
    /// im: `new() -> Self` (the empty set)
    #[verifier::external_body]
    pub fn new() -> (r: Self)
        ensures r@ == Set::<T>::empty(),
    { unimplemented!() }

    /// im: `len(&self) -> usize` (number of elements)
    #[verifier::external_body]
    pub fn len(&self) -> (r: usize)
        ensures r == self@.len(),
    { unimplemented!() }

    /// im: `insert(&mut self, a: A) -> Option<A>` (returns the previous equal element, if any)
    #[verifier::external_body]
    pub fn insert(&mut self, a: T) -> (r: Option<T>)
        ensures
            final(self)@ == old(self)@.insert(a),
            r is Some <==> old(self)@.contains(a),
    { unimplemented!() }

    /// im: `remove<BA>(&mut self, a: &BA) -> Option<A>` (returns the removed element, None if absent)
    #[verifier::external_body]
    pub fn remove(&mut self, a: &T) -> (r: Option<T>)
        ensures
            final(self)@ == old(self)@.remove(*a),
            r is Some <==> old(self)@.contains(*a),
            r is Some ==> r->Some_0 == *a,
    { unimplemented!() }
}

impl<T> Clone for HashSet<T> {
    #[verifier::external_body]
    fn clone(&self) -> (r: Self)
        ensures r@ == self@,
    { unimplemented!() }
}
} // mod im_set

// ---- im::HashMap: `entry(k).or_insert(default)` and `keys()` (belong into env/im_shim.vs) -------------
/// im: `Entry<'a, K, V, S>`, the result of `HashMap::entry`: a mutable borrow of the map plus the key.
/// `map_now` is the map when the entry was taken, `map_final` the map once the borrow ends (prophecy).
#[verifier::external_body]
#[verifier::reject_recursive_types(K)]
#[verifier::accept_recursive_types(V)]
pub struct Entry<'a, K, V> { m: &'a mut self::im::HashMap<K, V>, key: K }

impl<'a, K, V> Entry<'a, K, V> {
    pub uninterp spec fn key(&self) -> K;
    pub uninterp spec fn map_now(&self) -> Map<K, V>;
    pub uninterp spec fn map_final(&self) -> Map<K, V>;

    /// im: `or_insert(self, default: V) -> &'a mut V`: "Insert the default value provided if there was no
    /// value already, and return a mutable reference to the value."  So the reference starts at the
    /// stored value (the default if the key was absent), and when the borrow ends the map is the old
    /// map with the key bound to whatever the reference then holds.
    #[verifier::external_body]
    pub fn or_insert(self, default: V) -> (r: &'a mut V)
        ensures
            *r == (if self.map_now().contains_key(self.key()) { self.map_now()[self.key()] } else { default }),
            self.map_final() == self.map_now().insert(self.key(), *final(r)),
    { unimplemented!() }
}

impl<K, V> self::im::HashMap<K, V> {
    /// the keys in the order `keys()` yields them (unspecified order; each key once)
    pub uninterp spec fn key_seq(&self) -> Seq<K>;

    /// im: `entry(&mut self, key: K) -> Entry<'_, K, V, S>`
    #[verifier::external_body]
    pub fn entry(&mut self, key: K) -> (e: Entry<'_, K, V>)
        ensures e.key() == key, e.map_now() == old(self)@, e.map_final() == final(self)@,
    { unimplemented!() }

    /// im: `keys(&self) -> Keys<'_, K, V>`: "Get an iterator over a hash map's keys." (A-iter: as SeqIter)
    #[verifier::external_body]
    pub fn keys<'a>(&'a self) -> (r: SeqIter<&'a K>)
        ensures
            r@.len() == self.key_seq().len(),
            forall|i: int| 0 <= i < r@.len() ==> *(#[trigger] r@[i]) == self.key_seq()[i],
    { unimplemented!() }
}
/// im: the iterator of `keys()` visits every key of the map exactly once
pub axiom fn axiom_key_seq<K, V>(m: &self::im::HashMap<K, V>)
    ensures
        m.key_seq().no_duplicates(),
        forall|k: K| #[trigger] m.key_seq().contains(k) <==> m@.contains_key(k);

// ---- A-std6: `i32::unsigned_abs` ("Computes the absolute value of self without any wrapping or
// panicking"), which vstd leaves unspecified (belongs into env/std_specs.vs)
pub assume_specification [i32::unsigned_abs] (x: i32) -> (r: u32)
    ensures r as int == (if x < 0 { -(x as int) } else { x as int });

// ---- A-derive: derived Clone of Vehicle is structural ---------------------------------------------------
//@item solution/src/vehicle.rs struct Vehicle : plain
//@drop-derive Clone
//@end
impl Clone for Vehicle {
    #[verifier::external_body]
    fn clone(&self) -> (r: Self)
        ensures r == *self
    { unimplemented!() }
}

// =====================================================================================================
// spec vocabulary for the depot usage table (C09 last part, C02), written from the property text
// =====================================================================================================
/// the abstract depot usage: (depot, type) -> (vehicles spawned there, vehicles despawned there)
pub type UsageMap = Map<(DepotIdx, VehicleTypeIdx), (HashSet<VehicleIdx>, HashSet<VehicleIdx>)>;
pub type VehicleMap = Map<VehicleIdx, Vehicle>;
pub type TourMap = Map<VehicleIdx, Tour>;

/// `usage(d, vt).0`; "absent keys count as empty sets"
pub open spec fn sp_spawned(du: UsageMap, d: DepotIdx, vt: VehicleTypeIdx) -> Set<VehicleIdx> {
    if du.contains_key((d, vt)) { du[(d, vt)].0@ } else { Set::empty() }
}
/// `usage(d, vt).1`; "absent keys count as empty sets"
pub open spec fn sp_despawned(du: UsageMap, d: DepotIdx, vt: VehicleTypeIdx) -> Set<VehicleIdx> {
    if du.contains_key((d, vt)) { du[(d, vt)].1@ } else { Set::empty() }
}
/// the start / end depot node of a (real) tour: its first / last node
pub open spec fn sp_start_depot(t: &Tour) -> NodeIdx { t.nodes@[0] }
pub open spec fn sp_end_depot(t: &Tour) -> NodeIdx { t.nodes@[t.nodes@.len() - 1] }
/// the depot a start / end depot node belongs to
pub open spec fn sp_depot_idx_of(net: &Network, n: NodeIdx) -> DepotIdx {
    match net.sp_node(n) {
        Node::StartDepot((_, d)) => d.depot_idx,
        Node::EndDepot((_, d)) => d.depot_idx,
        _ => arbitrary(),
    }
}
/// "v in V of type vt whose tour's start depot node belongs to depot d"
pub open spec fn starts_at(net: &Network, vehicles: VehicleMap, tours: TourMap, v: VehicleIdx, d: DepotIdx, vt: VehicleTypeIdx) -> bool {
    &&& vehicles.contains_key(v) && tours.contains_key(v)
    &&& vehicles[v].vehicle_type.idx == vt
    &&& sp_depot_idx_of(net, sp_start_depot(&tours[v])) == d
}
/// "… whose tour's end depot node belongs to depot d"
pub open spec fn ends_at(net: &Network, vehicles: VehicleMap, tours: TourMap, v: VehicleIdx, d: DepotIdx, vt: VehicleTypeIdx) -> bool {
    &&& vehicles.contains_key(v) && tours.contains_key(v)
    &&& vehicles[v].vehicle_type.idx == vt
    &&& sp_depot_idx_of(net, sp_end_depot(&tours[v])) == d
}
/// C09: the from-scratch value of the usage table for the real vehicles `vehicles` with tours `tours`:
/// per (depot, type) the spawned set is { v | starts_at(v, d, vt) }, the despawned set { v | ends_at(v, d, vt) }
/// (vstd sets are finite by construction, so the comprehension is stated member-wise)
pub open spec fn usage_from_scratch(du: UsageMap, net: &Network, vehicles: VehicleMap, tours: TourMap) -> bool {
    &&& forall|d: DepotIdx, vt: VehicleTypeIdx, v: VehicleIdx| (#[trigger] sp_spawned(du, d, vt).contains(v)) <==> starts_at(net, vehicles, tours, v, d, vt)
    &&& forall|d: DepotIdx, vt: VehicleTypeIdx, v: VehicleIdx| (#[trigger] sp_despawned(du, d, vt).contains(v)) <==> ends_at(net, vehicles, tours, v, d, vt)
}
/// the same, read per vehicle: v is in exactly the sets it belongs to
pub open spec fn usage_exact_for(du: UsageMap, net: &Network, vehicles: VehicleMap, tours: TourMap, v: VehicleIdx) -> bool {
    &&& forall|d: DepotIdx, vt: VehicleTypeIdx| (#[trigger] sp_spawned(du, d, vt)).contains(v) <==> starts_at(net, vehicles, tours, v, d, vt)
    &&& forall|d: DepotIdx, vt: VehicleTypeIdx| (#[trigger] sp_despawned(du, d, vt)).contains(v) <==> ends_at(net, vehicles, tours, v, d, vt)
}
pub open spec fn usage_exact(du: UsageMap, net: &Network, vehicles: VehicleMap, tours: TourMap) -> bool {
    forall|v: VehicleIdx| #[trigger] usage_exact_for(du, net, vehicles, tours, v)
}
/// the entries of every vehicle but v are the same in both tables
pub open spec fn usage_same_except(du0: UsageMap, du1: UsageMap, v: VehicleIdx) -> bool {
    &&& forall|d: DepotIdx, vt: VehicleTypeIdx, u: VehicleIdx| u != v ==>
            ((#[trigger] sp_spawned(du1, d, vt).contains(u)) <==> sp_spawned(du0, d, vt).contains(u))
    &&& forall|d: DepotIdx, vt: VehicleTypeIdx, u: VehicleIdx| u != v ==>
            ((#[trigger] sp_despawned(du1, d, vt).contains(u)) <==> sp_despawned(du0, d, vt).contains(u))
}
/// a set after one bookkeeping step: `id` leaves if `rem`, then enters if `add`
pub open spec fn moved(s: Set<VehicleIdx>, id: VehicleIdx, rem: bool, add: bool) -> Set<VehicleIdx> {
    let s1 = if rem { s.remove(id) } else { s };
    if add { s1.insert(id) } else { s1 }
}

/// the per-vehicle reading and the per-set reading of "from scratch" are the same statement
pub proof fn lemma_usage_exact_iff_from_scratch(du: UsageMap, net: &Network, vehicles: VehicleMap, tours: TourMap)
    ensures usage_exact(du, net, vehicles, tours) <==> usage_from_scratch(du, net, vehicles, tours),
{
    if usage_exact(du, net, vehicles, tours) {
        assert forall|d: DepotIdx, vt: VehicleTypeIdx, v: VehicleIdx| (#[trigger] sp_spawned(du, d, vt).contains(v)) <==> starts_at(net, vehicles, tours, v, d, vt) by {
            assert(usage_exact_for(du, net, vehicles, tours, v));
        }
        assert forall|d: DepotIdx, vt: VehicleTypeIdx, v: VehicleIdx| (#[trigger] sp_despawned(du, d, vt).contains(v)) <==> ends_at(net, vehicles, tours, v, d, vt) by {
            assert(usage_exact_for(du, net, vehicles, tours, v));
        }
    }
    if usage_from_scratch(du, net, vehicles, tours) {
        assert forall|v: VehicleIdx| #[trigger] usage_exact_for(du, net, vehicles, tours, v) by {
            assert forall|d: DepotIdx, vt: VehicleTypeIdx| (#[trigger] sp_spawned(du, d, vt)).contains(v) <==> starts_at(net, vehicles, tours, v, d, vt) by {
                assert(sp_spawned(du, d, vt).contains(v) <==> starts_at(net, vehicles, tours, v, d, vt));
            }
            assert forall|d: DepotIdx, vt: VehicleTypeIdx| (#[trigger] sp_despawned(du, d, vt)).contains(v) <==> ends_at(net, vehicles, tours, v, d, vt) by {
                assert(sp_despawned(du, d, vt).contains(v) <==> ends_at(net, vehicles, tours, v, d, vt));
            }
        }
    }
}

/// C09 ("… equal their from-scratch value after any modification"), one step of a modification: the
/// table was exact for the old vehicles / tours, vehicle v (and only v) changed, the table was brought
/// up to date for v and left alone for everybody else: it is exact for the new vehicles / tours
pub proof fn lemma_usage_exact_step(du0: UsageMap, du1: UsageMap, net: &Network,
        vehicles0: VehicleMap, tours0: TourMap, vehicles1: VehicleMap, tours1: TourMap, v: VehicleIdx)
    requires
        usage_exact(du0, net, vehicles0, tours0),
        usage_exact_for(du1, net, vehicles1, tours1, v),
        usage_same_except(du0, du1, v),
        forall|u: VehicleIdx| #![trigger vehicles1.contains_key(u)] #![trigger vehicles1[u]] u != v ==> (vehicles1.contains_key(u) <==> vehicles0.contains_key(u)) && vehicles1[u] == vehicles0[u],
        forall|u: VehicleIdx| #![trigger tours1.contains_key(u)] #![trigger tours1[u]] u != v ==> (tours1.contains_key(u) <==> tours0.contains_key(u)) && tours1[u] == tours0[u],
    ensures
        usage_exact(du1, net, vehicles1, tours1),
{
    assert forall|u: VehicleIdx| #[trigger] usage_exact_for(du1, net, vehicles1, tours1, u) by {
        if u != v {
            assert(usage_exact_for(du0, net, vehicles0, tours0, u));
            assert forall|d: DepotIdx, vt: VehicleTypeIdx| (#[trigger] sp_spawned(du1, d, vt)).contains(u) <==> starts_at(net, vehicles1, tours1, u, d, vt) by {
                assert(sp_spawned(du1, d, vt).contains(u) <==> sp_spawned(du0, d, vt).contains(u));
            }
            assert forall|d: DepotIdx, vt: VehicleTypeIdx| (#[trigger] sp_despawned(du1, d, vt)).contains(u) <==> ends_at(net, vehicles1, tours1, u, d, vt) by {
                assert(sp_despawned(du1, d, vt).contains(u) <==> sp_despawned(du0, d, vt).contains(u));
            }
        }
    }
}

/// C09 / C02, the counts: with an exact table the spawn count and the balance of (d, vt) are the sizes
/// of the from-scratch sets, whatever (finite) representation S / E of these sets one counts
pub proof fn lemma_exact_counts(du: UsageMap, net: &Network, vehicles: VehicleMap, tours: TourMap,
        d: DepotIdx, vt: VehicleTypeIdx, starting: Set<VehicleIdx>, ending: Set<VehicleIdx>)
    requires
        usage_exact(du, net, vehicles, tours),
        forall|v: VehicleIdx| #[trigger] starting.contains(v) <==> starts_at(net, vehicles, tours, v, d, vt),
        forall|v: VehicleIdx| #[trigger] ending.contains(v) <==> ends_at(net, vehicles, tours, v, d, vt),
    ensures
        sp_spawned(du, d, vt) == starting,
        sp_despawned(du, d, vt) == ending,
        sp_balance(du, d, vt) == starting.len() - ending.len(),
{
    assert forall|v: VehicleIdx| sp_spawned(du, d, vt).contains(v) <==> #[trigger] starting.contains(v) by {
        assert(usage_exact_for(du, net, vehicles, tours, v));
    }
    assert forall|v: VehicleIdx| sp_despawned(du, d, vt).contains(v) <==> #[trigger] ending.contains(v) by {
        assert(usage_exact_for(du, net, vehicles, tours, v));
    }
    assert(sp_spawned(du, d, vt) =~= starting);
    assert(sp_despawned(du, d, vt) =~= ending);
}

// ---- balances ------------------------------------------------------------------------------------------
/// "the number of vehicles spawned at the depot minus the number despawned there"
pub open spec fn sp_balance(du: UsageMap, d: DepotIdx, vt: VehicleTypeIdx) -> int {
    sp_spawned(du, d, vt).len() - sp_despawned(du, d, vt).len()
}
pub open spec fn abs_int(x: int) -> int { if x < 0 { -x } else { x } }
/// |balance| of the (depot, type) pair k
pub open spec fn sp_violation_at(du: UsageMap) -> spec_fn((DepotIdx, VehicleTypeIdx)) -> int {
    |k: (DepotIdx, VehicleTypeIdx)| abs_int(sp_balance(du, k.0, k.1))
}
/// the sum of f over a set (vstd sets are finite)
pub open spec fn set_sum<A>(s: Set<A>, f: spec_fn(A) -> int) -> int
    decreases s.len(),
{
    if s.len() > 0 {
        let x = s.choose();
        f(x) + set_sum(s.remove(x), f)
    } else { 0 }
}
/// "the sum over all depots and types of |balance|": pairs without an entry have balance 0, so the
/// sum ranges over the pairs that have one (lemma_set_sum_superset: any finite superset gives the same)
pub open spec fn sp_total_violation(du: UsageMap) -> int { set_sum(du.dom(), sp_violation_at(du)) }

pub proof fn lemma_isum_remove(s: Seq<int>, p: int)
    requires 0 <= p < s.len(),
    ensures isum(s) == s[p] + isum(s.remove(p)),
    decreases s.len(),
{
    if p == s.len() - 1 {
        assert(s.remove(p) =~= s.drop_last());
    } else {
        lemma_isum_remove(s.drop_last(), p);
        assert(s.remove(p).drop_last() =~= s.drop_last().remove(p));
        assert(s.remove(p).last() == s.last());
    }
}
/// summing f along any duplicate-free enumeration of a set gives the set's sum (order does not matter)
pub proof fn lemma_set_sum_seq<A>(ks: Seq<A>, s: Set<A>, f: spec_fn(A) -> int)
    requires ks.no_duplicates(), forall|k: A| #[trigger] ks.contains(k) <==> s.contains(k),
    ensures s.len() == ks.len(), isum(ks.map_values(f)) == set_sum(s, f),
    decreases ks.len(),
{
    assert(s =~= ks.to_set());
    ks.unique_seq_to_set();
    if ks.len() > 0 {
        let x = s.choose();
        assert(s.contains(ks[0]));
        assert(s.contains(x));
        assert(ks.contains(x));
        let p = choose|p: int| 0 <= p < ks.len() && ks[p] == x;
        let ks1 = ks.remove(p);
        let s1 = s.remove(x);
        assert forall|k: A| #[trigger] ks1.contains(k) <==> s1.contains(k) by {
            if ks1.contains(k) {
                let i = choose|i: int| 0 <= i < ks1.len() && ks1[i] == k;
                if i < p { assert(ks[i] == k); } else { assert(ks[i + 1] == k); }
            }
            if s1.contains(k) {
                assert(ks.contains(k));
                let i = choose|i: int| 0 <= i < ks.len() && ks[i] == k;
                if i < p { assert(ks1[i] == k); } else { assert(ks1[i - 1] == k); }
            }
        }
        assert forall|i: int, j: int| 0 <= i < ks1.len() && 0 <= j < ks1.len() && i != j implies ks1[i] != ks1[j] by {
            let a = if i < p { i } else { i + 1 };
            let b = if j < p { j } else { j + 1 };
            assert(ks1[i] == ks[a] && ks1[j] == ks[b]);
        }
        lemma_set_sum_seq(ks1, s1, f);
        lemma_isum_remove(ks.map_values(f), p);
        assert(ks.map_values(f).remove(p) =~= ks1.map_values(f));
    } else {
        assert(ks.map_values(f) =~= Seq::<int>::empty());
    }
}
/// bounds: a sum of non-negative terms is non-negative and at least each of its terms
pub proof fn lemma_isum_nonneg(s: Seq<int>)
    requires forall|i: int| 0 <= i < s.len() ==> 0 <= #[trigger] s[i],
    ensures 0 <= isum(s),
    decreases s.len(),
{
    if s.len() > 0 {
        let t = s.drop_last();
        assert forall|i: int| 0 <= i < t.len() implies 0 <= #[trigger] t[i] by { assert(t[i] == s[i]); }
        lemma_isum_nonneg(t);
    }
}
pub proof fn lemma_isum_term_le(s: Seq<int>, k: int)
    requires forall|i: int| 0 <= i < s.len() ==> 0 <= #[trigger] s[i], 0 <= k < s.len(),
    ensures 0 <= s[k] <= isum(s),
    decreases s.len(),
{
    let t = s.drop_last();
    assert forall|i: int| 0 <= i < t.len() implies 0 <= #[trigger] t[i] by { assert(t[i] == s[i]); }
    lemma_isum_nonneg(t);
    if k < t.len() {
        lemma_isum_term_le(t, k);
        assert(t[k] == s[k]);
    }
}

/// the terms `keys().map(|k| |balance(k)|)` computes: one per key, in the order of `keys()`
pub open spec fn is_violations_of(du: UsageMap, ks: Seq<(DepotIdx, VehicleTypeIdx)>, s: Seq<VehicleCount>) -> bool {
    s.len() == ks.len() && forall|i: int| 0 <= i < s.len() ==> #[trigger] s[i] == sp_violation_at(du)(ks[i])
}
/// the u32 sum of these terms is the set sum (order of `keys()` irrelevant) and does not overflow
pub proof fn lemma_total_violation(du: UsageMap, ks: Seq<(DepotIdx, VehicleTypeIdx)>)
    requires
        ks.no_duplicates(), forall|k: (DepotIdx, VehicleTypeIdx)| #[trigger] ks.contains(k) <==> du.contains_key(k),
        sp_total_violation(du) <= u32::MAX,
    ensures
        0 <= sp_total_violation(du),
        forall|s: Seq<VehicleCount>| is_violations_of(du, ks, s) ==> #[trigger] <u32 as VSum<u32>>::sum_req(s),
        forall|s: Seq<VehicleCount>| is_violations_of(du, ks, s) ==> #[trigger] <u32 as VSum<u32>>::spec_sum(s) == sp_total_violation(du),
{
    let f = sp_violation_at(du);
    lemma_set_sum_seq(ks, du.dom(), f);
    lemma_isum_nonneg(ks.map_values(f));
    assert forall|s: Seq<VehicleCount>| #[trigger] is_violations_of(du, ks, s) implies
        <u32 as VSum<u32>>::sum_req(s) && <u32 as VSum<u32>>::spec_sum(s) == sp_total_violation(du) by {
        assert(s.map_values(|x: u32| x as int) =~= ks.map_values(f));
    }
}
/// any member can be split off a set sum
pub proof fn lemma_set_sum_remove<A>(s: Set<A>, f: spec_fn(A) -> int, x: A)
    requires s.contains(x),
    ensures set_sum(s, f) == f(x) + set_sum(s.remove(x), f),
    decreases s.len(),
{
    assert(s.len() > 0) by { if s.len() == 0 { assert(s =~= Set::<A>::empty()); } }
    let y = s.choose();
    assert(s.contains(y));
    if y != x {
        lemma_set_sum_remove(s.remove(y), f, x);
        lemma_set_sum_remove(s.remove(x), f, y);
        assert(s.remove(y).remove(x) =~= s.remove(x).remove(y));
    }
}
/// "over all depots and types": pairs outside the table contribute 0, so any set of pairs that covers
/// the table's keys gives the same sum
pub proof fn lemma_set_sum_superset(du: UsageMap, all: Set<(DepotIdx, VehicleTypeIdx)>)
    requires du.dom().subset_of(all),
    ensures set_sum(all, sp_violation_at(du)) == sp_total_violation(du),
    decreases all.len(),
{
    let f = sp_violation_at(du);
    if all.subset_of(du.dom()) {
        assert(all =~= du.dom());
    } else {
        let x = choose|x: (DepotIdx, VehicleTypeIdx)| #[trigger] all.contains(x) && !du.dom().contains(x);
        lemma_set_sum_remove(all, f, x);
        assert(sp_spawned(du, x.0, x.1) =~= Set::<VehicleIdx>::empty());
        assert(sp_despawned(du, x.0, x.1) =~= Set::<VehicleIdx>::empty());
        assert(f(x) == 0);
        lemma_set_sum_superset(du, all.remove(x));
    }
}

// ---- set_next_day_transitions (D10): the schedule's maintenance violation is the sum over the installed
// transitions ------------------------------------------------------------------------------------------
impl<K, V> self::im::HashMap<K, V> {
    /// im: `values(&self) -> Values<'_, K, V>`: "Get an iterator over a hash map's values." (A-iter: as
    /// SeqIter; im's Values and Keys both wrap the same node iterator, so the value of `key_seq()[i]` comes i-th)
    #[verifier::external_body]
    pub fn values<'a>(&'a self) -> (r: SeqIter<&'a V>)
        ensures
            r@.len() == self.key_seq().len(),
            forall|i: int| 0 <= i < r@.len() ==> self@.contains_key(self.key_seq()[i]) && *(#[trigger] r@[i]) == self@[self.key_seq()[i]],
    { unimplemented!() }
}
impl<K, V> self::im::HashMap<K, V> {
    /// im: `into_iter(self)` (consuming iterator over the entries; A-iter: as SeqIter, one entry per key, in
    /// the order of `key_seq`).  Not called by the code under contract today; present so that a loop over a
    /// map type-checks.
    #[verifier::external_body]
    pub fn into_iter(self) -> (r: SeqIter<(K, V)>)
        ensures
            r@.len() == self.key_seq().len(),
            forall|i: int| 0 <= i < r@.len() ==> self@.contains_key(self.key_seq()[i]) && (#[trigger] r@[i]) == (self.key_seq()[i], self@[self.key_seq()[i]]),
    { unimplemented!() }
}
pub open spec fn sp_viol_of(m: Map<VehicleTypeIdx, Transition>) -> spec_fn(VehicleTypeIdx) -> int {
    |vt: VehicleTypeIdx| m[vt].total_maintenance_violation as int
}
/// "the schedule's maintenance violation": the sum, over the vehicle types, of the violation of the
/// type's next-period transition
pub open spec fn sp_transitions_violation(m: Map<VehicleTypeIdx, Transition>) -> int { set_sum(m.dom(), sp_viol_of(m)) }
pub open spec fn is_viols_of(m: Map<VehicleTypeIdx, Transition>, ks: Seq<VehicleTypeIdx>, s: Seq<MaintenanceCounter>) -> bool {
    s.len() == ks.len() && forall|i: int| 0 <= i < s.len() ==> (#[trigger] s[i]) as int == sp_viol_of(m)(ks[i])
}
pub proof fn lemma_isum_prefix_le(s: Seq<int>, k: int)
    requires forall|i: int| 0 <= i < s.len() ==> 0 <= #[trigger] s[i], 0 <= k <= s.len(),
    ensures 0 <= isum(s.take(k)) <= isum(s),
{
    assert(s =~= s.take(k) + s.skip(k));
    lemma_isum_append(s.take(k), s.skip(k));
    lemma_isum_nonneg(s.take(k));
    lemma_isum_nonneg(s.skip(k));
}
/// the i64 sum of the per-type violations (none negative, total fits) is the set sum, whatever the order
pub proof fn lemma_transitions_violation(m: Map<VehicleTypeIdx, Transition>, ks: Seq<VehicleTypeIdx>)
    requires
        ks.no_duplicates(), forall|k: VehicleTypeIdx| #[trigger] ks.contains(k) <==> m.contains_key(k),
        forall|vt: VehicleTypeIdx| m.contains_key(vt) ==> 0 <= (#[trigger] m[vt]).total_maintenance_violation,
        sp_transitions_violation(m) <= i64::MAX,
    ensures
        0 <= sp_transitions_violation(m),
        forall|s: Seq<MaintenanceCounter>| is_viols_of(m, ks, s) ==> #[trigger] <i64 as VSum<i64>>::sum_req(s),
        forall|s: Seq<MaintenanceCounter>| is_viols_of(m, ks, s) ==> #[trigger] <i64 as VSum<i64>>::spec_sum(s) == sp_transitions_violation(m),
{
    let f = sp_viol_of(m);
    lemma_set_sum_seq(ks, m.dom(), f);
    assert forall|i: int| 0 <= i < ks.len() implies 0 <= #[trigger] ks.map_values(f)[i] by { assert(ks.contains(ks[i])); }
    lemma_isum_nonneg(ks.map_values(f));
    assert forall|s: Seq<MaintenanceCounter>| #[trigger] is_viols_of(m, ks, s) implies
        <i64 as VSum<i64>>::sum_req(s) && <i64 as VSum<i64>>::spec_sum(s) == sp_transitions_violation(m) by {
        let si = s.map_values(|x: i64| x as int);
        assert(si =~= ks.map_values(f));
        assert forall|k: int| 0 <= k <= s.len() implies i64::MIN <= isum((#[trigger] s.take(k)).map_values(|x: i64| x as int)) <= i64::MAX by {
            assert(s.take(k).map_values(|x: i64| x as int) =~= si.take(k));
            lemma_isum_prefix_le(si, k);
        }
    }
}
/// A-derive: the derived Clone of Schedule is structural (im maps / Arc are clone-equal)
impl Clone for Schedule { #[verifier::external_body] fn clone(&self) -> (r: Self) ensures r == *self { unimplemented!() } }
