impl std::fmt::Display for NodeIdx { fn fmt(&self, _f: &mut std::fmt::Formatter) -> std::fmt::Result { Ok(()) } }
impl std::fmt::Display for VehicleIdx { fn fmt(&self, _f: &mut std::fmt::Formatter) -> std::fmt::Result { Ok(()) } }
