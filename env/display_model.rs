//@include env/display_idx.rs
impl std::fmt::Display for Node { fn fmt(&self, _f: &mut std::fmt::Formatter) -> std::fmt::Result { Ok(()) } }
