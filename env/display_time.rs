// no-op Display impls (outside verus!): `assert!(c, "..{}..", x)` only needs the trait to exist (R3)
impl std::fmt::Display for Duration { fn fmt(&self, _f: &mut std::fmt::Formatter) -> std::fmt::Result { Ok(()) } }
impl std::fmt::Display for DateTime { fn fmt(&self, _f: &mut std::fmt::Formatter) -> std::fmt::Result { Ok(()) } }
impl std::fmt::Display for TimePoint { fn fmt(&self, _f: &mut std::fmt::Formatter) -> std::fmt::Result { Ok(()) } }
