// ---- Distance arithmetic: specification (via *SpecImpl) and verbatim verified bodies ---------------
/// encoding of a Distance on the integer line: a finite distance is its metres, Infinity is DBIG
pub open spec const DBIG: int = 0x1_0000_0000_0000_0000_0000; // 2^80
pub open spec fn denc(d: Distance) -> int { match d { Distance::Distance(m) => m as int, Distance::Infinity => DBIG } }
pub open spec fn ddec(x: int) -> Distance { if x >= DBIG { Distance::Infinity } else { Distance::Distance(x as u64) } }
pub open spec fn dist_add(a: Distance, b: Distance) -> Distance {
    if a is Infinity || b is Infinity { Distance::Infinity } else { Distance::Distance((a->Distance_0 + b->Distance_0) as u64) }
}
impl vstd::std_specs::ops::AddSpecImpl<Distance> for Distance {
    open spec fn obeys_add_spec() -> bool { true }
    open spec fn add_req(self, other: Distance) -> bool {
        self is Distance && other is Distance ==> self->Distance_0 + other->Distance_0 <= u64::MAX
    }
    open spec fn add_spec(self, other: Distance) -> Distance { dist_add(self, other) }
}
impl vstd::std_specs::ops::SubSpecImpl<Distance> for Distance {
    open spec fn obeys_sub_spec() -> bool { true }
    /// mirrors the panic! / assert! of the body
    open spec fn sub_req(self, other: Distance) -> bool {
        self is Distance ==> other is Distance && self->Distance_0 >= other->Distance_0
    }
    open spec fn sub_spec(self, other: Distance) -> Distance {
        if self is Infinity { Distance::Infinity } else { Distance::Distance((self->Distance_0 - other->Distance_0) as u64) }
    }
}
//@item model/src/base_types/distance.rs impl Add for Distance
//@end
//@item model/src/base_types/distance.rs impl Sub for Distance
//@end
//@item model/src/base_types/distance.rs Distance::in_meter
//@retname r
//@sig
    ensures (self is Infinity ==> r is Err) && (self is Distance ==> r == Ok::<Meter, &str>(self->Distance_0)),
//@end
//@item model/src/base_types/distance.rs Distance::sub_max_zero
//@retname r
//@sig
    ensures r == (match (self, other) {
        (Distance::Infinity, _) => Distance::Infinity,
        (Distance::Distance(_), Distance::Infinity) => Distance::Distance(0),
        (Distance::Distance(a), Distance::Distance(b)) => Distance::Distance(if a < b { 0 } else { (a - b) as u64 }),
    }),
//@end
