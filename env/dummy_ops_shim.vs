// ---- environment of the slice `dummy_ops` ------------------------------------------------------------
// (Schedule::replace_vehicle_by_dummy, Schedule::delete_dummy, Schedule::spawn_vehicle_to_replace_dummy_tour)
// Included inside `pub mod tr { … }` after env/im_shim.vs, env/transition_spec.vs, env/schedule_shim.vs,
// env/sched_guard_shim.vs and env/spawn_vehicle_shim.vs.  NO assumption is introduced in this file: it only holds
// open spec functions and proved lemmas.
//
// Copied text.  env/remove_segment_shim.vs and env/update_tours_shim.vs cannot be included next to
// env/spawn_vehicle_shim.vs (all three declare the Ord / binary_search assumptions, the depot-usage and the formation
// vocabulary; `Schedule::formations_follow` / `transitions_follow` exist in two of them with different signatures), so
// the definitions this slice needs from them are copied here, text unchanged:
//   * from env/remove_segment_shim.vs: svc_mask, svc_filter, has_service (vocabulary of Tour::new_dummy's contract),
//     ids_valid, Schedule::{ids_ok, formations_ok, rs_ok, next_dummy_id}, lemma_tour_cost_le
//     (Schedule::transitions_ok, usage_exact, … are in env/spawn_vehicle_shim.vs with the same text);
//   * from env/update_tours_shim.vs: ids_lose, lemma_rank_injective, lemma_bsearch_finds, lemma_remove_listing.
//   * from env/add_path_shim.vs: lemma_first_pos (as lemma_rd_first_pos).
// The last three sections (CLOSURE) hold the induction step of C10 / C09: new vocabulary (rd_listing_exact, rd_effect, rd_closed,
// dd_dummy_listing_exact, dd_closed, sd_closed) and proved lemmas; they use the closure / counting lemmas `spcl_*` of
// env/spawn_vehicle_shim.vs.  rd_listing_exact(result) is no premise any more: block LISTING-LEMMAS (lemma_listing_frame / _lose,
// lemma_sched_vehicles_lose, lemma_types_listed; same text in env/remove_segment_shim.vs) + lemma_rd_listing_exact /
// lemma_dd_listing_exact prove it from the definition of sched_vehicles (env/schedule_shim.vs) and the effect clauses.

// =====================================================================================================
// copied from env/remove_segment_shim.vs
// =====================================================================================================
pub open spec fn svc_mask(net: &Network, s: Seq<NodeIdx>) -> Seq<bool> { Seq::new(s.len(), |i: int| net.sp_node(s[i]) is Service) }
/// the service trips among the nodes s, in order
pub open spec fn svc_filter(net: &Network, s: Seq<NodeIdx>) -> Seq<NodeIdx> { mask_filter(s, svc_mask(net, s)) }
pub open spec fn has_service(net: &Network, s: Seq<NodeIdx>) -> bool {
    exists|i: int| 0 <= i < s.len() && #[trigger] net.sp_node(s[i]) is Service
}
pub open spec fn ids_valid(vehicles: VehicleMap, tours: TourMap, dummies: TourMap, ids: Seq<VehicleIdx>, counter: usize) -> bool {
    &&& forall|v: VehicleIdx| #[trigger] vehicles.contains_key(v) ==> v is Vehicle && vehicles[v].idx == v
    &&& forall|v: VehicleIdx| #[trigger] vehicles.contains_key(v) <==> tours.contains_key(v)
    &&& forall|d: VehicleIdx| #[trigger] dummies.contains_key(d) ==> d is Dummy && (d->Dummy_0 as int) < counter
    &&& sorted_cmp(ids)
}
impl Schedule {
    /// C10: ids.  Real vehicles are stored under their own id, an id of the `Vehicle` kind, and have a tour;
    /// dummy tours are stored under ids of the `Dummy` kind that were handed out already (index below the
    /// counter); the list of dummy ids is sorted
    pub open spec fn ids_ok(&self) -> bool {
        ids_valid(self.vehicles@, self.tours@, self.dummy_tours@, self.dummy_ids_sorted@, self.vehicle_counter)
    }
    /// C10: "each non-depot node is covered by exactly one train formation", which lists the vehicles whose
    /// tours contain the node
    pub open spec fn formations_ok(&self) -> bool {
        &&& forall|n: NodeIdx| self.network.has(n) && self.network.sp_node(n).sp_is_activity() ==> #[trigger] self.train_formations@.contains_key(n)
        &&& forall|v: VehicleIdx, i: int| self.tours@.contains_key(v) && 0 < i < self.tours@[v].nodes@.len() - 1
                ==> has_vehicle(self.train_formations@[#[trigger] self.tours@[v].nodes@[i]].formation@, v)
    }
    /// schedule-level validity as far as remove_segment / replace_vehicle_by_dummy need it (part of C10, C09)
    pub open spec fn rs_ok(&self) -> bool {
        &&& self.sched_ok()
        &&& self.ids_ok()
        &&& self.formations_ok()
        &&& self.transitions_ok()
        &&& usage_exact(self.depot_usage@, &self.network, self.vehicles@, self.tours@)
    }
    /// the id the next new dummy tour gets
    pub open spec fn next_dummy_id(&self) -> VehicleIdx { VehicleIdx::Dummy(self.vehicle_counter as Idx) }
}
/// the cached costs of one listed tour are part of the sum
pub proof fn lemma_tour_cost_le(tours: TourMap, vs: Seq<VehicleIdx>, j: int, k: int)
    requires 0 <= j < k <= vs.len(),
    ensures tours[vs[j]].costs as int <= pre_costs(tours, vs, k),
    decreases k,
{
    if j < k - 1 { lemma_tour_cost_le(tours, vs, j, k - 1); }
    else { lemma_pre_costs_mono(tours, vs, 0, k - 1); }
}

// =====================================================================================================
// copied from env/update_tours_shim.vs
// =====================================================================================================
/// `new` is `old` with one occurrence of `id` taken out (the others keep their order)
pub open spec fn ids_lose(old: Seq<VehicleIdx>, new: Seq<VehicleIdx>, id: VehicleIdx) -> bool {
    exists|p: int| 0 <= p < old.len() && old[p] == id && new == #[trigger] old.remove(p)
}
/// ids with the same rank are the same id (Idx is 16 bit)
pub proof fn lemma_rank_injective(a: VehicleIdx, b: VehicleIdx)
    requires vidx_rank(a) == vidx_rank(b),
    ensures a == b,
{
}
/// binary search for an id that is in the sorted list finds it
pub proof fn lemma_bsearch_finds(s: Seq<VehicleIdx>, x: VehicleIdx, r: Result<usize, usize>)
    requires sorted_cmp(s), s.contains(x), bsearch_post(s, x, r),
    ensures r is Ok, 0 <= r->Ok_0 < s.len(), s[r->Ok_0 as int] == x,
{
    let k = choose|k: int| 0 <= k < s.len() && s[k] == x;
    match r {
        Ok(i) => { lemma_rank_injective(s[i as int], x); }
        Err(i) => {
            if k < i { assert(s[k].cmp_spec(&x) is Less); } else { assert(s[k].cmp_spec(&x) is Greater); }
        }
    }
}
/// taking position p out of a list: membership, order, duplicate-freeness
pub proof fn lemma_remove_listing(s: Seq<VehicleIdx>, p: int)
    requires 0 <= p < s.len(),
    ensures
        sorted_cmp(s) ==> sorted_cmp(s.remove(p)),
        s.no_duplicates() ==> s.remove(p).no_duplicates(),
        s.no_duplicates() ==> forall|x: VehicleIdx| #[trigger] s.remove(p).contains(x) <==> (s.contains(x) && x != s[p]),
{
    let t = s.remove(p);
    if sorted_cmp(s) {
        assert forall|i: int, j: int| #![trigger t[i], t[j]] 0 <= i < j < t.len() implies !(t[i].cmp_spec(&t[j]) is Greater) by {
            let a = if i < p { i } else { i + 1 };
            let b = if j < p { j } else { j + 1 };
            assert(t[i] == s[a] && t[j] == s[b]);
            assert(!(s[a].cmp_spec(&s[b]) is Greater));
        }
    }
    if s.no_duplicates() {
        assert forall|i: int, j: int| 0 <= i < t.len() && 0 <= j < t.len() && i != j implies t[i] != t[j] by {
            let a = if i < p { i } else { i + 1 };
            let b = if j < p { j } else { j + 1 };
            assert(t[i] == s[a] && t[j] == s[b]);
        }
        assert forall|x: VehicleIdx| #[trigger] t.contains(x) <==> (s.contains(x) && x != s[p]) by {
            if t.contains(x) {
                let i = choose|i: int| 0 <= i < t.len() && t[i] == x;
                let a = if i < p { i } else { i + 1 };
                assert(t[i] == s[a]);
            }
            if s.contains(x) && x != s[p] {
                let a = choose|a: int| 0 <= a < s.len() && s[a] == x;
                if a < p { assert(t[a] == x); } else { assert(t[a - 1] == x); }
            }
        }
    }
}

// =====================================================================================================
// sorted id lists: taking an id out (`list.remove(list.binary_search(&id).unwrap())`)
// =====================================================================================================
/// C10 "listings are sorted": what the two statements need and yield, for every result the search may report
/// and every position that holds the id
pub proof fn lemma_unlist(s: Seq<VehicleIdx>, x: VehicleIdx)
    requires sorted_cmp(s), s.contains(x),
    ensures
        // `binary_search(..).unwrap()`: the search finds the id
        forall|res: Result<usize, usize>| #[trigger] bsearch_post(s, x, res) ==> res is Ok && 0 <= res->Ok_0 < s.len() && s[res->Ok_0 as int] == x,
        // `remove(position)`: one occurrence goes, the list stays sorted; a duplicate-free list does not hold the id any more
        forall|p: int| 0 <= p < s.len() && s[p] == x ==> sorted_cmp(#[trigger] s.remove(p)) && ids_lose(s, s.remove(p), x)
            && (s.no_duplicates() ==> s.remove(p).no_duplicates() && !s.remove(p).contains(x)),
{
    assert forall|res: Result<usize, usize>| #[trigger] bsearch_post(s, x, res) implies res is Ok && 0 <= res->Ok_0 < s.len() && s[res->Ok_0 as int] == x by {
        lemma_bsearch_finds(s, x, res);
    }
    assert forall|p: int| 0 <= p < s.len() && s[p] == x implies sorted_cmp(#[trigger] s.remove(p)) && ids_lose(s, s.remove(p), x)
        && (s.no_duplicates() ==> s.remove(p).no_duplicates() && !s.remove(p).contains(x)) by {
        lemma_remove_listing(s, p);
    }
}

// =====================================================================================================
// Schedule::replace_vehicle_by_dummy
// =====================================================================================================
impl Schedule {
    /// C10 ("vehicle … listings are sorted and match the stored tours") as far as the body needs it for the vehicle that goes:
    /// its type has an id list (`vehicle_ids_grouped_and_sorted[&vehicle_type_id]`), the list is sorted and holds the id
    /// (`binary_search(&vehicle_idx).unwrap()`)
    pub open spec fn listed_ok(&self, v: VehicleIdx) -> bool {
        let ty = self.type_of(v);
        &&& self.vehicle_ids_grouped_and_sorted@.contains_key(ty)
        &&& sorted_cmp(self.listing(ty))
        &&& self.listing(ty).contains(v)
    }
    /// the vehicle serves a service trip: its trips have to be handed back in a new dummy tour
    pub open spec fn needs_dummy(&self, v: VehicleIdx) -> bool { has_service(&self.network, self.tours@[v].nodes@) }
    /// D11: an id for the new dummy tour is available, or none is needed
    pub open spec fn rd_id_left(&self, v: VehicleIdx) -> bool { !self.needs_dummy(v) || self.vehicle_counter <= 0xffff }

    // ---- C13: the documented effect, clause by clause (each clause is stated over the components of the new schedule
    // -- `*_c`, opaque in the body of the function, established by a small lemma -- and read off the result by a wrapper) ----
    /// "a vehicle left without activities disappears": no vehicle, no tour under the id; exactly one occurrence of the id
    /// leaves the sorted id list of the vehicle's type, which stays sorted (and, if it was duplicate-free, does not hold
    /// the id any more)
    pub open spec fn vehicle_gone_c(&self, v: VehicleIdx, vehicles1: VehicleMap, tours1: TourMap, grouped1: Map<VehicleTypeIdx, Vec<VehicleIdx>>) -> bool {
        let ty = self.type_of(v);
        &&& !vehicles1.contains_key(v) && !tours1.contains_key(v)
        &&& grouped1.contains_key(ty)
        &&& ids_lose(self.listing(ty), grouped1[ty]@, v)
        &&& sorted_cmp(grouped1[ty]@)
        &&& self.listing(ty).no_duplicates() ==> grouped1[ty]@.no_duplicates() && !grouped1[ty]@.contains(v)
    }
    pub open spec fn vehicle_gone(&self, v: VehicleIdx, s1: &Schedule) -> bool {
        self.vehicle_gone_c(v, s1.vehicles@, s1.tours@, s1.vehicle_ids_grouped_and_sorted@)
    }
    /// "displaced or removed service trips are handed back (… in a new dummy tour)": ONE new dummy tour under the next id
    /// (an id not in use) holds exactly the service trips of the vehicle's tour, in order; the sorted list of dummy ids gains
    /// exactly this id and stays sorted; the counter advances by one
    pub open spec fn trips_in_new_dummy_c(&self, v: VehicleIdx, d1: TourMap, ids1: Seq<VehicleIdx>, counter1: usize) -> bool {
        let id = self.next_dummy_id();
        &&& !self.dummy_tours@.contains_key(id)
        &&& d1.contains_key(id)
        &&& d1 == self.dummy_tours@.insert(id, d1[id])
        &&& d1[id].nodes@ == svc_filter(&self.network, self.tours@[v].nodes@) && d1[id].is_dummy && d1[id].network == self.network
        &&& d1[id].caches_ok()
        &&& ids_gain(self.dummy_ids_sorted@, ids1, id) && sorted_cmp(ids1)
        &&& counter1 == self.vehicle_counter + 1
    }
    pub open spec fn trips_in_new_dummy(&self, v: VehicleIdx, s1: &Schedule) -> bool {
        self.trips_in_new_dummy_c(v, s1.dummy_tours@, s1.dummy_ids_sorted@, s1.vehicle_counter)
    }
    /// "(none if it served no service trip)": dummy tours, their listing and the counter are unchanged
    pub open spec fn no_new_dummy(&self, s1: &Schedule) -> bool {
        s1.dummy_tours@ == self.dummy_tours@ && s1.dummy_ids_sorted@ == self.dummy_ids_sorted@ && s1.vehicle_counter == self.vehicle_counter
    }
    /// "all other vehicles' tours … stay untouched": every other vehicle, every other tour, the id lists of the other
    /// types, every dummy tour that was there, the network
    pub open spec fn others_untouched_c(&self, v: VehicleIdx, vehicles1: VehicleMap, tours1: TourMap, grouped1: Map<VehicleTypeIdx, Vec<VehicleIdx>>, d1: TourMap) -> bool {
        let ty = self.type_of(v);
        &&& vehicles1 == self.vehicles@.remove(v)
        &&& tours1 == self.tours@.remove(v)
        &&& grouped1 == self.vehicle_ids_grouped_and_sorted@.insert(ty, grouped1[ty])
        &&& forall|d: VehicleIdx| #[trigger] self.dummy_tours@.contains_key(d) ==> d1.contains_key(d) && d1[d] == self.dummy_tours@[d]
        &&& forall|d: VehicleIdx| #[trigger] d1.contains_key(d) && d != self.next_dummy_id() ==> self.dummy_tours@.contains_key(d)
    }
    pub open spec fn others_untouched(&self, v: VehicleIdx, s1: &Schedule) -> bool {
        self.others_untouched_c(v, s1.vehicles@, s1.tours@, s1.vehicle_ids_grouped_and_sorted@, s1.dummy_tours@) && s1.network == self.network
    }
    /// "formations elsewhere … stay untouched": the formation table is what update_train_formation(Some(v), None, nodes
    /// of v's tour) makes of it (its postcondition, slices/train_formation_update.vs); spelled out: the vehicle leaves the
    /// formation of every activity of its tour (the others keep their order) and no other formation changes
    pub open spec fn rd_formations_follow_c(&self, v: VehicleIdx, tf1: Formations) -> bool {
        let nodes = self.tours@[v].nodes@;
        let tf0 = self.train_formations@;
        let rv: Option<Vehicle> = None;
        &&& self.formations_elsewhere_untouched(nodes, tf0, tf1)
        &&& self.moved_get_replacement(nodes, tf0, tf1, Some(v), rv)
        &&& forall|n: NodeIdx| moved_nd(&self.network, nodes, n)
                ==> (#[trigger] tf1[n]).formation@ == tf0[n].formation@.remove(first_pos(tf0[n].formation@, v))
    }
    pub open spec fn rd_formations_follow(&self, v: VehicleIdx, s1: &Schedule) -> bool { self.rd_formations_follow_c(v, s1.train_formations@) }
    /// C09: the unserved-passenger pair changes by exactly - Σ unserved(old formation) + Σ unserved(new formation)
    /// over the nodes of the tour
    pub open spec fn rd_unserved_follow_c(&self, v: VehicleIdx, u1: (PassengerCount, PassengerCount)) -> bool {
        let nodes = self.tours@[v].nodes@;
        let tf0 = self.train_formations@;
        let n = nodes.len() as int;
        let rv: Option<Vehicle> = None;
        &&& u1.0 == self.unserved_passengers.0 - self.un_sum(tf0, Some(v), rv, nodes, n, false, 0) + self.un_sum(tf0, Some(v), rv, nodes, n, true, 0)
        &&& u1.1 == self.unserved_passengers.1 - self.un_sum(tf0, Some(v), rv, nodes, n, false, 1) + self.un_sum(tf0, Some(v), rv, nodes, n, true, 1)
    }
    pub open spec fn rd_unserved_follow(&self, v: VehicleIdx, s1: &Schedule) -> bool { self.rd_unserved_follow_c(v, s1.unserved_passengers) }
    /// C15 / C10 / C09: the rotation cycles follow the new vehicles / tours (the postcondition of
    /// update_transitions_and_violation_fast, slices/sched_guard.vs); the other vehicle types are untouched
    pub open spec fn rd_transitions_follow_c(&self, v: VehicleIdx, trs1: Map<VehicleTypeIdx, Transition>, mv1: MaintenanceCounter, vehicles1: VehicleMap, tours1: TourMap) -> bool {
        &&& forall|vt: VehicleTypeIdx| self.next_period_transitions@.contains_key(vt) <==> #[trigger] trs1.contains_key(vt)
        &&& forall|vt: VehicleTypeIdx| #[trigger] trs1.contains_key(vt) ==> trs1[vt].wf(&self.network, tours1)
        &&& forall|vt: VehicleTypeIdx, u: VehicleIdx| #![trigger trs1[vt].has_vehicle(u)] trs1.contains_key(vt)
                ==> (trs1[vt].has_vehicle(u) <==> (vehicles1.contains_key(u) && vtype(vehicles1[u]) == vt))
        &&& mv1 as int == viol_sum(trs1, sched_types(self))
        &&& forall|vt: VehicleTypeIdx| #[trigger] trs1.contains_key(vt) && vt != self.type_of(v) ==> trs1[vt] == self.next_period_transitions@[vt]
    }
    pub open spec fn rd_transitions_follow(&self, v: VehicleIdx, s1: &Schedule) -> bool {
        self.rd_transitions_follow_c(v, s1.next_period_transitions@, s1.maintenance_violation, s1.vehicles@, s1.tours@)
    }
}

/// `vehicle_ok` for one vehicle, as far as it speaks about the vehicle's own tour
pub proof fn lemma_vehicle_ok_facts(s: &Schedule, v: VehicleIdx)
    requires s.vehicle_ok(v),
    ensures
        s.tours@[v].wf(), !s.tours@[v].is_dummy, *s.tours@[v].network == *s.network, s.tours@[v].caches_ok(), tour_len_ok(s.tours@[v].nodes@),
        s.next_period_transitions@.contains_key(s.type_of(v)),
{
}
/// what a valid schedule provides for a real vehicle and its tour
pub proof fn lemma_rd_provider(s: &Schedule, v: VehicleIdx)
    requires s.rs_ok(), s.vehicles@.contains_key(v),
    ensures
        s.tours@.contains_key(v),
        s.tours@[v].wf(), s.tours@[v].caches_ok(), tour_len_ok(s.tours@[v].nodes@), !s.tours@[v].is_dummy,
        *s.tours@[v].network == *s.network, s.network.wf(),
        v is Vehicle, !s.sp_is_dummy(v), s.vehicles@[v].idx == v,
        s.tours@[v].costs <= s.costs,
        s.real_tour_ok(v),
        usage_exact_for(s.depot_usage@, &s.network, s.vehicles@, s.tours@, v),
        sorted_cmp(s.dummy_ids_sorted@),
        s.vehicle_counter <= 0xffff ==> !s.dummy_tours@.contains_key(s.next_dummy_id()),
        s.next_period_transitions@.contains_key(s.type_of(v)),
        s.ids_ok(), s.transitions_ok(), s.formations_ok(),
{
    // (sched_ok says that every vehicle in a rotation cycle has a tour and every vehicle with a tour is in a rotation
    // cycle: only the instance for v is unfolded)
    hide(Schedule::vehicle_ok);
    let vs = sched_vehicles(s);
    assert(s.tours@.contains_key(v));
    assert(s.vehicle_ok(v));
    let t = s.tours@[v];
    lemma_vehicle_ok_facts(s, v);
    assert(vs.contains(v));
    let j = choose|j: int| 0 <= j < vs.len() && vs[j] == v;
    lemma_tour_cost_le(s.tours@, vs, j, vs.len() as int);
    assert(usage_exact_for(s.depot_usage@, &s.network, s.vehicles@, s.tours@, v));
    if s.vehicle_counter <= 0xffff && s.dummy_tours@.contains_key(s.next_dummy_id()) {
        assert((s.next_dummy_id()->Dummy_0 as int) < s.vehicle_counter);
    }
    if s.sp_is_dummy(v) { assert(v is Dummy); }
}

/// the whole tour of a real vehicle as a segment: `sub_path(Segment::new(first_node, last_node))` is the whole tour
pub proof fn lemma_whole_tour(t: &Tour)
    requires t.wf(), !t.is_dummy,
    ensures
        t.len() >= 3,
        t.network.has(t.nodes@[0]), t.network.has(t.nodes@[t.len() - 1]),
        t.nodes@[0] != t.nodes@[t.len() - 1],
        !all_depots(&t.network, t.nodes@.subrange(0, t.len() - 1 + 1)),
        t.nodes@.subrange(0, t.len() - 1 + 1) == t.nodes@,
        // nodes are pairwise distinct: the two ends occur once
        forall|i: int, j: int| 0 <= i <= j < t.len() && #[trigger] t.nodes@[i] == t.nodes@[0] && #[trigger] t.nodes@[j] == t.nodes@[t.len() - 1] ==> i == 0 && j == t.len() - 1,
        all_in_net(&t.network, t.nodes@),
        t.nodes@.no_duplicates(),
{
    let n = t.len();
    lemma_tour_kinds(t, 0);
    lemma_tour_kinds(t, n - 1);
    lemma_tour_kinds(t, 1);
    if t.nodes@[0] == t.nodes@[n - 1] { lemma_tour_distinct(t, 0, n - 1); }
    let sub = t.nodes@.subrange(0, n - 1 + 1);
    assert(sub =~= t.nodes@);
    assert(sub[1] == t.nodes@[1]);
    assert(t.node_at(1).sp_is_activity());
    assert forall|i: int, j: int| 0 <= i <= j < n && #[trigger] t.nodes@[i] == t.nodes@[0] && #[trigger] t.nodes@[j] == t.nodes@[n - 1] implies i == 0 && j == n - 1 by {
        lemma_tour_distinct(t, i, 0);
        lemma_tour_distinct(t, j, n - 1);
    }
    assert forall|i: int, j: int| 0 <= i < n && 0 <= j < n && i != j implies t.nodes@[i] != t.nodes@[j] by {
        if t.nodes@[i] == t.nodes@[j] { lemma_tour_distinct(t, i, j); }
    }
}

/// the vehicle is listed in the formation of every activity of its tour: the formation bookkeeping does not refuse
pub proof fn lemma_rd_all_ok(s: &Schedule, v: VehicleIdx)
    requires s.rs_ok(), s.vehicles@.contains_key(v),
    ensures
        s.shrinks(Some(v), None::<Vehicle>),
        s.all_ok(s.train_formations@, Some(v), None::<Vehicle>, s.tours@[v].nodes@, s.tours@[v].nodes@.len() as int),
{
    lemma_rd_provider(s, v);
    lemma_rd_all_ok_0(s, v);
}
pub proof fn lemma_rd_all_ok_0(s: &Schedule, v: VehicleIdx)
    requires s.formations_ok(), s.tours@.contains_key(v), s.tours@[v].wf(), !s.tours@[v].is_dummy, *s.tours@[v].network == *s.network, !s.sp_is_dummy(v),
    ensures
        s.shrinks(Some(v), None::<Vehicle>),
        s.all_ok(s.train_formations@, Some(v), None::<Vehicle>, s.tours@[v].nodes@, s.tours@[v].nodes@.len() as int),
{
    let t = s.tours@[v];
    let moved = t.nodes@;
    let rv: Option<Vehicle> = None;
    assert(s.shrinks(Some(v), rv));
    assert forall|j: int| 0 <= j < moved.len() && !s.network.sp_node(#[trigger] moved[j]).sp_is_depot()
        implies s.repl_ok(s.train_formations@[moved[j]].formation@, Some(v), rv, moved[j]) by {
        lemma_tour_kinds(&t, j);
        assert(0 < j < moved.len() - 1);
        assert(has_vehicle(s.train_formations@[s.tours@[v].nodes@[j]].formation@, v));
    }
}

/// the postcondition of update_train_formation for "None: only delete provider", spelled out
pub proof fn lemma_rd_formations(s: &Schedule, v: VehicleIdx, tf1: Formations)
    requires
        !s.sp_is_dummy(v),
        s.formations_elsewhere_untouched(s.tours@[v].nodes@, s.train_formations@, tf1),
        s.moved_get_replacement(s.tours@[v].nodes@, s.train_formations@, tf1, Some(v), None::<Vehicle>),
    ensures
        s.rd_formations_follow_c(v, tf1),
{
    let rv: Option<Vehicle> = None;
    assert(s.shrinks(Some(v), rv));
    assert(!s.grows(Some(v), rv) && !s.replaces(Some(v), rv));
}

/// everything the body of replace_vehicle_by_dummy needs to know about the schedule, the vehicle and its tour (the
/// vocabulary is opaque in the body)
pub proof fn lemma_rd_setup(s: &Schedule, v: VehicleIdx)
    requires s.rs_ok(), s.vehicles@.contains_key(v), s.listed_ok(v),
    ensures
        s.tours@.contains_key(v),
        s.tours@[v].wf(), tour_len_ok(s.tours@[v].nodes@), !s.tours@[v].is_dummy,
        *s.tours@[v].network == *s.network, s.network.wf(),
        v is Vehicle, !s.sp_is_dummy(v), s.vehicles@[v].idx == v,
        s.tours@[v].costs <= s.costs,
        s.real_tour_ok(v),
        usage_exact_for(s.depot_usage@, &s.network, s.vehicles@, s.tours@, v),
        usage_exact(s.depot_usage@, &s.network, s.vehicles@, s.tours@),
        sorted_cmp(s.dummy_ids_sorted@),
        s.ids_ok(), s.transitions_ok(), s.next_period_transitions@.contains_key(s.type_of(v)),
        // the listing of the vehicle's type: the search finds the id
        s.vehicle_ids_grouped_and_sorted@.contains_key(s.type_of(v)),
        sorted_cmp(s.listing(s.type_of(v))),
        forall|res: Result<usize, usize>| #[trigger] bsearch_post(s.listing(s.type_of(v)), v, res)
            ==> res is Ok && 0 <= res->Ok_0 < s.listing(s.type_of(v)).len() && s.listing(s.type_of(v))[res->Ok_0 as int] == v,
        // the formation bookkeeping does not refuse
        s.all_ok(s.train_formations@, Some(v), None::<Vehicle>, s.tours@[v].nodes@, s.tours@[v].nodes@.len() as int),
        // the whole tour as a segment
        s.tours@[v].len() >= 3,
        s.tours@[v].network.has(s.tours@[v].nodes@[0]), s.tours@[v].network.has(s.tours@[v].nodes@[s.tours@[v].len() - 1]),
        s.tours@[v].nodes@[0] != s.tours@[v].nodes@[s.tours@[v].len() - 1],
        // ... `sub_path(Segment::new(first_node, last_node))` yields nodes[0 ..= len - 1]: what Tour::new_dummy needs and
        // makes of it (stated for this sub-range: in the body it is not identified with the node sequence itself, which
        // would feed the sequence axioms)
        !all_depots(&s.tours@[v].network, s.tours@[v].nodes@.subrange(0, s.tours@[v].len() - 1 + 1)),
        all_in_net(&s.network, s.tours@[v].nodes@.subrange(0, s.tours@[v].len() - 1 + 1)),
        len_ok(s.tours@[v].nodes@.subrange(0, s.tours@[v].len() - 1 + 1)),
        has_service(&s.network, s.tours@[v].nodes@.subrange(0, s.tours@[v].len() - 1 + 1)) == s.needs_dummy(v),
        svc_filter(&s.network, s.tours@[v].nodes@.subrange(0, s.tours@[v].len() - 1 + 1)) == svc_filter(&s.network, s.tours@[v].nodes@),
{
    lemma_rd_provider(s, v);
    lemma_rd_all_ok(s, v);
    lemma_whole_tour(&s.tours@[v]);
    lemma_unlist(s.listing(s.type_of(v)), v);
    assert(s.tours@[v].nodes@.subrange(0, s.tours@[v].len() - 1 + 1) == s.tours@[v].nodes@);
}

/// C13 "a vehicle left without activities disappears"
pub proof fn lemma_rd_gone(s: &Schedule, v: VehicleIdx, vehicles1: VehicleMap, tours1: TourMap, grouped1: Map<VehicleTypeIdx, Vec<VehicleIdx>>, pos: int)
    requires
        s.listed_ok(v),
        vehicles1 == s.vehicles@.remove(v), tours1 == s.tours@.remove(v),
        grouped1.contains_key(s.type_of(v)),
        0 <= pos < s.listing(s.type_of(v)).len(), s.listing(s.type_of(v))[pos] == v,
        grouped1[s.type_of(v)]@ == s.listing(s.type_of(v)).remove(pos),
    ensures s.vehicle_gone_c(v, vehicles1, tours1, grouped1),
{
    lemma_unlist(s.listing(s.type_of(v)), v);
}
/// C13 "service trips are handed back (… in a new dummy tour)"
pub proof fn lemma_rd_trips(s: &Schedule, v: VehicleIdx, nd: Tour, d1: TourMap, ids1: Seq<VehicleIdx>, counter1: usize)
    requires
        s.ids_ok(), s.vehicle_counter <= 0xffff,
        d1 == s.dummy_tours@.insert(s.next_dummy_id(), nd),
        nd.nodes@ == svc_filter(&s.network, s.tours@[v].nodes@), nd.is_dummy, nd.network == s.network, nd.caches_ok(),
        ids_gain(s.dummy_ids_sorted@, ids1, s.next_dummy_id()), sorted_cmp(ids1),
        counter1 == s.vehicle_counter + 1,
    ensures s.trips_in_new_dummy_c(v, d1, ids1, counter1),
{
    if s.dummy_tours@.contains_key(s.next_dummy_id()) {
        assert((s.next_dummy_id()->Dummy_0 as int) < s.vehicle_counter);
    }
}
/// C13 "all other vehicles' tours … stay untouched"
pub proof fn lemma_rd_others(s: &Schedule, v: VehicleIdx, vehicles1: VehicleMap, tours1: TourMap, grouped1: Map<VehicleTypeIdx, Vec<VehicleIdx>>, d1: TourMap, added: bool)
    requires
        vehicles1 == s.vehicles@.remove(v), tours1 == s.tours@.remove(v),
        grouped1 == s.vehicle_ids_grouped_and_sorted@.insert(s.type_of(v), grouped1[s.type_of(v)]),
        added ==> s.ids_ok() && s.vehicle_counter <= 0xffff && d1 == s.dummy_tours@.insert(s.next_dummy_id(), d1[s.next_dummy_id()]),
        !added ==> d1 == s.dummy_tours@,
    ensures s.others_untouched_c(v, vehicles1, tours1, grouped1, d1),
{
    if added && s.dummy_tours@.contains_key(s.next_dummy_id()) {
        assert((s.next_dummy_id()->Dummy_0 as int) < s.vehicle_counter);
    }
}
/// what the rotation-cycle update guarantees (its contract, slices/sched_guard.vs), for the single changed vehicle v
pub proof fn lemma_rd_transitions(s: &Schedule, v: VehicleIdx, trs1: Map<VehicleTypeIdx, Transition>, mv1: MaintenanceCounter, vehicles1: VehicleMap, tours1: TourMap)
    requires
        forall|vt: VehicleTypeIdx| s.next_period_transitions@.contains_key(vt) <==> #[trigger] trs1.contains_key(vt),
        forall|vt: VehicleTypeIdx| #[trigger] trs1.contains_key(vt) ==> trs1[vt].wf(&s.network, tours1),
        forall|vt: VehicleTypeIdx, u: VehicleIdx| #![trigger trs1[vt].has_vehicle(u)] trs1.contains_key(vt)
            ==> (trs1[vt].has_vehicle(u) <==> (vehicles1.contains_key(u) && vtype(vehicles1[u]) == vt)),
        mv1 == viol_sum(trs1, sched_types(s)),
        forall|vt: VehicleTypeIdx| #[trigger] trs1.contains_key(vt) && vt != s.type_of(v) ==> trs1[vt] == s.next_period_transitions@[vt],
    ensures
        s.rd_transitions_follow_c(v, trs1, mv1, vehicles1, tours1),
{
}

/// the precondition of the rotation-cycle update for one vehicle that goes
pub proof fn lemma_rd_upd_pre(s: &Schedule, v: VehicleIdx, vehicles1: VehicleMap, tours1: TourMap)
    requires
        // (not rs_ok: sched_ok says that every vehicle in a rotation cycle has a tour and every vehicle with a tour is in a
        // rotation cycle, which the solver can unfold for ever)
        s.transitions_ok(), s.ids_ok(), s.vehicles@.contains_key(v),
        s.next_period_transitions@.contains_key(s.type_of(v)),
        vehicles1 == s.vehicles@.remove(v),
        tours1 == s.tours@.remove(v),
    ensures
        // for `vec![v]`, whatever sequence of one item its view is
        forall|cv: Seq<VehicleIdx>| cv.len() == 1 && cv[0] == v
            ==> #[trigger] s.upd_pre(s.next_period_transitions@, s.maintenance_violation as int, cv, vehicles1, tours1),
        forall|cv: Seq<VehicleIdx>, vt: VehicleTypeIdx| cv.len() == 1 && cv[0] == v && vt != s.type_of(v)
            ==> !#[trigger] s.touches_type(vehicles1, cv, vt),
{
    lemma_rd_upd_pre_0(s, v, vehicles1, tours1);
    assert forall|cv: Seq<VehicleIdx>| cv.len() == 1 && cv[0] == v
        implies #[trigger] s.upd_pre(s.next_period_transitions@, s.maintenance_violation as int, cv, vehicles1, tours1) by {
        assert(cv =~= seq![v]);
    }
    assert forall|cv: Seq<VehicleIdx>, vt: VehicleTypeIdx| cv.len() == 1 && cv[0] == v && vt != s.type_of(v)
        implies !#[trigger] s.touches_type(vehicles1, cv, vt) by {
        if s.touches_type(vehicles1, cv, vt) {
            let i = choose|i: int| 0 <= i < cv.len() && (#[trigger] cv[i]) is Vehicle && s.eff_type(vehicles1, cv[i]) == vt;
            assert(cv[i] == v);
        }
    }
}
pub proof fn lemma_rd_upd_pre_0(s: &Schedule, v: VehicleIdx, vehicles1: VehicleMap, tours1: TourMap)
    requires
        s.transitions_ok(), s.ids_ok(), s.vehicles@.contains_key(v),
        s.next_period_transitions@.contains_key(s.type_of(v)),
        vehicles1 == s.vehicles@.remove(v),
        tours1 == s.tours@.remove(v),
    ensures
        s.upd_pre(s.next_period_transitions@, s.maintenance_violation as int, seq![v], vehicles1, tours1),
{
    let trs = s.next_period_transitions@;
    let cv = seq![v];
    assert(cv.len() == 1 && cv[0] == v);
    assert(s.eff_type(vehicles1, v) == s.type_of(v));
    assert(s.change_ok(trs, vehicles1, tours1, v));
    assert forall|i: int| 0 <= i < cv.len() && (#[trigger] cv[i]) is Vehicle implies s.change_ok(trs, vehicles1, tours1, cv[i]) by {
        assert(cv[i] == v);
    }
    assert(real_in(cv, v)) by { assert(cv[0] == v); }
    assert forall|u: VehicleIdx| !real_in(cv, u) implies (s.vehicles@.contains_key(u) <==> #[trigger] vehicles1.contains_key(u)) by {}
    assert forall|u: VehicleIdx| !real_in(cv, u) && #[trigger] vehicles1.contains_key(u) implies tours1.contains_key(u) && tours1[u] == s.tours@[u] by {
        assert(s.vehicles@.contains_key(u));
        assert(s.tours@.contains_key(u));
    }
}

/// what the operation did to the maps that carry ids (the clauses of the contract that lemma_rd_ids_valid builds on)
pub open spec fn rd_ids_step(s: &Schedule, v: VehicleIdx, vehicles1: VehicleMap, tours1: TourMap, dummies1: TourMap, ids1: Seq<VehicleIdx>, counter1: usize, added: bool) -> bool {
    &&& s.ids_ok() && s.vehicles@.contains_key(v)
    &&& vehicles1 == s.vehicles@.remove(v) && tours1 == s.tours@.remove(v)
    &&& added ==> s.vehicle_counter <= 0xffff && dummies1 == s.dummy_tours@.insert(s.next_dummy_id(), dummies1[s.next_dummy_id()]) && sorted_cmp(ids1) && counter1 == s.vehicle_counter + 1
    &&& !added ==> dummies1 == s.dummy_tours@ && ids1 == s.dummy_ids_sorted@ && counter1 == s.vehicle_counter
}
/// C10: the ids stay valid
pub proof fn lemma_rd_ids_valid(s: &Schedule, v: VehicleIdx, vehicles1: VehicleMap, tours1: TourMap, dummies1: TourMap, ids1: Seq<VehicleIdx>, counter1: usize, added: bool)
    requires rd_ids_step(s, v, vehicles1, tours1, dummies1, ids1, counter1, added),
    ensures ids_valid(vehicles1, tours1, dummies1, ids1, counter1),
{
    assert forall|d: VehicleIdx| #[trigger] dummies1.contains_key(d) implies d is Dummy && (d->Dummy_0 as int) < counter1 by {
        if d != s.next_dummy_id() { assert(s.dummy_tours@.contains_key(d)); }
    }
    assert forall|u: VehicleIdx| #[trigger] vehicles1.contains_key(u) implies u is Vehicle && vehicles1[u].idx == u by {
        assert(s.vehicles@.contains_key(u));
    }
    assert forall|u: VehicleIdx| #[trigger] vehicles1.contains_key(u) <==> tours1.contains_key(u) by {
        assert(s.vehicles@.contains_key(u) <==> s.tours@.contains_key(u));
    }
}

// =====================================================================================================
// Schedule::delete_dummy
// =====================================================================================================
impl Schedule {
    /// C10 ("… dummy listings are sorted and match the stored tours") as far as the body needs it: the list of dummy ids
    /// is sorted and holds the id (`binary_search(&dummy).unwrap()`)
    pub open spec fn dummy_listed_ok(&self, d: VehicleIdx) -> bool {
        sorted_cmp(self.dummy_ids_sorted@) && self.dummy_ids_sorted@.contains(d)
    }
    /// C13: "nothing else" -- every component but the dummy tours and their listing is the same
    pub open spec fn same_but_dummies(&self, s1: &Schedule) -> bool {
        &&& s1.vehicles@ == self.vehicles@ && s1.tours@ == self.tours@
        &&& s1.next_period_transitions@ == self.next_period_transitions@
        &&& s1.train_formations@ == self.train_formations@
        &&& s1.depot_usage@ == self.depot_usage@
        &&& s1.vehicle_counter == self.vehicle_counter
        &&& s1.vehicle_ids_grouped_and_sorted@ == self.vehicle_ids_grouped_and_sorted@
        &&& s1.unserved_passengers == self.unserved_passengers
        &&& s1.maintenance_violation == self.maintenance_violation
        &&& s1.costs == self.costs
        &&& s1.network == self.network
    }
    /// C13: the dummy tour and its id disappear (every other dummy tour stays: map equality); exactly one occurrence of the
    /// id leaves the list, which stays sorted (and, if it was duplicate-free, does not hold the id any more)
    pub open spec fn dummy_gone(&self, d: VehicleIdx, s1: &Schedule) -> bool {
        &&& s1.dummy_tours@ == self.dummy_tours@.remove(d)
        &&& ids_lose(self.dummy_ids_sorted@, s1.dummy_ids_sorted@, d)
        &&& sorted_cmp(s1.dummy_ids_sorted@)
        &&& self.dummy_ids_sorted@.no_duplicates() ==> s1.dummy_ids_sorted@.no_duplicates() && !s1.dummy_ids_sorted@.contains(d)
    }
    /// the Ok-postcondition of delete_dummy
    pub open spec fn dummy_deleted(&self, d: VehicleIdx, s1: &Schedule) -> bool {
        self.dummy_tours@.contains_key(d) && self.dummy_gone(d, s1) && self.same_but_dummies(s1)
    }
}

// =====================================================================================================
// Schedule::spawn_vehicle_to_replace_dummy_tour
// =====================================================================================================
impl Schedule {
    /// C10 for the dummy tour that is replaced: a well-formed dummy tour over the schedule's network (its nodes are
    /// nodes of the network; `nodes.first().unwrap()` in spawn_vehicle_for_path: it is not empty), A-len
    pub open spec fn dummy_tour_ok(&self, d: VehicleIdx) -> bool {
        let t = self.dummy_tours@[d];
        t.wf() && t.is_dummy && *t.network == *self.network && tour_len_ok(t.nodes@)
    }
    /// the precondition of spawn_vehicle_for_path (text of its `requires` in slices/spawn_vehicle.vs)
    pub open spec fn spawn_pre(&self, vehicle_type_idx: VehicleTypeIdx, path: Seq<NodeIdx>) -> bool {
        &&& self.sv_ok()
        &&& self.type_known(vehicle_type_idx)
        &&& path.len() >= 1 && all_in_net(&self.network, path) && tour_len_ok(path)
        &&& self.spawn_counter_ok(path)
        // what the choice of the depots needs: A-index for the start depot node list; if a start depot has to be chosen:
        // magnitude of the usage counts, C06 / C17 some start depot node has room for the type
        &&& self.network.start_depots_ok()
        &&& !self.network.sp_node(path[0]).sp_is_depot() ==> self.usage_counts_small(vehicle_type_idx, self.depot_usage@)
        &&& !self.network.sp_node(path[0]).sp_is_depot() ==> self.some_depot_has_room(vehicle_type_idx, self.depot_usage@)
    }
    /// the postcondition of spawn_vehicle_for_path (text of its `ensures` in slices/spawn_vehicle.vs)
    pub open spec fn spawn_post(&self, vehicle_type_idx: VehicleTypeIdx, path: Seq<NodeIdx>, r: Result<(Schedule, VehicleIdx), String>) -> bool {
        &&& !all_compatible(&self.network, path, vehicle_type_idx) ==> r is Err
        &&& self.vehicle_counter > 0xffff ==> r is Err
        &&& r is Ok ==> all_compatible(&self.network, r->Ok_0.0.tours@[r->Ok_0.1].nodes@, vehicle_type_idx)
        &&& r is Ok ==> self.spawned(vehicle_type_idx, path, &r->Ok_0.0, r->Ok_0.1)
        &&& r is Ok ==> activities_kept(&self.network, path, r->Ok_0.0.tours@[r->Ok_0.1].nodes@)
        &&& r is Ok ==> self.listed(vehicle_type_idx, &r->Ok_0.0, r->Ok_0.1)
        // C02 / C13: the start depot chosen had room, its limits hold afterwards, it is the nearest one with room; the end
        // depot chosen is the nearest one
        &&& r is Ok && !self.network.sp_node(path[0]).sp_is_depot()
                ==> self.network.start_depot_nodes@.contains(r->Ok_0.0.tours@[r->Ok_0.1].nodes@[0])
                    && self.sp_can_spawn(r->Ok_0.0.tours@[r->Ok_0.1].nodes@[0], vehicle_type_idx, self.depot_usage@)
        &&& r is Ok && !self.network.sp_node(path[0]).sp_is_depot()
                ==> self.depot_limits_hold(r->Ok_0.0.tours@[r->Ok_0.1].nodes@[0], vehicle_type_idx, r->Ok_0.0.depot_usage@)
        &&& r is Ok && !self.network.sp_node(path[0]).sp_is_depot()
                ==> self.best_start_depot(r->Ok_0.0.tours@[r->Ok_0.1].nodes@[0], vehicle_type_idx, self.network.sp_node(path[0]).sp_start_location(), self.depot_usage@)
        &&& r is Ok && !self.network.sp_node(path[0]).sp_is_depot() && !self.network.sp_node(path[path.len() - 1]).sp_is_depot()
                ==> self.network.nearest_end_depot(r->Ok_0.0.tours@[r->Ok_0.1].nodes@[r->Ok_0.0.tours@[r->Ok_0.1].nodes@.len() - 1],
                        self.network.sp_node(path[path.len() - 1]).sp_end_location())
        &&& r is Ok && self.listings_match() ==> r->Ok_0.0.listings_match()
        &&& r is Ok ==> self.formations_follow(&r->Ok_0.0, r->Ok_0.1)
        &&& r is Ok ==> r->Ok_0.0.costs == self.costs + r->Ok_0.0.tours@[r->Ok_0.1].costs
        &&& r is Ok ==> usage_exact_for(r->Ok_0.0.depot_usage@, &self.network, r->Ok_0.0.vehicles@, r->Ok_0.0.tours@, r->Ok_0.1)
                && usage_same_except(self.depot_usage@, r->Ok_0.0.depot_usage@, r->Ok_0.1)
                && usage_exact(r->Ok_0.0.depot_usage@, &self.network, r->Ok_0.0.vehicles@, r->Ok_0.0.tours@)
        &&& r is Ok ==> self.transitions_follow(vehicle_type_idx, &r->Ok_0.0)
    }
}

/// the contribution of the old formations only depends on the network
pub proof fn lemma_un_old_same_net(s: &Schedule, m: &Schedule, tf0: Formations, moved: Seq<NodeIdx>, k: int, c: int)
    requires m.network == s.network,
    ensures m.un_sum(tf0, None, None, moved, k, false, c) == s.un_sum(tf0, None, None, moved, k, false, c),
    decreases k,
{
    if k > 0 { lemma_un_old_same_net(s, m, tf0, moved, k - 1, c); }
}

/// CLOSURE of sv_ok under delete_dummy: none of its clauses looks at a dummy tour, except "dummy tours sit under Dummy ids" (a
/// sub-map)
pub proof fn lemma_dd_sv_ok(s: &Schedule, d: VehicleIdx, m: &Schedule)
    requires s.dummy_deleted(d, m), s.sv_ok(),
    ensures m.sv_ok(),
{
    assert(m.sv_ids_ok()) by {
        assert forall|x: VehicleIdx| #[trigger] m.dummy_tours@.contains_key(x) implies x is Dummy by {
            assert(s.dummy_tours@.contains_key(x));
        }
        assert forall|t: VehicleTypeIdx| #[trigger] m.vehicle_ids_grouped_and_sorted@.contains_key(t) implies sorted_cmp(m.listing(t)) by {
            assert(s.vehicle_ids_grouped_and_sorted@.contains_key(t));
            assert(m.listing(t) == s.listing(t));
        }
    }
    assert(m.sv_formations_ok()) by {
        assert forall|q: Seq<NodeIdx>, c: int| #![trigger m.un_old(q, q.len() as int, c)] q.no_duplicates() && all_in_net(&m.network, q) && (c == 0 || c == 1)
            implies m.un_old(q, q.len() as int, c) <= m.unserved_c(c) by {
            lemma_un_old_same_net(s, m, s.train_formations@, q, q.len() as int, c);
            assert(s.un_old(q, q.len() as int, c) <= s.unserved_c(c));
        }
        assert forall|n: NodeIdx, t: VehicleTypeIdx| #![trigger m.train_formations@[n], m.vtypes()[t]] m.train_formations@.contains_key(n) && m.vtypes().contains_key(t)
            implies fcap(m.train_formations@[n].formation@) + m.vtypes()[t].capacity <= u32::MAX && fseats(m.train_formations@[n].formation@) + m.vtypes()[t].seats <= u32::MAX by {
            assert(fcap(s.train_formations@[n].formation@) + s.vtypes()[t].capacity <= u32::MAX && fseats(s.train_formations@[n].formation@) + s.vtypes()[t].seats <= u32::MAX);
        }
    }
    assert(m.transitions_ok()) by {
        assert(sched_types(m) == sched_types(s));
        assert forall|t: VehicleTypeIdx, v: VehicleIdx| #![trigger m.next_period_transitions@[t].has_vehicle(v)] m.next_period_transitions@.contains_key(t)
            implies (m.next_period_transitions@[t].has_vehicle(v) <==> m.vehicles@.contains_key(v) && m.type_of(v) == t) by {
            assert(s.next_period_transitions@[t].has_vehicle(v) <==> s.vehicles@.contains_key(v) && s.type_of(v) == t);
        }
    }
}
/// the schedule without the dummy tour still satisfies the precondition of spawn_vehicle_for_path: none of its clauses
/// looks at a dummy tour, except "dummy tours sit under Dummy ids" (a sub-map)
pub proof fn lemma_spawn_pre_without_dummy(s: &Schedule, d: VehicleIdx, m: &Schedule, vt: VehicleTypeIdx, path: Seq<NodeIdx>)
    requires
        s.dummy_deleted(d, m),
        s.spawn_pre(vt, path),
    ensures
        m.spawn_pre(vt, path),
{
    lemma_dd_sv_ok(s, d, m);
    assert(m.spawn_counter_ok(path)) by {
        assert forall|t: Tour| depots_added(&m.network, path, t.nodes@) && tour_of_net(&m.network, &t) && t.caches_ok()
            implies -counter_bound() <= #[trigger] tour_counter(&t) <= counter_bound() by {
            assert(depots_added(&s.network, path, t.nodes@) && tour_of_net(&s.network, &t));
        }
    }
    // the choice of the depots only looks at the network and the usage table: both are the same
    assert(m.network.start_depots_ok());
    if !m.network.sp_node(path[0]).sp_is_depot() {
        let du = s.depot_usage@;
        let sdn = s.network.start_depot_nodes@;
        assert(m.depot_usage@ == du && m.network.start_depot_nodes@ == sdn);
        assert(m.usage_counts_small(vt, du)) by {
            assert(s.usage_counts_small(vt, du));
        }
        assert(m.some_depot_has_room(vt, du)) by {
            let i = choose|i: int| 0 <= i < sdn.len() && s.sp_can_spawn(#[trigger] sdn[i], vt, du);
            assert(m.sp_can_spawn(sdn[i], vt, du));
        }
    }
}

// =====================================================================================================
// CLOSURE (C10 / C09 induction step): the result of each of the three operations satisfies the schedule-invariant bundle
// of its own precondition again.  Everything below is NEW vocabulary (prefix `rd_` / `dd_` / `sd_`) and PROVED lemmas -- no
// assumption.  lemma_rd_first_pos is text copied from env/add_path_shim.vs (lemma_first_pos, [text of slices/admission.vs]).
// The counting lemma of the rotation cycles (spcl_lemma_len_sum_le_vehicles) and the closure of sv_ok under
// spawn_vehicle_for_path (spcl_lemma_closure, spcl_closed, spcl_step) are those of env/spawn_vehicle_shim.vs (included before
// this file).
//
// sched_ok (env/schedule_shim.vs) speaks about `sched_vehicles(s)`, the order in which Schedule::vehicles_iter_all yields the
// vehicles.  It is DEFINED there (it used to be an uninterpreted function of the schedule value): the grouped id lists of the
// network's vehicle types, concatenated in type order.  So the two conjuncts of sched_ok that say what the listing IS (duplicate-free,
// lists exactly the vehicles with a tour; `rd_listing_exact`, formerly the PREMISE of the closure of sched_ok / rs_ok) are PROVED for
// the result from the effect clauses: replace_vehicle_by_dummy takes one occurrence of the id out of the list of the vehicle's type
// and leaves the other lists and the network alone (vehicle_gone, others_untouched: lemma_rd_listing_exact); delete_dummy leaves
// every component the listing is computed from alone (same_but_dummies: lemma_dd_listing_exact).  Everything else in sched_ok
// (network, number of vehicles, vehicle_ok for every vehicle, the cost sums) is proved from the effect clauses as before.
// =====================================================================================================
/// the two conjuncts of sched_ok that characterise the listing sched_vehicles: it is duplicate-free and lists exactly the
/// vehicles that have a tour
pub open spec fn rd_listing_exact(s: &Schedule) -> bool {
    let vs = sched_vehicles(s);
    &&& vs.no_duplicates()
    &&& forall|v: VehicleIdx| #[trigger] vs.contains(v) <==> s.tours@.contains_key(v)
}

// ---- the vehicle listing as a function of the grouped id lists ---------------------------------------------------
// sched_vehicles(s) is DEFINED (env/schedule_shim.vs): listing_of(vehicle types of the network, grouped id lists) = the id lists of
// the network's vehicle types, one after the other.  [LISTING-LEMMAS: same text in env/remove_segment_shim.vs and env/dummy_ops_shim.vs]
/// the listing only depends on the id lists of the listed types
pub proof fn lemma_listing_frame(types: Seq<VehicleTypeIdx>, a: Map<VehicleTypeIdx, Vec<VehicleIdx>>, b: Map<VehicleTypeIdx, Vec<VehicleIdx>>)
    requires forall|i: int| 0 <= i < types.len() ==> a[#[trigger] types[i]]@ == b[types[i]]@,
    ensures listing_of(types, a) == listing_of(types, b),
    decreases types.len(),
{
    if types.len() > 0 {
        let d = types.drop_last();
        assert forall|i: int| 0 <= i < d.len() implies a[#[trigger] d[i]]@ == b[d[i]]@ by { assert(d[i] == types[i]); }
        lemma_listing_frame(d, a, b);
        assert(types.last() == types[types.len() - 1]);
    }
}
/// taking one position out of a concatenation takes it out of the part it lies in
pub proof fn lemma_concat_remove(a: Seq<VehicleIdx>, b: Seq<VehicleIdx>, p: int)
    requires 0 <= p < a.len() + b.len(),
    ensures
        p < a.len() ==> (a + b).remove(p) == a.remove(p) + b && (a + b)[p] == a[p],
        p >= a.len() ==> (a + b).remove(p) == a + b.remove(p - a.len()) && (a + b)[p] == b[p - a.len()],
{
    if p < a.len() { assert((a + b).remove(p) =~= a.remove(p) + b); }
    else { assert((a + b).remove(p) =~= a + b.remove(p - a.len())); }
}
/// if the id list of ONE listed type loses one occurrence of v (the type list is duplicate-free: the type is listed once) and the
/// lists of the other listed types are the same, the listing loses one occurrence of v (the other entries keep their order)
pub proof fn lemma_listing_lose(types: Seq<VehicleTypeIdx>, g0: Map<VehicleTypeIdx, Vec<VehicleIdx>>, g1: Map<VehicleTypeIdx, Vec<VehicleIdx>>, ty: VehicleTypeIdx, v: VehicleIdx)
    requires
        types.no_duplicates(), types.contains(ty),
        forall|i: int| 0 <= i < types.len() && types[i] != ty ==> g1[#[trigger] types[i]]@ == g0[types[i]]@,
        ids_lose(g0[ty]@, g1[ty]@, v),
    ensures ids_lose(listing_of(types, g0), listing_of(types, g1), v),
    decreases types.len(),
{
    let n = types.len() as int;
    let k = choose|k: int| 0 <= k < types.len() && types[k] == ty;
    let d = types.drop_last();
    let last = types[n - 1];
    assert(types.last() == last);
    let a0 = listing_of(d, g0);
    let a1 = listing_of(d, g1);
    assert(listing_of(types, g0) == a0 + g0[last]@);
    assert(listing_of(types, g1) == a1 + g1[last]@);
    if last == ty {
        // the type is the last one listed: the lists of the types before it are the same
        assert forall|i: int| 0 <= i < d.len() implies g0[#[trigger] d[i]]@ == g1[d[i]]@ by {
            assert(d[i] == types[i]);
            assert(types[i] != types[n - 1]);
        }
        lemma_listing_frame(d, g0, g1);
        let l0 = g0[ty]@;
        let p = choose|p: int| 0 <= p < l0.len() && l0[p] == v && g1[ty]@ == #[trigger] l0.remove(p);
        lemma_concat_remove(a0, l0, a0.len() + p);
        assert(listing_of(types, g1) == (a0 + l0).remove(a0.len() + p));
    } else {
        // the type is listed before the last one, whose list is the same
        assert(k < n - 1);
        assert(d[k] == ty);
        assert forall|i: int, j: int| 0 <= i < d.len() && 0 <= j < d.len() && i != j implies d[i] != d[j] by {
            assert(d[i] == types[i] && d[j] == types[j]);
        }
        assert forall|i: int| 0 <= i < d.len() && d[i] != ty implies g1[#[trigger] d[i]]@ == g0[d[i]]@ by { assert(d[i] == types[i]); }
        lemma_listing_lose(d, g0, g1, ty, v);
        let q = choose|q: int| 0 <= q < a0.len() && a0[q] == v && a1 == #[trigger] a0.remove(q);
        let l = g0[last]@;
        assert(g1[types[n - 1]]@ == l);
        lemma_concat_remove(a0, l, q);
        assert(listing_of(types, g1) == (a0 + l).remove(q));
    }
}
/// ... for two schedules over the same vehicle types: the id list of type `ty` loses one occurrence of v, the other lists are the same
pub proof fn lemma_sched_vehicles_lose(s: &Schedule, s1: &Schedule, ty: VehicleTypeIdx, v: VehicleIdx)
    requires
        s.network.vehicle_types.ids_sorted@.no_duplicates(),
        s.network.vehicle_types.ids_sorted@.contains(ty),
        s1.network.vehicle_types.ids_sorted@ == s.network.vehicle_types.ids_sorted@,
        s1.vehicle_ids_grouped_and_sorted@ == s.vehicle_ids_grouped_and_sorted@.insert(ty, s1.vehicle_ids_grouped_and_sorted@[ty]),
        ids_lose(s.vehicle_ids_grouped_and_sorted@[ty]@, s1.vehicle_ids_grouped_and_sorted@[ty]@, v),
    ensures ids_lose(sched_vehicles(s), sched_vehicles(s1), v),
{
    hide(ids_lose);
    reveal(sched_vehicles);
    let types = s.network.vehicle_types.ids_sorted@;
    let g0 = s.vehicle_ids_grouped_and_sorted@;
    let g1 = s1.vehicle_ids_grouped_and_sorted@;
    assert forall|i: int| 0 <= i < types.len() && types[i] != ty implies g1[#[trigger] types[i]]@ == g0[types[i]]@ by {}
    lemma_listing_lose(types, g0, g1, ty, v);
}
/// C10 (transitions_ok: one rotation-cycle structure per vehicle type of the network, the type list is duplicate-free): a type that
/// has a rotation-cycle structure is listed, once
pub proof fn lemma_types_listed(s: &Schedule, ty: VehicleTypeIdx)
    requires s.transitions_ok(), s.next_period_transitions@.contains_key(ty),
    ensures s.network.vehicle_types.ids_sorted@.no_duplicates(), s.network.vehicle_types.ids_sorted@.contains(ty),
{
    hide(TView::wf);
    assert(sched_types(s) == s.network.vehicle_types.ids_sorted@);
}
// [end of LISTING-LEMMAS]

/// rs_ok, the clauses the listing argument builds on: the listing of the schedule is exact (sched_ok), one rotation-cycle structure
/// per vehicle type of the network (transitions_ok)
pub proof fn lemma_rd_listing_old(s: &Schedule)
    requires s.rs_ok(),
    ensures rd_listing_exact(s), s.transitions_ok(),
{
    hide(Schedule::vehicle_ok);
    hide(Schedule::formations_ok);
    hide(Schedule::transitions_ok);
    hide(ids_valid);
    hide(usage_exact);
    hide(depots_ok);
}
/// rd_effect, the clauses about the components the listing is computed from (network, grouped id lists) and about the tours
pub proof fn lemma_rd_effect_listing(s: &Schedule, v: VehicleIdx, s1: &Schedule)
    requires rd_effect(s, v, s1),
    ensures
        s.rs_ok(), s.vehicles@.contains_key(v),
        s1.network == s.network, s1.tours@ == s.tours@.remove(v),
        s1.vehicle_ids_grouped_and_sorted@ == s.vehicle_ids_grouped_and_sorted@.insert(s.type_of(v), s1.vehicle_ids_grouped_and_sorted@[s.type_of(v)]),
        ids_lose(s.vehicle_ids_grouped_and_sorted@[s.type_of(v)]@, s1.vehicle_ids_grouped_and_sorted@[s.type_of(v)]@, v),
{
    hide(Schedule::rs_ok);
    hide(Schedule::listed_ok);
    hide(Schedule::trips_in_new_dummy);
    hide(Schedule::no_new_dummy);
    hide(Schedule::rd_formations_follow);
    hide(Schedule::rd_transitions_follow);
    hide(usage_exact);
    hide(ids_valid);
    hide(ids_lose);
    hide(sorted_cmp);
}
/// a duplicate-free listing of exactly the vehicles with a tour that loses (the one occurrence of) v lists exactly the vehicles
/// that still have a tour
pub proof fn lemma_rd_listing_step(vs: Seq<VehicleIdx>, vs1: Seq<VehicleIdx>, tours0: TourMap, tours1: TourMap, v: VehicleIdx)
    requires
        vs.no_duplicates(), forall|u: VehicleIdx| #[trigger] vs.contains(u) <==> tours0.contains_key(u),
        ids_lose(vs, vs1, v), tours1 == tours0.remove(v),
    ensures
        vs1.no_duplicates(), forall|u: VehicleIdx| #[trigger] vs1.contains(u) <==> tours1.contains_key(u),
{
    let p = choose|p: int| 0 <= p < vs.len() && vs[p] == v && vs1 == #[trigger] vs.remove(p);
    lemma_remove_contains(vs, p);
    assert forall|u: VehicleIdx| #[trigger] vs1.contains(u) <==> tours1.contains_key(u) by {
        assert(vs.contains(u) <==> tours0.contains_key(u));
    }
}
/// (1) the listing of the result of replace_vehicle_by_dummy is exact (formerly the premise rd_listing_exact(result)): the network
/// is the same, the id list of the vehicle's type -- a listed type: it has a rotation-cycle structure (vehicle_ok); listed once:
/// transitions_ok says the type list is duplicate-free -- loses one occurrence of the id, the other lists are the same, so the
/// listing loses one occurrence of the id; it was duplicate-free and listed exactly the vehicles with a tour (sched_ok)
pub proof fn lemma_rd_listing_exact(s: &Schedule, v: VehicleIdx, s1: &Schedule)
    requires rd_effect(s, v, s1),
    ensures rd_listing_exact(s1), ids_lose(sched_vehicles(s), sched_vehicles(s1), v),
{
    hide(rd_effect);
    hide(Schedule::rs_ok);
    hide(Schedule::transitions_ok);
    hide(Schedule::formations_ok);
    hide(Schedule::real_tour_ok);
    hide(ids_valid);
    hide(usage_exact_for);
    hide(ids_lose);
    hide(sorted_cmp);
    hide(tour_wf);
    lemma_rd_effect_listing(s, v, s1);
    lemma_rd_listing_old(s);
    lemma_rd_provider(s, v);
    let ty = s.type_of(v);
    lemma_types_listed(s, ty);
    assert(s1.network.vehicle_types.ids_sorted@ == s.network.vehicle_types.ids_sorted@);
    lemma_sched_vehicles_lose(s, s1, ty, v);
    lemma_rd_listing_step(sched_vehicles(s), sched_vehicles(s1), s.tours@, s1.tours@, v);
}
/// (2) delete_dummy leaves every component the listing is computed from alone (same_but_dummies: network, grouped id lists) and the
/// tours: the listing is the same (lemma_sched_vehicles_frame) and still exact
pub proof fn lemma_dd_listing_exact(s: &Schedule, d: VehicleIdx, m: &Schedule)
    requires s.dummy_deleted(d, m), s.rs_ok(),
    ensures sched_vehicles(m) == sched_vehicles(s), rd_listing_exact(m),
{
    hide(Schedule::rs_ok);
    hide(Schedule::transitions_ok);
    hide(Schedule::dummy_gone);
    lemma_rd_listing_old(s);
    assert(m.network == s.network);
    lemma_sched_vehicles_frame(m, s);
}

// ---- sums of cached tour costs over listings ---------------------------------------------------------------------------------
/// the sum over the first k vehicles only depends on the first k entries of the listing
pub proof fn lemma_rd_pre_costs_same_prefix(tours: TourMap, a: Seq<VehicleIdx>, b: Seq<VehicleIdx>, k: int)
    requires 0 <= k <= a.len(), k <= b.len(), forall|j: int| 0 <= j < k ==> a[j] == b[j],
    ensures pre_costs(tours, a, k) == pre_costs(tours, b, k),
    decreases k,
{
    if k > 0 { lemma_rd_pre_costs_same_prefix(tours, a, b, k - 1); }
}
/// taking one vehicle out of the listing takes its tour's costs out of the sum
pub proof fn lemma_rd_pre_costs_remove(tours: TourMap, b: Seq<VehicleIdx>, p: int, k: int)
    requires 0 <= p < k <= b.len(),
    ensures pre_costs(tours, b, k) == pre_costs(tours, b.remove(p), k - 1) + tours[b[p]].costs as int,
    decreases k,
{
    let r = b.remove(p);
    if k == p + 1 {
        assert forall|j: int| 0 <= j < p implies b[j] == r[j] by {}
        lemma_rd_pre_costs_same_prefix(tours, b, r, p);
    } else {
        lemma_rd_pre_costs_remove(tours, b, p, k - 1);
        assert(r[k - 2] == b[k - 1]);
    }
}
/// a duplicate-free listing whose vehicles all occur in another duplicate-free listing is at most as long and its tours cost
/// at most as much
pub proof fn lemma_rd_sub_listing(tours: TourMap, a: Seq<VehicleIdx>, b: Seq<VehicleIdx>)
    requires a.no_duplicates(), b.no_duplicates(), forall|i: int| 0 <= i < a.len() ==> b.contains(#[trigger] a[i]),
    ensures a.len() <= b.len(), tours_costs(tours, a) <= tours_costs(tours, b),
    decreases a.len(),
{
    if a.len() == 0 {
        lemma_pre_costs_mono(tours, b, 0, b.len() as int);
    } else {
        let n = a.len() as int;
        let x = a[n - 1];
        let d = a.drop_last();
        assert(b.contains(a[n - 1]));
        let p = choose|p: int| 0 <= p < b.len() && b[p] == x;
        let r = b.remove(p);
        lemma_remove_listing(b, p);
        assert(d.no_duplicates()) by {
            assert forall|i: int, j: int| 0 <= i < d.len() && 0 <= j < d.len() && i != j implies d[i] != d[j] by {
                assert(d[i] == a[i] && d[j] == a[j]);
            }
        }
        assert forall|i: int| 0 <= i < d.len() implies r.contains(#[trigger] d[i]) by {
            assert(d[i] == a[i]);
            assert(b.contains(a[i]));
            assert(a[i] != a[n - 1]);
        }
        lemma_rd_sub_listing(tours, d, r);
        lemma_rd_pre_costs_remove(tours, b, p, b.len() as int);
        assert forall|j: int| 0 <= j < n - 1 implies a[j] == d[j] by {}
        lemma_rd_pre_costs_same_prefix(tours, a, d, n - 1);
    }
}

// ---- formations: a vehicle that stays keeps its place in every formation ---------------------------------------------------------
/// [text of env/add_path_shim.vs / slices/admission.vs: lemma_first_pos]
pub proof fn lemma_rd_first_pos(s: Seq<Vehicle>, v: VehicleIdx)
    ensures
        0 <= first_pos(s, v) <= s.len(),
        forall|i: int| 0 <= i < first_pos(s, v) ==> (#[trigger] s[i]).idx != v,
        first_pos(s, v) < s.len() ==> s[first_pos(s, v)].idx == v,
        has_vehicle(s, v) <==> first_pos(s, v) < s.len(),
    decreases s.len(),
{
    if s.len() == 0 {
    } else if s[0].idx == v {
    } else {
        let t = s.drop_first();
        lemma_rd_first_pos(t, v);
        assert forall|i: int| 0 <= i < first_pos(s, v) implies (#[trigger] s[i]).idx != v by {
            if i > 0 { assert(t[i - 1] == s[i]); }
        }
        if first_pos(s, v) < s.len() { assert(t[first_pos(t, v)] == s[first_pos(s, v)]); }
        if has_vehicle(s, v) {
            let i = choose|i: int| 0 <= i < s.len() && #[trigger] s[i].idx == v;
            assert(t[i - 1].idx == v);
        }
    }
}
/// "removals keep the order": when v leaves a formation every other vehicle listed there stays listed
pub proof fn lemma_rd_stays_listed(f: Seq<Vehicle>, v: VehicleIdx, u: VehicleIdx)
    requires has_vehicle(f, v), has_vehicle(f, u), u != v,
    ensures has_vehicle(f.remove(first_pos(f, v)), u),
{
    lemma_rd_first_pos(f, v);
    let p = first_pos(f, v);
    let i = choose|i: int| 0 <= i < f.len() && #[trigger] f[i].idx == u;
    let g = f.remove(p);
    if i < p { assert(g[i] == f[i]); assert(g[i].idx == u); } else { assert(g[i - 1] == f[i]); assert(g[i - 1].idx == u); }
}

// =====================================================================================================
// closure of rs_ok under Schedule::replace_vehicle_by_dummy
// =====================================================================================================
/// C10 formations_ok again: every activity still has a formation (same key set), and the formation of every inner node of
/// every remaining tour still lists the tour's vehicle (only v left, and only the formations of v's tour changed)
pub proof fn lemma_rd_closure_formations(s: &Schedule, v: VehicleIdx, s1: &Schedule)
    requires
        s.formations_ok(), s.tours@.contains_key(v), tour_of_net(&s.network, &s.tours@[v]),
        s1.network == s.network, s1.tours@ == s.tours@.remove(v),
        s.rd_formations_follow(v, s1),
    ensures s1.formations_ok(),
{
    let tf0 = s.train_formations@;
    let tf1 = s1.train_formations@;
    let t = s.tours@[v];
    let nodes = t.nodes@;
    assert forall|n: NodeIdx| s1.network.has(n) && s1.network.sp_node(n).sp_is_activity() implies #[trigger] tf1.contains_key(n) by {
        assert(tf0.contains_key(n));
        assert(tf0.dom().contains(n));
        assert(tf1.dom().contains(n));
    }
    assert forall|u: VehicleIdx, i: int| s1.tours@.contains_key(u) && 0 < i < s1.tours@[u].nodes@.len() - 1
        implies has_vehicle(s1.train_formations@[#[trigger] s1.tours@[u].nodes@[i]].formation@, u) by {
        assert(u != v && s.tours@.contains_key(u) && s1.tours@[u] == s.tours@[u]);
        let n = s.tours@[u].nodes@[i];
        assert(has_vehicle(tf0[s.tours@[u].nodes@[i]].formation@, u));
        if moved_nd(&s.network, nodes, n) {
            let j = choose|j: int| 0 <= j < nodes.len() && nodes[j] == n;
            lemma_tour_kinds(&t, j);
            assert(0 < j < nodes.len() - 1);
            assert(has_vehicle(tf0[s.tours@[v].nodes@[j]].formation@, v));
            lemma_rd_stays_listed(tf0[n].formation@, v, u);
            assert(tf1[n].formation@ == tf0[n].formation@.remove(first_pos(tf0[n].formation@, v)));
        } else {
            assert(tf1[n] == tf0[n]);
        }
    }
}
/// magnitude: real vehicles are stored under `Vehicle` ids, which are 16 bit: there are at most 2^16 of them
pub proof fn lemma_rd_at_most_2_16(vehicles: VehicleMap)
    requires forall|v: VehicleIdx| #[trigger] vehicles.contains_key(v) ==> v is Vehicle,
    ensures vehicles.dom().len() <= 0x10000,
{
    lemma_vehicle_ids_below(0x10000);
    assert forall|v: VehicleIdx| #[trigger] vehicles.dom().contains(v) implies vehicle_ids_below(0x10000).contains(v) by {
        assert(vehicles.contains_key(v));
    }
    vstd::set_lib::lemma_len_subset(vehicles.dom(), vehicle_ids_below(0x10000));
}
/// C15 / C10 / C09 transitions_ok again: rd_transitions_follow (the postcondition of update_transitions_and_violation_fast) gives
/// every clause of transitions_ok for the result but the magnitude clause, which follows from counting: the cycles hold exactly
/// the vehicles, and vehicle ids are 16 bit (2^16 < 2^17)
pub proof fn lemma_rd_closure_transitions(s: &Schedule, v: VehicleIdx, s1: &Schedule)
    requires
        s.transitions_ok(), s1.network == s.network,
        s.rd_transitions_follow(v, s1),
        forall|u: VehicleIdx| #[trigger] s1.vehicles@.contains_key(u) ==> u is Vehicle,
    ensures s1.transitions_ok(),
{
    let trs1 = s1.next_period_transitions@;
    assert(sched_types(s1) == sched_types(s));
    assert forall|t: VehicleTypeIdx| #[trigger] trs1.contains_key(t) <==> sched_types(s1).contains(t) by {
        assert(s.next_period_transitions@.contains_key(t) <==> sched_types(s).contains(t));
    }
    spcl_lemma_len_sum_le_vehicles(s1);
    lemma_rd_at_most_2_16(s1.vehicles@);
}
/// vehicle_ok for a vehicle whose record and tour are untouched, w.r.t. rotation cycles that are consistent with the new tours
pub proof fn lemma_rd_vehicle_ok_kept(s: &Schedule, s1: &Schedule, u: VehicleIdx)
    requires
        s.vehicle_ok(u), s.transitions_ok(), s1.transitions_ok(), s1.network == s.network,
        s1.vehicles@.contains_key(u), s1.vehicles@[u] == s.vehicles@[u], s1.tours@[u] == s.tours@[u],
    ensures s1.vehicle_ok(u),
{
    let ty = s.type_of(u);
    assert(s1.type_of(u) == ty);
    assert(sched_types(s1) == sched_types(s));
    assert(s.next_period_transitions@.contains_key(ty));
    assert(sched_types(s).contains(ty));
    assert(s1.next_period_transitions@.contains_key(ty));
    let tr = s1.next_period_transitions@[ty];
    assert(tr.wf(&s1.network, s1.tours@));
    assert(tr.has_vehicle(u) <==> s1.vehicles@.contains_key(u) && s1.type_of(u) == ty);
}
/// sched_ok again, given that the listing of the result lists exactly its vehicles (rd_listing_exact: established by
/// lemma_rd_listing_exact / lemma_dd_listing_exact, no premise of the closure any more): the network is the same, every
/// remaining vehicle is vehicle_ok, the listing is shorter, and the cost
/// figure -- reduced by exactly the costs of the tour that went -- still covers the sum of the remaining tours' costs
pub proof fn lemma_rd_closure_sched(s: &Schedule, v: VehicleIdx, s1: &Schedule)
    requires
        s.sched_ok(), s.transitions_ok(), s.tours@.contains_key(v),
        s1.network == s.network, s1.vehicles@ == s.vehicles@.remove(v), s1.tours@ == s.tours@.remove(v),
        s1.costs == s.costs - s.tours@[v].costs,
        s1.transitions_ok(), s1.ids_ok(),
        rd_listing_exact(s1),
    ensures s1.sched_ok(),
{
    hide(Schedule::vehicle_ok);
    hide(Schedule::transitions_ok);
    let vs0 = sched_vehicles(s);
    let vs1 = sched_vehicles(s1);
    let t0 = s.tours@;
    let t1 = s1.tours@;
    assert forall|u: VehicleIdx| #[trigger] s1.tours@.contains_key(u) implies s1.vehicle_ok(u) by {
        assert(s.tours@.contains_key(u) && u != v);
        assert(s.vehicle_ok(u));
        assert(s1.vehicles@.contains_key(u));
        lemma_rd_vehicle_ok_kept(s, s1, u);
    }
    // the old listing covers the new one plus the vehicle that went
    let a = vs1.push(v);
    let n1 = vs1.len() as int;
    assert(!vs1.contains(v));
    assert(a.no_duplicates()) by {
        assert forall|i: int, j: int| 0 <= i < a.len() && 0 <= j < a.len() && i != j implies a[i] != a[j] by {
            if i < n1 && j < n1 { assert(a[i] == vs1[i] && a[j] == vs1[j]); }
            else if i < n1 { assert(vs1.contains(vs1[i])); }
            else { assert(vs1.contains(vs1[j])); }
        }
    }
    assert forall|i: int| 0 <= i < a.len() implies vs0.contains(#[trigger] a[i]) by {
        if i < n1 { assert(vs1.contains(vs1[i])); assert(t1.contains_key(vs1[i])); assert(t0.contains_key(a[i])); }
        else { assert(a[i] == v); }
    }
    lemma_rd_sub_listing(t0, a, vs0);
    assert forall|j: int| 0 <= j < n1 implies a[j] == vs1[j] by {}
    lemma_rd_pre_costs_same_prefix(t0, a, vs1, n1);
    assert(tours_costs(t0, a) == pre_costs(t0, vs1, n1) + t0[v].costs as int) by {
        assert(a[n1] == v);
    }
    assert forall|j: int| 0 <= j < n1 implies t1[#[trigger] vs1[j]] == t0[vs1[j]] by {
        assert(vs1.contains(vs1[j]));
        assert(t1.contains_key(vs1[j]));
    }
    lemma_pre_costs_frame(t1, t0, vs1, n1);
    lemma_pre_costs_mono(t1, vs1, 0, n1);
}
/// C10 listings: every other vehicle that was listed (its type has a sorted id list holding it) still is
pub proof fn lemma_rd_others_listed(s: &Schedule, v: VehicleIdx, s1: &Schedule)
    requires s.vehicle_gone(v, s1), s.others_untouched(v, s1),
    ensures forall|u: VehicleIdx| u != v && s.vehicles@.contains_key(u) && s.listed_ok(u) ==> #[trigger] s1.listed_ok(u),
{
    let ty = s.type_of(v);
    let l0 = s.listing(ty);
    assert forall|u: VehicleIdx| u != v && s.vehicles@.contains_key(u) && s.listed_ok(u) implies #[trigger] s1.listed_ok(u) by {
        let tu = s.type_of(u);
        assert(s1.type_of(u) == tu);
        if tu == ty {
            let p = choose|p: int| 0 <= p < l0.len() && l0[p] == v && s1.listing(ty) == #[trigger] l0.remove(p);
            let i = choose|i: int| 0 <= i < l0.len() && l0[i] == u;
            if i < p { assert(l0.remove(p)[i] == u); } else { assert(l0.remove(p)[i - 1] == u); }
        } else {
            assert(s1.vehicle_ids_grouped_and_sorted@[tu] == s.vehicle_ids_grouped_and_sorted@[tu]);
        }
    }
}
/// C10 "listings … match the stored tours": if every type's id list held exactly the vehicles of the type and the list of the
/// type of v held v once, every list still holds exactly the vehicles of its type
pub proof fn lemma_rd_listings_match(s: &Schedule, v: VehicleIdx, s1: &Schedule)
    requires
        s.vehicle_gone(v, s1), s.others_untouched(v, s1), s.vehicles@.contains_key(v), s.listed_ok(v),
        s.listings_match(), s.listing(s.type_of(v)).no_duplicates(),
    ensures s1.listings_match(),
{
    let ty = s.type_of(v);
    let l0 = s.listing(ty);
    let lists0 = s.vehicle_ids_grouped_and_sorted@;
    let lists1 = s1.vehicle_ids_grouped_and_sorted@;
    assert forall|t: VehicleTypeIdx, u: VehicleIdx| #![trigger lists1[t]@.contains(u)] lists1.contains_key(t)
        implies (lists1[t]@.contains(u) <==> s1.vehicles@.contains_key(u) && vtype(s1.vehicles@[u]) == t) by {
        if t == ty {
            let p = choose|p: int| 0 <= p < l0.len() && l0[p] == v && s1.listing(ty) == #[trigger] l0.remove(p);
            lemma_remove_listing(l0, p);
            assert(lists1[ty]@ == l0.remove(p));
            assert(l0.remove(p).contains(u) <==> (l0.contains(u) && u != l0[p]));
            assert(l0.contains(v));
            assert(lists0.contains_key(ty));
            assert(lists0[ty]@.contains(u) <==> s.vehicles@.contains_key(u) && vtype(s.vehicles@[u]) == ty);
        } else {
            assert(lists0.contains_key(t) && lists1[t] == lists0[t]);
            assert(lists0[t]@.contains(u) <==> s.vehicles@.contains_key(u) && vtype(s.vehicles@[u]) == t);
            if u == v { assert(vtype(s.vehicles@[v]) == ty); }
        }
    }
}
/// putting a new id into a duplicate-free list keeps it duplicate-free
pub proof fn lemma_rd_insert_no_dup(s: Seq<VehicleIdx>, p: int, x: VehicleIdx)
    requires 0 <= p <= s.len(), s.no_duplicates(), !s.contains(x),
    ensures s.insert(p, x).no_duplicates(),
{
    let t = s.insert(p, x);
    assert forall|i: int, j: int| 0 <= i < t.len() && 0 <= j < t.len() && i != j implies t[i] != t[j] by {
        let a = if i < p { i } else { i - 1 };
        let b = if j < p { j } else { j - 1 };
        if i == p { assert(t[i] == x && t[j] == s[b]); assert(s.contains(s[b])); }
        else if j == p { assert(t[j] == x && t[i] == s[a]); assert(s.contains(s[a])); }
        else { assert(t[i] == s[a] && t[j] == s[b]); }
    }
}
/// C10 dummy listings: every dummy that was listed still is (and the new one is), every dummy tour that was a well-formed dummy
/// tour of the network still is, a list that held exactly the ids of the dummy tours, once each, still does.  (NOT shown: that the
/// NEW dummy tour is well-formed -- Tour::new_dummy's contract says nothing about connectedness: A-path / D9.)
pub proof fn lemma_rd_dummies(s: &Schedule, v: VehicleIdx, s1: &Schedule)
    requires
        s.others_untouched(v, s1),
        s.needs_dummy(v) ==> s.trips_in_new_dummy(v, s1),
        !s.needs_dummy(v) ==> s.no_new_dummy(s1),
    ensures
        forall|d2: VehicleIdx| s.dummy_listed_ok(d2) ==> #[trigger] s1.dummy_listed_ok(d2),
        s.needs_dummy(v) ==> s1.dummy_listed_ok(s.next_dummy_id()),
        forall|d2: VehicleIdx| s.dummy_tours@.contains_key(d2) && s.dummy_tour_ok(d2) ==> s1.dummy_tours@.contains_key(d2) && #[trigger] s1.dummy_tour_ok(d2),
        s.dd_dummy_listing_exact() ==> s1.dd_dummy_listing_exact(),
{
    let ids0 = s.dummy_ids_sorted@;
    let ids1 = s1.dummy_ids_sorted@;
    let id = s.next_dummy_id();
    if s.needs_dummy(v) {
        let p = choose|p: int| 0 <= p <= ids0.len() && ids1 == #[trigger] ids0.insert(p, id);
        assert forall|x: VehicleIdx| #[trigger] ids1.contains(x) <==> (ids0.contains(x) || x == id) by {
            lemma_insert_contains(ids0, p, id, x);
        }
        if s.dd_dummy_listing_exact() {
            lemma_rd_insert_no_dup(ids0, p, id);
            assert forall|x: VehicleIdx| #[trigger] ids1.contains(x) <==> s1.dummy_tours@.contains_key(x) by {
                assert(ids0.contains(x) <==> s.dummy_tours@.contains_key(x));
            }
        }
    }
    assert forall|d2: VehicleIdx| s.dummy_tours@.contains_key(d2) && s.dummy_tour_ok(d2)
        implies s1.dummy_tours@.contains_key(d2) && #[trigger] s1.dummy_tour_ok(d2) by {
        assert(s1.dummy_tours@[d2] == s.dummy_tours@[d2]);
    }
}
/// the effect clauses of the contract of replace_vehicle_by_dummy the closure proof builds on
pub open spec fn rd_effect(s: &Schedule, v: VehicleIdx, s1: &Schedule) -> bool {
    &&& s.rs_ok() && s.vehicles@.contains_key(v) && s.listed_ok(v)
    &&& s.vehicle_gone(v, s1)
    &&& (s.needs_dummy(v) ==> s.trips_in_new_dummy(v, s1))
    &&& (!s.needs_dummy(v) ==> s.no_new_dummy(s1))
    &&& s.others_untouched(v, s1)
    &&& s.rd_formations_follow(v, s1)
    &&& s.rd_transitions_follow(v, s1)
    &&& s1.costs == s.costs - s.tours@[v].costs
    &&& usage_exact(s1.depot_usage@, &s.network, s1.vehicles@, s1.tours@)
    &&& s1.ids_ok()
}
/// CLOSURE, conjunct by conjunct: the result s1 of replace_vehicle_by_dummy(v) satisfies the clauses of rs_ok again (the listing
/// of the result lists exactly its vehicles, sched_ok, and hence the bundle -- unconditionally), and the listing invariants
pub open spec fn rd_closed(s: &Schedule, v: VehicleIdx, s1: &Schedule) -> bool {
    &&& s1.ids_ok()
    &&& s1.formations_ok()
    &&& s1.transitions_ok()
    &&& usage_exact(s1.depot_usage@, &s1.network, s1.vehicles@, s1.tours@)
    &&& rd_listing_exact(s1)
    &&& s1.sched_ok()
    &&& s1.rs_ok()
    &&& (forall|u: VehicleIdx| u != v && s.vehicles@.contains_key(u) && s.listed_ok(u) ==> #[trigger] s1.listed_ok(u))
    &&& (s.listings_match() && s.listing(s.type_of(v)).no_duplicates() ==> s1.listings_match())
    // the dummy listings
    &&& (forall|d2: VehicleIdx| s.dummy_listed_ok(d2) ==> #[trigger] s1.dummy_listed_ok(d2))
    &&& (s.needs_dummy(v) ==> s1.dummy_listed_ok(s.next_dummy_id()))
    &&& (forall|d2: VehicleIdx| s.dummy_tours@.contains_key(d2) && s.dummy_tour_ok(d2) ==> s1.dummy_tours@.contains_key(d2) && #[trigger] s1.dummy_tour_ok(d2))
    &&& (s.dd_dummy_listing_exact() ==> s1.dd_dummy_listing_exact())
}
pub proof fn lemma_rd_closure(s: &Schedule, v: VehicleIdx, s1: &Schedule)
    requires rd_effect(s, v, s1),
    ensures rd_closed(s, v, s1),
{
    lemma_rd_provider(s, v);
    assert(s1.network == s.network);
    assert(s1.vehicles@ == s.vehicles@.remove(v) && s1.tours@ == s.tours@.remove(v));
    lemma_rd_closure_formations(s, v, s1);
    assert forall|u: VehicleIdx| #[trigger] s1.vehicles@.contains_key(u) implies u is Vehicle by {}
    lemma_rd_closure_transitions(s, v, s1);
    lemma_rd_listing_exact(s, v, s1);
    lemma_rd_closure_sched(s, v, s1);
    lemma_rd_others_listed(s, v, s1);
    if s.listings_match() && s.listing(s.type_of(v)).no_duplicates() {
        lemma_rd_listings_match(s, v, s1);
    }
    lemma_rd_dummies(s, v, s1);
}

// =====================================================================================================
// closure under Schedule::delete_dummy: the listing / id invariants it touches; every other invariant is inherited (every
// other component is the same)
// =====================================================================================================
impl Schedule {
    /// C10 "… dummy listings are sorted and match the stored tours", in full: the list of dummy ids is sorted, duplicate-free
    /// and holds exactly the ids of the dummy tours (so dummy_listed_ok holds for every dummy)
    pub open spec fn dd_dummy_listing_exact(&self) -> bool {
        &&& sorted_cmp(self.dummy_ids_sorted@)
        &&& self.dummy_ids_sorted@.no_duplicates()
        &&& forall|d: VehicleIdx| #[trigger] self.dummy_ids_sorted@.contains(d) <==> self.dummy_tours@.contains_key(d)
    }
}
/// C10 ids_ok again: a sub-map of the dummy tours, the list stays sorted
pub proof fn lemma_dd_ids(s: &Schedule, d: VehicleIdx, m: &Schedule)
    requires s.dummy_deleted(d, m), s.ids_ok(),
    ensures m.ids_ok(),
{
    assert forall|x: VehicleIdx| #[trigger] m.dummy_tours@.contains_key(x) implies x is Dummy && (x->Dummy_0 as int) < m.vehicle_counter by {
        assert(s.dummy_tours@.contains_key(x));
    }
}
/// the other dummy tours: still listed, still well-formed dummy tours of the network; an exact listing stays exact
pub proof fn lemma_dd_dummies(s: &Schedule, d: VehicleIdx, m: &Schedule)
    requires s.dummy_deleted(d, m),
    ensures
        forall|d2: VehicleIdx| d2 != d && s.dummy_listed_ok(d2) ==> #[trigger] m.dummy_listed_ok(d2),
        forall|d2: VehicleIdx| d2 != d && s.dummy_tours@.contains_key(d2) && s.dummy_tour_ok(d2) ==> m.dummy_tours@.contains_key(d2) && #[trigger] m.dummy_tour_ok(d2),
        s.dd_dummy_listing_exact() ==> m.dd_dummy_listing_exact(),
{
    let ids0 = s.dummy_ids_sorted@;
    let ids1 = m.dummy_ids_sorted@;
    let p = choose|p: int| 0 <= p < ids0.len() && ids0[p] == d && ids1 == #[trigger] ids0.remove(p);
    assert forall|d2: VehicleIdx| d2 != d && s.dummy_listed_ok(d2) implies #[trigger] m.dummy_listed_ok(d2) by {
        let i = choose|i: int| 0 <= i < ids0.len() && ids0[i] == d2;
        if i < p { assert(ids0.remove(p)[i] == d2); } else { assert(ids0.remove(p)[i - 1] == d2); }
    }
    if s.dd_dummy_listing_exact() {
        lemma_remove_listing(ids0, p);
        assert forall|x: VehicleIdx| #[trigger] ids1.contains(x) <==> m.dummy_tours@.contains_key(x) by {
            assert(ids0.remove(p).contains(x) <==> (ids0.contains(x) && x != ids0[p]));
            assert(ids0.contains(x) <==> s.dummy_tours@.contains_key(x));
        }
    }
}
/// vehicle_ok only looks at components delete_dummy leaves alone
pub proof fn lemma_dd_vehicle_ok(s: &Schedule, m: &Schedule, u: VehicleIdx)
    requires s.same_but_dummies(m), s.vehicle_ok(u),
    ensures m.vehicle_ok(u),
{
    assert(m.type_of(u) == s.type_of(u));
    assert(m.transition_of(u) == s.transition_of(u));
}
/// CLOSURE of rs_ok under delete_dummy (no premise any more: the listing of the result is the listing of `self`, hence exact:
/// lemma_dd_listing_exact)
pub proof fn lemma_dd_rs_ok(s: &Schedule, d: VehicleIdx, m: &Schedule)
    requires s.dummy_deleted(d, m), s.rs_ok(),
    ensures rd_listing_exact(m), m.rs_ok(),
{
    hide(Schedule::vehicle_ok);
    lemma_dd_listing_exact(s, d, m);
    lemma_dd_ids(s, d, m);
    assert(m.network == s.network);
    assert(m.sched_ok()) by {
        let vs0 = sched_vehicles(s);
        let vs1 = sched_vehicles(m);
        assert forall|u: VehicleIdx| #[trigger] m.tours@.contains_key(u) implies m.vehicle_ok(u) by {
            assert(s.tours@.contains_key(u));
            lemma_dd_vehicle_ok(s, m, u);
        }
        assert forall|i: int| 0 <= i < vs1.len() implies vs0.contains(#[trigger] vs1[i]) by {
            assert(vs1.contains(vs1[i]));
            assert(s.tours@.contains_key(vs1[i]));
        }
        lemma_rd_sub_listing(s.tours@, vs1, vs0);
    }
    assert(m.formations_ok());
    assert(m.transitions_ok()) by {
        assert(sched_types(m) == sched_types(s));
        assert forall|t: VehicleTypeIdx, v: VehicleIdx| #![trigger m.next_period_transitions@[t].has_vehicle(v)] m.next_period_transitions@.contains_key(t)
            implies (m.next_period_transitions@[t].has_vehicle(v) <==> m.vehicles@.contains_key(v) && m.type_of(v) == t) by {
            assert(s.next_period_transitions@[t].has_vehicle(v) <==> s.vehicles@.contains_key(v) && s.type_of(v) == t);
        }
    }
}
/// CLOSURE, conjunct by conjunct: the result m of delete_dummy(d)
pub open spec fn dd_closed(s: &Schedule, d: VehicleIdx, m: &Schedule) -> bool {
    // the listing / id invariants the operation touches
    &&& sorted_cmp(m.dummy_ids_sorted@)
    &&& (s.ids_ok() ==> m.ids_ok())
    &&& (forall|d2: VehicleIdx| d2 != d && s.dummy_listed_ok(d2) ==> #[trigger] m.dummy_listed_ok(d2))
    &&& (forall|d2: VehicleIdx| d2 != d && s.dummy_tours@.contains_key(d2) && s.dummy_tour_ok(d2) ==> m.dummy_tours@.contains_key(d2) && #[trigger] m.dummy_tour_ok(d2))
    &&& (s.dd_dummy_listing_exact() ==> m.dd_dummy_listing_exact())
    // inherited: every other component is the same
    &&& (s.formations_ok() ==> m.formations_ok())
    &&& (s.transitions_ok() ==> m.transitions_ok())
    &&& (usage_exact(s.depot_usage@, &s.network, s.vehicles@, s.tours@) ==> usage_exact(m.depot_usage@, &m.network, m.vehicles@, m.tours@))
    &&& (s.listings_match() ==> m.listings_match())
    &&& (forall|v: VehicleIdx| s.listed_ok(v) ==> #[trigger] m.listed_ok(v))
    &&& (forall|t: VehicleTypeIdx| s.type_known(t) ==> #[trigger] m.type_known(t))
    // the bundles
    &&& (s.sv_ok() ==> m.sv_ok())
    &&& (s.rs_ok() ==> rd_listing_exact(m) && m.rs_ok())
}
pub proof fn lemma_dd_closure_one(s: &Schedule, d: VehicleIdx, m: &Schedule)
    requires s.dummy_deleted(d, m),
    ensures dd_closed(s, d, m),
{
    assert(m.network == s.network);
    if s.ids_ok() { lemma_dd_ids(s, d, m); }
    lemma_dd_dummies(s, d, m);
    if s.transitions_ok() {
        assert(sched_types(m) == sched_types(s));
        assert forall|t: VehicleTypeIdx, v: VehicleIdx| #![trigger m.next_period_transitions@[t].has_vehicle(v)] m.next_period_transitions@.contains_key(t)
            implies (m.next_period_transitions@[t].has_vehicle(v) <==> m.vehicles@.contains_key(v) && m.type_of(v) == t) by {
            assert(s.next_period_transitions@[t].has_vehicle(v) <==> s.vehicles@.contains_key(v) && s.type_of(v) == t);
        }
    }
    assert forall|v: VehicleIdx| s.listed_ok(v) implies #[trigger] m.listed_ok(v) by {
        assert(m.type_of(v) == s.type_of(v));
    }
    assert forall|t: VehicleTypeIdx| s.type_known(t) implies #[trigger] m.type_known(t) by {
        assert(sched_types(m) == sched_types(s));
    }
    if s.sv_ok() { lemma_dd_sv_ok(s, d, m); }
    if s.rs_ok() { lemma_dd_rs_ok(s, d, m); }
}
/// CLOSURE from the contract: whatever schedule satisfies the Ok-postcondition of delete_dummy (dummy_deleted) satisfies
/// dd_closed.  (Stated for all schedules, triggered on the invariant asked about: the result of the function has no name in
/// its body -- it is built from clones made in the argument list of Schedule::new.)
pub proof fn lemma_dd_closure(s: &Schedule, d: VehicleIdx)
    ensures
        forall|m: Schedule| #![trigger m.ids_ok()] #![trigger m.dd_dummy_listing_exact()] #![trigger m.formations_ok()] #![trigger m.transitions_ok()]
            #![trigger m.listings_match()] #![trigger m.sv_ok()] #![trigger m.rs_ok()] #![trigger rd_listing_exact(&m)]
            s.dummy_deleted(d, &m) ==> dd_closed(s, d, &m),
        forall|m: Schedule, x: VehicleIdx| #![trigger m.dummy_listed_ok(x)] #![trigger m.dummy_tour_ok(x)] #![trigger m.listed_ok(x)]
            s.dummy_deleted(d, &m) ==> dd_closed(s, d, &m),
        forall|m: Schedule, t: VehicleTypeIdx| #![trigger m.type_known(t)] s.dummy_deleted(d, &m) ==> dd_closed(s, d, &m),
{
    assert forall|m: Schedule| s.dummy_deleted(d, &m) implies #[trigger] dd_closed(s, d, &m) by {
        lemma_dd_closure_one(s, d, &m);
    }
}

// =====================================================================================================
// closure of sv_ok under Schedule::spawn_vehicle_to_replace_dummy_tour = delete_dummy ; spawn_vehicle_for_path: from the
// contract alone (the intermediate schedule `mid` of the postcondition: dummy_deleted, spawn_post), via lemma_dd_sv_ok and the
// closure lemma of spawn_vehicle_for_path (spcl_lemma_closure, env/spawn_vehicle_shim.vs)
// =====================================================================================================
/// CLOSURE, conjunct by conjunct: the result (s1, id) of spawn_vehicle_to_replace_dummy_tour(d, vt) on s.  The magnitude
/// clauses of sv_ok are not invariants of a spawn (the formations of the new tour's activities grow by one vehicle, the cost
/// figure by the new tour's costs): they are re-established under the hypotheses on the RESULT named in spcl_closed
/// (spcl_grown_len_small / spcl_grown_sums_fit for the activities of the new tour, costs <= 2^61)
pub open spec fn sd_closed(s: &Schedule, d: VehicleIdx, s1: &Schedule, id: VehicleIdx) -> bool {
    let nodes = s1.tours@[id].nodes@;
    // instance validity: the network is the same
    &&& s1.network == s.network
    &&& s1.network.wf() && depot_lists_ok(&s1.network)
    &&& (s.network.start_depots_ok() ==> s1.network.start_depots_ok())
    // ids / listings
    &&& s1.sv_ids_ok()
    // formations: coverage, instance clause, C09
    &&& s1.spcl_forms_cover_activities() && s1.spcl_trips_typed() && s1.spcl_unserved_covers()
    // formations: magnitudes, under the hypothesis on the grown formations
    &&& (s1.spcl_grown_len_small(nodes) ==> s1.spcl_forms_len_small())
    &&& (s1.spcl_grown_sums_fit(nodes) ==> s1.spcl_forms_sums_fit())
    &&& (s1.spcl_grown_len_small(nodes) && s1.spcl_grown_sums_fit(nodes) ==> s1.sv_formations_ok())
    // rotation cycles
    &&& s1.transitions_ok()
    // depot usage (w.r.t. the result's own network)
    &&& usage_exact(s1.depot_usage@, &s1.network, s1.vehicles@, s1.tours@)
    // the bundle; magnitudes as hypotheses on the result
    &&& (s1.spcl_grown_len_small(nodes) && s1.spcl_grown_sums_fit(nodes) && s1.costs <= sched_cost_bound() ==> s1.sv_ok())
    // preconditions outside sv_ok that do not depend on the arguments
    &&& (forall|t: VehicleTypeIdx| s.type_known(t) ==> #[trigger] s1.type_known(t))
    &&& (s.listings_match() ==> s1.listings_match())
    &&& (forall|u: VehicleIdx| s.vehicles@.contains_key(u) && s.listed_ok(u) ==> #[trigger] s1.listed_ok(u))
    &&& s1.listed_ok(id)
    // the other dummy tours
    &&& (forall|d2: VehicleIdx| d2 != d && s.dummy_listed_ok(d2) ==> #[trigger] s1.dummy_listed_ok(d2))
    &&& (forall|d2: VehicleIdx| d2 != d && s.dummy_tours@.contains_key(d2) && s.dummy_tour_ok(d2) ==> s1.dummy_tours@.contains_key(d2) && #[trigger] s1.dummy_tour_ok(d2))
    &&& (s.dd_dummy_listing_exact() ==> s1.dd_dummy_listing_exact())
}
pub proof fn lemma_sd_closure_one(s: &Schedule, d: VehicleIdx, m: &Schedule, vt: VehicleTypeIdx, s1: &Schedule, id: VehicleIdx)
    requires
        s.sv_ok(), s.dummy_deleted(d, m),
        // the postcondition of m.spawn_vehicle_for_path(vt, nodes of the dummy tour) -> Ok((s1, id)), as far as it is used
        m.vehicle_counter <= 0xffff,
        m.spcl_step(vt, s.dummy_tours@[d].nodes@, s1, id),
        m.listings_match() ==> s1.listings_match(),
    ensures sd_closed(s, d, s1, id),
{
    let path = s.dummy_tours@[d].nodes@;
    lemma_dd_sv_ok(s, d, m);
    lemma_dd_closure_one(s, d, m);
    spcl_lemma_closure(m, s1, vt, path, id);
    assert(spcl_closed(m, s1, id));
    assert(s1.network == s.network);
    assert forall|t: VehicleTypeIdx| s.type_known(t) implies #[trigger] s1.type_known(t) by {
        assert(m.type_known(t));
    }
    assert forall|d2: VehicleIdx| d2 != d && s.dummy_listed_ok(d2) implies #[trigger] s1.dummy_listed_ok(d2) by {
        assert(m.dummy_listed_ok(d2));
    }
    assert forall|d2: VehicleIdx| d2 != d && s.dummy_tours@.contains_key(d2) && s.dummy_tour_ok(d2)
        implies s1.dummy_tours@.contains_key(d2) && #[trigger] s1.dummy_tour_ok(d2) by {
        assert(m.dummy_tours@.contains_key(d2) && m.dummy_tour_ok(d2));
    }
    // the vehicle listings: the list of the type gained the new id (and stays sorted), the other lists are untouched
    let l0 = m.listing(vt);
    let p = choose|p: int| 0 <= p <= l0.len() && s1.listing(vt) == #[trigger] l0.insert(p, id);
    assert(s1.listed_ok(id)) by {
        lemma_insert_contains(l0, p, id, id);
    }
    assert forall|u: VehicleIdx| s.vehicles@.contains_key(u) && s.listed_ok(u) implies #[trigger] s1.listed_ok(u) by {
        assert(m.listed_ok(u));
        assert(u != id && s1.type_of(u) == m.type_of(u));
        if m.type_of(u) == vt {
            lemma_insert_contains(l0, p, id, u);
        } else {
            assert(s1.vehicle_ids_grouped_and_sorted@[m.type_of(u)] == m.vehicle_ids_grouped_and_sorted@[m.type_of(u)]);
        }
    }
}
/// CLOSURE for the body: whatever spawn_vehicle_for_path(vt, nodes of the dummy tour) returns on the intermediate schedule m
/// (its postcondition, as far as the closure lemmas use it: spcl_step, the counter, listings_match) satisfies sd_closed.
/// (Stated for all results, triggered on the effect clause `spawned` of the callee's contract: the call is the tail expression
/// of the body, so its result has no name there.)
pub proof fn lemma_sd_closure(s: &Schedule, d: VehicleIdx, m: &Schedule, vt: VehicleTypeIdx)
    requires s.sv_ok(), s.dummy_deleted(d, m),
    ensures
        forall|s1: Schedule, id: VehicleIdx| #![trigger m.spawned(vt, s.dummy_tours@[d].nodes@, &s1, id)]
            m.vehicle_counter <= 0xffff && m.spcl_step(vt, s.dummy_tours@[d].nodes@, &s1, id) && (m.listings_match() ==> s1.listings_match())
            ==> sd_closed(s, d, &s1, id),
{
    assert forall|s1: Schedule, id: VehicleIdx| #![trigger m.spawned(vt, s.dummy_tours@[d].nodes@, &s1, id)]
        m.vehicle_counter <= 0xffff && m.spcl_step(vt, s.dummy_tours@[d].nodes@, &s1, id) && (m.listings_match() ==> s1.listings_match())
        implies sd_closed(s, d, &s1, id) by {
        lemma_sd_closure_one(s, d, m, vt, &s1, id);
    }
}
