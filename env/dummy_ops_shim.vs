// ---- environment of the slice `dummy_ops` ------------------------------------------------------------
// (Schedule::replace_vehicle_by_dummy, Schedule::delete_dummy, Schedule::spawn_vehicle_to_replace_dummy_tour)
// Included inside `pub mod tr { … }` after env/im_shim.vs, env/transition_spec.vs, env/schedule_shim.vs,
// env/sched_guard_shim.vs and env/spawn_vehicle_shim.vs.  NO assumption is introduced in this file: it only holds
// open spec functions and proved lemmas.
//
// Copied text.  env/remove_segment_shim.vs and env/update_tours_shim.vs cannot be included next to
// env/spawn_vehicle_shim.vs (all three declare the Ord / binary_search assumptions, the depot-usage and the formation
// vocabulary; `Schedule::formations_follow` / `transitions_follow` exist in two of them with different signatures), so
// the definitions this slice needs from them are copied here, text unchanged:
//   * from env/remove_segment_shim.vs: svc_mask, svc_filter, has_service (vocabulary of Tour::new_dummy's contract),
//     ids_valid, Schedule::{ids_ok, formations_ok, rs_ok, next_dummy_id}, lemma_tour_cost_le
//     (Schedule::transitions_ok, usage_exact, … are in env/spawn_vehicle_shim.vs with the same text);
//   * from env/update_tours_shim.vs: ids_lose, lemma_rank_injective, lemma_bsearch_finds, lemma_remove_listing.

// =====================================================================================================
// copied from env/remove_segment_shim.vs
// =====================================================================================================
pub open spec fn svc_mask(net: &Network, s: Seq<NodeIdx>) -> Seq<bool> { Seq::new(s.len(), |i: int| net.sp_node(s[i]) is Service) }
/// the service trips among the nodes s, in order
pub open spec fn svc_filter(net: &Network, s: Seq<NodeIdx>) -> Seq<NodeIdx> { mask_filter(s, svc_mask(net, s)) }
pub open spec fn has_service(net: &Network, s: Seq<NodeIdx>) -> bool {
    exists|i: int| 0 <= i < s.len() && #[trigger] net.sp_node(s[i]) is Service
}
pub open spec fn ids_valid(vehicles: VehicleMap, tours: TourMap, dummies: TourMap, ids: Seq<VehicleIdx>, counter: usize) -> bool {
    &&& forall|v: VehicleIdx| #[trigger] vehicles.contains_key(v) ==> v is Vehicle && vehicles[v].idx == v
    &&& forall|v: VehicleIdx| #[trigger] vehicles.contains_key(v) <==> tours.contains_key(v)
    &&& forall|d: VehicleIdx| #[trigger] dummies.contains_key(d) ==> d is Dummy && (d->Dummy_0 as int) < counter
    &&& sorted_cmp(ids)
}
impl Schedule {
    /// C10: ids.  Real vehicles are stored under their own id, an id of the `Vehicle` kind, and have a tour;
    /// dummy tours are stored under ids of the `Dummy` kind that were handed out already (index below the
    /// counter); the list of dummy ids is sorted
    pub open spec fn ids_ok(&self) -> bool {
        ids_valid(self.vehicles@, self.tours@, self.dummy_tours@, self.dummy_ids_sorted@, self.vehicle_counter)
    }
    /// C10: "each non-depot node is covered by exactly one train formation", which lists the vehicles whose
    /// tours contain the node
    pub open spec fn formations_ok(&self) -> bool {
        &&& forall|n: NodeIdx| self.network.has(n) && self.network.sp_node(n).sp_is_activity() ==> #[trigger] self.train_formations@.contains_key(n)
        &&& forall|v: VehicleIdx, i: int| self.tours@.contains_key(v) && 0 < i < self.tours@[v].nodes@.len() - 1
                ==> has_vehicle(self.train_formations@[#[trigger] self.tours@[v].nodes@[i]].formation@, v)
    }
    /// schedule-level validity as far as remove_segment / replace_vehicle_by_dummy need it (part of C10, C09)
    pub open spec fn rs_ok(&self) -> bool {
        &&& self.sched_ok()
        &&& self.ids_ok()
        &&& self.formations_ok()
        &&& self.transitions_ok()
        &&& usage_exact(self.depot_usage@, &self.network, self.vehicles@, self.tours@)
    }
    /// the id the next new dummy tour gets
    pub open spec fn next_dummy_id(&self) -> VehicleIdx { VehicleIdx::Dummy(self.vehicle_counter as Idx) }
}
/// the cached costs of one listed tour are part of the sum
pub proof fn lemma_tour_cost_le(tours: TourMap, vs: Seq<VehicleIdx>, j: int, k: int)
    requires 0 <= j < k <= vs.len(),
    ensures tours[vs[j]].costs as int <= pre_costs(tours, vs, k),
    decreases k,
{
    if j < k - 1 { lemma_tour_cost_le(tours, vs, j, k - 1); }
    else { lemma_pre_costs_mono(tours, vs, 0, k - 1); }
}

// =====================================================================================================
// copied from env/update_tours_shim.vs
// =====================================================================================================
/// `new` is `old` with one occurrence of `id` taken out (the others keep their order)
pub open spec fn ids_lose(old: Seq<VehicleIdx>, new: Seq<VehicleIdx>, id: VehicleIdx) -> bool {
    exists|p: int| 0 <= p < old.len() && old[p] == id && new == #[trigger] old.remove(p)
}
/// ids with the same rank are the same id (Idx is 16 bit)
pub proof fn lemma_rank_injective(a: VehicleIdx, b: VehicleIdx)
    requires vidx_rank(a) == vidx_rank(b),
    ensures a == b,
{
}
/// binary search for an id that is in the sorted list finds it
pub proof fn lemma_bsearch_finds(s: Seq<VehicleIdx>, x: VehicleIdx, r: Result<usize, usize>)
    requires sorted_cmp(s), s.contains(x), bsearch_post(s, x, r),
    ensures r is Ok, 0 <= r->Ok_0 < s.len(), s[r->Ok_0 as int] == x,
{
    let k = choose|k: int| 0 <= k < s.len() && s[k] == x;
    match r {
        Ok(i) => { lemma_rank_injective(s[i as int], x); }
        Err(i) => {
            if k < i { assert(s[k].cmp_spec(&x) is Less); } else { assert(s[k].cmp_spec(&x) is Greater); }
        }
    }
}
/// taking position p out of a list: membership, order, duplicate-freeness
pub proof fn lemma_remove_listing(s: Seq<VehicleIdx>, p: int)
    requires 0 <= p < s.len(),
    ensures
        sorted_cmp(s) ==> sorted_cmp(s.remove(p)),
        s.no_duplicates() ==> s.remove(p).no_duplicates(),
        s.no_duplicates() ==> forall|x: VehicleIdx| #[trigger] s.remove(p).contains(x) <==> (s.contains(x) && x != s[p]),
{
    let t = s.remove(p);
    if sorted_cmp(s) {
        assert forall|i: int, j: int| #![trigger t[i], t[j]] 0 <= i < j < t.len() implies !(t[i].cmp_spec(&t[j]) is Greater) by {
            let a = if i < p { i } else { i + 1 };
            let b = if j < p { j } else { j + 1 };
            assert(t[i] == s[a] && t[j] == s[b]);
            assert(!(s[a].cmp_spec(&s[b]) is Greater));
        }
    }
    if s.no_duplicates() {
        assert forall|i: int, j: int| 0 <= i < t.len() && 0 <= j < t.len() && i != j implies t[i] != t[j] by {
            let a = if i < p { i } else { i + 1 };
            let b = if j < p { j } else { j + 1 };
            assert(t[i] == s[a] && t[j] == s[b]);
        }
        assert forall|x: VehicleIdx| #[trigger] t.contains(x) <==> (s.contains(x) && x != s[p]) by {
            if t.contains(x) {
                let i = choose|i: int| 0 <= i < t.len() && t[i] == x;
                let a = if i < p { i } else { i + 1 };
                assert(t[i] == s[a]);
            }
            if s.contains(x) && x != s[p] {
                let a = choose|a: int| 0 <= a < s.len() && s[a] == x;
                if a < p { assert(t[a] == x); } else { assert(t[a - 1] == x); }
            }
        }
    }
}

// =====================================================================================================
// sorted id lists: taking an id out (`list.remove(list.binary_search(&id).unwrap())`)
// =====================================================================================================
/// C10 "listings are sorted": what the two statements need and yield, for every result the search may report
/// and every position that holds the id
pub proof fn lemma_unlist(s: Seq<VehicleIdx>, x: VehicleIdx)
    requires sorted_cmp(s), s.contains(x),
    ensures
        // `binary_search(..).unwrap()`: the search finds the id
        forall|res: Result<usize, usize>| #[trigger] bsearch_post(s, x, res) ==> res is Ok && 0 <= res->Ok_0 < s.len() && s[res->Ok_0 as int] == x,
        // `remove(position)`: one occurrence goes, the list stays sorted; a duplicate-free list does not hold the id any more
        forall|p: int| 0 <= p < s.len() && s[p] == x ==> sorted_cmp(#[trigger] s.remove(p)) && ids_lose(s, s.remove(p), x)
            && (s.no_duplicates() ==> s.remove(p).no_duplicates() && !s.remove(p).contains(x)),
{
    assert forall|res: Result<usize, usize>| #[trigger] bsearch_post(s, x, res) implies res is Ok && 0 <= res->Ok_0 < s.len() && s[res->Ok_0 as int] == x by {
        lemma_bsearch_finds(s, x, res);
    }
    assert forall|p: int| 0 <= p < s.len() && s[p] == x implies sorted_cmp(#[trigger] s.remove(p)) && ids_lose(s, s.remove(p), x)
        && (s.no_duplicates() ==> s.remove(p).no_duplicates() && !s.remove(p).contains(x)) by {
        lemma_remove_listing(s, p);
    }
}

// =====================================================================================================
// Schedule::replace_vehicle_by_dummy
// =====================================================================================================
impl Schedule {
    /// C10 ("vehicle … listings are sorted and match the stored tours") as far as the body needs it for the vehicle that goes:
    /// its type has an id list (`vehicle_ids_grouped_and_sorted[&vehicle_type_id]`), the list is sorted and holds the id
    /// (`binary_search(&vehicle_idx).unwrap()`)
    pub open spec fn listed_ok(&self, v: VehicleIdx) -> bool {
        let ty = self.type_of(v);
        &&& self.vehicle_ids_grouped_and_sorted@.contains_key(ty)
        &&& sorted_cmp(self.listing(ty))
        &&& self.listing(ty).contains(v)
    }
    /// the vehicle serves a service trip: its trips have to be handed back in a new dummy tour
    pub open spec fn needs_dummy(&self, v: VehicleIdx) -> bool { has_service(&self.network, self.tours@[v].nodes@) }
    /// D11: an id for the new dummy tour is available, or none is needed
    pub open spec fn rd_id_left(&self, v: VehicleIdx) -> bool { !self.needs_dummy(v) || self.vehicle_counter <= 0xffff }

    // ---- C13: the documented effect, clause by clause (each clause is stated over the components of the new schedule
    // -- `*_c`, opaque in the body of the function, established by a small lemma -- and read off the result by a wrapper) ----
    /// "a vehicle left without activities disappears": no vehicle, no tour under the id; exactly one occurrence of the id
    /// leaves the sorted id list of the vehicle's type, which stays sorted (and, if it was duplicate-free, does not hold
    /// the id any more)
    pub open spec fn vehicle_gone_c(&self, v: VehicleIdx, vehicles1: VehicleMap, tours1: TourMap, grouped1: Map<VehicleTypeIdx, Vec<VehicleIdx>>) -> bool {
        let ty = self.type_of(v);
        &&& !vehicles1.contains_key(v) && !tours1.contains_key(v)
        &&& grouped1.contains_key(ty)
        &&& ids_lose(self.listing(ty), grouped1[ty]@, v)
        &&& sorted_cmp(grouped1[ty]@)
        &&& self.listing(ty).no_duplicates() ==> grouped1[ty]@.no_duplicates() && !grouped1[ty]@.contains(v)
    }
    pub open spec fn vehicle_gone(&self, v: VehicleIdx, s1: &Schedule) -> bool {
        self.vehicle_gone_c(v, s1.vehicles@, s1.tours@, s1.vehicle_ids_grouped_and_sorted@)
    }
    /// "displaced or removed service trips are handed back (… in a new dummy tour)": ONE new dummy tour under the next id
    /// (an id not in use) holds exactly the service trips of the vehicle's tour, in order; the sorted list of dummy ids gains
    /// exactly this id and stays sorted; the counter advances by one
    pub open spec fn trips_in_new_dummy_c(&self, v: VehicleIdx, d1: TourMap, ids1: Seq<VehicleIdx>, counter1: usize) -> bool {
        let id = self.next_dummy_id();
        &&& !self.dummy_tours@.contains_key(id)
        &&& d1.contains_key(id)
        &&& d1 == self.dummy_tours@.insert(id, d1[id])
        &&& d1[id].nodes@ == svc_filter(&self.network, self.tours@[v].nodes@) && d1[id].is_dummy && d1[id].network == self.network
        &&& d1[id].caches_ok()
        &&& ids_gain(self.dummy_ids_sorted@, ids1, id) && sorted_cmp(ids1)
        &&& counter1 == self.vehicle_counter + 1
    }
    pub open spec fn trips_in_new_dummy(&self, v: VehicleIdx, s1: &Schedule) -> bool {
        self.trips_in_new_dummy_c(v, s1.dummy_tours@, s1.dummy_ids_sorted@, s1.vehicle_counter)
    }
    /// "(none if it served no service trip)": dummy tours, their listing and the counter are unchanged
    pub open spec fn no_new_dummy(&self, s1: &Schedule) -> bool {
        s1.dummy_tours@ == self.dummy_tours@ && s1.dummy_ids_sorted@ == self.dummy_ids_sorted@ && s1.vehicle_counter == self.vehicle_counter
    }
    /// "all other vehicles' tours … stay untouched": every other vehicle, every other tour, the id lists of the other
    /// types, every dummy tour that was there, the network
    pub open spec fn others_untouched_c(&self, v: VehicleIdx, vehicles1: VehicleMap, tours1: TourMap, grouped1: Map<VehicleTypeIdx, Vec<VehicleIdx>>, d1: TourMap) -> bool {
        let ty = self.type_of(v);
        &&& vehicles1 == self.vehicles@.remove(v)
        &&& tours1 == self.tours@.remove(v)
        &&& grouped1 == self.vehicle_ids_grouped_and_sorted@.insert(ty, grouped1[ty])
        &&& forall|d: VehicleIdx| #[trigger] self.dummy_tours@.contains_key(d) ==> d1.contains_key(d) && d1[d] == self.dummy_tours@[d]
        &&& forall|d: VehicleIdx| #[trigger] d1.contains_key(d) && d != self.next_dummy_id() ==> self.dummy_tours@.contains_key(d)
    }
    pub open spec fn others_untouched(&self, v: VehicleIdx, s1: &Schedule) -> bool {
        self.others_untouched_c(v, s1.vehicles@, s1.tours@, s1.vehicle_ids_grouped_and_sorted@, s1.dummy_tours@) && s1.network == self.network
    }
    /// "formations elsewhere … stay untouched": the formation table is what update_train_formation(Some(v), None, nodes
    /// of v's tour) makes of it (its postcondition, slices/train_formation_update.vs); spelled out: the vehicle leaves the
    /// formation of every activity of its tour (the others keep their order) and no other formation changes
    pub open spec fn rd_formations_follow_c(&self, v: VehicleIdx, tf1: Formations) -> bool {
        let nodes = self.tours@[v].nodes@;
        let tf0 = self.train_formations@;
        let rv: Option<Vehicle> = None;
        &&& self.formations_elsewhere_untouched(nodes, tf0, tf1)
        &&& self.moved_get_replacement(nodes, tf0, tf1, Some(v), rv)
        &&& forall|n: NodeIdx| moved_nd(&self.network, nodes, n)
                ==> (#[trigger] tf1[n]).formation@ == tf0[n].formation@.remove(first_pos(tf0[n].formation@, v))
    }
    pub open spec fn rd_formations_follow(&self, v: VehicleIdx, s1: &Schedule) -> bool { self.rd_formations_follow_c(v, s1.train_formations@) }
    /// C09: the unserved-passenger pair changes by exactly - Σ unserved(old formation) + Σ unserved(new formation)
    /// over the nodes of the tour
    pub open spec fn rd_unserved_follow_c(&self, v: VehicleIdx, u1: (PassengerCount, PassengerCount)) -> bool {
        let nodes = self.tours@[v].nodes@;
        let tf0 = self.train_formations@;
        let n = nodes.len() as int;
        let rv: Option<Vehicle> = None;
        &&& u1.0 == self.unserved_passengers.0 - self.un_sum(tf0, Some(v), rv, nodes, n, false, 0) + self.un_sum(tf0, Some(v), rv, nodes, n, true, 0)
        &&& u1.1 == self.unserved_passengers.1 - self.un_sum(tf0, Some(v), rv, nodes, n, false, 1) + self.un_sum(tf0, Some(v), rv, nodes, n, true, 1)
    }
    pub open spec fn rd_unserved_follow(&self, v: VehicleIdx, s1: &Schedule) -> bool { self.rd_unserved_follow_c(v, s1.unserved_passengers) }
    /// C15 / C10 / C09: the rotation cycles follow the new vehicles / tours (the postcondition of
    /// update_transitions_and_violation_fast, slices/sched_guard.vs); the other vehicle types are untouched
    pub open spec fn rd_transitions_follow_c(&self, v: VehicleIdx, trs1: Map<VehicleTypeIdx, Transition>, mv1: MaintenanceCounter, vehicles1: VehicleMap, tours1: TourMap) -> bool {
        &&& forall|vt: VehicleTypeIdx| self.next_period_transitions@.contains_key(vt) <==> #[trigger] trs1.contains_key(vt)
        &&& forall|vt: VehicleTypeIdx| #[trigger] trs1.contains_key(vt) ==> trs1[vt].wf(&self.network, tours1)
        &&& forall|vt: VehicleTypeIdx, u: VehicleIdx| #![trigger trs1[vt].has_vehicle(u)] trs1.contains_key(vt)
                ==> (trs1[vt].has_vehicle(u) <==> (vehicles1.contains_key(u) && vtype(vehicles1[u]) == vt))
        &&& mv1 as int == viol_sum(trs1, sched_types(self))
        &&& forall|vt: VehicleTypeIdx| #[trigger] trs1.contains_key(vt) && vt != self.type_of(v) ==> trs1[vt] == self.next_period_transitions@[vt]
    }
    pub open spec fn rd_transitions_follow(&self, v: VehicleIdx, s1: &Schedule) -> bool {
        self.rd_transitions_follow_c(v, s1.next_period_transitions@, s1.maintenance_violation, s1.vehicles@, s1.tours@)
    }
}

/// `vehicle_ok` for one vehicle, as far as it speaks about the vehicle's own tour
pub proof fn lemma_vehicle_ok_facts(s: &Schedule, v: VehicleIdx)
    requires s.vehicle_ok(v),
    ensures
        s.tours@[v].wf(), !s.tours@[v].is_dummy, *s.tours@[v].network == *s.network, s.tours@[v].caches_ok(), tour_len_ok(s.tours@[v].nodes@),
        s.next_period_transitions@.contains_key(s.type_of(v)),
{
}
/// what a valid schedule provides for a real vehicle and its tour
pub proof fn lemma_rd_provider(s: &Schedule, v: VehicleIdx)
    requires s.rs_ok(), s.vehicles@.contains_key(v),
    ensures
        s.tours@.contains_key(v),
        s.tours@[v].wf(), s.tours@[v].caches_ok(), tour_len_ok(s.tours@[v].nodes@), !s.tours@[v].is_dummy,
        *s.tours@[v].network == *s.network, s.network.wf(),
        v is Vehicle, !s.sp_is_dummy(v), s.vehicles@[v].idx == v,
        s.tours@[v].costs <= s.costs,
        s.real_tour_ok(v),
        usage_exact_for(s.depot_usage@, &s.network, s.vehicles@, s.tours@, v),
        sorted_cmp(s.dummy_ids_sorted@),
        s.vehicle_counter <= 0xffff ==> !s.dummy_tours@.contains_key(s.next_dummy_id()),
        s.next_period_transitions@.contains_key(s.type_of(v)),
        s.ids_ok(), s.transitions_ok(), s.formations_ok(),
{
    // (sched_ok says that every vehicle in a rotation cycle has a tour and every vehicle with a tour is in a rotation
    // cycle: only the instance for v is unfolded)
    hide(Schedule::vehicle_ok);
    let vs = sched_vehicles(s);
    assert(s.tours@.contains_key(v));
    assert(s.vehicle_ok(v));
    let t = s.tours@[v];
    lemma_vehicle_ok_facts(s, v);
    assert(vs.contains(v));
    let j = choose|j: int| 0 <= j < vs.len() && vs[j] == v;
    lemma_tour_cost_le(s.tours@, vs, j, vs.len() as int);
    assert(usage_exact_for(s.depot_usage@, &s.network, s.vehicles@, s.tours@, v));
    if s.vehicle_counter <= 0xffff && s.dummy_tours@.contains_key(s.next_dummy_id()) {
        assert((s.next_dummy_id()->Dummy_0 as int) < s.vehicle_counter);
    }
    if s.sp_is_dummy(v) { assert(v is Dummy); }
}

/// the whole tour of a real vehicle as a segment: `sub_path(Segment::new(first_node, last_node))` is the whole tour
pub proof fn lemma_whole_tour(t: &Tour)
    requires t.wf(), !t.is_dummy,
    ensures
        t.len() >= 3,
        t.network.has(t.nodes@[0]), t.network.has(t.nodes@[t.len() - 1]),
        t.nodes@[0] != t.nodes@[t.len() - 1],
        !all_depots(&t.network, t.nodes@.subrange(0, t.len() - 1 + 1)),
        t.nodes@.subrange(0, t.len() - 1 + 1) == t.nodes@,
        // nodes are pairwise distinct: the two ends occur once
        forall|i: int, j: int| 0 <= i <= j < t.len() && #[trigger] t.nodes@[i] == t.nodes@[0] && #[trigger] t.nodes@[j] == t.nodes@[t.len() - 1] ==> i == 0 && j == t.len() - 1,
        all_in_net(&t.network, t.nodes@),
        t.nodes@.no_duplicates(),
{
    let n = t.len();
    lemma_tour_kinds(t, 0);
    lemma_tour_kinds(t, n - 1);
    lemma_tour_kinds(t, 1);
    if t.nodes@[0] == t.nodes@[n - 1] { lemma_tour_distinct(t, 0, n - 1); }
    let sub = t.nodes@.subrange(0, n - 1 + 1);
    assert(sub =~= t.nodes@);
    assert(sub[1] == t.nodes@[1]);
    assert(t.node_at(1).sp_is_activity());
    assert forall|i: int, j: int| 0 <= i <= j < n && #[trigger] t.nodes@[i] == t.nodes@[0] && #[trigger] t.nodes@[j] == t.nodes@[n - 1] implies i == 0 && j == n - 1 by {
        lemma_tour_distinct(t, i, 0);
        lemma_tour_distinct(t, j, n - 1);
    }
    assert forall|i: int, j: int| 0 <= i < n && 0 <= j < n && i != j implies t.nodes@[i] != t.nodes@[j] by {
        if t.nodes@[i] == t.nodes@[j] { lemma_tour_distinct(t, i, j); }
    }
}

/// the vehicle is listed in the formation of every activity of its tour: the formation bookkeeping does not refuse
pub proof fn lemma_rd_all_ok(s: &Schedule, v: VehicleIdx)
    requires s.rs_ok(), s.vehicles@.contains_key(v),
    ensures
        s.shrinks(Some(v), None::<Vehicle>),
        s.all_ok(s.train_formations@, Some(v), None::<Vehicle>, s.tours@[v].nodes@, s.tours@[v].nodes@.len() as int),
{
    lemma_rd_provider(s, v);
    lemma_rd_all_ok_0(s, v);
}
pub proof fn lemma_rd_all_ok_0(s: &Schedule, v: VehicleIdx)
    requires s.formations_ok(), s.tours@.contains_key(v), s.tours@[v].wf(), !s.tours@[v].is_dummy, *s.tours@[v].network == *s.network, !s.sp_is_dummy(v),
    ensures
        s.shrinks(Some(v), None::<Vehicle>),
        s.all_ok(s.train_formations@, Some(v), None::<Vehicle>, s.tours@[v].nodes@, s.tours@[v].nodes@.len() as int),
{
    let t = s.tours@[v];
    let moved = t.nodes@;
    let rv: Option<Vehicle> = None;
    assert(s.shrinks(Some(v), rv));
    assert forall|j: int| 0 <= j < moved.len() && !s.network.sp_node(#[trigger] moved[j]).sp_is_depot()
        implies s.repl_ok(s.train_formations@[moved[j]].formation@, Some(v), rv, moved[j]) by {
        lemma_tour_kinds(&t, j);
        assert(0 < j < moved.len() - 1);
        assert(has_vehicle(s.train_formations@[s.tours@[v].nodes@[j]].formation@, v));
    }
}

/// the postcondition of update_train_formation for "None: only delete provider", spelled out
pub proof fn lemma_rd_formations(s: &Schedule, v: VehicleIdx, tf1: Formations)
    requires
        !s.sp_is_dummy(v),
        s.formations_elsewhere_untouched(s.tours@[v].nodes@, s.train_formations@, tf1),
        s.moved_get_replacement(s.tours@[v].nodes@, s.train_formations@, tf1, Some(v), None::<Vehicle>),
    ensures
        s.rd_formations_follow_c(v, tf1),
{
    let rv: Option<Vehicle> = None;
    assert(s.shrinks(Some(v), rv));
    assert(!s.grows(Some(v), rv) && !s.replaces(Some(v), rv));
}

/// everything the body of replace_vehicle_by_dummy needs to know about the schedule, the vehicle and its tour (the
/// vocabulary is opaque in the body)
pub proof fn lemma_rd_setup(s: &Schedule, v: VehicleIdx)
    requires s.rs_ok(), s.vehicles@.contains_key(v), s.listed_ok(v),
    ensures
        s.tours@.contains_key(v),
        s.tours@[v].wf(), tour_len_ok(s.tours@[v].nodes@), !s.tours@[v].is_dummy,
        *s.tours@[v].network == *s.network, s.network.wf(),
        v is Vehicle, !s.sp_is_dummy(v), s.vehicles@[v].idx == v,
        s.tours@[v].costs <= s.costs,
        s.real_tour_ok(v),
        usage_exact_for(s.depot_usage@, &s.network, s.vehicles@, s.tours@, v),
        usage_exact(s.depot_usage@, &s.network, s.vehicles@, s.tours@),
        sorted_cmp(s.dummy_ids_sorted@),
        s.ids_ok(), s.transitions_ok(), s.next_period_transitions@.contains_key(s.type_of(v)),
        // the listing of the vehicle's type: the search finds the id
        s.vehicle_ids_grouped_and_sorted@.contains_key(s.type_of(v)),
        sorted_cmp(s.listing(s.type_of(v))),
        forall|res: Result<usize, usize>| #[trigger] bsearch_post(s.listing(s.type_of(v)), v, res)
            ==> res is Ok && 0 <= res->Ok_0 < s.listing(s.type_of(v)).len() && s.listing(s.type_of(v))[res->Ok_0 as int] == v,
        // the formation bookkeeping does not refuse
        s.all_ok(s.train_formations@, Some(v), None::<Vehicle>, s.tours@[v].nodes@, s.tours@[v].nodes@.len() as int),
        // the whole tour as a segment
        s.tours@[v].len() >= 3,
        s.tours@[v].network.has(s.tours@[v].nodes@[0]), s.tours@[v].network.has(s.tours@[v].nodes@[s.tours@[v].len() - 1]),
        s.tours@[v].nodes@[0] != s.tours@[v].nodes@[s.tours@[v].len() - 1],
        // ... `sub_path(Segment::new(first_node, last_node))` yields nodes[0 ..= len - 1]: what Tour::new_dummy needs and
        // makes of it (stated for this sub-range: in the body it is not identified with the node sequence itself, which
        // would feed the sequence axioms)
        !all_depots(&s.tours@[v].network, s.tours@[v].nodes@.subrange(0, s.tours@[v].len() - 1 + 1)),
        all_in_net(&s.network, s.tours@[v].nodes@.subrange(0, s.tours@[v].len() - 1 + 1)),
        len_ok(s.tours@[v].nodes@.subrange(0, s.tours@[v].len() - 1 + 1)),
        has_service(&s.network, s.tours@[v].nodes@.subrange(0, s.tours@[v].len() - 1 + 1)) == s.needs_dummy(v),
        svc_filter(&s.network, s.tours@[v].nodes@.subrange(0, s.tours@[v].len() - 1 + 1)) == svc_filter(&s.network, s.tours@[v].nodes@),
{
    lemma_rd_provider(s, v);
    lemma_rd_all_ok(s, v);
    lemma_whole_tour(&s.tours@[v]);
    lemma_unlist(s.listing(s.type_of(v)), v);
    assert(s.tours@[v].nodes@.subrange(0, s.tours@[v].len() - 1 + 1) == s.tours@[v].nodes@);
}

/// C13 "a vehicle left without activities disappears"
pub proof fn lemma_rd_gone(s: &Schedule, v: VehicleIdx, vehicles1: VehicleMap, tours1: TourMap, grouped1: Map<VehicleTypeIdx, Vec<VehicleIdx>>, pos: int)
    requires
        s.listed_ok(v),
        vehicles1 == s.vehicles@.remove(v), tours1 == s.tours@.remove(v),
        grouped1.contains_key(s.type_of(v)),
        0 <= pos < s.listing(s.type_of(v)).len(), s.listing(s.type_of(v))[pos] == v,
        grouped1[s.type_of(v)]@ == s.listing(s.type_of(v)).remove(pos),
    ensures s.vehicle_gone_c(v, vehicles1, tours1, grouped1),
{
    lemma_unlist(s.listing(s.type_of(v)), v);
}
/// C13 "service trips are handed back (… in a new dummy tour)"
pub proof fn lemma_rd_trips(s: &Schedule, v: VehicleIdx, nd: Tour, d1: TourMap, ids1: Seq<VehicleIdx>, counter1: usize)
    requires
        s.ids_ok(), s.vehicle_counter <= 0xffff,
        d1 == s.dummy_tours@.insert(s.next_dummy_id(), nd),
        nd.nodes@ == svc_filter(&s.network, s.tours@[v].nodes@), nd.is_dummy, nd.network == s.network, nd.caches_ok(),
        ids_gain(s.dummy_ids_sorted@, ids1, s.next_dummy_id()), sorted_cmp(ids1),
        counter1 == s.vehicle_counter + 1,
    ensures s.trips_in_new_dummy_c(v, d1, ids1, counter1),
{
    if s.dummy_tours@.contains_key(s.next_dummy_id()) {
        assert((s.next_dummy_id()->Dummy_0 as int) < s.vehicle_counter);
    }
}
/// C13 "all other vehicles' tours … stay untouched"
pub proof fn lemma_rd_others(s: &Schedule, v: VehicleIdx, vehicles1: VehicleMap, tours1: TourMap, grouped1: Map<VehicleTypeIdx, Vec<VehicleIdx>>, d1: TourMap, added: bool)
    requires
        vehicles1 == s.vehicles@.remove(v), tours1 == s.tours@.remove(v),
        grouped1 == s.vehicle_ids_grouped_and_sorted@.insert(s.type_of(v), grouped1[s.type_of(v)]),
        added ==> s.ids_ok() && s.vehicle_counter <= 0xffff && d1 == s.dummy_tours@.insert(s.next_dummy_id(), d1[s.next_dummy_id()]),
        !added ==> d1 == s.dummy_tours@,
    ensures s.others_untouched_c(v, vehicles1, tours1, grouped1, d1),
{
    if added && s.dummy_tours@.contains_key(s.next_dummy_id()) {
        assert((s.next_dummy_id()->Dummy_0 as int) < s.vehicle_counter);
    }
}
/// what the rotation-cycle update guarantees (its contract, slices/sched_guard.vs), for the single changed vehicle v
pub proof fn lemma_rd_transitions(s: &Schedule, v: VehicleIdx, trs1: Map<VehicleTypeIdx, Transition>, mv1: MaintenanceCounter, vehicles1: VehicleMap, tours1: TourMap)
    requires
        forall|vt: VehicleTypeIdx| s.next_period_transitions@.contains_key(vt) <==> #[trigger] trs1.contains_key(vt),
        forall|vt: VehicleTypeIdx| #[trigger] trs1.contains_key(vt) ==> trs1[vt].wf(&s.network, tours1),
        forall|vt: VehicleTypeIdx, u: VehicleIdx| #![trigger trs1[vt].has_vehicle(u)] trs1.contains_key(vt)
            ==> (trs1[vt].has_vehicle(u) <==> (vehicles1.contains_key(u) && vtype(vehicles1[u]) == vt)),
        mv1 == viol_sum(trs1, sched_types(s)),
        forall|vt: VehicleTypeIdx| #[trigger] trs1.contains_key(vt) && vt != s.type_of(v) ==> trs1[vt] == s.next_period_transitions@[vt],
    ensures
        s.rd_transitions_follow_c(v, trs1, mv1, vehicles1, tours1),
{
}

/// the precondition of the rotation-cycle update for one vehicle that goes
pub proof fn lemma_rd_upd_pre(s: &Schedule, v: VehicleIdx, vehicles1: VehicleMap, tours1: TourMap)
    requires
        // (not rs_ok: sched_ok says that every vehicle in a rotation cycle has a tour and every vehicle with a tour is in a
        // rotation cycle, which the solver can unfold for ever)
        s.transitions_ok(), s.ids_ok(), s.vehicles@.contains_key(v),
        s.next_period_transitions@.contains_key(s.type_of(v)),
        vehicles1 == s.vehicles@.remove(v),
        tours1 == s.tours@.remove(v),
    ensures
        // for `vec![v]`, whatever sequence of one item its view is
        forall|cv: Seq<VehicleIdx>| cv.len() == 1 && cv[0] == v
            ==> #[trigger] s.upd_pre(s.next_period_transitions@, s.maintenance_violation as int, cv, vehicles1, tours1),
        forall|cv: Seq<VehicleIdx>, vt: VehicleTypeIdx| cv.len() == 1 && cv[0] == v && vt != s.type_of(v)
            ==> !#[trigger] s.touches_type(vehicles1, cv, vt),
{
    lemma_rd_upd_pre_0(s, v, vehicles1, tours1);
    assert forall|cv: Seq<VehicleIdx>| cv.len() == 1 && cv[0] == v
        implies #[trigger] s.upd_pre(s.next_period_transitions@, s.maintenance_violation as int, cv, vehicles1, tours1) by {
        assert(cv =~= seq![v]);
    }
    assert forall|cv: Seq<VehicleIdx>, vt: VehicleTypeIdx| cv.len() == 1 && cv[0] == v && vt != s.type_of(v)
        implies !#[trigger] s.touches_type(vehicles1, cv, vt) by {
        if s.touches_type(vehicles1, cv, vt) {
            let i = choose|i: int| 0 <= i < cv.len() && (#[trigger] cv[i]) is Vehicle && s.eff_type(vehicles1, cv[i]) == vt;
            assert(cv[i] == v);
        }
    }
}
pub proof fn lemma_rd_upd_pre_0(s: &Schedule, v: VehicleIdx, vehicles1: VehicleMap, tours1: TourMap)
    requires
        s.transitions_ok(), s.ids_ok(), s.vehicles@.contains_key(v),
        s.next_period_transitions@.contains_key(s.type_of(v)),
        vehicles1 == s.vehicles@.remove(v),
        tours1 == s.tours@.remove(v),
    ensures
        s.upd_pre(s.next_period_transitions@, s.maintenance_violation as int, seq![v], vehicles1, tours1),
{
    let trs = s.next_period_transitions@;
    let cv = seq![v];
    assert(cv.len() == 1 && cv[0] == v);
    assert(s.eff_type(vehicles1, v) == s.type_of(v));
    assert(s.change_ok(trs, vehicles1, tours1, v));
    assert forall|i: int| 0 <= i < cv.len() && (#[trigger] cv[i]) is Vehicle implies s.change_ok(trs, vehicles1, tours1, cv[i]) by {
        assert(cv[i] == v);
    }
    assert(real_in(cv, v)) by { assert(cv[0] == v); }
    assert forall|u: VehicleIdx| !real_in(cv, u) implies (s.vehicles@.contains_key(u) <==> #[trigger] vehicles1.contains_key(u)) by {}
    assert forall|u: VehicleIdx| !real_in(cv, u) && #[trigger] vehicles1.contains_key(u) implies tours1.contains_key(u) && tours1[u] == s.tours@[u] by {
        assert(s.vehicles@.contains_key(u));
        assert(s.tours@.contains_key(u));
    }
}

/// what the operation did to the maps that carry ids (the clauses of the contract that lemma_rd_ids_valid builds on)
pub open spec fn rd_ids_step(s: &Schedule, v: VehicleIdx, vehicles1: VehicleMap, tours1: TourMap, dummies1: TourMap, ids1: Seq<VehicleIdx>, counter1: usize, added: bool) -> bool {
    &&& s.ids_ok() && s.vehicles@.contains_key(v)
    &&& vehicles1 == s.vehicles@.remove(v) && tours1 == s.tours@.remove(v)
    &&& added ==> s.vehicle_counter <= 0xffff && dummies1 == s.dummy_tours@.insert(s.next_dummy_id(), dummies1[s.next_dummy_id()]) && sorted_cmp(ids1) && counter1 == s.vehicle_counter + 1
    &&& !added ==> dummies1 == s.dummy_tours@ && ids1 == s.dummy_ids_sorted@ && counter1 == s.vehicle_counter
}
/// C10: the ids stay valid
pub proof fn lemma_rd_ids_valid(s: &Schedule, v: VehicleIdx, vehicles1: VehicleMap, tours1: TourMap, dummies1: TourMap, ids1: Seq<VehicleIdx>, counter1: usize, added: bool)
    requires rd_ids_step(s, v, vehicles1, tours1, dummies1, ids1, counter1, added),
    ensures ids_valid(vehicles1, tours1, dummies1, ids1, counter1),
{
    assert forall|d: VehicleIdx| #[trigger] dummies1.contains_key(d) implies d is Dummy && (d->Dummy_0 as int) < counter1 by {
        if d != s.next_dummy_id() { assert(s.dummy_tours@.contains_key(d)); }
    }
    assert forall|u: VehicleIdx| #[trigger] vehicles1.contains_key(u) implies u is Vehicle && vehicles1[u].idx == u by {
        assert(s.vehicles@.contains_key(u));
    }
    assert forall|u: VehicleIdx| #[trigger] vehicles1.contains_key(u) <==> tours1.contains_key(u) by {
        assert(s.vehicles@.contains_key(u) <==> s.tours@.contains_key(u));
    }
}

// =====================================================================================================
// Schedule::delete_dummy
// =====================================================================================================
impl Schedule {
    /// C10 ("… dummy listings are sorted and match the stored tours") as far as the body needs it: the list of dummy ids
    /// is sorted and holds the id (`binary_search(&dummy).unwrap()`)
    pub open spec fn dummy_listed_ok(&self, d: VehicleIdx) -> bool {
        sorted_cmp(self.dummy_ids_sorted@) && self.dummy_ids_sorted@.contains(d)
    }
    /// C13: "nothing else" -- every component but the dummy tours and their listing is the same
    pub open spec fn same_but_dummies(&self, s1: &Schedule) -> bool {
        &&& s1.vehicles@ == self.vehicles@ && s1.tours@ == self.tours@
        &&& s1.next_period_transitions@ == self.next_period_transitions@
        &&& s1.train_formations@ == self.train_formations@
        &&& s1.depot_usage@ == self.depot_usage@
        &&& s1.vehicle_counter == self.vehicle_counter
        &&& s1.vehicle_ids_grouped_and_sorted@ == self.vehicle_ids_grouped_and_sorted@
        &&& s1.unserved_passengers == self.unserved_passengers
        &&& s1.maintenance_violation == self.maintenance_violation
        &&& s1.costs == self.costs
        &&& s1.network == self.network
    }
    /// C13: the dummy tour and its id disappear (every other dummy tour stays: map equality); exactly one occurrence of the
    /// id leaves the list, which stays sorted (and, if it was duplicate-free, does not hold the id any more)
    pub open spec fn dummy_gone(&self, d: VehicleIdx, s1: &Schedule) -> bool {
        &&& s1.dummy_tours@ == self.dummy_tours@.remove(d)
        &&& ids_lose(self.dummy_ids_sorted@, s1.dummy_ids_sorted@, d)
        &&& sorted_cmp(s1.dummy_ids_sorted@)
        &&& self.dummy_ids_sorted@.no_duplicates() ==> s1.dummy_ids_sorted@.no_duplicates() && !s1.dummy_ids_sorted@.contains(d)
    }
    /// the Ok-postcondition of delete_dummy
    pub open spec fn dummy_deleted(&self, d: VehicleIdx, s1: &Schedule) -> bool {
        self.dummy_tours@.contains_key(d) && self.dummy_gone(d, s1) && self.same_but_dummies(s1)
    }
}

// =====================================================================================================
// Schedule::spawn_vehicle_to_replace_dummy_tour
// =====================================================================================================
impl Schedule {
    /// C10 for the dummy tour that is replaced: a well-formed dummy tour over the schedule's network (its nodes are
    /// nodes of the network; `nodes.first().unwrap()` in spawn_vehicle_for_path: it is not empty), A-len
    pub open spec fn dummy_tour_ok(&self, d: VehicleIdx) -> bool {
        let t = self.dummy_tours@[d];
        t.wf() && t.is_dummy && *t.network == *self.network && tour_len_ok(t.nodes@)
    }
    /// the precondition of spawn_vehicle_for_path (text of its `requires` in slices/spawn_vehicle.vs)
    pub open spec fn spawn_pre(&self, vehicle_type_idx: VehicleTypeIdx, path: Seq<NodeIdx>) -> bool {
        &&& self.sv_ok()
        &&& self.type_known(vehicle_type_idx)
        &&& path.len() >= 1 && all_in_net(&self.network, path) && tour_len_ok(path)
        &&& self.spawn_counter_ok(path)
        // what the choice of the depots needs: A-index for the start depot node list; if a start depot has to be chosen:
        // magnitude of the usage counts, C06 / C17 some start depot node has room for the type
        &&& self.network.start_depots_ok()
        &&& !self.network.sp_node(path[0]).sp_is_depot() ==> self.usage_counts_small(vehicle_type_idx, self.depot_usage@)
        &&& !self.network.sp_node(path[0]).sp_is_depot() ==> self.some_depot_has_room(vehicle_type_idx, self.depot_usage@)
    }
    /// the postcondition of spawn_vehicle_for_path (text of its `ensures` in slices/spawn_vehicle.vs)
    pub open spec fn spawn_post(&self, vehicle_type_idx: VehicleTypeIdx, path: Seq<NodeIdx>, r: Result<(Schedule, VehicleIdx), String>) -> bool {
        &&& !all_compatible(&self.network, path, vehicle_type_idx) ==> r is Err
        &&& self.vehicle_counter > 0xffff ==> r is Err
        &&& r is Ok ==> all_compatible(&self.network, r->Ok_0.0.tours@[r->Ok_0.1].nodes@, vehicle_type_idx)
        &&& r is Ok ==> self.spawned(vehicle_type_idx, path, &r->Ok_0.0, r->Ok_0.1)
        &&& r is Ok ==> activities_kept(&self.network, path, r->Ok_0.0.tours@[r->Ok_0.1].nodes@)
        &&& r is Ok ==> self.listed(vehicle_type_idx, &r->Ok_0.0, r->Ok_0.1)
        // C02 / C13: the start depot chosen had room, its limits hold afterwards, it is the nearest one with room; the end
        // depot chosen is the nearest one
        &&& r is Ok && !self.network.sp_node(path[0]).sp_is_depot()
                ==> self.network.start_depot_nodes@.contains(r->Ok_0.0.tours@[r->Ok_0.1].nodes@[0])
                    && self.sp_can_spawn(r->Ok_0.0.tours@[r->Ok_0.1].nodes@[0], vehicle_type_idx, self.depot_usage@)
        &&& r is Ok && !self.network.sp_node(path[0]).sp_is_depot()
                ==> self.depot_limits_hold(r->Ok_0.0.tours@[r->Ok_0.1].nodes@[0], vehicle_type_idx, r->Ok_0.0.depot_usage@)
        &&& r is Ok && !self.network.sp_node(path[0]).sp_is_depot()
                ==> self.best_start_depot(r->Ok_0.0.tours@[r->Ok_0.1].nodes@[0], vehicle_type_idx, self.network.sp_node(path[0]).sp_start_location(), self.depot_usage@)
        &&& r is Ok && !self.network.sp_node(path[0]).sp_is_depot() && !self.network.sp_node(path[path.len() - 1]).sp_is_depot()
                ==> self.network.nearest_end_depot(r->Ok_0.0.tours@[r->Ok_0.1].nodes@[r->Ok_0.0.tours@[r->Ok_0.1].nodes@.len() - 1],
                        self.network.sp_node(path[path.len() - 1]).sp_end_location())
        &&& r is Ok && self.listings_match() ==> r->Ok_0.0.listings_match()
        &&& r is Ok ==> self.formations_follow(&r->Ok_0.0, r->Ok_0.1)
        &&& r is Ok ==> r->Ok_0.0.costs == self.costs + r->Ok_0.0.tours@[r->Ok_0.1].costs
        &&& r is Ok ==> usage_exact_for(r->Ok_0.0.depot_usage@, &self.network, r->Ok_0.0.vehicles@, r->Ok_0.0.tours@, r->Ok_0.1)
                && usage_same_except(self.depot_usage@, r->Ok_0.0.depot_usage@, r->Ok_0.1)
                && usage_exact(r->Ok_0.0.depot_usage@, &self.network, r->Ok_0.0.vehicles@, r->Ok_0.0.tours@)
        &&& r is Ok ==> self.transitions_follow(vehicle_type_idx, &r->Ok_0.0)
    }
}

/// the contribution of the old formations only depends on the network
pub proof fn lemma_un_old_same_net(s: &Schedule, m: &Schedule, tf0: Formations, moved: Seq<NodeIdx>, k: int, c: int)
    requires m.network == s.network,
    ensures m.un_sum(tf0, None, None, moved, k, false, c) == s.un_sum(tf0, None, None, moved, k, false, c),
    decreases k,
{
    if k > 0 { lemma_un_old_same_net(s, m, tf0, moved, k - 1, c); }
}

/// the schedule without the dummy tour still satisfies the precondition of spawn_vehicle_for_path: none of its clauses
/// looks at a dummy tour, except "dummy tours sit under Dummy ids" (a sub-map)
pub proof fn lemma_spawn_pre_without_dummy(s: &Schedule, d: VehicleIdx, m: &Schedule, vt: VehicleTypeIdx, path: Seq<NodeIdx>)
    requires
        s.dummy_deleted(d, m),
        s.spawn_pre(vt, path),
    ensures
        m.spawn_pre(vt, path),
{
    assert(m.sv_ids_ok()) by {
        assert forall|x: VehicleIdx| #[trigger] m.dummy_tours@.contains_key(x) implies x is Dummy by {
            assert(s.dummy_tours@.contains_key(x));
        }
        assert forall|t: VehicleTypeIdx| #[trigger] m.vehicle_ids_grouped_and_sorted@.contains_key(t) implies sorted_cmp(m.listing(t)) by {
            assert(s.vehicle_ids_grouped_and_sorted@.contains_key(t));
            assert(m.listing(t) == s.listing(t));
        }
    }
    assert(m.sv_formations_ok()) by {
        assert forall|q: Seq<NodeIdx>, c: int| #![trigger m.un_old(q, q.len() as int, c)] q.no_duplicates() && all_in_net(&m.network, q) && (c == 0 || c == 1)
            implies m.un_old(q, q.len() as int, c) <= m.unserved_c(c) by {
            lemma_un_old_same_net(s, m, s.train_formations@, q, q.len() as int, c);
            assert(s.un_old(q, q.len() as int, c) <= s.unserved_c(c));
        }
        assert forall|n: NodeIdx, t: VehicleTypeIdx| #![trigger m.train_formations@[n], m.vtypes()[t]] m.train_formations@.contains_key(n) && m.vtypes().contains_key(t)
            implies fcap(m.train_formations@[n].formation@) + m.vtypes()[t].capacity <= u32::MAX && fseats(m.train_formations@[n].formation@) + m.vtypes()[t].seats <= u32::MAX by {
            assert(fcap(s.train_formations@[n].formation@) + s.vtypes()[t].capacity <= u32::MAX && fseats(s.train_formations@[n].formation@) + s.vtypes()[t].seats <= u32::MAX);
        }
    }
    assert(m.transitions_ok()) by {
        assert(sched_types(m) == sched_types(s));
        assert forall|t: VehicleTypeIdx, v: VehicleIdx| #![trigger m.next_period_transitions@[t].has_vehicle(v)] m.next_period_transitions@.contains_key(t)
            implies (m.next_period_transitions@[t].has_vehicle(v) <==> m.vehicles@.contains_key(v) && m.type_of(v) == t) by {
            assert(s.next_period_transitions@[t].has_vehicle(v) <==> s.vehicles@.contains_key(v) && s.type_of(v) == t);
        }
    }
    assert(m.spawn_counter_ok(path)) by {
        assert forall|t: Tour| depots_added(&m.network, path, t.nodes@) && tour_of_net(&m.network, &t) && t.caches_ok()
            implies -counter_bound() <= #[trigger] tour_counter(&t) <= counter_bound() by {
            assert(depots_added(&s.network, path, t.nodes@) && tour_of_net(&s.network, &t));
        }
    }
    // the choice of the depots only looks at the network and the usage table: both are the same
    assert(m.network.start_depots_ok());
    if !m.network.sp_node(path[0]).sp_is_depot() {
        let du = s.depot_usage@;
        let sdn = s.network.start_depot_nodes@;
        assert(m.depot_usage@ == du && m.network.start_depot_nodes@ == sdn);
        assert(m.usage_counts_small(vt, du)) by {
            assert(s.usage_counts_small(vt, du));
        }
        assert(m.some_depot_has_room(vt, du)) by {
            let i = choose|i: int| 0 <= i < sdn.len() && s.sp_can_spawn(#[trigger] sdn[i], vt, du);
            assert(m.sp_can_spawn(sdn[i], vt, du));
        }
    }
}
