// ---- environment of the slice `fit_reassign` (Schedule::fit_reassign, Schedule::fit_path_into_tour) ----------
// Included inside `pub mod tr { … }` AFTER env/override_reassign_shim.vs, whose vocabulary it reuses unchanged
// (sp_tour_of, has_tour, seg_at, part_ok, or_transitions_ok, ids_ok, or_lo / or_hi / or_moved (= the nodes of the
// offered segment), or_compatible, or_costs_after, or_transitions_after, tour_in / tour_opt_in, upd_pre …) together with
// env/update_tours_shim.vs (vehicles_after, tours_after, dummies_after, lists_follow, ut_pre …) and
// env/train_formation_update_shim.vs (tfu_pre, moved_nd, repl_seq, repl_ok, un_sum …).
// ASSUMPTIONS in this file (listed in the header of slices/fit_reassign.vs): the external_body shims
// `SeqIter::{enumerate, map_while, filter, last}` (A-iter, std adapters of the same names), `Vec::split_off`
// (A-std8), the structural `Clone` of Tour (A-derive, axiom on the derived impl).  Everything else is an open spec
// function or a proved lemma.

// =====================================================================================================
// sub-sequences
// =====================================================================================================
/// f maps the positions of a to positions of b: strictly increasing, item for item
pub open spec fn subseq_by(a: Seq<NodeIdx>, b: Seq<NodeIdx>, f: Seq<int>) -> bool {
    &&& f.len() == a.len()
    &&& forall|k: int| 0 <= k < a.len() ==> 0 <= #[trigger] f[k] < b.len() && a[k] == b[f[k]]
    &&& forall|k: int, l: int| 0 <= k < l < a.len() ==> #[trigger] f[k] < #[trigger] f[l]
}
/// a is a sub-sequence of b: some of b's items, in b's order
pub open spec fn is_subseq(a: Seq<NodeIdx>, b: Seq<NodeIdx>) -> bool {
    exists|f: Seq<int>| #[trigger] subseq_by(a, b, f)
}
pub proof fn lemma_subseq_members(a: Seq<NodeIdx>, b: Seq<NodeIdx>)
    requires is_subseq(a, b),
    ensures
        forall|x: NodeIdx| #[trigger] a.contains(x) ==> b.contains(x),
        b.no_duplicates() ==> a.no_duplicates(),
        a.len() <= b.len() || !b.no_duplicates(),
{
    let f = choose|f: Seq<int>| #[trigger] subseq_by(a, b, f);
    assert forall|x: NodeIdx| #[trigger] a.contains(x) implies b.contains(x) by {
        let k = choose|k: int| 0 <= k < a.len() && a[k] == x;
        assert(b[f[k]] == x);
    }
    if b.no_duplicates() {
        assert forall|i: int, j: int| 0 <= i < a.len() && 0 <= j < a.len() && i != j implies a[i] != a[j] by {
            if i < j { assert(f[i] < f[j]); } else { assert(f[j] < f[i]); }
            assert(a[i] == b[f[i]] && a[j] == b[f[j]]);
        }
        lemma_increasing_bound(f, b.len() as int);
    }
}
/// a strictly increasing map into [0, n) has at most n entries
pub proof fn lemma_increasing_bound(f: Seq<int>, n: int)
    requires
        forall|k: int| 0 <= k < f.len() ==> 0 <= #[trigger] f[k] < n,
        forall|k: int, l: int| 0 <= k < l < f.len() ==> #[trigger] f[k] < #[trigger] f[l],
    ensures f.len() <= n || f.len() == 0,
    decreases f.len(),
{
    if f.len() > 0 {
        let g = f.drop_last();
        let last = f[f.len() - 1];
        assert forall|k: int| 0 <= k < g.len() implies 0 <= #[trigger] g[k] < last by {
            assert(g[k] == f[k]);
            assert(f[k] < f[f.len() - 1]);
        }
        assert forall|k: int, l: int| 0 <= k < l < g.len() implies #[trigger] g[k] < #[trigger] g[l] by {
            assert(g[k] == f[k] && g[l] == f[l]);
        }
        lemma_increasing_bound(g, last);
    }
}
pub proof fn lemma_subseq_refl(a: Seq<NodeIdx>)
    ensures is_subseq(a, a),
{
    let f = Seq::new(a.len(), |k: int| k);
    assert(subseq_by(a, a, f));
}
pub proof fn lemma_subseq_empty(b: Seq<NodeIdx>)
    ensures is_subseq(Seq::<NodeIdx>::empty(), b),
{
    assert(subseq_by(Seq::<NodeIdx>::empty(), b, Seq::<int>::empty()));
}

// =====================================================================================================
// Schedule::fit_path_into_tour: the contract (derived from C13: "the provider loses exactly the moved nodes, the
// receiver gains … only the conflict-free ones without losing any of its own (fit)")
// =====================================================================================================
impl Schedule {
    /// the nodes of the offered segment in the provider's tour (what `sub_path(segment)` yields)
    pub open spec fn fr_path(&self, segment: Segment, p: VehicleIdx) -> Seq<NodeIdx> { self.or_moved(segment, p) }

    /// PRECONDITION of fit_path_into_tour.  "Assumes that path is a sub path of the tour of provider."
    pub open spec fn fit_pre(&self, path: Seq<NodeIdx>, p: VehicleIdx, rcv: VehicleIdx) -> bool {
        let tp = self.sp_tour_of(p);
        let tr = self.sp_tour_of(rcv);
        // `self.tour_of(provider).unwrap()`, `self.tour_of(receiver).unwrap()`
        &&& self.has_tour(p) && self.has_tour(rcv)
        // C01 / C10: both tours are well-formed tours over the schedule's network, C09: their caches are exact
        &&& tp.wf() && tp.caches_ok() && *tp.network == *self.network && tour_len_ok(tp.nodes@)
        &&& tr.wf() && tr.caches_ok() && *tr.network == *self.network
        // the path is a sub-path of the provider's tour …
        &&& exists|i: int, j: int| 0 <= i <= j < tp.len() && path == #[trigger] tp.nodes@.subrange(i, j + 1)
        // … with an activity (invariant of the type Path)
        &&& !all_depots(&self.network, path)
        // A-len: the receiver's tour with all nodes of the path is within the length bound of a tour
        &&& tr.len() + path.len() <= 0x2_0002
    }
    /// POSTCONDITION of fit_path_into_tour for the result (ntp, ntr, m) = (new_tour_provider, new_tour_receiver,
    /// moved_nodes).  Depots: a tour that keeps no activity vanishes with its depots; a moved end depot replaces the
    /// receiver's end depot, a dummy receiver takes no depots -- hence the clauses for the receiver speak about
    /// activities ("without losing any of its own") and bound the depots from above.
    pub open spec fn fit_outcome(&self, path: Seq<NodeIdx>, p: VehicleIdx, rcv: VehicleIdx, ntp: Option<Tour>, ntr: Tour, m: Seq<NodeIdx>) -> bool {
        let tp = self.sp_tour_of(p);
        let tr = self.sp_tour_of(rcv);
        let net = &self.network;
        // the moved nodes: some of the path's nodes, in the path's order, each once
        &&& is_subseq(m, path) && m.no_duplicates()
        // "the provider loses exactly the moved nodes": its new tour is a tour of the same kind over the same network,
        // well-formed (C01 / C10), with exact caches (C09); it holds the old nodes in the old order, without exactly m
        &&& ntp is Some ==> {
            let t = ntp.unwrap();
            &&& t.is_dummy == tp.is_dummy && t.network == tp.network && t.wf() && t.caches_ok()
            &&& is_subseq(t.nodes@, tp.nodes@)
            &&& forall|n: NodeIdx| #![trigger t.nodes@.contains(n)] #![trigger tp.nodes@.contains(n)]
                    t.nodes@.contains(n) <==> tp.nodes@.contains(n) && !m.contains(n)
        }
        // "a vehicle left without activities disappears": no tour exactly when every node that is not moved is a depot
        // (a dummy tour has no depots: exactly when everything is moved)
        &&& ntp is None <==> (forall|n: NodeIdx| #[trigger] tp.nodes@.contains(n) && !m.contains(n) ==> net.sp_node(n).sp_is_depot())
        // "the receiver gains … only the conflict-free ones without losing any of its own": a tour of the same kind over
        // the same network, in time order (well-formed), exact caches; its activities are exactly its old ones plus the
        // moved ones; every node it has is an old one or a moved one
        &&& ntr.is_dummy == tr.is_dummy && ntr.network == tr.network && ntr.wf() && ntr.caches_ok()
        &&& forall|n: NodeIdx| #![trigger ntr.nodes@.contains(n)] #![trigger tr.nodes@.contains(n)] #![trigger m.contains(n)]
                !net.sp_node(n).sp_is_depot() ==> (ntr.nodes@.contains(n) <==> tr.nodes@.contains(n) || m.contains(n))
        &&& forall|n: NodeIdx| #[trigger] ntr.nodes@.contains(n) ==> tr.nodes@.contains(n) || m.contains(n)
    }

    // ---- Schedule::fit_reassign: PRECONDITIONS ---------------------------------------------------------------
    /// the precondition of fit_reassign apart from the caller-side guarantees for the possible outcomes (fr_pre_outcomes)
    pub open spec fn fr_pre(&self, segment: Segment, p: VehicleIdx, rcv: VehicleIdx) -> bool {
        // the bookkeeping of update_tours / of the rotation cycles runs once per vehicle: provider and receiver differ
        // (Neighborhood::segment_exchange_iterator "skip[s] provider as receiver"; PathExchange::apply calls fit_reassign
        // with a fresh dummy as provider)
        &&& p != rcv
        // C10 (ids): see ids_valid
        &&& self.ids_ok()
        // C10 / C01 / C09 for the two participants
        &&& self.part_ok(p) && self.part_ok(rcv)
        // the segment is a segment of the provider's tour that does not consist of depots only (the two `unwrap`s of the
        // type guard: `tour_of(provider).unwrap().sub_path(segment).unwrap()`)
        &&& exists|i: int, j: int| #[trigger] Schedule::seg_at(&self.sp_tour_of(p), segment, i, j)
                && !all_depots(&self.network, self.sp_tour_of(p).nodes@.subrange(i, j + 1))
        // C10: "vehicle and dummy listings are sorted and match the stored tours"
        &&& listings_ok(self.vehicles@, self.dummy_tours@, self.vehicle_ids_grouped_and_sorted@, self.dummy_ids_sorted@)
        // C09: the depot table has its from-scratch value
        &&& usage_exact(self.depot_usage@, &self.network, self.vehicles@, self.tours@)
        // C09: the schedule's costs cover the tours of the (real) participants
        &&& self.cost_out_provider(self.tours@, Some(p)) + self.cost_out_receiver(self.tours@, rcv) <= self.costs
        // C15 / C10 / C09: rotation cycles
        &&& self.or_transitions_ok()
        // A-len: the receiver's tour with all nodes of the segment is within the length bound of a tour
        &&& self.sp_tour_of(rcv).len() + self.sp_tour_of(p).len() <= 0x2_0002
    }
    /// an outcome of fit_path_into_tour for the offered segment
    pub open spec fn fr_outcome(&self, segment: Segment, p: VehicleIdx, rcv: VehicleIdx, ntp: Option<Tour>, ntr: Tour, m: Seq<NodeIdx>) -> bool {
        self.fit_outcome(self.fr_path(segment, p), p, rcv, ntp, ntr, m)
    }
    /// what the caller guarantees for one outcome: the precondition of the formation bookkeeping for the moved nodes
    /// (tfu_pre, slices/train_formation_update.vs), magnitudes: the costs with the two new tours fit into u64, the
    /// maintenance counters of the two new tours are small (A-counter)
    pub open spec fn fr_fits(&self, p: VehicleIdx, rcv: VehicleIdx, ntp: Option<Tour>, ntr: Tour, m: Seq<NodeIdx>) -> bool {
        &&& self.tfu_pre(self.train_formations@, self.unserved_passengers, Some(p), self.sp_receiver_vehicle(rcv), m)
        &&& self.costs + self.cost_in_provider(Some(p), ntp) + self.cost_in_receiver(rcv, ntr) <= u64::MAX
        &&& ntp is Some ==> -counter_bound() <= tour_counter(&ntp.unwrap()) <= counter_bound()
        &&& -counter_bound() <= tour_counter(&ntr) <= counter_bound()
    }
    /// caller-side: WHICH nodes fit is decided by the greedy search of fit_path_into_tour; the caller guarantees fr_fits
    /// for every outcome its contract admits
    pub open spec fn fr_pre_outcomes(&self, segment: Segment, p: VehicleIdx, rcv: VehicleIdx) -> bool {
        forall|ntp: Option<Tour>, ntr: Tour, m: Seq<NodeIdx>| #[trigger] self.fr_outcome(segment, p, rcv, ntp, ntr, m)
            ==> self.fr_fits(p, rcv, ntp, ntr, m)
    }

    // ---- Schedule::fit_reassign: POSTCONDITIONS --------------------------------------------------------------
    /// C01, type clause: the guarantee of the type guard for the whole offered segment (or_compatible) and, read on the
    /// result, for every node the receiver gains (ntr = the receiver's new tour)
    pub open spec fn fr_compatible(&self, segment: Segment, p: VehicleIdx, rcv: VehicleIdx, ntr: Tour) -> bool {
        &&& self.or_compatible(segment, p, rcv)
        &&& self.sp_is_vehicle(rcv) && !(self.sp_is_vehicle(p) && self.type_of(p) == self.type_of(rcv))
                ==> forall|n: NodeIdx| #[trigger] ntr.nodes@.contains(n) && !self.sp_tour_of(rcv).nodes@.contains(n)
                        ==> self.network.sp_compatible(n, self.type_of(rcv))
    }
    /// C13 (1): "the provider loses exactly the moved nodes, the receiver gains … only the conflict-free ones without
    /// losing any of its own": the tours of p and rcv in the new schedule are an outcome of fit_path_into_tour for some
    /// sequence m of moved nodes; the receiver stays, both tours stay in the map of their kind
    pub open spec fn fr_tours_after(&self, segment: Segment, p: VehicleIdx, rcv: VehicleIdx, tours1: TourMap, dummies1: TourMap) -> bool {
        let stp = tour_opt_in(tours1, dummies1, p);
        let ntr = tour_in(tours1, dummies1, rcv);
        &&& exists|m: Seq<NodeIdx>| #[trigger] self.fr_outcome(segment, p, rcv, stp, ntr, m)
        &&& tour_opt_in(tours1, dummies1, rcv) is Some && tours1.contains_key(rcv) == self.tours@.contains_key(rcv)
        &&& stp is Some ==> tours1.contains_key(p) == self.tours@.contains_key(p)
    }
    /// C13 (1): "a vehicle left without activities disappears, … all other vehicles' tours … stay untouched": the three
    /// maps are the old ones with the provider's and the receiver's entries rewritten (vocabulary of
    /// env/update_tours_shim.vs; lemma_frame spells the frame out per key) -- NO new dummy tour
    pub open spec fn fr_maps_after(&self, p: VehicleIdx, rcv: VehicleIdx, vehicles1: VehicleMap, tours1: TourMap, dummies1: TourMap) -> bool {
        let stp = tour_opt_in(tours1, dummies1, p);
        let ntr = tour_in(tours1, dummies1, rcv);
        &&& vehicles1 == self.vehicles_after(self.vehicles@, Some(p), stp)
        &&& tours1 == self.tours_after(self.tours@, Some(p), stp, rcv, ntr)
        &&& dummies1 == self.dummies_after(self.dummy_tours@, Some(p), stp, rcv, ntr)
    }
    /// n is a MOVED activity, read off the result (stp = the provider's new tour, if any): an activity of the provider's
    /// old tour that its new tour no longer has.  For every outcome (.., stp, .., m): moved_nd(m, n) <==> fr_moved_act(n)
    /// (lemma_fr_moved_act).
    pub open spec fn fr_moved_act(&self, p: VehicleIdx, stp: Option<Tour>, n: NodeIdx) -> bool {
        self.sp_tour_of(p).nodes@.contains(n) && !self.network.sp_node(n).sp_is_depot()
            && !(stp is Some && stp.unwrap().nodes@.contains(n))
    }
    /// C13: "formations elsewhere … stay untouched"
    pub open spec fn fr_formations_elsewhere(&self, p: VehicleIdx, stp: Option<Tour>, tf: Formations) -> bool {
        &&& tf.dom() == self.train_formations@.dom()
        &&& forall|n: NodeIdx| #![trigger self.fr_moved_act(p, stp, n)] #![trigger tf[n]]
                !self.fr_moved_act(p, stp, n) ==> tf[n] == self.train_formations@[n]
    }
    /// C10: at every moved activity the formation gets the replacement provider -> receiver that update_train_formation
    /// specifies (and that replacement succeeded)
    pub open spec fn fr_formations_moved(&self, p: VehicleIdx, rcv: VehicleIdx, stp: Option<Tour>, tf: Formations) -> bool {
        forall|n: NodeIdx| #![trigger self.fr_moved_act(p, stp, n)] #![trigger tf[n]]
            self.fr_moved_act(p, stp, n)
            ==> tf[n].formation@ == self.repl_seq(self.train_formations@[n].formation@, Some(p), self.sp_receiver_vehicle(rcv))
                && self.repl_ok(self.train_formations@[n].formation@, Some(p), self.sp_receiver_vehicle(rcv), n)
    }
    /// C09: the unserved-passenger pair: the exact delta of the formation update for the moved nodes (depots and
    /// maintenance slots contribute 0)
    pub open spec fn fr_unserved_after(&self, segment: Segment, p: VehicleIdx, rcv: VehicleIdx, tours1: TourMap, dummies1: TourMap, uf: (PassengerCount, PassengerCount)) -> bool {
        let stp = tour_opt_in(tours1, dummies1, p);
        let ntr = tour_in(tours1, dummies1, rcv);
        let tf0 = self.train_formations@;
        let rv = self.sp_receiver_vehicle(rcv);
        exists|m: Seq<NodeIdx>| #[trigger] self.fr_outcome(segment, p, rcv, stp, ntr, m)
            && uf.0 == self.unserved_passengers.0 - self.un_sum(tf0, Some(p), rv, m, m.len() as int, false, 0) + self.un_sum(tf0, Some(p), rv, m, m.len() as int, true, 0)
            && uf.1 == self.unserved_passengers.1 - self.un_sum(tf0, Some(p), rv, m, m.len() as int, false, 1) + self.un_sum(tf0, Some(p), rv, m, m.len() as int, true, 1)
    }
}

// =====================================================================================================
// lemmas: the preconditions of the callees
// =====================================================================================================
/// what a valid schedule provides for the look-ups, the type guard and sub_path
pub proof fn lemma_fr_setup(s: &Schedule, segment: Segment, p: VehicleIdx, rcv: VehicleIdx)
    requires s.fr_pre(segment, p, rcv),
    ensures
        s.has_tour(p), s.has_tour(rcv),
        s.tours@.contains_key(p) == s.sp_is_vehicle(p), s.tours@.contains_key(rcv) == s.sp_is_vehicle(rcv),
        !s.tours@.contains_key(p) ==> s.dummy_tours@.contains_key(p), !s.tours@.contains_key(rcv) ==> s.dummy_tours@.contains_key(rcv),
        s.sp_tour_of(p).wf(), s.sp_tour_of(p).caches_ok(), tour_len_ok(s.sp_tour_of(p).nodes@),
        *s.sp_tour_of(p).network == *s.network,
        s.sp_tour_of(p).network.has(segment.start), s.sp_tour_of(p).network.has(segment.end),
        s.network.wf(),
        exists|i: int, j: int| #[trigger] Schedule::seg_at(&s.sp_tour_of(p), segment, i, j)
            && !all_depots(&s.network, s.sp_tour_of(p).nodes@.subrange(i, j + 1)),
        listings_ok(s.vehicles@, s.dummy_tours@, s.vehicle_ids_grouped_and_sorted@, s.dummy_ids_sorted@),
        usage_exact(s.depot_usage@, &s.network, s.vehicles@, s.tours@),
{
    let tp = s.sp_tour_of(p);
    let (i, j) = choose|i: int, j: int| #[trigger] Schedule::seg_at(&tp, segment, i, j) && !all_depots(&s.network, tp.nodes@.subrange(i, j + 1));
    assert(tp.network.has(tp.nodes@[i]) && tp.network.has(tp.nodes@[j]));
}
/// the offered segment in the provider's tour: its positions are unique, its nodes
pub proof fn lemma_fr_cut(s: &Schedule, segment: Segment, p: VehicleIdx, rcv: VehicleIdx)
    requires s.fr_pre(segment, p, rcv),
    ensures
        0 <= s.or_lo(segment, p) <= s.or_hi(segment, p) < s.sp_tour_of(p).len(),
        Schedule::seg_at(&s.sp_tour_of(p), segment, s.or_lo(segment, p), s.or_hi(segment, p)),
        forall|i: int, j: int| #[trigger] Schedule::seg_at(&s.sp_tour_of(p), segment, i, j) ==> i == s.or_lo(segment, p) && j == s.or_hi(segment, p),
        s.fr_path(segment, p) == s.sp_tour_of(p).nodes@.subrange(s.or_lo(segment, p), s.or_hi(segment, p) + 1),
        !all_depots(&s.network, s.fr_path(segment, p)),
        s.fr_path(segment, p).no_duplicates(),
        forall|x: NodeIdx| #[trigger] s.fr_path(segment, p).contains(x) ==> s.sp_tour_of(p).nodes@.contains(x),
        // the precondition of Tour::sub_path: not one depot taken alone
        !(s.sp_tour_of(p).network.sp_node(segment.start).sp_is_depot() && segment.start == segment.end),
{
    lemma_fr_setup(s, segment, p, rcv);
    let tp = s.sp_tour_of(p);
    let (i0, j0) = choose|i: int, j: int| #[trigger] Schedule::seg_at(&tp, segment, i, j) && !all_depots(&s.network, tp.nodes@.subrange(i, j + 1));
    lemma_index_of(&tp, segment.start, i0);
    lemma_index_of(&tp, segment.end, j0);
    let lo = s.or_lo(segment, p);
    let hi = s.or_hi(segment, p);
    assert(lo == i0 && hi == j0);
    assert forall|i: int, j: int| #[trigger] Schedule::seg_at(&tp, segment, i, j) implies i == lo && j == hi by {
        lemma_index_of(&tp, segment.start, i);
        lemma_index_of(&tp, segment.end, j);
    }
    lemma_cuts(&tp, lo, hi + 1);
    let m = s.fr_path(segment, p);
    assert(m == tp.nodes@.subrange(lo, hi + 1));
    assert forall|i: int, j: int| 0 <= i < m.len() && 0 <= j < m.len() && i != j implies m[i] != m[j] by {
        if m[i] == m[j] { lemma_tour_distinct(&tp, lo + i, lo + j); }
    }
    assert forall|x: NodeIdx| #[trigger] m.contains(x) implies tp.nodes@.contains(x) by {
        let k = choose|k: int| 0 <= k < m.len() && m[k] == x;
        assert(tp.nodes@[lo + k] == x);
    }
    if segment.start == segment.end {
        assert(lo == hi) by { lemma_tour_distinct(&tp, lo, hi); }
        assert(m[0] == segment.start);
        if tp.network.sp_node(segment.start).sp_is_depot() {
            assert forall|k: int| 0 <= k < m.len() implies (#[trigger] s.network.sp_node(m[k])).sp_is_depot() by { assert(m[k] == m[0]); }
        }
    }
}
/// q is the node sequence of an occurrence of the segment in t (what Tour::sub_path returns on Ok, slices/tour_pos.vs)
pub open spec fn seg_nodes(t: &Tour, segment: Segment, q: Seq<NodeIdx>) -> bool {
    exists|i: int, j: int| 0 <= i <= j < t.len() && t.nodes@[i] == segment.start && t.nodes@[j] == segment.end
        && q == #[trigger] t.nodes@.subrange(i, j + 1)
}
/// what `sub_path(segment)?` yields: the offered segment; the precondition of fit_path_into_tour
pub proof fn lemma_fr_path(s: &Schedule, segment: Segment, p: VehicleIdx, rcv: VehicleIdx)
    requires s.fr_pre(segment, p, rcv),
    ensures
        forall|q: Seq<NodeIdx>| #![trigger s.fit_pre(q, p, rcv)] #![trigger seg_nodes(&s.sp_tour_of(p), segment, q)]
            seg_nodes(&s.sp_tour_of(p), segment, q) ==> q == s.fr_path(segment, p) && s.fit_pre(q, p, rcv),
{
    lemma_fr_setup(s, segment, p, rcv);
    lemma_fr_cut(s, segment, p, rcv);
    let tp = s.sp_tour_of(p);
    let lo = s.or_lo(segment, p);
    let hi = s.or_hi(segment, p);
    assert forall|q: Seq<NodeIdx>| #![trigger s.fit_pre(q, p, rcv)] #![trigger seg_nodes(&s.sp_tour_of(p), segment, q)]
        seg_nodes(&tp, segment, q) implies q == s.fr_path(segment, p) && s.fit_pre(q, p, rcv) by {
        let (i, j) = choose|i: int, j: int| 0 <= i <= j < tp.len() && tp.nodes@[i] == segment.start
            && tp.nodes@[j] == segment.end && q == #[trigger] tp.nodes@.subrange(i, j + 1);
        assert(Schedule::seg_at(&tp, segment, i, j));
        assert(i == lo && j == hi);
        assert(q.len() <= tp.len());
    }
}
/// C01: the type guard's guarantee, read on the offered segment
pub proof fn lemma_fr_guard(s: &Schedule, segment: Segment, p: VehicleIdx, rcv: VehicleIdx)
    requires s.fr_pre(segment, p, rcv),
    ensures
        // the postcondition of check_receiver_type_compatibility for the answer `true` (antecedent)
        (s.vehicles@.contains_key(rcv) && !(s.vehicles@.contains_key(p) && s.type_of(p) == s.type_of(rcv))
            ==> forall|i: int, j: int, q: int| #[trigger] Schedule::seg_at(&s.sp_tour_of(p), segment, i, j) && i <= q <= j
                ==> s.network.sp_compatible(#[trigger] s.sp_tour_of(p).nodes@[q], s.type_of(rcv)))
        ==> s.or_compatible(segment, p, rcv),
{
    lemma_fr_cut(s, segment, p, rcv);
    let tp = s.sp_tour_of(p);
    let lo = s.or_lo(segment, p);
    let hi = s.or_hi(segment, p);
    let m = s.or_moved(segment, p);
    if s.sp_is_vehicle(rcv) && !(s.sp_is_vehicle(p) && s.type_of(p) == s.type_of(rcv))
        && (forall|i: int, j: int, q: int| #[trigger] Schedule::seg_at(&s.sp_tour_of(p), segment, i, j) && i <= q <= j
                ==> s.network.sp_compatible(#[trigger] s.sp_tour_of(p).nodes@[q], s.type_of(rcv))) {
        assert forall|k: int| 0 <= k < m.len() implies s.network.sp_compatible(#[trigger] m[k], s.type_of(rcv)) by {
            assert(Schedule::seg_at(&tp, segment, lo, hi) && lo <= lo + k <= hi);
            assert(m[k] == tp.nodes@[lo + k]);
        }
    }
}
/// C01: every node the receiver gains is a node of the offered segment, hence compatible
pub proof fn lemma_fr_compatible(s: &Schedule, segment: Segment, p: VehicleIdx, rcv: VehicleIdx, ntp: Option<Tour>, ntr: Tour, m: Seq<NodeIdx>)
    requires s.fr_pre(segment, p, rcv), s.fr_outcome(segment, p, rcv, ntp, ntr, m),
    ensures s.or_compatible(segment, p, rcv) ==> s.fr_compatible(segment, p, rcv, ntr),
{
    let path = s.fr_path(segment, p);
    lemma_subseq_members(m, path);
    if s.or_compatible(segment, p, rcv) && s.sp_is_vehicle(rcv) && !(s.sp_is_vehicle(p) && s.type_of(p) == s.type_of(rcv)) {
        assert forall|n: NodeIdx| #[trigger] ntr.nodes@.contains(n) && !s.sp_tour_of(rcv).nodes@.contains(n)
            implies s.network.sp_compatible(n, s.type_of(rcv)) by {
            assert(m.contains(n));
            assert(path.contains(n));
            let k = choose|k: int| 0 <= k < path.len() && path[k] == n;
            assert(s.network.sp_compatible(s.or_moved(segment, p)[k], s.type_of(rcv)));
        }
    }
}
/// the precondition of update_tours (apart from tfu_pre)
pub proof fn lemma_fr_ut_pre(s: &Schedule, segment: Segment, p: VehicleIdx, rcv: VehicleIdx, ntp: Option<Tour>, ntr: Tour, m: Seq<NodeIdx>)
    requires s.fr_pre(segment, p, rcv), s.fr_outcome(segment, p, rcv, ntp, ntr, m), s.fr_fits(p, rcv, ntp, ntr, m),
    ensures
        s.ut_pre(s.vehicles@, s.tours@, s.depot_usage@, s.dummy_tours@, s.vehicle_ids_grouped_and_sorted@, s.dummy_ids_sorted@,
            s.costs, Some(p), ntp, rcv, ntr),
{
    lemma_fr_setup(s, segment, p, rcv);
    lemma_costs_arith_from_totals(s, s.costs as int, s.tours@, Some(p), ntp, rcv, ntr);
    assert(usage_exact_for(s.depot_usage@, &s.network, s.vehicles@, s.tours@, rcv));
    assert(usage_exact_for(s.depot_usage@, &s.network, s.vehicles@, s.tours@, p));
    assert(s.participant_ok(rcv));
    assert(s.participant_ok(p));
    if s.deletes_dummy(Some(p), ntp) {
        assert(s.dummy_ids_sorted@.contains(p) <==> s.dummy_tours@.contains_key(p));
    }
    if s.deletes_vehicle(Some(p), ntp) {
        assert(s.vehicle_ids_grouped_and_sorted@.contains_key(s.vehicles@[p].vehicle_type.idx));
        assert(listing_sorted(s.vehicle_ids_grouped_and_sorted@[s.type_of(p)]@));
        assert(s.vehicle_ids_grouped_and_sorted@[s.type_of(p)]@.contains(p));
    }
}
/// an id of the `Vehicle` kind among the participants is a real vehicle (C10 ids: dummies have `Dummy` ids)
pub proof fn lemma_fr_real(s: &Schedule, segment: Segment, p: VehicleIdx, rcv: VehicleIdx)
    requires s.fr_pre(segment, p, rcv),
    ensures
        p is Vehicle <==> s.sp_is_vehicle(p), rcv is Vehicle <==> s.sp_is_vehicle(rcv),
{
    if s.dummy_tours@.contains_key(p) { assert(p is Dummy); }
    if s.dummy_tours@.contains_key(rcv) { assert(rcv is Dummy); }
    if s.vehicles@.contains_key(p) { assert(p is Vehicle); }
    if s.vehicles@.contains_key(rcv) { assert(rcv is Vehicle); }
}
/// the precondition of the rotation-cycle update for the list [provider, receiver] and the maps update_tours leaves
pub proof fn lemma_fr_upd_pre_0(s: &Schedule, segment: Segment, p: VehicleIdx, rcv: VehicleIdx, ntp: Option<Tour>, ntr: Tour, m: Seq<NodeIdx>,
        vehicles1: VehicleMap, tours1: TourMap)
    requires
        s.fr_pre(segment, p, rcv), s.fr_outcome(segment, p, rcv, ntp, ntr, m), s.fr_fits(p, rcv, ntp, ntr, m),
        vehicles1 == s.vehicles_after(s.vehicles@, Some(p), ntp),
        tours1 == s.tours_after(s.tours@, Some(p), ntp, rcv, ntr),
    ensures
        s.upd_pre(s.next_period_transitions@, s.maintenance_violation as int, seq![p, rcv], vehicles1, tours1),
{
    lemma_fr_setup(s, segment, p, rcv);
    lemma_fr_real(s, segment, p, rcv);
    let trs = s.next_period_transitions@;
    let cv = seq![p, rcv];
    assert(cv.len() == 2 && cv[0] == p && cv[1] == rcv);
    // the new tours of real participants are admissible tours of a rotation cycle
    if s.sp_is_vehicle(rcv) {
        assert(tours1[rcv] == ntr);
        assert(tour_of_net(&s.network, &ntr));
        assert(tour_ok(&s.network, &ntr));
    }
    if s.sp_is_vehicle(p) && ntp is Some {
        assert(tours1[p] == ntp.unwrap());
        assert(tour_of_net(&s.network, &ntp.unwrap()));
        assert(tour_ok(&s.network, &ntp.unwrap()));
    }
    assert forall|i: int| 0 <= i < cv.len() && (#[trigger] cv[i]) is Vehicle implies s.change_ok(trs, vehicles1, tours1, cv[i]) by {
        if i == 0 { assert(s.eff_type(vehicles1, p) == s.type_of(p)); } else { assert(s.eff_type(vehicles1, rcv) == s.type_of(rcv)); }
    }
    assert forall|v: VehicleIdx| !real_in(cv, v) implies (s.vehicles@.contains_key(v) <==> #[trigger] vehicles1.contains_key(v)) by {
        if v == p { assert(cv[0] == p); assert(cv.contains(p)); }
    }
    assert forall|v: VehicleIdx| !real_in(cv, v) && #[trigger] vehicles1.contains_key(v) implies tours1.contains_key(v) && tours1[v] == s.tours@[v] by {
        assert(s.vehicles@.contains_key(v));
        assert(s.tours@.contains_key(v));
        if v == p { assert(cv[0] == p); assert(cv.contains(p)); }
        if v == rcv { assert(cv[1] == rcv); assert(cv.contains(rcv)); }
        lemma_frame(s, s.vehicles@, s.tours@, s.dummy_tours@, Some(p), ntp, rcv, ntr, v);
    }
    assert forall|i: int, j: int| 0 <= i < j < cv.len() && cv[i] is Vehicle implies #[trigger] cv[i] != #[trigger] cv[j] by {}
}
pub proof fn lemma_fr_upd_pre(s: &Schedule, segment: Segment, p: VehicleIdx, rcv: VehicleIdx, ntp: Option<Tour>, ntr: Tour, m: Seq<NodeIdx>,
        vehicles1: VehicleMap, tours1: TourMap)
    requires
        s.fr_pre(segment, p, rcv), s.fr_outcome(segment, p, rcv, ntp, ntr, m), s.fr_fits(p, rcv, ntp, ntr, m),
        vehicles1 == s.vehicles_after(s.vehicles@, Some(p), ntp),
        tours1 == s.tours_after(s.tours@, Some(p), ntp, rcv, ntr),
    ensures
        // for `vec![provider, receiver]`, whatever sequence of these two items its view is
        forall|cv: Seq<VehicleIdx>| cv.len() == 2 && cv[0] == p && cv[1] == rcv
            ==> #[trigger] s.upd_pre(s.next_period_transitions@, s.maintenance_violation as int, cv, vehicles1, tours1),
        forall|cv: Seq<VehicleIdx>| #![trigger cv.len()] cv.len() == 2 && cv[0] == p && cv[1] == rcv
            ==> (forall|i: int, j: int| 0 <= i < j < cv.len() && cv[i] is Vehicle ==> #[trigger] cv[i] != #[trigger] cv[j]),
        // only the types of the (real) participants are touched
        forall|cv: Seq<VehicleIdx>, vt: VehicleTypeIdx| cv.len() == 2 && cv[0] == p && cv[1] == rcv && #[trigger] s.touches_type(vehicles1, cv, vt)
            ==> (s.sp_is_vehicle(p) && s.type_of(p) == vt) || (s.sp_is_vehicle(rcv) && s.type_of(rcv) == vt),
{
    lemma_fr_upd_pre_0(s, segment, p, rcv, ntp, ntr, m, vehicles1, tours1);
    lemma_fr_real(s, segment, p, rcv);
    assert forall|cv: Seq<VehicleIdx>| cv.len() == 2 && cv[0] == p && cv[1] == rcv
        implies #[trigger] s.upd_pre(s.next_period_transitions@, s.maintenance_violation as int, cv, vehicles1, tours1) by {
        assert(cv =~= seq![p, rcv]);
    }
    assert forall|cv: Seq<VehicleIdx>, vt: VehicleTypeIdx| cv.len() == 2 && cv[0] == p && cv[1] == rcv && #[trigger] s.touches_type(vehicles1, cv, vt)
        implies (s.sp_is_vehicle(p) && s.type_of(p) == vt) || (s.sp_is_vehicle(rcv) && s.type_of(rcv) == vt) by {
        let i = choose|i: int| 0 <= i < cv.len() && (#[trigger] cv[i]) is Vehicle && s.eff_type(vehicles1, cv[i]) == vt;
        if i == 0 { assert(s.eff_type(vehicles1, p) == s.type_of(p)); } else { assert(s.eff_type(vehicles1, rcv) == s.type_of(rcv)); }
    }
}

// =====================================================================================================
// lemmas: the postconditions.  The facts the callees' contracts provide are ANTECEDENTS of the conclusions (not
// `requires`): if the code stops providing one of them, the failing obligation is the tagged postcondition of
// fit_reassign, not the call of the lemma.
// =====================================================================================================
/// the moved activities, read off the provider's new tour, are the non-depot nodes of m
pub proof fn lemma_fr_moved_act(s: &Schedule, segment: Segment, p: VehicleIdx, rcv: VehicleIdx, ntp: Option<Tour>, ntr: Tour, m: Seq<NodeIdx>)
    requires s.fr_pre(segment, p, rcv), s.fr_outcome(segment, p, rcv, ntp, ntr, m),
    ensures forall|n: NodeIdx| #![trigger s.fr_moved_act(p, ntp, n)] #![trigger moved_nd(&s.network, m, n)] moved_nd(&s.network, m, n) <==> s.fr_moved_act(p, ntp, n),
{
    lemma_fr_cut(s, segment, p, rcv);
    let path = s.fr_path(segment, p);
    let tp = s.sp_tour_of(p);
    lemma_subseq_members(m, path);
    assert forall|n: NodeIdx| #![trigger s.fr_moved_act(p, ntp, n)] #![trigger moved_nd(&s.network, m, n)] moved_nd(&s.network, m, n) <==> s.fr_moved_act(p, ntp, n) by {
        if moved_nd(&s.network, m, n) {
            assert(path.contains(n));
            assert(tp.nodes@.contains(n));
        }
        if s.fr_moved_act(p, ntp, n) {
            if ntp is None {
                assert(tp.nodes@.contains(n) && !m.contains(n) ==> s.network.sp_node(n).sp_is_depot());
            }
        }
    }
}
/// C13 (1) / C09: provider, receiver, all other tours, the costs
pub proof fn lemma_fr_tours_post(s: &Schedule, segment: Segment, p: VehicleIdx, rcv: VehicleIdx, ntp: Option<Tour>, ntr: Tour, m: Seq<NodeIdx>,
        vehicles1: VehicleMap, tours1: TourMap, dummies1: TourMap, costs1: Cost)
    requires s.fr_pre(segment, p, rcv), s.fr_outcome(segment, p, rcv, ntp, ntr, m),
    ensures
        ({
            &&& vehicles1 == s.vehicles_after(s.vehicles@, Some(p), ntp)
            &&& tours1 == s.tours_after(s.tours@, Some(p), ntp, rcv, ntr)
            &&& dummies1 == s.dummies_after(s.dummy_tours@, Some(p), ntp, rcv, ntr)
        }) ==> {
            &&& tour_opt_in(tours1, dummies1, p) == ntp && tour_in(tours1, dummies1, rcv) == ntr
            &&& s.fr_tours_after(segment, p, rcv, tours1, dummies1)
            &&& s.fr_maps_after(p, rcv, vehicles1, tours1, dummies1)
            &&& costs1 == s.costs - s.cost_out_provider(s.tours@, Some(p)) - s.cost_out_receiver(s.tours@, rcv)
                    + s.cost_in_provider(Some(p), ntp) + s.cost_in_receiver(rcv, ntr)
                ==> s.or_costs_after(p, rcv, tours1, dummies1, costs1)
        },
{
    lemma_fr_setup(s, segment, p, rcv);
    if vehicles1 == s.vehicles_after(s.vehicles@, Some(p), ntp)
        && tours1 == s.tours_after(s.tours@, Some(p), ntp, rcv, ntr)
        && dummies1 == s.dummies_after(s.dummy_tours@, Some(p), ntp, rcv, ntr) {
        assert(tour_opt_in(tours1, dummies1, p) == ntp);
        assert(tour_in(tours1, dummies1, rcv) == ntr);
        assert(s.fr_outcome(segment, p, rcv, tour_opt_in(tours1, dummies1, p), tour_in(tours1, dummies1, rcv), m));
    }
}
/// C10 (ids): the ids stay valid
pub proof fn lemma_fr_ids_post(s: &Schedule, segment: Segment, p: VehicleIdx, rcv: VehicleIdx, ntp: Option<Tour>, ntr: Tour,
        vehicles1: VehicleMap, tours1: TourMap, dummies1: TourMap, grouped1: Grouped, ids1: Seq<VehicleIdx>)
    requires s.fr_pre(segment, p, rcv),
    ensures
        ({
            &&& vehicles1 == s.vehicles_after(s.vehicles@, Some(p), ntp)
            &&& tours1 == s.tours_after(s.tours@, Some(p), ntp, rcv, ntr)
            &&& dummies1 == s.dummies_after(s.dummy_tours@, Some(p), ntp, rcv, ntr)
            &&& listings_ok(vehicles1, dummies1, grouped1, ids1)
        }) ==> ids_valid(vehicles1, tours1, dummies1, ids1, s.vehicle_counter),
{
    lemma_fr_setup(s, segment, p, rcv);
    if vehicles1 == s.vehicles_after(s.vehicles@, Some(p), ntp) && tours1 == s.tours_after(s.tours@, Some(p), ntp, rcv, ntr)
        && dummies1 == s.dummies_after(s.dummy_tours@, Some(p), ntp, rcv, ntr) && sorted_cmp(ids1) {
        assert forall|v: VehicleIdx| #[trigger] vehicles1.contains_key(v) implies v is Vehicle && vehicles1[v].idx == v by {
            assert(s.vehicles@.contains_key(v));
        }
        assert forall|v: VehicleIdx| #[trigger] vehicles1.contains_key(v) <==> tours1.contains_key(v) by {
            assert(s.vehicles@.contains_key(v) <==> s.tours@.contains_key(v));
        }
        assert forall|d: VehicleIdx| #[trigger] dummies1.contains_key(d) implies d is Dummy && (d->Dummy_0 as int) < s.vehicle_counter by {
            assert(s.dummy_tours@.contains_key(d));
        }
    }
}
/// C10 / C13 (2): the formations, read with the moved activities
pub proof fn lemma_fr_formations_post(s: &Schedule, segment: Segment, p: VehicleIdx, rcv: VehicleIdx, ntp: Option<Tour>, ntr: Tour, m: Seq<NodeIdx>, tf: Formations)
    requires s.fr_pre(segment, p, rcv), s.fr_outcome(segment, p, rcv, ntp, ntr, m),
    ensures
        s.formations_elsewhere_untouched(m, s.train_formations@, tf) ==> s.fr_formations_elsewhere(p, ntp, tf),
        s.moved_get_replacement(m, s.train_formations@, tf, Some(p), s.sp_receiver_vehicle(rcv)) ==> s.fr_formations_moved(p, rcv, ntp, tf),
{
    lemma_fr_moved_act(s, segment, p, rcv, ntp, ntr, m);
    let tf0 = s.train_formations@;
    if s.formations_elsewhere_untouched(m, tf0, tf) {
        assert forall|n: NodeIdx| #![trigger s.fr_moved_act(p, ntp, n)] #![trigger tf[n]] !s.fr_moved_act(p, ntp, n) implies tf[n] == tf0[n] by {
            assert(!moved_nd(&s.network, m, n));
        }
    }
    if s.moved_get_replacement(m, tf0, tf, Some(p), s.sp_receiver_vehicle(rcv)) {
        assert forall|n: NodeIdx| #![trigger s.fr_moved_act(p, ntp, n)] #![trigger tf[n]] s.fr_moved_act(p, ntp, n) implies
            tf[n].formation@ == s.repl_seq(tf0[n].formation@, Some(p), s.sp_receiver_vehicle(rcv))
            && s.repl_ok(tf0[n].formation@, Some(p), s.sp_receiver_vehicle(rcv), n) by {
            assert(moved_nd(&s.network, m, n));
        }
    }
}
/// C09: the unserved-passenger pair
pub proof fn lemma_fr_unserved_post(s: &Schedule, segment: Segment, p: VehicleIdx, rcv: VehicleIdx, ntp: Option<Tour>, ntr: Tour, m: Seq<NodeIdx>,
        tours1: TourMap, dummies1: TourMap, uf: (PassengerCount, PassengerCount))
    requires s.fr_outcome(segment, p, rcv, ntp, ntr, m),
    ensures
        ({
            let tf0 = s.train_formations@;
            let rv = s.sp_receiver_vehicle(rcv);
            &&& tour_opt_in(tours1, dummies1, p) == ntp && tour_in(tours1, dummies1, rcv) == ntr
            &&& uf.0 == s.unserved_passengers.0 - s.un_sum(tf0, Some(p), rv, m, m.len() as int, false, 0) + s.un_sum(tf0, Some(p), rv, m, m.len() as int, true, 0)
            &&& uf.1 == s.unserved_passengers.1 - s.un_sum(tf0, Some(p), rv, m, m.len() as int, false, 1) + s.un_sum(tf0, Some(p), rv, m, m.len() as int, true, 1)
        }) ==> s.fr_unserved_after(segment, p, rcv, tours1, dummies1, uf),
{
}
