// ---- environment of the slice `fit_reassign` (Schedule::fit_reassign, Schedule::fit_path_into_tour) ----------
// Included inside `pub mod tr { … }` AFTER env/override_reassign_shim.vs, whose vocabulary it reuses unchanged
// (sp_tour_of, has_tour, seg_at, part_ok, or_transitions_ok, ids_ok, or_lo / or_hi / or_moved (= the nodes of the
// offered segment), or_compatible, or_costs_after, or_transitions_after, tour_in / tour_opt_in, upd_pre …) together with
// env/update_tours_shim.vs (vehicles_after, tours_after, dummies_after, lists_follow, ut_pre …) and
// env/train_formation_update_shim.vs (tfu_pre, moved_nd, repl_seq, repl_ok, un_sum …).
// ASSUMPTIONS in this file (listed in the header of slices/fit_reassign.vs): the external_body shims
// `SeqIter::{enumerate, map_while, last}` (A-iter, std adapters of the same names) and the axiom `axiom_into_items_vec`
// (A-iter, `Vec::extend(Vec<T>)`).  Everything else is an open spec function or a proved lemma.  (The structural `Clone`
// of Tour, A-derive, sits in the slice next to the copied text of env/solution_types.vs.)
// Copied text: the counting lemmas of the CLOSURE section (fr_cyc_elems, lemma_fr_cyc_elems_*, lemma_fr_total_len_is_lookup) are
// the text of env/sched_ctor_shim.vs with prefixed names (that file cannot be included here); everything else is reached through
// the includes above.

// =====================================================================================================
// ASSUMPTIONS (A-iter), listed in the header of slices/fit_reassign.vs
// =====================================================================================================
impl<T> SeqIter<T> {
    /// std `Iterator::enumerate`: "Creates an iterator which gives the current iteration count as well as the next value."
    #[verifier::external_body]
    pub fn enumerate(self) -> (r: SeqIter<(usize, T)>)
        ensures r@.len() == self@.len(), forall|i: int| 0 <= i < self@.len() ==> (#[trigger] r@[i]).0 == i && r@[i].1 == self@[i],
    { unimplemented!() }
    /// std `Iterator::map_while`: "Creates an iterator that both yields elements based on a predicate and maps. … takes a
    /// closure … on each element … while it returns Some(_) [yields the value] … after None is returned, [its] job is over"
    #[verifier::external_body]
    pub fn map_while<U, F: FnMut(T) -> Option<U>>(self, f: F) -> (r: SeqIter<U>)
        requires forall|i: int| 0 <= i < self@.len() ==> f.requires((#[trigger] self@[i],)),
        ensures
            r@.len() <= self@.len(),
            forall|i: int| 0 <= i < r@.len() ==> f.ensures((self@[i],), Some(#[trigger] r@[i])),
            r@.len() < self@.len() ==> f.ensures((self@[r@.len() as int],), None),
    { unimplemented!() }
    /// std `Iterator::last`: "Consumes the iterator, returning the last element."
    #[verifier::external_body]
    pub fn last(self) -> (r: Option<T>)
        ensures self@.len() == 0 ==> r is None, self@.len() > 0 ==> r == Some(self@[self@.len() - 1]),
    { unimplemented!() }
}
/// A-iter: `Vec::extend(Vec<T>)` appends the items of the vector (`into_items`, env/seqiter.vs, is only fixed for SeqIter)
pub broadcast axiom fn axiom_into_items_vec<T>(v: Vec<T>)
    ensures #[trigger] into_items::<Vec<T>, T>(v) == v@;

// =====================================================================================================
// sub-sequences
// =====================================================================================================
/// f maps the positions of a to positions of b: strictly increasing, item for item
pub open spec fn subseq_by(a: Seq<NodeIdx>, b: Seq<NodeIdx>, f: Seq<int>) -> bool {
    &&& f.len() == a.len()
    &&& forall|k: int| 0 <= k < a.len() ==> 0 <= #[trigger] f[k] < b.len() && a[k] == b[f[k]]
    &&& forall|k: int, l: int| 0 <= k < l < a.len() ==> #[trigger] f[k] < #[trigger] f[l]
}
/// a is a sub-sequence of b: some of b's items, in b's order
pub open spec fn is_subseq(a: Seq<NodeIdx>, b: Seq<NodeIdx>) -> bool {
    exists|f: Seq<int>| #[trigger] subseq_by(a, b, f)
}
pub proof fn lemma_subseq_members(a: Seq<NodeIdx>, b: Seq<NodeIdx>)
    requires is_subseq(a, b),
    ensures
        forall|x: NodeIdx| #[trigger] a.contains(x) ==> b.contains(x),
        b.no_duplicates() ==> a.no_duplicates(),
        a.len() <= b.len() || !b.no_duplicates(),
{
    let f = choose|f: Seq<int>| #[trigger] subseq_by(a, b, f);
    assert forall|x: NodeIdx| #[trigger] a.contains(x) implies b.contains(x) by {
        let k = choose|k: int| 0 <= k < a.len() && a[k] == x;
        assert(b[f[k]] == x);
    }
    if b.no_duplicates() {
        assert forall|i: int, j: int| 0 <= i < a.len() && 0 <= j < a.len() && i != j implies a[i] != a[j] by {
            if i < j { assert(f[i] < f[j]); } else { assert(f[j] < f[i]); }
            assert(a[i] == b[f[i]] && a[j] == b[f[j]]);
        }
        lemma_increasing_bound(f, b.len() as int);
    }
}
/// a strictly increasing map into [0, n) has at most n entries
pub proof fn lemma_increasing_bound(f: Seq<int>, n: int)
    requires
        forall|k: int| 0 <= k < f.len() ==> 0 <= #[trigger] f[k] < n,
        forall|k: int, l: int| 0 <= k < l < f.len() ==> #[trigger] f[k] < #[trigger] f[l],
    ensures f.len() <= n || f.len() == 0,
    decreases f.len(),
{
    if f.len() > 0 {
        let g = f.drop_last();
        let last = f[f.len() - 1];
        assert forall|k: int| 0 <= k < g.len() implies 0 <= #[trigger] g[k] < last by {
            assert(g[k] == f[k]);
            assert(f[k] < f[f.len() - 1]);
        }
        assert forall|k: int, l: int| 0 <= k < l < g.len() implies #[trigger] g[k] < #[trigger] g[l] by {
            assert(g[k] == f[k] && g[l] == f[l]);
        }
        lemma_increasing_bound(g, last);
    }
}
pub proof fn lemma_subseq_refl(a: Seq<NodeIdx>)
    ensures is_subseq(a, a),
{
    let f = Seq::new(a.len(), |k: int| k);
    assert(subseq_by(a, a, f));
}
pub proof fn lemma_subseq_empty(b: Seq<NodeIdx>)
    ensures is_subseq(Seq::<NodeIdx>::empty(), b),
{
    assert(subseq_by(Seq::<NodeIdx>::empty(), b, Seq::<int>::empty()));
}

// =====================================================================================================
// Schedule::fit_path_into_tour: the contract (derived from C13: "the provider loses exactly the moved nodes, the
// receiver gains … only the conflict-free ones without losing any of its own (fit)")
// =====================================================================================================
impl Schedule {
    /// the nodes of the offered segment in the provider's tour (what `sub_path(segment)` yields)
    pub open spec fn fr_path(&self, segment: Segment, p: VehicleIdx) -> Seq<NodeIdx> { self.or_moved(segment, p) }

    /// PRECONDITION of fit_path_into_tour.  "Assumes that path is a sub path of the tour of provider."
    pub open spec fn fit_pre(&self, path: Seq<NodeIdx>, p: VehicleIdx, rcv: VehicleIdx) -> bool {
        let tp = self.sp_tour_of(p);
        let tr = self.sp_tour_of(rcv);
        // `self.tour_of(provider).unwrap()`, `self.tour_of(receiver).unwrap()`
        &&& self.has_tour(p) && self.has_tour(rcv)
        // C01 / C10: both tours are well-formed tours over the schedule's network, C09: their caches are exact
        &&& tp.wf() && tp.caches_ok() && *tp.network == *self.network && tour_len_ok(tp.nodes@)
        &&& tr.wf() && tr.caches_ok() && *tr.network == *self.network
        // the path is a sub-path of the provider's tour …
        &&& exists|i: int, j: int| 0 <= i <= j < tp.len() && path == #[trigger] tp.nodes@.subrange(i, j + 1)
        // … with an activity (invariant of the type Path)
        &&& !all_depots(&self.network, path)
        // A-len: the receiver's tour with all nodes of the path is within the length bound of a tour
        &&& tr.len() + path.len() <= 0x2_0002
    }
    /// "the provider loses exactly the moved nodes": its new tour (if any) is a tour of the same kind over the same network,
    /// well-formed (C01 / C10), with exact caches (C09); it holds the old nodes in the old order, without exactly m.
    /// "a vehicle left without activities disappears": no tour exactly when every node that is not moved is a depot (a dummy
    /// tour has no depots: exactly when everything is moved)
    pub open spec fn fit_provider_ok(&self, p: VehicleIdx, ntp: Option<Tour>, m: Seq<NodeIdx>) -> bool {
        let tp = self.sp_tour_of(p);
        &&& ntp is Some ==> {
            let t = ntp.unwrap();
            &&& t.is_dummy == tp.is_dummy && t.network == tp.network && t.wf() && t.caches_ok()
            &&& is_subseq(t.nodes@, tp.nodes@)
            &&& forall|n: NodeIdx| #![trigger t.nodes@.contains(n)] #![trigger tp.nodes@.contains(n)]
                    t.nodes@.contains(n) <==> tp.nodes@.contains(n) && !m.contains(n)
        }
        &&& ntp is None <==> (forall|n: NodeIdx| #[trigger] tp.nodes@.contains(n) && !m.contains(n) ==> self.network.sp_node(n).sp_is_depot())
    }
    /// "the receiver gains … only the conflict-free ones without losing any of its own": a tour of the same kind over the
    /// same network, in time order (well-formed), exact caches; its activities are exactly its old ones plus the moved
    /// ones; every node it has is an old one or a moved one
    pub open spec fn fit_receiver_ok(&self, rcv: VehicleIdx, ntr: Tour, m: Seq<NodeIdx>) -> bool {
        let tr = self.sp_tour_of(rcv);
        &&& ntr.is_dummy == tr.is_dummy && ntr.network == tr.network && ntr.wf() && ntr.caches_ok()
        &&& forall|n: NodeIdx| #![trigger ntr.nodes@.contains(n)] #![trigger tr.nodes@.contains(n)] #![trigger m.contains(n)]
                !self.network.sp_node(n).sp_is_depot() ==> (ntr.nodes@.contains(n) <==> tr.nodes@.contains(n) || m.contains(n))
        &&& forall|n: NodeIdx| #[trigger] ntr.nodes@.contains(n) ==> tr.nodes@.contains(n) || m.contains(n)
    }
    /// POSTCONDITION of fit_path_into_tour for the result (ntp, ntr, m) = (new_tour_provider, new_tour_receiver,
    /// moved_nodes).  Depots: a tour that keeps no activity vanishes with its depots; a moved end depot replaces the
    /// receiver's end depot, a dummy receiver takes no depots -- hence the clauses for the receiver speak about
    /// activities ("without losing any of its own") and bound the depots from above.  Last clause: A-len holds again for the
    /// receiver's new tour (closure of the tour invariants, see lemma_fit_tours_closed).
    pub open spec fn fit_outcome(&self, path: Seq<NodeIdx>, p: VehicleIdx, rcv: VehicleIdx, ntp: Option<Tour>, ntr: Tour, m: Seq<NodeIdx>) -> bool {
        // the moved nodes: some of the path's nodes, in the path's order, each once
        &&& is_subseq(m, path) && m.no_duplicates()
        &&& self.fit_provider_ok(p, ntp, m)
        &&& self.fit_receiver_ok(rcv, ntr, m)
        // A-len is re-established: the receiver's new tour is within the length bound of a tour (C10: needed for the
        // closure of part_ok; the provider's new tour is a sub-sequence of its old one)
        &&& tour_len_ok(ntr.nodes@)
    }
    /// LOOP INVARIANT of fit_path_into_tour: k nodes of the path are decided, rem = the nodes of `remaining_path`
    pub open spec fn fit_inv(&self, path: Seq<NodeIdx>, p: VehicleIdx, rcv: VehicleIdx, ntp: Option<Tour>, ntr: Tour, m: Seq<NodeIdx>,
            rem: Option<Seq<NodeIdx>>, k: int) -> bool {
        let n = path.len() as int;
        &&& self.fit_pre(path, p, rcv)
        &&& 0 <= k <= n
        // what is left of the path (Path::new_trusted yields no path for depots only)
        &&& rem is Some ==> k < n && rem.unwrap() == path.subrange(k, n) && !all_depots(&self.network, rem.unwrap())
        &&& rem is None ==> all_depots(&self.network, path.subrange(k, n))
        // the moved nodes are among the decided ones
        &&& is_subseq(m, path.subrange(0, k))
        &&& self.fit_provider_ok(p, ntp, m)
        // the rest of the path still is a block of the provider's tour (`new_tour_provider.as_ref().unwrap()`)
        &&& rem is Some ==> ntp is Some && contig(&ntp.unwrap(), path.subrange(k, n))
        &&& self.fit_receiver_ok(rcv, ntr, m)
        // A-len
        &&& ntr.len() + (n - k) <= 0x2_0002
    }

    // ---- Schedule::fit_reassign: PRECONDITIONS ---------------------------------------------------------------
    /// the precondition of fit_reassign apart from the caller-side guarantees for the possible outcomes (fr_pre_outcomes)
    pub open spec fn fr_pre(&self, segment: Segment, p: VehicleIdx, rcv: VehicleIdx) -> bool {
        // the bookkeeping of update_tours / of the rotation cycles runs once per vehicle: provider and receiver differ
        // (Neighborhood::segment_exchange_iterator "skip[s] provider as receiver"; PathExchange::apply calls fit_reassign
        // with a fresh dummy as provider)
        &&& p != rcv
        // C10 (ids): see ids_valid
        &&& self.ids_ok()
        // C10 / C01 / C09 for the two participants
        &&& self.part_ok(p) && self.part_ok(rcv)
        // the segment is a segment of the provider's tour that does not consist of depots only (the two `unwrap`s of the
        // type guard: `tour_of(provider).unwrap().sub_path(segment).unwrap()`)
        &&& exists|i: int, j: int| #[trigger] Schedule::seg_at(&self.sp_tour_of(p), segment, i, j)
                && !all_depots(&self.network, self.sp_tour_of(p).nodes@.subrange(i, j + 1))
        // C10: "vehicle and dummy listings are sorted and match the stored tours"
        &&& listings_ok(self.vehicles@, self.dummy_tours@, self.vehicle_ids_grouped_and_sorted@, self.dummy_ids_sorted@)
        // C09: the depot table has its from-scratch value
        &&& usage_exact(self.depot_usage@, &self.network, self.vehicles@, self.tours@)
        // C09: the schedule's costs cover the tours of the (real) participants
        &&& self.cost_out_provider(self.tours@, Some(p)) + self.cost_out_receiver(self.tours@, rcv) <= self.costs
        // C15 / C10 / C09: rotation cycles
        &&& self.or_transitions_ok()
        // A-len: the receiver's tour with all nodes of the segment is within the length bound of a tour
        &&& self.sp_tour_of(rcv).len() + self.sp_tour_of(p).len() <= 0x2_0002
    }
    /// an outcome of fit_path_into_tour for the offered segment
    pub open spec fn fr_outcome(&self, segment: Segment, p: VehicleIdx, rcv: VehicleIdx, ntp: Option<Tour>, ntr: Tour, m: Seq<NodeIdx>) -> bool {
        self.fit_outcome(self.fr_path(segment, p), p, rcv, ntp, ntr, m)
    }
    /// what the caller guarantees for one outcome: the precondition of the formation bookkeeping for the moved nodes
    /// (tfu_pre, slices/train_formation_update.vs), magnitudes: the costs with the two new tours fit into u64, the
    /// maintenance counters of the two new tours are small (A-counter)
    pub open spec fn fr_fits(&self, p: VehicleIdx, rcv: VehicleIdx, ntp: Option<Tour>, ntr: Tour, m: Seq<NodeIdx>) -> bool {
        &&& self.tfu_pre(self.train_formations@, self.unserved_passengers, Some(p), self.sp_receiver_vehicle(rcv), m)
        &&& self.costs + self.cost_in_provider(Some(p), ntp) + self.cost_in_receiver(rcv, ntr) <= u64::MAX
        &&& ntp is Some ==> -counter_bound() <= tour_counter(&ntp.unwrap()) <= counter_bound()
        &&& -counter_bound() <= tour_counter(&ntr) <= counter_bound()
    }
    /// caller-side: WHICH nodes fit is decided by the greedy search of fit_path_into_tour; the caller guarantees fr_fits
    /// for every outcome its contract admits
    pub open spec fn fr_pre_outcomes(&self, segment: Segment, p: VehicleIdx, rcv: VehicleIdx) -> bool {
        forall|ntp: Option<Tour>, ntr: Tour, m: Seq<NodeIdx>| #[trigger] self.fr_outcome(segment, p, rcv, ntp, ntr, m)
            ==> self.fr_fits(p, rcv, ntp, ntr, m)
    }

    // ---- Schedule::fit_reassign: POSTCONDITIONS --------------------------------------------------------------
    /// C01, type clause: the guarantee of the type guard for the whole offered segment (or_compatible) and, read on the
    /// result, for every node the receiver gains (ntr = the receiver's new tour)
    pub open spec fn fr_compatible(&self, segment: Segment, p: VehicleIdx, rcv: VehicleIdx, ntr: Tour) -> bool {
        &&& self.or_compatible(segment, p, rcv)
        &&& self.sp_is_vehicle(rcv) && !(self.sp_is_vehicle(p) && self.type_of(p) == self.type_of(rcv))
                ==> forall|n: NodeIdx| #[trigger] ntr.nodes@.contains(n) && !self.sp_tour_of(rcv).nodes@.contains(n)
                        ==> self.network.sp_compatible(n, self.type_of(rcv))
    }
    /// C13 (1): "the provider loses exactly the moved nodes, the receiver gains … only the conflict-free ones without
    /// losing any of its own": the tours of p and rcv in the new schedule are an outcome of fit_path_into_tour for some
    /// sequence m of moved nodes; the receiver stays, both tours stay in the map of their kind
    pub open spec fn fr_tours_after(&self, segment: Segment, p: VehicleIdx, rcv: VehicleIdx, tours1: TourMap, dummies1: TourMap) -> bool {
        let stp = tour_opt_in(tours1, dummies1, p);
        let ntr = tour_in(tours1, dummies1, rcv);
        &&& exists|m: Seq<NodeIdx>| #[trigger] self.fr_outcome(segment, p, rcv, stp, ntr, m)
        &&& tour_opt_in(tours1, dummies1, rcv) is Some && tours1.contains_key(rcv) == self.tours@.contains_key(rcv)
        &&& stp is Some ==> tours1.contains_key(p) == self.tours@.contains_key(p)
    }
    /// C13 (1): "a vehicle left without activities disappears, … all other vehicles' tours … stay untouched": the three
    /// maps are the old ones with the provider's and the receiver's entries rewritten (vocabulary of
    /// env/update_tours_shim.vs; lemma_frame spells the frame out per key) -- NO new dummy tour
    pub open spec fn fr_maps_after(&self, p: VehicleIdx, rcv: VehicleIdx, vehicles1: VehicleMap, tours1: TourMap, dummies1: TourMap) -> bool {
        let stp = tour_opt_in(tours1, dummies1, p);
        let ntr = tour_in(tours1, dummies1, rcv);
        &&& vehicles1 == self.vehicles_after(self.vehicles@, Some(p), stp)
        &&& tours1 == self.tours_after(self.tours@, Some(p), stp, rcv, ntr)
        &&& dummies1 == self.dummies_after(self.dummy_tours@, Some(p), stp, rcv, ntr)
    }
    /// n is a MOVED activity, read off the result (stp = the provider's new tour, if any): an activity of the provider's
    /// old tour that its new tour no longer has.  For every outcome (.., stp, .., m): moved_nd(m, n) <==> fr_moved_act(n)
    /// (lemma_fr_moved_act).
    pub open spec fn fr_moved_act(&self, p: VehicleIdx, stp: Option<Tour>, n: NodeIdx) -> bool {
        self.sp_tour_of(p).nodes@.contains(n) && !self.network.sp_node(n).sp_is_depot()
            && !(stp is Some && stp.unwrap().nodes@.contains(n))
    }
    /// C13: "formations elsewhere … stay untouched"
    pub open spec fn fr_formations_elsewhere(&self, p: VehicleIdx, stp: Option<Tour>, tf: Formations) -> bool {
        &&& tf.dom() == self.train_formations@.dom()
        &&& forall|n: NodeIdx| #![trigger self.fr_moved_act(p, stp, n)] #![trigger tf[n]]
                !self.fr_moved_act(p, stp, n) ==> tf[n] == self.train_formations@[n]
    }
    /// C10: at every moved activity the formation gets the replacement provider -> receiver that update_train_formation
    /// specifies (and that replacement succeeded)
    pub open spec fn fr_formations_moved(&self, p: VehicleIdx, rcv: VehicleIdx, stp: Option<Tour>, tf: Formations) -> bool {
        forall|n: NodeIdx| #![trigger self.fr_moved_act(p, stp, n)] #![trigger tf[n]]
            self.fr_moved_act(p, stp, n)
            ==> tf[n].formation@ == self.repl_seq(self.train_formations@[n].formation@, Some(p), self.sp_receiver_vehicle(rcv))
                && self.repl_ok(self.train_formations@[n].formation@, Some(p), self.sp_receiver_vehicle(rcv), n)
    }
    /// C09: the unserved-passenger pair: the exact delta of the formation update for the moved nodes (depots and
    /// maintenance slots contribute 0)
    pub open spec fn fr_unserved_after(&self, segment: Segment, p: VehicleIdx, rcv: VehicleIdx, tours1: TourMap, dummies1: TourMap, uf: (PassengerCount, PassengerCount)) -> bool {
        let stp = tour_opt_in(tours1, dummies1, p);
        let ntr = tour_in(tours1, dummies1, rcv);
        let tf0 = self.train_formations@;
        let rv = self.sp_receiver_vehicle(rcv);
        exists|m: Seq<NodeIdx>| #[trigger] self.fr_outcome(segment, p, rcv, stp, ntr, m)
            && uf.0 == self.unserved_passengers.0 - self.un_sum(tf0, Some(p), rv, m, m.len() as int, false, 0) + self.un_sum(tf0, Some(p), rv, m, m.len() as int, true, 0)
            && uf.1 == self.unserved_passengers.1 - self.un_sum(tf0, Some(p), rv, m, m.len() as int, false, 1) + self.un_sum(tf0, Some(p), rv, m, m.len() as int, true, 1)
    }
}

// =====================================================================================================
// lemmas: the preconditions of the callees
// =====================================================================================================
/// what a valid schedule provides for the look-ups, the type guard and sub_path
pub proof fn lemma_fr_setup(s: &Schedule, segment: Segment, p: VehicleIdx, rcv: VehicleIdx)
    requires s.fr_pre(segment, p, rcv),
    ensures
        s.has_tour(p), s.has_tour(rcv),
        s.tours@.contains_key(p) == s.sp_is_vehicle(p), s.tours@.contains_key(rcv) == s.sp_is_vehicle(rcv),
        !s.tours@.contains_key(p) ==> s.dummy_tours@.contains_key(p), !s.tours@.contains_key(rcv) ==> s.dummy_tours@.contains_key(rcv),
        s.sp_tour_of(p).wf(), s.sp_tour_of(p).caches_ok(), tour_len_ok(s.sp_tour_of(p).nodes@),
        *s.sp_tour_of(p).network == *s.network,
        s.sp_tour_of(p).network.has(segment.start), s.sp_tour_of(p).network.has(segment.end),
        s.network.wf(),
        exists|i: int, j: int| #[trigger] Schedule::seg_at(&s.sp_tour_of(p), segment, i, j)
            && !all_depots(&s.network, s.sp_tour_of(p).nodes@.subrange(i, j + 1)),
        listings_ok(s.vehicles@, s.dummy_tours@, s.vehicle_ids_grouped_and_sorted@, s.dummy_ids_sorted@),
        usage_exact(s.depot_usage@, &s.network, s.vehicles@, s.tours@),
{
    let tp = s.sp_tour_of(p);
    let (i, j) = choose|i: int, j: int| #[trigger] Schedule::seg_at(&tp, segment, i, j) && !all_depots(&s.network, tp.nodes@.subrange(i, j + 1));
    assert(tp.network.has(tp.nodes@[i]) && tp.network.has(tp.nodes@[j]));
}
/// the offered segment in the provider's tour: its positions are unique, its nodes
pub proof fn lemma_fr_cut(s: &Schedule, segment: Segment, p: VehicleIdx, rcv: VehicleIdx)
    requires s.fr_pre(segment, p, rcv),
    ensures
        0 <= s.or_lo(segment, p) <= s.or_hi(segment, p) < s.sp_tour_of(p).len(),
        Schedule::seg_at(&s.sp_tour_of(p), segment, s.or_lo(segment, p), s.or_hi(segment, p)),
        forall|i: int, j: int| #[trigger] Schedule::seg_at(&s.sp_tour_of(p), segment, i, j) ==> i == s.or_lo(segment, p) && j == s.or_hi(segment, p),
        s.fr_path(segment, p) == s.sp_tour_of(p).nodes@.subrange(s.or_lo(segment, p), s.or_hi(segment, p) + 1),
        !all_depots(&s.network, s.fr_path(segment, p)),
        s.fr_path(segment, p).no_duplicates(),
        forall|x: NodeIdx| #[trigger] s.fr_path(segment, p).contains(x) ==> s.sp_tour_of(p).nodes@.contains(x),
        // the precondition of Tour::sub_path: not one depot taken alone
        !(s.sp_tour_of(p).network.sp_node(segment.start).sp_is_depot() && segment.start == segment.end),
{
    lemma_fr_setup(s, segment, p, rcv);
    let tp = s.sp_tour_of(p);
    let (i0, j0) = choose|i: int, j: int| #[trigger] Schedule::seg_at(&tp, segment, i, j) && !all_depots(&s.network, tp.nodes@.subrange(i, j + 1));
    lemma_index_of(&tp, segment.start, i0);
    lemma_index_of(&tp, segment.end, j0);
    let lo = s.or_lo(segment, p);
    let hi = s.or_hi(segment, p);
    assert(lo == i0 && hi == j0);
    assert forall|i: int, j: int| #[trigger] Schedule::seg_at(&tp, segment, i, j) implies i == lo && j == hi by {
        lemma_index_of(&tp, segment.start, i);
        lemma_index_of(&tp, segment.end, j);
    }
    lemma_cuts(&tp, lo, hi + 1);
    let m = s.fr_path(segment, p);
    assert(m == tp.nodes@.subrange(lo, hi + 1));
    assert forall|i: int, j: int| 0 <= i < m.len() && 0 <= j < m.len() && i != j implies m[i] != m[j] by {
        if m[i] == m[j] { lemma_tour_distinct(&tp, lo + i, lo + j); }
    }
    assert forall|x: NodeIdx| #[trigger] m.contains(x) implies tp.nodes@.contains(x) by {
        let k = choose|k: int| 0 <= k < m.len() && m[k] == x;
        assert(tp.nodes@[lo + k] == x);
    }
    if segment.start == segment.end {
        assert(lo == hi) by { lemma_tour_distinct(&tp, lo, hi); }
        assert(m[0] == segment.start);
        if tp.network.sp_node(segment.start).sp_is_depot() {
            assert forall|k: int| 0 <= k < m.len() implies (#[trigger] s.network.sp_node(m[k])).sp_is_depot() by { assert(m[k] == m[0]); }
        }
    }
}
/// q is the node sequence of an occurrence of the segment in t (what Tour::sub_path returns on Ok, slices/tour_pos.vs)
pub open spec fn seg_nodes(t: &Tour, segment: Segment, q: Seq<NodeIdx>) -> bool {
    exists|i: int, j: int| 0 <= i <= j < t.len() && t.nodes@[i] == segment.start && t.nodes@[j] == segment.end
        && q == #[trigger] t.nodes@.subrange(i, j + 1)
}
/// what `sub_path(segment)?` yields: the offered segment; the precondition of fit_path_into_tour
pub proof fn lemma_fr_path(s: &Schedule, segment: Segment, p: VehicleIdx, rcv: VehicleIdx)
    requires s.fr_pre(segment, p, rcv),
    ensures
        forall|q: Seq<NodeIdx>| #![trigger s.fit_pre(q, p, rcv)] #![trigger seg_nodes(&s.sp_tour_of(p), segment, q)]
            seg_nodes(&s.sp_tour_of(p), segment, q) ==> q == s.fr_path(segment, p) && s.fit_pre(q, p, rcv),
{
    lemma_fr_setup(s, segment, p, rcv);
    lemma_fr_cut(s, segment, p, rcv);
    let tp = s.sp_tour_of(p);
    let lo = s.or_lo(segment, p);
    let hi = s.or_hi(segment, p);
    assert forall|q: Seq<NodeIdx>| #![trigger s.fit_pre(q, p, rcv)] #![trigger seg_nodes(&s.sp_tour_of(p), segment, q)]
        seg_nodes(&tp, segment, q) implies q == s.fr_path(segment, p) && s.fit_pre(q, p, rcv) by {
        let (i, j) = choose|i: int, j: int| 0 <= i <= j < tp.len() && tp.nodes@[i] == segment.start
            && tp.nodes@[j] == segment.end && q == #[trigger] tp.nodes@.subrange(i, j + 1);
        assert(Schedule::seg_at(&tp, segment, i, j));
        assert(i == lo && j == hi);
        assert(q.len() <= tp.len());
    }
}
/// C01: the type guard's guarantee, read on the offered segment
pub proof fn lemma_fr_guard(s: &Schedule, segment: Segment, p: VehicleIdx, rcv: VehicleIdx)
    requires s.fr_pre(segment, p, rcv),
    ensures
        // the postcondition of check_receiver_type_compatibility for the answer `true` (antecedent)
        (s.vehicles@.contains_key(rcv) && !(s.vehicles@.contains_key(p) && s.type_of(p) == s.type_of(rcv))
            ==> forall|i: int, j: int, q: int| #[trigger] Schedule::seg_at(&s.sp_tour_of(p), segment, i, j) && i <= q <= j
                ==> s.network.sp_compatible(#[trigger] s.sp_tour_of(p).nodes@[q], s.type_of(rcv)))
        ==> s.or_compatible(segment, p, rcv),
{
    lemma_fr_cut(s, segment, p, rcv);
    let tp = s.sp_tour_of(p);
    let lo = s.or_lo(segment, p);
    let hi = s.or_hi(segment, p);
    let m = s.or_moved(segment, p);
    if s.sp_is_vehicle(rcv) && !(s.sp_is_vehicle(p) && s.type_of(p) == s.type_of(rcv))
        && (forall|i: int, j: int, q: int| #[trigger] Schedule::seg_at(&s.sp_tour_of(p), segment, i, j) && i <= q <= j
                ==> s.network.sp_compatible(#[trigger] s.sp_tour_of(p).nodes@[q], s.type_of(rcv))) {
        assert forall|k: int| 0 <= k < m.len() implies s.network.sp_compatible(#[trigger] m[k], s.type_of(rcv)) by {
            assert(Schedule::seg_at(&tp, segment, lo, hi) && lo <= lo + k <= hi);
            assert(m[k] == tp.nodes@[lo + k]);
        }
    }
}
/// C01: every node the receiver gains is a node of the offered segment, hence compatible
pub proof fn lemma_fr_compatible(s: &Schedule, segment: Segment, p: VehicleIdx, rcv: VehicleIdx, ntp: Option<Tour>, ntr: Tour, m: Seq<NodeIdx>)
    requires s.fr_pre(segment, p, rcv), s.fr_outcome(segment, p, rcv, ntp, ntr, m),
    ensures s.or_compatible(segment, p, rcv) ==> s.fr_compatible(segment, p, rcv, ntr),
{
    let path = s.fr_path(segment, p);
    lemma_subseq_members(m, path);
    if s.or_compatible(segment, p, rcv) && s.sp_is_vehicle(rcv) && !(s.sp_is_vehicle(p) && s.type_of(p) == s.type_of(rcv)) {
        assert forall|n: NodeIdx| #[trigger] ntr.nodes@.contains(n) && !s.sp_tour_of(rcv).nodes@.contains(n)
            implies s.network.sp_compatible(n, s.type_of(rcv)) by {
            assert(m.contains(n));
            assert(path.contains(n));
            let k = choose|k: int| 0 <= k < path.len() && path[k] == n;
            assert(s.network.sp_compatible(s.or_moved(segment, p)[k], s.type_of(rcv)));
        }
    }
}
/// the precondition of update_tours (apart from tfu_pre)
pub proof fn lemma_fr_ut_pre(s: &Schedule, segment: Segment, p: VehicleIdx, rcv: VehicleIdx, ntp: Option<Tour>, ntr: Tour, m: Seq<NodeIdx>)
    requires s.fr_pre(segment, p, rcv), s.fr_outcome(segment, p, rcv, ntp, ntr, m), s.fr_fits(p, rcv, ntp, ntr, m),
    ensures
        s.ut_pre(s.vehicles@, s.tours@, s.depot_usage@, s.dummy_tours@, s.vehicle_ids_grouped_and_sorted@, s.dummy_ids_sorted@,
            s.costs, Some(p), ntp, rcv, ntr),
{
    lemma_fr_setup(s, segment, p, rcv);
    lemma_costs_arith_from_totals(s, s.costs as int, s.tours@, Some(p), ntp, rcv, ntr);
    assert(usage_exact_for(s.depot_usage@, &s.network, s.vehicles@, s.tours@, rcv));
    assert(usage_exact_for(s.depot_usage@, &s.network, s.vehicles@, s.tours@, p));
    assert(s.participant_ok(rcv));
    assert(s.participant_ok(p));
    if s.deletes_dummy(Some(p), ntp) {
        assert(s.dummy_ids_sorted@.contains(p) <==> s.dummy_tours@.contains_key(p));
    }
    if s.deletes_vehicle(Some(p), ntp) {
        assert(s.vehicle_ids_grouped_and_sorted@.contains_key(s.vehicles@[p].vehicle_type.idx));
        assert(listing_sorted(s.vehicle_ids_grouped_and_sorted@[s.type_of(p)]@));
        assert(s.vehicle_ids_grouped_and_sorted@[s.type_of(p)]@.contains(p));
    }
}
/// an id of the `Vehicle` kind among the participants is a real vehicle (C10 ids: dummies have `Dummy` ids)
pub proof fn lemma_fr_real(s: &Schedule, segment: Segment, p: VehicleIdx, rcv: VehicleIdx)
    requires s.fr_pre(segment, p, rcv),
    ensures
        p is Vehicle <==> s.sp_is_vehicle(p), rcv is Vehicle <==> s.sp_is_vehicle(rcv),
{
    if s.dummy_tours@.contains_key(p) { assert(p is Dummy); }
    if s.dummy_tours@.contains_key(rcv) { assert(rcv is Dummy); }
    if s.vehicles@.contains_key(p) { assert(p is Vehicle); }
    if s.vehicles@.contains_key(rcv) { assert(rcv is Vehicle); }
}
/// the precondition of the rotation-cycle update for the list [provider, receiver] and the maps update_tours leaves
pub proof fn lemma_fr_upd_pre_0(s: &Schedule, segment: Segment, p: VehicleIdx, rcv: VehicleIdx, ntp: Option<Tour>, ntr: Tour, m: Seq<NodeIdx>,
        vehicles1: VehicleMap, tours1: TourMap)
    requires
        s.fr_pre(segment, p, rcv), s.fr_outcome(segment, p, rcv, ntp, ntr, m), s.fr_fits(p, rcv, ntp, ntr, m),
        vehicles1 == s.vehicles_after(s.vehicles@, Some(p), ntp),
        tours1 == s.tours_after(s.tours@, Some(p), ntp, rcv, ntr),
    ensures
        s.upd_pre(s.next_period_transitions@, s.maintenance_violation as int, seq![p, rcv], vehicles1, tours1),
{
    lemma_fr_setup(s, segment, p, rcv);
    lemma_fr_real(s, segment, p, rcv);
    let trs = s.next_period_transitions@;
    let cv = seq![p, rcv];
    assert(cv.len() == 2 && cv[0] == p && cv[1] == rcv);
    // the new tours of real participants are admissible tours of a rotation cycle
    if s.sp_is_vehicle(rcv) {
        assert(tours1[rcv] == ntr);
        assert(tour_of_net(&s.network, &ntr));
        assert(tour_ok(&s.network, &ntr));
    }
    if s.sp_is_vehicle(p) && ntp is Some {
        assert(tours1[p] == ntp.unwrap());
        assert(tour_of_net(&s.network, &ntp.unwrap()));
        assert(tour_ok(&s.network, &ntp.unwrap()));
    }
    assert forall|i: int| 0 <= i < cv.len() && (#[trigger] cv[i]) is Vehicle implies s.change_ok(trs, vehicles1, tours1, cv[i]) by {
        if i == 0 { assert(s.eff_type(vehicles1, p) == s.type_of(p)); } else { assert(s.eff_type(vehicles1, rcv) == s.type_of(rcv)); }
    }
    assert forall|v: VehicleIdx| !real_in(cv, v) implies (s.vehicles@.contains_key(v) <==> #[trigger] vehicles1.contains_key(v)) by {
        if v == p { assert(cv[0] == p); assert(cv.contains(p)); }
    }
    assert forall|v: VehicleIdx| !real_in(cv, v) && #[trigger] vehicles1.contains_key(v) implies tours1.contains_key(v) && tours1[v] == s.tours@[v] by {
        assert(s.vehicles@.contains_key(v));
        assert(s.tours@.contains_key(v));
        if v == p { assert(cv[0] == p); assert(cv.contains(p)); }
        if v == rcv { assert(cv[1] == rcv); assert(cv.contains(rcv)); }
        lemma_frame(s, s.vehicles@, s.tours@, s.dummy_tours@, Some(p), ntp, rcv, ntr, v);
    }
    assert forall|i: int, j: int| 0 <= i < j < cv.len() && cv[i] is Vehicle implies #[trigger] cv[i] != #[trigger] cv[j] by {}
}
pub proof fn lemma_fr_upd_pre(s: &Schedule, segment: Segment, p: VehicleIdx, rcv: VehicleIdx, ntp: Option<Tour>, ntr: Tour, m: Seq<NodeIdx>,
        vehicles1: VehicleMap, tours1: TourMap)
    requires
        s.fr_pre(segment, p, rcv), s.fr_outcome(segment, p, rcv, ntp, ntr, m), s.fr_fits(p, rcv, ntp, ntr, m),
        vehicles1 == s.vehicles_after(s.vehicles@, Some(p), ntp),
        tours1 == s.tours_after(s.tours@, Some(p), ntp, rcv, ntr),
    ensures
        // for `vec![provider, receiver]`, whatever sequence of these two items its view is
        forall|cv: Seq<VehicleIdx>| cv.len() == 2 && cv[0] == p && cv[1] == rcv
            ==> #[trigger] s.upd_pre(s.next_period_transitions@, s.maintenance_violation as int, cv, vehicles1, tours1),
        forall|cv: Seq<VehicleIdx>| #![trigger cv.len()] cv.len() == 2 && cv[0] == p && cv[1] == rcv
            ==> (forall|i: int, j: int| 0 <= i < j < cv.len() && cv[i] is Vehicle ==> #[trigger] cv[i] != #[trigger] cv[j]),
        // only the types of the (real) participants are touched
        forall|cv: Seq<VehicleIdx>, vt: VehicleTypeIdx| cv.len() == 2 && cv[0] == p && cv[1] == rcv && #[trigger] s.touches_type(vehicles1, cv, vt)
            ==> (s.sp_is_vehicle(p) && s.type_of(p) == vt) || (s.sp_is_vehicle(rcv) && s.type_of(rcv) == vt),
{
    lemma_fr_upd_pre_0(s, segment, p, rcv, ntp, ntr, m, vehicles1, tours1);
    lemma_fr_real(s, segment, p, rcv);
    assert forall|cv: Seq<VehicleIdx>| cv.len() == 2 && cv[0] == p && cv[1] == rcv
        implies #[trigger] s.upd_pre(s.next_period_transitions@, s.maintenance_violation as int, cv, vehicles1, tours1) by {
        assert(cv =~= seq![p, rcv]);
    }
    assert forall|cv: Seq<VehicleIdx>, vt: VehicleTypeIdx| cv.len() == 2 && cv[0] == p && cv[1] == rcv && #[trigger] s.touches_type(vehicles1, cv, vt)
        implies (s.sp_is_vehicle(p) && s.type_of(p) == vt) || (s.sp_is_vehicle(rcv) && s.type_of(rcv) == vt) by {
        let i = choose|i: int| 0 <= i < cv.len() && (#[trigger] cv[i]) is Vehicle && s.eff_type(vehicles1, cv[i]) == vt;
        if i == 0 { assert(s.eff_type(vehicles1, p) == s.type_of(p)); } else { assert(s.eff_type(vehicles1, rcv) == s.type_of(rcv)); }
    }
}

// =====================================================================================================
// lemmas: the postconditions.  The facts the callees' contracts provide are ANTECEDENTS of the conclusions (not
// `requires`): if the code stops providing one of them, the failing obligation is the tagged postcondition of
// fit_reassign, not the call of the lemma.
// =====================================================================================================
/// the moved activities, read off the provider's new tour, are the non-depot nodes of m
pub proof fn lemma_fr_moved_act(s: &Schedule, segment: Segment, p: VehicleIdx, rcv: VehicleIdx, ntp: Option<Tour>, ntr: Tour, m: Seq<NodeIdx>)
    requires s.fr_pre(segment, p, rcv), s.fr_outcome(segment, p, rcv, ntp, ntr, m),
    ensures forall|n: NodeIdx| #![trigger s.fr_moved_act(p, ntp, n)] #![trigger moved_nd(&s.network, m, n)] moved_nd(&s.network, m, n) <==> s.fr_moved_act(p, ntp, n),
{
    lemma_fr_cut(s, segment, p, rcv);
    let path = s.fr_path(segment, p);
    let tp = s.sp_tour_of(p);
    lemma_subseq_members(m, path);
    assert forall|n: NodeIdx| #![trigger s.fr_moved_act(p, ntp, n)] #![trigger moved_nd(&s.network, m, n)] moved_nd(&s.network, m, n) <==> s.fr_moved_act(p, ntp, n) by {
        if moved_nd(&s.network, m, n) {
            assert(path.contains(n));
            assert(tp.nodes@.contains(n));
        }
        if s.fr_moved_act(p, ntp, n) {
            if ntp is None {
                assert(tp.nodes@.contains(n) && !m.contains(n) ==> s.network.sp_node(n).sp_is_depot());
            }
        }
    }
}
/// C13 (1) / C09: provider, receiver, all other tours, the costs
pub proof fn lemma_fr_tours_post(s: &Schedule, segment: Segment, p: VehicleIdx, rcv: VehicleIdx, ntp: Option<Tour>, ntr: Tour, m: Seq<NodeIdx>,
        vehicles1: VehicleMap, tours1: TourMap, dummies1: TourMap, costs1: Cost)
    requires s.fr_pre(segment, p, rcv), s.fr_outcome(segment, p, rcv, ntp, ntr, m),
    ensures
        ({
            &&& vehicles1 == s.vehicles_after(s.vehicles@, Some(p), ntp)
            &&& tours1 == s.tours_after(s.tours@, Some(p), ntp, rcv, ntr)
            &&& dummies1 == s.dummies_after(s.dummy_tours@, Some(p), ntp, rcv, ntr)
        }) ==> {
            &&& tour_opt_in(tours1, dummies1, p) == ntp && tour_in(tours1, dummies1, rcv) == ntr
            &&& s.fr_tours_after(segment, p, rcv, tours1, dummies1)
            &&& s.fr_maps_after(p, rcv, vehicles1, tours1, dummies1)
            &&& costs1 == s.costs - s.cost_out_provider(s.tours@, Some(p)) - s.cost_out_receiver(s.tours@, rcv)
                    + s.cost_in_provider(Some(p), ntp) + s.cost_in_receiver(rcv, ntr)
                ==> s.or_costs_after(p, rcv, tours1, dummies1, costs1)
        },
{
    lemma_fr_setup(s, segment, p, rcv);
    if vehicles1 == s.vehicles_after(s.vehicles@, Some(p), ntp)
        && tours1 == s.tours_after(s.tours@, Some(p), ntp, rcv, ntr)
        && dummies1 == s.dummies_after(s.dummy_tours@, Some(p), ntp, rcv, ntr) {
        assert(tour_opt_in(tours1, dummies1, p) == ntp);
        assert(tour_in(tours1, dummies1, rcv) == ntr);
        assert(s.fr_outcome(segment, p, rcv, tour_opt_in(tours1, dummies1, p), tour_in(tours1, dummies1, rcv), m));
    }
}
/// C10 (ids): the ids stay valid
pub proof fn lemma_fr_ids_post(s: &Schedule, segment: Segment, p: VehicleIdx, rcv: VehicleIdx, ntp: Option<Tour>, ntr: Tour,
        vehicles1: VehicleMap, tours1: TourMap, dummies1: TourMap, grouped1: Grouped, ids1: Seq<VehicleIdx>)
    requires s.fr_pre(segment, p, rcv),
    ensures
        ({
            &&& vehicles1 == s.vehicles_after(s.vehicles@, Some(p), ntp)
            &&& tours1 == s.tours_after(s.tours@, Some(p), ntp, rcv, ntr)
            &&& dummies1 == s.dummies_after(s.dummy_tours@, Some(p), ntp, rcv, ntr)
            &&& listings_ok(vehicles1, dummies1, grouped1, ids1)
        }) ==> ids_valid(vehicles1, tours1, dummies1, ids1, s.vehicle_counter),
{
    lemma_fr_setup(s, segment, p, rcv);
    if vehicles1 == s.vehicles_after(s.vehicles@, Some(p), ntp) && tours1 == s.tours_after(s.tours@, Some(p), ntp, rcv, ntr)
        && dummies1 == s.dummies_after(s.dummy_tours@, Some(p), ntp, rcv, ntr) && sorted_cmp(ids1) {
        assert forall|v: VehicleIdx| #[trigger] vehicles1.contains_key(v) implies v is Vehicle && vehicles1[v].idx == v by {
            assert(s.vehicles@.contains_key(v));
        }
        assert forall|v: VehicleIdx| #[trigger] vehicles1.contains_key(v) <==> tours1.contains_key(v) by {
            assert(s.vehicles@.contains_key(v) <==> s.tours@.contains_key(v));
        }
        assert forall|d: VehicleIdx| #[trigger] dummies1.contains_key(d) implies d is Dummy && (d->Dummy_0 as int) < s.vehicle_counter by {
            assert(s.dummy_tours@.contains_key(d));
        }
    }
}
/// C10 / C13 (2): the formations, read with the moved activities
pub proof fn lemma_fr_formations_post(s: &Schedule, segment: Segment, p: VehicleIdx, rcv: VehicleIdx, ntp: Option<Tour>, ntr: Tour, m: Seq<NodeIdx>, tf: Formations)
    requires s.fr_pre(segment, p, rcv), s.fr_outcome(segment, p, rcv, ntp, ntr, m),
    ensures
        s.formations_elsewhere_untouched(m, s.train_formations@, tf) ==> s.fr_formations_elsewhere(p, ntp, tf),
        s.moved_get_replacement(m, s.train_formations@, tf, Some(p), s.sp_receiver_vehicle(rcv)) ==> s.fr_formations_moved(p, rcv, ntp, tf),
{
    lemma_fr_moved_act(s, segment, p, rcv, ntp, ntr, m);
    let tf0 = s.train_formations@;
    if s.formations_elsewhere_untouched(m, tf0, tf) {
        assert forall|n: NodeIdx| #![trigger s.fr_moved_act(p, ntp, n)] #![trigger tf[n]] !s.fr_moved_act(p, ntp, n) implies tf[n] == tf0[n] by {
            assert(!moved_nd(&s.network, m, n));
        }
    }
    if s.moved_get_replacement(m, tf0, tf, Some(p), s.sp_receiver_vehicle(rcv)) {
        assert forall|n: NodeIdx| #![trigger s.fr_moved_act(p, ntp, n)] #![trigger tf[n]] s.fr_moved_act(p, ntp, n) implies
            tf[n].formation@ == s.repl_seq(tf0[n].formation@, Some(p), s.sp_receiver_vehicle(rcv))
            && s.repl_ok(tf0[n].formation@, Some(p), s.sp_receiver_vehicle(rcv), n) by {
            assert(moved_nd(&s.network, m, n));
        }
    }
}
/// C09: the unserved-passenger pair
pub proof fn lemma_fr_unserved_post(s: &Schedule, segment: Segment, p: VehicleIdx, rcv: VehicleIdx, ntp: Option<Tour>, ntr: Tour, m: Seq<NodeIdx>,
        tours1: TourMap, dummies1: TourMap, uf: (PassengerCount, PassengerCount))
    requires s.fr_outcome(segment, p, rcv, ntp, ntr, m),
    ensures
        ({
            let tf0 = s.train_formations@;
            let rv = s.sp_receiver_vehicle(rcv);
            &&& tour_opt_in(tours1, dummies1, p) == ntp && tour_in(tours1, dummies1, rcv) == ntr
            &&& uf.0 == s.unserved_passengers.0 - s.un_sum(tf0, Some(p), rv, m, m.len() as int, false, 0) + s.un_sum(tf0, Some(p), rv, m, m.len() as int, true, 0)
            &&& uf.1 == s.unserved_passengers.1 - s.un_sum(tf0, Some(p), rv, m, m.len() as int, false, 1) + s.un_sum(tf0, Some(p), rv, m, m.len() as int, true, 1)
        }) ==> s.fr_unserved_after(segment, p, rcv, tours1, dummies1, uf),
{
}

// =====================================================================================================
// Schedule::fit_path_into_tour: vocabulary and lemmas for the verification of its body
// =====================================================================================================
/// the nodes of `remaining_path`
pub open spec fn opt_nodes(o: Option<Path>) -> Option<Seq<NodeIdx>> {
    match o { Some(p) => Some(p.node_sequence@), None => None }
}
/// the nodes r are a contiguous block of the tour t
pub open spec fn contig(t: &Tour, r: Seq<NodeIdx>) -> bool {
    exists|pos: int| 0 <= pos && pos + r.len() <= t.len() && #[trigger] t.nodes@.subrange(pos, pos + r.len()) == r
}
/// the items of `path.iter().enumerate()` and of everything map_while / filter / last make of them: (i, r[i])
pub open spec fn items_ok(s: Seq<(usize, NodeIdx)>, r: Seq<NodeIdx>) -> bool {
    forall|i: int| 0 <= i < s.len() ==> (#[trigger] s[i]).0 < r.len() && s[i].1 == r[s[i].0 as int]
}
pub proof fn lemma_items_filter(s: Seq<(usize, NodeIdx)>, mask: Seq<bool>, r: Seq<NodeIdx>)
    requires items_ok(s, r),
    ensures items_ok(mask_filter(s, mask), r),
    decreases s.len(),
{
    if s.len() > 0 && mask.len() == s.len() {
        let s1 = s.drop_last();
        assert forall|i: int| 0 <= i < s1.len() implies (#[trigger] s1[i]).0 < r.len() && s1[i].1 == r[s1[i].0 as int] by {
            assert(s1[i] == s[i]);
        }
        lemma_items_filter(s1, mask.drop_last(), r);
        let f1 = mask_filter(s1, mask.drop_last());
        let f = mask_filter(s, mask);
        assert forall|i: int| 0 <= i < f.len() implies (#[trigger] f[i]).0 < r.len() && f[i].1 == r[f[i].0 as int] by {
            if i < f1.len() { assert(f[i] == f1[i]); } else { assert(f[i] == s[s.len() - 1]); }
        }
    }
}
/// what the iterator chain of fit_path_into_tour needs, for ALL sequences it may produce (no proof block fits between
/// the adapters): filtering keeps items of the form (i, r[i])
pub proof fn lemma_items_chain(r: Seq<NodeIdx>)
    ensures forall|s: Seq<(usize, NodeIdx)>, mask: Seq<bool>| items_ok(s, r) ==> items_ok(#[trigger] mask_filter(s, mask), r),
{
    assert forall|s: Seq<(usize, NodeIdx)>, mask: Seq<bool>| items_ok(s, r) implies items_ok(#[trigger] mask_filter(s, mask), r) by {
        lemma_items_filter(s, mask, r);
    }
}
pub proof fn lemma_concat_contains(a: Seq<NodeIdx>, b: Seq<NodeIdx>)
    ensures forall|x: NodeIdx| #[trigger] (a + b).contains(x) <==> a.contains(x) || b.contains(x),
{
    let c = a + b;
    assert forall|x: NodeIdx| #[trigger] c.contains(x) <==> a.contains(x) || b.contains(x) by {
        if c.contains(x) {
            let i = choose|i: int| 0 <= i < c.len() && c[i] == x;
            if i < a.len() { assert(a[i] == x); } else { assert(b[i - a.len()] == x); }
        }
        if a.contains(x) { let i = choose|i: int| 0 <= i < a.len() && a[i] == x; assert(c[i] == x); }
        if b.contains(x) { let i = choose|i: int| 0 <= i < b.len() && b[i] == x; assert(c[a.len() + i] == x); }
    }
}
pub proof fn lemma_subrange_contains(a: Seq<NodeIdx>, i: int, j: int)
    requires 0 <= i <= j <= a.len(),
    ensures forall|x: NodeIdx| #[trigger] a.subrange(i, j).contains(x) ==> a.contains(x),
{
    let c = a.subrange(i, j);
    assert forall|x: NodeIdx| #[trigger] c.contains(x) implies a.contains(x) by {
        let q = choose|q: int| 0 <= q < c.len() && c[q] == x;
        assert(a[i + q] == x);
    }
}
pub proof fn lemma_subseq_trans(a: Seq<NodeIdx>, b: Seq<NodeIdx>, c: Seq<NodeIdx>)
    requires is_subseq(a, b), is_subseq(b, c),
    ensures is_subseq(a, c),
{
    let f = choose|f: Seq<int>| #[trigger] subseq_by(a, b, f);
    let g = choose|g: Seq<int>| #[trigger] subseq_by(b, c, g);
    let h = Seq::new(a.len(), |k: int| g[f[k]]);
    assert forall|k: int| 0 <= k < a.len() implies 0 <= #[trigger] h[k] < c.len() && a[k] == c[h[k]] by {
        assert(0 <= f[k] < b.len());
        assert(0 <= g[f[k]] < c.len());
    }
    assert forall|k: int, l: int| 0 <= k < l < a.len() implies #[trigger] h[k] < #[trigger] h[l] by {
        assert(f[k] < f[l]);
        assert(0 <= f[k] && f[l] < b.len());
        assert(g[f[k]] < g[f[l]]);
    }
    assert(subseq_by(a, c, h));
}
/// a sub-sequence of a prefix is a sub-sequence of every longer prefix
pub proof fn lemma_subseq_prefix(m: Seq<NodeIdx>, path: Seq<NodeIdx>, k: int, k2: int)
    requires 0 <= k <= k2 <= path.len(), is_subseq(m, path.subrange(0, k)),
    ensures is_subseq(m, path.subrange(0, k2)),
{
    let f = choose|f: Seq<int>| #[trigger] subseq_by(m, path.subrange(0, k), f);
    assert forall|i: int| 0 <= i < m.len() implies 0 <= #[trigger] f[i] < path.subrange(0, k2).len() && m[i] == path.subrange(0, k2)[f[i]] by {
        assert(m[i] == path.subrange(0, k)[f[i]]);
    }
    assert(subseq_by(m, path.subrange(0, k2), f));
}
/// appending the next block of the path to the moved nodes
pub proof fn lemma_subseq_append(m: Seq<NodeIdx>, path: Seq<NodeIdx>, k: int, k2: int)
    requires 0 <= k <= k2 <= path.len(), is_subseq(m, path.subrange(0, k)),
    ensures is_subseq(m + path.subrange(k, k2), path.subrange(0, k2)),
{
    let f = choose|f: Seq<int>| #[trigger] subseq_by(m, path.subrange(0, k), f);
    let m2 = m + path.subrange(k, k2);
    let p2 = path.subrange(0, k2);
    let g = Seq::new(m2.len(), |i: int| if i < m.len() { f[i] } else { k + (i - m.len()) });
    assert forall|i: int| 0 <= i < m2.len() implies 0 <= #[trigger] g[i] < p2.len() && m2[i] == p2[g[i]] by {
        if i < m.len() { assert(m[i] == path.subrange(0, k)[f[i]]); }
    }
    assert forall|i: int, j: int| 0 <= i < j < m2.len() implies #[trigger] g[i] < #[trigger] g[j] by {
        if j < m.len() { assert(f[i] < f[j]); } else if i < m.len() { assert(0 <= f[i] < k); }
    }
    assert(subseq_by(m2, p2, g));
}
pub proof fn lemma_tour_nodup(t: &Tour)
    requires t.wf(),
    ensures t.nodes@.no_duplicates(),
{
    assert forall|i: int, j: int| 0 <= i < t.nodes@.len() && 0 <= j < t.nodes@.len() && i != j implies t.nodes@[i] != t.nodes@[j] by {
        if t.nodes@[i] == t.nodes@[j] { lemma_tour_distinct(t, i, j); }
    }
}
/// the "longest prefix" / "longest suffix" positions are unique
pub proof fn lemma_start_pos_unique(t: &Tour, x: NodeIdx, a: int, b: int)
    requires t.is_start_pos(x, a), t.is_start_pos(x, b),
    ensures a == b,
{
    if a < b { assert(!t.network.reach(t.nodes@[b - 1], x)); }
    if b < a { assert(!t.network.reach(t.nodes@[a - 1], x)); }
}
pub proof fn lemma_end_pos_unique(t: &Tour, x: NodeIdx, a: int, b: int)
    requires t.is_end_pos(x, a), t.is_end_pos(x, b),
    ensures a == b,
{
    if a < b { assert(!t.network.reach(x, t.nodes@[a])); }
    if b < a { assert(!t.network.reach(x, t.nodes@[b])); }
}

// ---- the provider's side of one step: Tour::remove -----------------------------------------------------------
/// what is left after an accepted removal of [s ..= e]: the old nodes in the old order without exactly the block; nothing
/// but depots is left exactly in the cases in which Tour::remove returns no tour; a block behind e stays a block
pub proof fn lemma_fit_provider_step(t: &Tour, s: int, e: int, len2: int)
    requires t.wf(), tour_len_ok(t.nodes@), 0 <= s <= e < t.len(), t.removable(s, e), 0 <= len2, e + 1 + len2 <= t.len(),
    ensures
        is_subseq(t.rest(s, e + 1), t.nodes@),
        forall|x: NodeIdx| #![trigger t.rest(s, e + 1).contains(x)] #![trigger t.nodes@.contains(x)]
            t.rest(s, e + 1).contains(x) <==> t.nodes@.contains(x) && !t.mid(s, e + 1).contains(x),
        (if t.is_dummy { t.rest(s, e + 1).len() == 0 } else { t.rest(s, e + 1).len() <= 2 }) <==> all_depots(&t.network, t.rest(s, e + 1)),
        s + len2 <= t.rest(s, e + 1).len(),
        t.rest(s, e + 1).subrange(s, s + len2) == t.nodes@.subrange(e + 1, e + 1 + len2),
{
    let net = &t.network;
    let e1 = e + 1;
    lemma_cuts(t, s, e1);
    reveal(Tour::pre); reveal(Tour::suf);
    let rest = t.rest(s, e1);
    let mid = t.mid(s, e1);
    let d = e1 - s;
    assert(rest =~= t.nodes@.subrange(0, s) + t.nodes@.subrange(e1, t.len()));
    // order
    let f = Seq::new(rest.len(), |i: int| if i < s { i } else { i + d });
    assert forall|i: int| 0 <= i < rest.len() implies 0 <= #[trigger] f[i] < t.nodes@.len() && rest[i] == t.nodes@[f[i]] by {}
    assert forall|i: int, j: int| 0 <= i < j < rest.len() implies #[trigger] f[i] < #[trigger] f[j] by {}
    assert(subseq_by(rest, t.nodes@, f));
    // members
    assert forall|x: NodeIdx| #![trigger rest.contains(x)] #![trigger t.nodes@.contains(x)]
        rest.contains(x) <==> t.nodes@.contains(x) && !mid.contains(x) by {
        if rest.contains(x) {
            let i = choose|i: int| 0 <= i < rest.len() && rest[i] == x;
            assert(t.nodes@[f[i]] == x);
            if mid.contains(x) {
                let j = choose|j: int| 0 <= j < mid.len() && mid[j] == x;
                assert(t.nodes@[s + j] == x);
                lemma_tour_distinct(t, f[i], s + j);
            }
        }
        if t.nodes@.contains(x) && !mid.contains(x) {
            let q = choose|q: int| 0 <= q < t.nodes@.len() && t.nodes@[q] == x;
            if q < s { assert(rest[q] == x); }
            else if q < e1 { assert(mid[q - s] == x); }
            else { assert(rest[q - d] == x); }
        }
    }
    // nothing but depots left
    if t.is_dummy {
        if rest.len() > 0 { lemma_tour_kinds(t, f[0]); assert(rest[0] == t.nodes@[f[0]]); assert(!net.sp_node(rest[0]).sp_is_depot()); }
    } else {
        lemma_tour_kinds(t, 0); lemma_tour_kinds(t, t.len() - 1);
        if rest.len() <= 2 {
            assert forall|i: int| 0 <= i < rest.len() implies (#[trigger] net.sp_node(rest[i])).sp_is_depot() by {
                // not strands_depot: a remaining depot side has no activity left
                if s >= 1 && e1 <= t.len() - 1 {
                    assert(rest.len() == 2 && s == 1 && e1 == t.len() - 1);
                    if i == 0 { assert(rest[0] == t.nodes@[0]); } else { assert(rest[1] == t.nodes@[t.len() - 1]); }
                } else if s == 0 {
                    assert(e1 >= t.len() - 1);
                    assert(rest[i] == t.nodes@[t.len() - 1]);
                } else {
                    assert(e == t.len() - 1 && s <= 1);
                    assert(rest[i] == t.nodes@[0]);
                }
            }
        } else {
            // three nodes left: one of them is an inner node
            if s >= 2 {
                lemma_tour_kinds(t, 1);
                assert(rest[1] == t.nodes@[1]);
                assert(!net.sp_node(rest[1]).sp_is_depot());
            } else {
                let q = t.len() - 2;
                assert(q >= e1);
                lemma_tour_kinds(t, q);
                assert(rest[q - d] == t.nodes@[q]);
                assert(!net.sp_node(rest[q - d]).sp_is_depot());
            }
        }
    }
    // a block behind the removed one
    assert(rest.subrange(s, s + len2) =~= t.nodes@.subrange(e1, e1 + len2));
}

// ---- the receiver's side of one step: Tour::conflict is None, then Tour::insert_path -----------------------------
/// Tour::conflict found nothing but depots to displace for the block c (its contract, slices/tour_pos.vs)
pub open spec fn no_conflict(t: &Tour, c: Seq<NodeIdx>) -> bool {
    exists|s: int, e: int| {
        &&& 0 <= s <= e <= t.len()
        &&& (if t.network.sp_node(c[0]).sp_is_depot() { s == 0 } else { t.is_start_pos(c[0], s) })
        &&& (if t.network.sp_node(c[c.len() - 1]).sp_is_depot() { e == t.len() } else { t.is_end_pos(c[c.len() - 1], e) })
        &&& #[trigger] all_depots(&t.network, t.nodes@.subrange(s, e))
    }
}
/// Tour::insert_path put the block c into the tour (its contract, slices/tour_mod.vs)
pub open spec fn inserted(t: &Tour, c: Seq<NodeIdx>, new_nodes: Seq<NodeIdx>) -> bool {
    exists|s: int, e: int| ins_positions(t, eff_path(t, c), s, e) && 0 <= s <= e <= t.len()
        && new_nodes == #[trigger] t.spliced(s, e, eff_path(t, c))
}
pub proof fn lemma_strip_ends(net: &Network, c: Seq<NodeIdx>)
    requires net.wf(), path_shape(net, c),
    ensures
        strip_depots(net, c).len() >= 1,
        !net.sp_node(c[0]).sp_is_depot() ==> strip_depots(net, c)[0] == c[0],
        !net.sp_node(c[c.len() - 1]).sp_is_depot() ==> strip_depots(net, c)[strip_depots(net, c).len() - 1] == c[c.len() - 1],
        forall|x: NodeIdx| #[trigger] strip_depots(net, c).contains(x) ==> c.contains(x),
        forall|x: NodeIdx| #[trigger] c.contains(x) && !net.sp_node(x).sp_is_depot() ==> strip_depots(net, c).contains(x),
{
    lemma_strip(net, c);
    let a = if net.sp_node(c[0]).sp_is_depot() { c.subrange(1, c.len() as int) } else { c };
    let r = strip_depots(net, c);
    let off: int = if net.sp_node(c[0]).sp_is_depot() { 1 } else { 0 };
    assert(r.len() >= 1);
    assert forall|i: int| 0 <= i < r.len() implies #[trigger] r[i] == c[i + off] by {}
    assert forall|x: NodeIdx| #[trigger] r.contains(x) implies c.contains(x) by {
        let i = choose|i: int| 0 <= i < r.len() && r[i] == x;
        assert(c[i + off] == x);
    }
    assert forall|x: NodeIdx| #[trigger] c.contains(x) && !net.sp_node(x).sp_is_depot() implies r.contains(x) by {
        let i = choose|i: int| 0 <= i < c.len() && c[i] == x;
        assert(i >= off);
        assert(i - off < r.len()) by {
            if i - off >= r.len() { assert(i == c.len() - 1); assert(net.sp_node(a[a.len() - 1]).sp_is_depot()); assert(a[a.len() - 1] == c[c.len() - 1]); }
        }
        assert(r[i - off] == x);
    }
}
/// the receiver's tour after the block went in: its activities are the old ones plus the block's, nothing else came in
pub proof fn lemma_fit_receiver_step(t: &Tour, c: Seq<NodeIdx>, new_nodes: Seq<NodeIdx>)
    requires
        t.wf(), tour_len_ok(t.nodes@), path_shape(&t.network, c), tour_len_ok(c),
        no_conflict(t, c), inserted(t, c, new_nodes),
    ensures
        forall|x: NodeIdx| #![trigger new_nodes.contains(x)] #![trigger t.nodes@.contains(x)] #![trigger c.contains(x)]
            !t.network.sp_node(x).sp_is_depot() ==> (new_nodes.contains(x) <==> t.nodes@.contains(x) || c.contains(x)),
        forall|x: NodeIdx| #[trigger] new_nodes.contains(x) ==> t.nodes@.contains(x) || c.contains(x),
        new_nodes.len() <= t.len() + c.len(),
{
    let net = &t.network;
    let n = eff_path(t, c);
    let (s, e) = choose|s: int, e: int| {
        &&& 0 <= s <= e <= t.len()
        &&& (if net.sp_node(c[0]).sp_is_depot() { s == 0 } else { t.is_start_pos(c[0], s) })
        &&& (if net.sp_node(c[c.len() - 1]).sp_is_depot() { e == t.len() } else { t.is_end_pos(c[c.len() - 1], e) })
        &&& #[trigger] all_depots(net, t.nodes@.subrange(s, e))
    };
    let (s2, e2) = choose|s2: int, e2: int| ins_positions(t, n, s2, e2) && 0 <= s2 <= e2 <= t.len() && new_nodes == #[trigger] t.spliced(s2, e2, n);
    lemma_strip_ends(net, c);
    lemma_strip(net, c);
    // s <= s2 <= e2 <= e
    if !net.sp_node(c[0]).sp_is_depot() {
        assert(n[0] == c[0]);
        lemma_start_pos_unique(t, c[0], s, s2);
    }
    if !net.sp_node(c[c.len() - 1]).sp_is_depot() {
        assert(n[n.len() - 1] == c[c.len() - 1]);
        lemma_end_pos_unique(t, c[c.len() - 1], e, e2);
    }
    if t.is_dummy {
        // a dummy tour has no depots: nothing is displaced
        if s < e {
            lemma_tour_kinds(t, s);
            assert(t.nodes@.subrange(s, e)[0] == t.nodes@[s]);
            assert(net.sp_node(t.nodes@.subrange(s, e)[0]).sp_is_depot());
        }
        assert(s == e);
    } else {
        assert(n == c);
    }
    assert(s <= s2 <= e2 <= e);
    assert(path_shape(net, n) && tour_len_ok(n)) by { if t.is_dummy { assert(n.len() <= c.len()); } }
    lemma_spliced(t, s2, e2, n);
    lemma_cuts(t, s2, e2);
    let pre = t.pre(s2); let mid = t.mid(s2, e2); let suf = t.suf(e2);
    assert forall|i: int| 0 <= i < mid.len() implies (#[trigger] net.sp_node(mid[i])).sp_is_depot() by {
        assert(mid[i] == t.nodes@.subrange(s, e)[s2 - s + i]);
    }
    lemma_concat_contains(pre, n);
    lemma_concat_contains(pre + n, suf);
    lemma_concat_contains(pre, mid);
    lemma_concat_contains(pre + mid, suf);
    assert(new_nodes == pre + n + suf);
    assert(t.nodes@ == pre + mid + suf);
    assert forall|x: NodeIdx| #![trigger new_nodes.contains(x)] #![trigger t.nodes@.contains(x)] #![trigger c.contains(x)]
        !net.sp_node(x).sp_is_depot() implies (new_nodes.contains(x) <==> t.nodes@.contains(x) || c.contains(x)) by {
        if mid.contains(x) {
            let i = choose|i: int| 0 <= i < mid.len() && mid[i] == x;
            assert(net.sp_node(mid[i]).sp_is_depot());
        }
        assert((pre + n + suf).contains(x) <==> (pre + n).contains(x) || suf.contains(x));
        assert((pre + mid + suf).contains(x) <==> (pre + mid).contains(x) || suf.contains(x));
    }
    assert forall|x: NodeIdx| #[trigger] new_nodes.contains(x) implies t.nodes@.contains(x) || c.contains(x) by {
        assert((pre + n + suf).contains(x) <==> (pre + n).contains(x) || suf.contains(x));
        assert((pre + mid + suf).contains(x) <==> (pre + mid).contains(x) || suf.contains(x));
    }
}

// ---- the loop invariant: initially, what it provides inside an iteration, after a skipped block, after a moved block
pub proof fn lemma_fit_init(s: &Schedule, path: Seq<NodeIdx>, p: VehicleIdx, rcv: VehicleIdx, t0: Tour, r0: Tour)
    requires s.fit_pre(path, p, rcv), t0 == s.sp_tour_of(p), r0 == s.sp_tour_of(rcv),
    ensures s.fit_inv(path, p, rcv, Some(t0), r0, Seq::<NodeIdx>::empty(), Some(path), 0),
{
    let tp = s.sp_tour_of(p);
    let n = path.len() as int;
    let m = Seq::<NodeIdx>::empty();
    lemma_subseq_empty(path.subrange(0, 0));
    lemma_subseq_refl(tp.nodes@);
    let (i, j) = choose|i: int, j: int| 0 <= i <= j < tp.len() && path == #[trigger] tp.nodes@.subrange(i, j + 1);
    assert(path.subrange(0, n) =~= path);
    assert(tp.nodes@.subrange(i, i + n) == path.subrange(0, n));
    assert(contig(&tp, path.subrange(0, n)));
    // the provider's tour has an activity (the path has one)
    let q = choose|q: int| 0 <= q < path.len() && !(#[trigger] s.network.sp_node(path[q])).sp_is_depot();
    assert(tp.nodes@[i + q] == path[q]);
    assert(tp.nodes@.contains(path[q]) && !m.contains(path[q]));
}
/// what the invariant provides inside an iteration (the preconditions of the callees, the panics)
pub proof fn lemma_fit_iter(s: &Schedule, path: Seq<NodeIdx>, p: VehicleIdx, rcv: VehicleIdx, ntp: Option<Tour>, ntr: Tour, m: Seq<NodeIdx>,
        rem: Option<Seq<NodeIdx>>, k: int)
    requires s.fit_inv(path, p, rcv, ntp, ntr, m, rem, k), rem is Some,
    ensures
        rem.unwrap().len() >= 1, rem.unwrap().len() == path.len() - k, tour_len_ok(rem.unwrap()),
        s.network.wf(),
        forall|i: int| 0 <= i < rem.unwrap().len() ==> s.network.has(#[trigger] rem.unwrap()[i]),
        forall|a: int, b: int| 0 <= a <= b <= rem.unwrap().len() ==> all_in_net(&s.network, #[trigger] rem.unwrap().subrange(a, b)),
        ntp is Some,
        ntp.unwrap().wf(), ntp.unwrap().caches_ok(), tour_len_ok(ntp.unwrap().nodes@), *ntp.unwrap().network == *s.network,
        ntr.wf(), ntr.caches_ok(), tour_len_ok(ntr.nodes@), *ntr.network == *s.network,
        forall|i: int| 0 <= i < ntr.len() ==> s.network.has(#[trigger] ntr.nodes@[i]),
{
    let r = rem.unwrap();
    let t = ntp.unwrap();
    let tp = s.sp_tour_of(p);
    lemma_tour_nodup(&tp);
    lemma_subseq_members(t.nodes@, tp.nodes@);
    let pos = choose|pos: int| 0 <= pos && pos + r.len() <= t.len() && #[trigger] t.nodes@.subrange(pos, pos + r.len()) == r;
    assert forall|i: int| 0 <= i < r.len() implies s.network.has(#[trigger] r[i]) by {
        assert(t.nodes@.subrange(pos, pos + r.len())[i] == t.nodes@[pos + i]);
        assert(t.network.has(t.nodes@[pos + i]));
    }
    assert forall|a: int, b: int| 0 <= a <= b <= r.len() implies all_in_net(&s.network, #[trigger] r.subrange(a, b)) by {
        assert forall|i: int| 0 <= i < r.subrange(a, b).len() implies #[trigger] s.network.has(r.subrange(a, b)[i]) by {
            assert(r.subrange(a, b)[i] == r[a + i]);
        }
    }
    assert forall|i: int| 0 <= i < ntr.len() implies s.network.has(#[trigger] ntr.nodes@[i]) by {
        assert(ntr.network.has(ntr.nodes@[i]));
    }
}
/// the block [0 ..= e] of the remaining path in the provider's tour: its positions, its nodes, its shape
pub proof fn lemma_fit_chunk(s: &Schedule, path: Seq<NodeIdx>, p: VehicleIdx, rcv: VehicleIdx, ntp: Option<Tour>, ntr: Tour, m: Seq<NodeIdx>,
        rem: Option<Seq<NodeIdx>>, k: int, e: int)
    requires s.fit_inv(path, p, rcv, ntp, ntr, m, rem, k), rem is Some, 0 <= e < rem.unwrap().len(),
    ensures ({
        let t = ntp.unwrap();
        let r = rem.unwrap();
        let a = r[0];
        let b = r[e];
        let c = r.subrange(0, e + 1);
        &&& ntp is Some
        &&& t.has_node(a) && t.has_node(b) && t.index_of(b) == t.index_of(a) + e && 0 <= t.index_of(a) && t.index_of(b) < t.len()
        &&& t.index_of(a) + r.len() <= t.len() && t.nodes@.subrange(t.index_of(a), t.index_of(a) + r.len()) == r
        &&& t.mid(t.index_of(a), t.index_of(b) + 1) == c
        &&& c == path.subrange(k, k + e + 1) && c.len() == e + 1 && c[0] == a && c[e] == b
        &&& seg_ordered(&s.network, a, b) && seg_ordered(&ntr.network, a, b)
        &&& tour_len_ok(c)
        &&& !all_depots(&s.network, c) ==> path_shape(&ntr.network, c)
    }),
{
    lemma_fit_iter(s, path, p, rcv, ntp, ntr, m, rem, k);
    let t = ntp.unwrap();
    let r = rem.unwrap();
    let net = &t.network;
    let pos = choose|pos: int| 0 <= pos && pos + r.len() <= t.len() && #[trigger] t.nodes@.subrange(pos, pos + r.len()) == r;
    let blk = t.nodes@.subrange(pos, pos + r.len());
    assert(blk[0] == t.nodes@[pos] && blk[e] == t.nodes@[pos + e]);
    lemma_index_of(&t, r[0], pos);
    lemma_index_of(&t, r[e], pos + e);
    lemma_cuts(&t, pos, pos + e + 1);
    let c = r.subrange(0, e + 1);
    assert(t.mid(pos, pos + e + 1) =~= c) by {
        assert forall|i: int| 0 <= i < c.len() implies t.nodes@.subrange(pos, pos + e + 1)[i] == c[i] by {
            assert(blk[i] == t.nodes@[pos + i]);
        }
    }
    assert(c =~= path.subrange(k, k + e + 1));
    assert forall|i: int| 0 <= i < c.len() - 1 implies #[trigger] net.reach(c[i], c[i + 1]) by {
        assert(blk[i] == t.nodes@[pos + i] && blk[i + 1] == t.nodes@[pos + i + 1]);
        assert(net.reach(t.nodes@[pos + i], t.nodes@[(pos + i) + 1]));
    }
    if e > 0 { lemma_ends_sorted(net, t.nodes@, pos, pos + e); }
}
/// a block that is not moved: the invariant for the rest of the path (the two tours and the moved nodes are unchanged)
pub proof fn lemma_fit_skip(s: &Schedule, path: Seq<NodeIdx>, p: VehicleIdx, rcv: VehicleIdx, ntp: Option<Tour>, ntr: Tour, m: Seq<NodeIdx>,
        rem: Option<Seq<NodeIdx>>, k: int, e: int, rem2: Option<Seq<NodeIdx>>)
    requires
        s.fit_inv(path, p, rcv, ntp, ntr, m, rem, k), rem is Some, 0 <= e < rem.unwrap().len(),
        // Path::new_trusted(node_sequence.split_off(end_pos + 1), ..)
        all_depots(&s.network, rem.unwrap().subrange(e + 1, rem.unwrap().len() as int)) ==> rem2 is None,
        !all_depots(&s.network, rem.unwrap().subrange(e + 1, rem.unwrap().len() as int)) ==> rem2 == Some(rem.unwrap().subrange(e + 1, rem.unwrap().len() as int)),
    ensures s.fit_inv(path, p, rcv, ntp, ntr, m, rem2, k + e + 1),
{
    lemma_fit_chunk(s, path, p, rcv, ntp, ntr, m, rem, k, e);
    let t = ntp.unwrap();
    let r = rem.unwrap();
    let n = path.len() as int;
    let k2 = k + e + 1;
    let pos = t.index_of(r[0]);
    assert(r.subrange(e + 1, r.len() as int) =~= path.subrange(k2, n));
    lemma_subseq_prefix(m, path, k, k2);
    if rem2 is Some {
        assert(k2 < n) by { if k2 >= n { assert(path.subrange(k2, n).len() == 0); } }
        let r2 = path.subrange(k2, n);
        assert(t.nodes@.subrange(pos + e + 1, pos + e + 1 + r2.len()) =~= r2) by {
            assert forall|i: int| 0 <= i < r2.len() implies t.nodes@.subrange(pos + e + 1, pos + e + 1 + r2.len())[i] == r2[i] by {
                assert(t.nodes@.subrange(pos, pos + r.len())[e + 1 + i] == r[e + 1 + i]);
            }
        }
        assert(contig(&t, r2));
    }
}
/// a block that is moved: Tour::remove accepted it (cand = the provider's tour without it), Tour::conflict found nothing
/// but depots to displace, Tour::insert_path put it into the receiver's tour (nr)
pub proof fn lemma_fit_move(s: &Schedule, path: Seq<NodeIdx>, p: VehicleIdx, rcv: VehicleIdx, ntp: Option<Tour>, ntr: Tour, m: Seq<NodeIdx>,
        rem: Option<Seq<NodeIdx>>, k: int, e: int, rem2: Option<Seq<NodeIdx>>, cand: Option<Tour>, nr: Tour)
    requires
        s.fit_inv(path, p, rcv, ntp, ntr, m, rem, k), rem is Some, 0 <= e < rem.unwrap().len(),
        s.fit_inv(path, p, rcv, ntp, ntr, m, rem2, k + e + 1),
        // Tour::remove(Segment(r[0], r[e])) is Ok((cand, _)) (its contract, slices/tour_mod.vs)
        ({
            let t = ntp.unwrap();
            let lo = t.index_of(rem.unwrap()[0]);
            let hi = t.index_of(rem.unwrap()[e]);
            &&& t.removable(lo, hi)
            &&& cand is Some ==> cand.unwrap().nodes@ == t.rest(lo, hi + 1) && cand.unwrap().is_dummy == t.is_dummy && cand.unwrap().network == t.network
                    && cand.unwrap().wf() && cand.unwrap().caches_ok()
            &&& cand is None <==> (if t.is_dummy { t.rest(lo, hi + 1).len() == 0 } else { t.rest(lo, hi + 1).len() <= 2 })
        }),
        // Tour::conflict is None, Tour::insert_path
        no_conflict(&ntr, rem.unwrap().subrange(0, e + 1)),
        inserted(&ntr, rem.unwrap().subrange(0, e + 1), nr.nodes@),
        nr.is_dummy == ntr.is_dummy && nr.network == ntr.network && nr.wf() && nr.caches_ok(),
    ensures s.fit_inv(path, p, rcv, cand, nr, m + rem.unwrap().subrange(0, e + 1), rem2, k + e + 1),
{
    lemma_fit_iter(s, path, p, rcv, ntp, ntr, m, rem, k);
    lemma_fit_chunk(s, path, p, rcv, ntp, ntr, m, rem, k, e);
    let net = &s.network;
    let t = ntp.unwrap();
    let tp = s.sp_tour_of(p);
    let tr = s.sp_tour_of(rcv);
    let r = rem.unwrap();
    let n = path.len() as int;
    let k2 = k + e + 1;
    let c = r.subrange(0, e + 1);
    let m2 = m + c;
    let lo = t.index_of(r[0]);
    let hi = t.index_of(r[e]);
    let len2 = r.len() - (e + 1);
    lemma_remove_block(&t, lo, hi);
    assert(path_shape(&ntr.network, c));
    lemma_concat_contains(m, c);
    // the moved nodes
    lemma_subseq_append(m, path, k, k2);
    // the provider
    lemma_fit_provider_step(&t, lo, hi, len2);
    let rest = t.rest(lo, hi + 1);
    assert forall|x: NodeIdx| #![trigger rest.contains(x)] #![trigger tp.nodes@.contains(x)]
        rest.contains(x) <==> tp.nodes@.contains(x) && !m2.contains(x) by {
        assert(rest.contains(x) <==> t.nodes@.contains(x) && !c.contains(x));
        assert(t.nodes@.contains(x) <==> tp.nodes@.contains(x) && !m.contains(x));
    }
    if cand is Some {
        lemma_subseq_trans(rest, t.nodes@, tp.nodes@);
    }
    // no tour <==> nothing but depots is left
    if all_depots(net, rest) {
        assert forall|x: NodeIdx| #[trigger] tp.nodes@.contains(x) && !m2.contains(x) implies net.sp_node(x).sp_is_depot() by {
            assert(rest.contains(x));
            let i = choose|i: int| 0 <= i < rest.len() && rest[i] == x;
            assert(net.sp_node(rest[i]).sp_is_depot());
        }
    }
    if forall|x: NodeIdx| #[trigger] tp.nodes@.contains(x) && !m2.contains(x) ==> net.sp_node(x).sp_is_depot() {
        assert forall|i: int| 0 <= i < rest.len() implies (#[trigger] net.sp_node(rest[i])).sp_is_depot() by {
            assert(rest.contains(rest[i]));
            assert(tp.nodes@.contains(rest[i]) && !m2.contains(rest[i]));
        }
    }
    assert(s.fit_provider_ok(p, cand, m2));
    // the rest of the path still is a block of the provider's tour
    if rem2 is Some {
        let r2 = path.subrange(k2, n);
        assert(r2 =~= r.subrange(e + 1, r.len() as int));
        assert(r2.len() == len2);
        assert(t.nodes@.subrange(hi + 1, hi + 1 + len2) =~= r2) by {
            assert forall|i: int| 0 <= i < r2.len() implies t.nodes@.subrange(hi + 1, hi + 1 + len2)[i] == r2[i] by {
                assert(t.nodes@.subrange(lo, lo + r.len())[e + 1 + i] == r[e + 1 + i]);
            }
        }
        assert(rest.subrange(lo, lo + len2) == r2);
        // it has an activity, so a tour is left
        assert(!all_depots(net, rest)) by {
            if all_depots(net, rest) {
                assert forall|i: int| 0 <= i < r2.len() implies (#[trigger] net.sp_node(r2[i])).sp_is_depot() by {
                    assert(rest.subrange(lo, lo + len2)[i] == rest[lo + i]);
                    assert(net.sp_node(rest[lo + i]).sp_is_depot());
                }
            }
        }
        assert(cand is Some);
        assert(contig(&cand.unwrap(), r2));
    }
    // the receiver
    lemma_fit_receiver_step(&ntr, c, nr.nodes@);
    assert forall|x: NodeIdx| #![trigger nr.nodes@.contains(x)] #![trigger tr.nodes@.contains(x)] #![trigger m2.contains(x)]
        !net.sp_node(x).sp_is_depot() implies (nr.nodes@.contains(x) <==> tr.nodes@.contains(x) || m2.contains(x)) by {
        assert(nr.nodes@.contains(x) <==> ntr.nodes@.contains(x) || c.contains(x));
        assert(ntr.nodes@.contains(x) <==> tr.nodes@.contains(x) || m.contains(x));
    }
    assert forall|x: NodeIdx| #[trigger] nr.nodes@.contains(x) implies tr.nodes@.contains(x) || m2.contains(x) by {
        if ntr.nodes@.contains(x) { assert(tr.nodes@.contains(x) || m.contains(x)); }
    }
    assert(s.fit_receiver_ok(rcv, nr, m2));
}
/// at the end of the loop: the contract
pub proof fn lemma_fit_done(s: &Schedule, path: Seq<NodeIdx>, p: VehicleIdx, rcv: VehicleIdx, ntp: Option<Tour>, ntr: Tour, m: Seq<NodeIdx>, k: int)
    requires s.fit_inv(path, p, rcv, ntp, ntr, m, None, k),
    ensures s.fit_outcome(path, p, rcv, ntp, ntr, m),
{
    let tp = s.sp_tour_of(p);
    lemma_subseq_prefix(m, path, k, path.len() as int);
    assert(path.subrange(0, path.len() as int) =~= path);
    lemma_tour_nodup(&tp);
    let (i, j) = choose|i: int, j: int| 0 <= i <= j < tp.len() && path == #[trigger] tp.nodes@.subrange(i, j + 1);
    assert forall|a: int, b: int| 0 <= a < path.len() && 0 <= b < path.len() && a != b implies path[a] != path[b] by {
        assert(path[a] == tp.nodes@[i + a] && path[b] == tp.nodes@[i + b]);
    }
    lemma_subseq_members(m, path);
}

// =====================================================================================================
// CLOSURE (the induction step of C10 / C09): on Ok the result schedule `res` of fit_reassign satisfies the
// schedule-invariant part of `fr_pre` again.  The lemmas below are lemmas ABOUT THE CONTRACT: their hypotheses are `fr_pre`
// for the old schedule and the effect clauses of the contract read on `res` (fr_effect); nothing else is known about `res`.
//   schedule invariants of fr_pre (closed here): ids_ok, listings_ok, usage_exact, part_ok (per vehicle), or_transitions_ok
//     (incl. its magnitude clause: fit_reassign adds no vehicle), the costs relation;
//   about the ARGUMENTS (not closed, they speak about the call, not about the schedule): provider != receiver, the segment
//     is a segment of the provider's tour with an activity, A-len (|tr| + |tp| <= 2^17 + 2), and all of fr_pre_outcomes
//     (tfu_pre for the moved nodes, u64 room for the new tours' costs, A-counter of the new tours).
// =====================================================================================================
impl Schedule {
    /// the costs of v's tour if v is a real vehicle of this schedule, 0 otherwise (what cost_out_provider / cost_out_receiver
    /// read off the schedule's own tours)
    pub open spec fn fr_real_cost(&self, v: VehicleIdx) -> int {
        if self.sp_is_vehicle(v) { self.tours@[v].costs as int } else { 0 }
    }
    /// the same for a vehicle other than the two participants
    pub open spec fn fr_other_cost(&self, p: VehicleIdx, rcv: VehicleIdx, a: VehicleIdx) -> int {
        if a == p || a == rcv { 0 } else { self.fr_real_cost(a) }
    }
    /// the effect clauses of the contract of fit_reassign, read on a result schedule `res` (the postconditions tagged
    /// C13.fit_reassign.provider_loses_receiver_gains_only_moved_nodes, C10.fit_reassign.{listings_still_sorted_and_matching,
    /// ids_stay_valid}, C09.fit_reassign.{costs_delta_exact, depot_usage_exact, maintenance_violation_exact})
    pub open spec fn fr_effect(&self, segment: Segment, p: VehicleIdx, rcv: VehicleIdx, res: Schedule) -> bool {
        &&& res.vehicle_counter == self.vehicle_counter && res.network == self.network
        &&& self.fr_tours_after(segment, p, rcv, res.tours@, res.dummy_tours@)
        &&& self.fr_maps_after(p, rcv, res.vehicles@, res.tours@, res.dummy_tours@)
        &&& listings_ok(res.vehicles@, res.dummy_tours@, res.vehicle_ids_grouped_and_sorted@, res.dummy_ids_sorted@)
        &&& ids_valid(res.vehicles@, res.tours@, res.dummy_tours@, res.dummy_ids_sorted@, res.vehicle_counter)
        &&& self.or_costs_after(p, rcv, res.tours@, res.dummy_tours@, res.costs)
        &&& usage_exact(res.depot_usage@, &self.network, res.vehicles@, res.tours@)
        &&& self.or_transitions_after(p, rcv, res.next_period_transitions@, res.maintenance_violation, res.vehicles@, res.tours@)
    }
    /// CLOSURE of `part_ok` (C10 / C01 / C09 per vehicle): no vehicle or dummy appears, and EVERY vehicle or dummy v that
    /// satisfied part_ok in the old schedule and still has a tour in the new one satisfies part_ok in the new one -- the
    /// provider (if it still exists), the receiver (A-len of fr_pre bounds its new tour), every vehicle the modification does
    /// not touch
    pub open spec fn fr_parts_closed(&self, res: Schedule) -> bool {
        forall|v: VehicleIdx| #[trigger] res.has_tour(v) ==> self.has_tour(v) && (self.part_ok(v) ==> res.part_ok(v))
    }
    /// CLOSURE of the costs relation of fr_pre ("the schedule's costs cover the tours of the (real) participants"):
    /// (1) verbatim for the same two participants in the new schedule; (2) for ANY two distinct vehicles a, b of the next
    /// modification, under the weakest hypothesis on the old schedule: its costs cover the old tours of p, rcv, a and b
    /// together (C09: the costs are the sum of ALL tours' costs plus non-negative terms)
    pub open spec fn fr_costs_closed(&self, p: VehicleIdx, rcv: VehicleIdx, res: Schedule) -> bool {
        &&& res.cost_out_provider(res.tours@, Some(p)) + res.cost_out_receiver(res.tours@, rcv) <= res.costs
        &&& forall|a: VehicleIdx, b: VehicleIdx| #![trigger res.fr_real_cost(a), res.fr_real_cost(b)]
                a != b && self.fr_real_cost(p) + self.fr_real_cost(rcv) + self.fr_other_cost(p, rcv, a) + self.fr_other_cost(p, rcv, b) <= self.costs
                ==> res.cost_out_provider(res.tours@, Some(a)) + res.cost_out_receiver(res.tours@, b) <= res.costs
                    && res.fr_real_cost(a) + res.fr_real_cost(b) <= res.costs
    }
}

// ---- counting (text of env/sched_ctor_shim.vs, which cannot be included here; names prefixed): a consistent transition
// holds as many vehicles as its lookup has keys ---------------------------------------------------------------------
/// the vehicles in the first k cycles
pub open spec fn fr_cyc_elems(t: TView, k: int) -> Set<VehicleIdx>
    decreases k,
{
    if k <= 0 { Set::empty() } else { fr_cyc_elems(t, k - 1).union(t.cyc(k - 1).to_set()) }
}
pub proof fn lemma_fr_cyc_elems_member(t: TView, k: int, v: VehicleIdx)
    requires 0 <= k <= t.n(),
    ensures fr_cyc_elems(t, k).contains(v) <==> exists|i: int| 0 <= i < k && (#[trigger] t.cyc(i)).contains(v),
    decreases k,
{
    if k > 0 {
        lemma_fr_cyc_elems_member(t, k - 1, v);
        if fr_cyc_elems(t, k).contains(v) {
            if t.cyc(k - 1).contains(v) { assert(0 <= k - 1 < k && t.cyc(k - 1).contains(v)); }
            else {
                let i = choose|i: int| 0 <= i < k - 1 && (#[trigger] t.cyc(i)).contains(v);
                assert(0 <= i < k && t.cyc(i).contains(v));
            }
        }
        if exists|i: int| 0 <= i < k && (#[trigger] t.cyc(i)).contains(v) {
            let i = choose|i: int| 0 <= i < k && (#[trigger] t.cyc(i)).contains(v);
            if i < k - 1 { assert(0 <= i < k - 1 && t.cyc(i).contains(v)); }
        }
    }
}
pub proof fn lemma_fr_cyc_elems_len(t: TView, k: int)
    requires t.wf_cycles(), 0 <= k <= t.n(),
    ensures fr_cyc_elems(t, k).len() == sum_seq(lens_of(t.cycles).take(k)),
    decreases k,
{
    let l = lens_of(t.cycles);
    if k > 0 {
        lemma_fr_cyc_elems_len(t, k - 1);
        let a = fr_cyc_elems(t, k - 1);
        let b = t.cyc(k - 1).to_set();
        assert(a.disjoint(b)) by {
            assert forall|v: VehicleIdx| !(a.contains(v) && b.contains(v)) by {
                if a.contains(v) && b.contains(v) {
                    lemma_fr_cyc_elems_member(t, k - 1, v);
                    let i = choose|i: int| 0 <= i < k - 1 && (#[trigger] t.cyc(i)).contains(v);
                    let x = choose|x: int| 0 <= x < t.cyc(i).len() && t.cyc(i)[x] == v;
                    let ck = t.cyc(k - 1);
                    let y = choose|y: int| 0 <= y < ck.len() && ck[y] == v;
                    assert(t.cyc(i)[x] != t.cyc(k - 1)[y]);
                }
            }
        }
        vstd::set_lib::lemma_set_disjoint_lens(a, b);
        t.cyc(k - 1).unique_seq_to_set();
        assert(l.take(k).drop_last() =~= l.take(k - 1));
        assert(l.take(k).last() == t.cyc(k - 1).len());
    } else {
        assert(l.take(0) =~= Seq::<int>::empty());
    }
}
/// C15: a consistent transition holds as many vehicles as its lookup has keys
pub proof fn lemma_fr_total_len_is_lookup(t: TView)
    requires t.wf_cycles(), t.wf_lookup(),
    ensures t.total_len() == t.lookup.dom().len(),
{
    let l = lens_of(t.cycles);
    lemma_fr_cyc_elems_len(t, t.n());
    assert(l.take(t.n()) =~= l);
    assert(fr_cyc_elems(t, t.n()) =~= t.lookup.dom()) by {
        assert forall|v: VehicleIdx| fr_cyc_elems(t, t.n()).contains(v) <==> t.lookup.dom().contains(v) by {
            lemma_fr_cyc_elems_member(t, t.n(), v);
            if fr_cyc_elems(t, t.n()).contains(v) {
                let i = choose|i: int| 0 <= i < t.n() && (#[trigger] t.cyc(i)).contains(v);
                let x = choose|x: int| 0 <= x < t.cyc(i).len() && t.cyc(i)[x] == v;
                assert(t.lookup.contains_key(t.cyc(i)[x]));
            }
            if t.lookup.contains_key(v) {
                assert(0 <= t.cycle_of(v) < t.n() && t.cyc(t.cycle_of(v)).contains(v));
            }
        }
    }
}
/// a consistent transition whose vehicles are among the vehicles of another one is not bigger
pub proof fn lemma_fr_total_len_le(t1: TView, t0: TView)
    requires
        t0.wf_cycles(), t0.wf_lookup(), t1.wf_cycles(), t1.wf_lookup(),
        forall|v: VehicleIdx| #[trigger] t1.has_vehicle(v) ==> t0.has_vehicle(v),
    ensures t1.total_len() <= t0.total_len(),
{
    lemma_fr_total_len_is_lookup(t0);
    lemma_fr_total_len_is_lookup(t1);
    assert(t1.lookup.dom().subset_of(t0.lookup.dom())) by {
        assert forall|v: VehicleIdx| t1.lookup.dom().contains(v) implies t0.lookup.dom().contains(v) by {
            assert(t1.has_vehicle(v));
            assert(t0.has_vehicle(v));
        }
    }
    vstd::set_lib::lemma_len_subset(t1.lookup.dom(), t0.lookup.dom());
}
/// the number of vehicles in all rotation cycles does not grow if it does not grow for any listed type
pub proof fn lemma_fr_len_sum_mono(trs0: Map<VehicleTypeIdx, Transition>, trs1: Map<VehicleTypeIdx, Transition>, vts: Seq<VehicleTypeIdx>)
    requires forall|i: int| 0 <= i < vts.len() ==> (#[trigger] trs1[vts[i]]).total_len() <= trs0[vts[i]].total_len(),
    ensures len_sum(trs1, vts) <= len_sum(trs0, vts),
    decreases vts.len(),
{
    if vts.len() > 0 {
        let d = vts.drop_last();
        assert forall|i: int| 0 <= i < d.len() implies (#[trigger] trs1[d[i]]).total_len() <= trs0[d[i]].total_len() by {
            assert(d[i] == vts[i]);
        }
        lemma_fr_len_sum_mono(trs0, trs1, d);
        assert(vts.last() == vts[vts.len() - 1]);
        assert(trs1[vts[vts.len() - 1]].total_len() <= trs0[vts[vts.len() - 1]].total_len());
    }
}

/// CLOSURE for fit_path_into_tour: the tour invariants of fit_pre (well-formed over the schedule's network, exact caches,
/// A-len) hold again for the two new tours
pub proof fn lemma_fit_tours_closed(s: &Schedule, path: Seq<NodeIdx>, p: VehicleIdx, rcv: VehicleIdx, ntp: Option<Tour>, ntr: Tour, m: Seq<NodeIdx>)
    requires s.fit_pre(path, p, rcv), s.fit_outcome(path, p, rcv, ntp, ntr, m),
    ensures
        ntr.wf() && ntr.caches_ok() && *ntr.network == *s.network && tour_len_ok(ntr.nodes@) && ntr.is_dummy == s.sp_tour_of(rcv).is_dummy,
        ntp is Some ==> ntp.unwrap().wf() && ntp.unwrap().caches_ok() && *ntp.unwrap().network == *s.network
            && tour_len_ok(ntp.unwrap().nodes@) && ntp.unwrap().is_dummy == s.sp_tour_of(p).is_dummy,
{
    if ntp is Some {
        let tp = s.sp_tour_of(p);
        lemma_tour_nodup(&tp);
        lemma_subseq_members(ntp.unwrap().nodes@, tp.nodes@);
    }
}

// ---- the closure lemmas, conjunct by conjunct ---------------------------------------------------------------------
/// CLOSURE of part_ok: see fr_parts_closed
pub proof fn lemma_fr_parts_closed(s: &Schedule, segment: Segment, p: VehicleIdx, rcv: VehicleIdx, res: Schedule)
    requires s.fr_pre(segment, p, rcv), s.fr_effect(segment, p, rcv, res),
    ensures s.fr_parts_closed(res),
{
    lemma_fr_setup(s, segment, p, rcv);
    lemma_fr_cut(s, segment, p, rcv);
    let tp = s.sp_tour_of(p);
    let tr = s.sp_tour_of(rcv);
    let stp = tour_opt_in(res.tours@, res.dummy_tours@, p);
    let ntr = tour_in(res.tours@, res.dummy_tours@, rcv);
    let m = choose|m: Seq<NodeIdx>| #[trigger] s.fr_outcome(segment, p, rcv, stp, ntr, m);
    let path = s.fr_path(segment, p);
    assert(s.fit_outcome(path, p, rcv, stp, ntr, m));
    assert(path.len() <= tp.len());
    assert forall|v: VehicleIdx| #[trigger] res.has_tour(v) implies s.has_tour(v) && (s.part_ok(v) ==> res.part_ok(v)) by {
        assert(s.vehicles@.contains_key(v) <==> s.tours@.contains_key(v));
        if v == rcv {
            assert(res.sp_tour_of(rcv) == ntr);
            assert(res.vehicles@.contains_key(rcv) == s.vehicles@.contains_key(rcv));
            assert(res.dummy_tours@.contains_key(rcv) == s.dummy_tours@.contains_key(rcv));
            if res.sp_is_vehicle(rcv) { assert(res.type_of(rcv) == s.type_of(rcv)); }
            assert(tour_len_ok(ntr.nodes@));
            assert(res.part_ok(rcv));
        } else if v == p {
            assert(stp is Some);
            let t = stp.unwrap();
            assert(res.sp_tour_of(p) == t);
            assert(res.vehicles@.contains_key(p) == s.vehicles@.contains_key(p));
            assert(res.dummy_tours@.contains_key(p) == s.dummy_tours@.contains_key(p));
            if res.sp_is_vehicle(p) { assert(res.type_of(p) == s.type_of(p)); }
            // "the provider loses …": its new tour is not longer than its old one
            lemma_tour_nodup(&tp);
            lemma_subseq_members(t.nodes@, tp.nodes@);
            assert(tour_len_ok(t.nodes@));
            assert(res.part_ok(p));
        } else {
            lemma_frame(s, s.vehicles@, s.tours@, s.dummy_tours@, Some(p), stp, rcv, ntr, v);
            assert(res.sp_tour_of(v) == s.sp_tour_of(v));
            if res.sp_is_vehicle(v) { assert(res.type_of(v) == s.type_of(v)); }
        }
    }
}
/// CLOSURE of or_transitions_ok (C15 / C10 / C09 for the rotation cycles), including its magnitude clause: fit_reassign adds
/// no vehicle, so every type's cycles hold at most as many vehicles as before
pub proof fn lemma_fr_transitions_closed(s: &Schedule, segment: Segment, p: VehicleIdx, rcv: VehicleIdx, res: Schedule)
    requires s.fr_pre(segment, p, rcv), s.fr_effect(segment, p, rcv, res),
    ensures res.or_transitions_ok(),
{
    let trs0 = s.next_period_transitions@;
    let trs1 = res.next_period_transitions@;
    let vts = sched_types(s);
    let stp = tour_opt_in(res.tours@, res.dummy_tours@, p);
    assert(sched_types(&res) == vts);
    assert(res.vehicles@ == s.vehicles_after(s.vehicles@, Some(p), stp));
    assert forall|vt: VehicleTypeIdx| #[trigger] trs1.contains_key(vt) <==> vts.contains(vt) by {
        assert(trs0.contains_key(vt) <==> vts.contains(vt));
    }
    assert forall|vt: VehicleTypeIdx, v: VehicleIdx| #![trigger trs1[vt].has_vehicle(v)] trs1.contains_key(vt)
        implies (trs1[vt].has_vehicle(v) <==> res.vehicles@.contains_key(v) && res.type_of(v) == vt) by {
        assert(trs1[vt].has_vehicle(v) <==> (res.vehicles@.contains_key(v) && vtype(res.vehicles@[v]) == vt));
    }
    assert forall|i: int| 0 <= i < vts.len() implies (#[trigger] trs1[vts[i]]).total_len() <= trs0[vts[i]].total_len() by {
        let vt = vts[i];
        assert(vts.contains(vt));
        assert(trs0.contains_key(vt) && trs1.contains_key(vt));
        let t0 = trs0[vt];
        let t1 = trs1[vt];
        assert(t0.wf(&s.network, s.tours@));
        assert(t1.wf(&s.network, res.tours@));
        assert forall|v: VehicleIdx| #[trigger] t1@.has_vehicle(v) implies t0@.has_vehicle(v) by {
            assert(t1.has_vehicle(v));
            assert(res.vehicles@.contains_key(v) && vtype(res.vehicles@[v]) == vt);
            assert(s.vehicles@.contains_key(v) && s.type_of(v) == vt);
            assert(t0.has_vehicle(v));
        }
        lemma_fr_total_len_le(t1@, t0@);
    }
    lemma_fr_len_sum_mono(trs0, trs1, vts);
}
/// CLOSURE of the costs relation: see fr_costs_closed
pub proof fn lemma_fr_costs_closed(s: &Schedule, segment: Segment, p: VehicleIdx, rcv: VehicleIdx, res: Schedule)
    requires s.fr_pre(segment, p, rcv), s.fr_effect(segment, p, rcv, res),
    ensures s.fr_costs_closed(p, rcv, res),
{
    lemma_fr_setup(s, segment, p, rcv);
    let stp = tour_opt_in(res.tours@, res.dummy_tours@, p);
    let ntr = tour_in(res.tours@, res.dummy_tours@, rcv);
    let in_p = s.cost_in_provider(Some(p), stp);
    let in_r = s.cost_in_receiver(rcv, ntr);
    assert(res.vehicles@.contains_key(rcv) == s.vehicles@.contains_key(rcv));
    if res.sp_is_vehicle(rcv) { assert(res.tours@[rcv] == ntr); }
    if res.sp_is_vehicle(p) {
        assert(s.sp_is_vehicle(p) && stp is Some);
        assert(res.tours@[p] == stp.unwrap());
    }
    assert(res.fr_real_cost(p) == in_p);
    assert(res.fr_real_cost(rcv) == in_r);
    assert(res.costs == s.costs - s.fr_real_cost(p) - s.fr_real_cost(rcv) + in_p + in_r);
    assert forall|a: VehicleIdx, b: VehicleIdx| #![trigger res.fr_real_cost(a), res.fr_real_cost(b)]
        a != b && s.fr_real_cost(p) + s.fr_real_cost(rcv) + s.fr_other_cost(p, rcv, a) + s.fr_other_cost(p, rcv, b) <= s.costs
        implies res.cost_out_provider(res.tours@, Some(a)) + res.cost_out_receiver(res.tours@, b) <= res.costs
            && res.fr_real_cost(a) + res.fr_real_cost(b) <= res.costs by {
        if a != p && a != rcv {
            lemma_frame(s, s.vehicles@, s.tours@, s.dummy_tours@, Some(p), stp, rcv, ntr, a);
            assert(res.fr_real_cost(a) == s.fr_real_cost(a));
        }
        if b != p && b != rcv {
            lemma_frame(s, s.vehicles@, s.tours@, s.dummy_tours@, Some(p), stp, rcv, ntr, b);
            assert(res.fr_real_cost(b) == s.fr_real_cost(b));
        }
    }
}
/// CLOSURE, all conjuncts.  The effect clauses are the ANTECEDENT (not `requires`): if the code stops providing one of them, the
/// failing obligation is the tagged postcondition of fit_reassign, not the call of the lemma.
pub proof fn lemma_fr_closed(s: &Schedule, segment: Segment, p: VehicleIdx, rcv: VehicleIdx, res: Schedule)
    requires s.fr_pre(segment, p, rcv),
    ensures
        s.fr_effect(segment, p, rcv, res) ==> {
            &&& res.ids_ok()
            &&& listings_ok(res.vehicles@, res.dummy_tours@, res.vehicle_ids_grouped_and_sorted@, res.dummy_ids_sorted@)
            &&& usage_exact(res.depot_usage@, &res.network, res.vehicles@, res.tours@)
            &&& s.fr_parts_closed(res)
            &&& res.or_transitions_ok()
            &&& s.fr_costs_closed(p, rcv, res)
        },
{
    if s.fr_effect(segment, p, rcv, res) {
        lemma_fr_parts_closed(s, segment, p, rcv, res);
        lemma_fr_transitions_closed(s, segment, p, rcv, res);
        lemma_fr_costs_closed(s, segment, p, rcv, res);
    }
}
