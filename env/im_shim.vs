// ---- A-im: shim for `im::HashMap` (persistent hash map of the `im` crate) ----------------------------
// Included inside `pub mod tr { use super::*; use self::im::HashMap; … }` of the slice (the explicit `use`
// shadows std's HashMap, which the model types of the enclosing module keep using).  The type is opaque; `self@` is the abstract
// `Map<K, V>`; every method carries the *assumed* semantics of the im method of the same name
// (im 15: `new`, `get`, `insert`, `remove`, `contains_key`, `clone`).  Only the methods used by
// solution/src/transition*.rs are declared.
pub mod im {
use vstd::prelude::*;

#[verifier::external_body]
#[verifier::reject_recursive_types(K)]
#[verifier::accept_recursive_types(V)]
pub struct HashMap<K, V> { inner: std::collections::HashMap<K, V> }

impl<K, V> View for HashMap<K, V> {
    type V = Map<K, V>;
    uninterp spec fn view(&self) -> Map<K, V>;
}

impl<K, V> HashMap<K, V> {
    #[verifier::external_body]
    pub fn new() -> (r: Self)
        ensures r@ == Map::<K, V>::empty(),
    { unimplemented!() }

    /// im: `get<BK>(&self, key: &BK) -> Option<&V>`
    #[verifier::external_body]
    pub fn get(&self, key: &K) -> (r: Option<&V>)
        ensures
            self@.contains_key(*key) ==> r is Some && *r.unwrap() == self@[*key],
            !self@.contains_key(*key) ==> r is None,
    { unimplemented!() }

    #[verifier::external_body]
    pub fn contains_key(&self, key: &K) -> (r: bool)
        ensures r == self@.contains_key(*key),
    { unimplemented!() }

    /// im: `insert(&mut self, k: K, v: V) -> Option<V>` (returns the previous value)
    #[verifier::external_body]
    pub fn insert(&mut self, key: K, value: V) -> (r: Option<V>)
        ensures
            final(self)@ == old(self)@.insert(key, value),
            old(self)@.contains_key(key) ==> r == Some(old(self)@[key]),
            !old(self)@.contains_key(key) ==> r is None,
    { unimplemented!() }

    /// im: `remove<BK>(&mut self, k: &BK) -> Option<V>`
    #[verifier::external_body]
    pub fn remove(&mut self, key: &K) -> (r: Option<V>)
        ensures
            final(self)@ == old(self)@.remove(*key),
            old(self)@.contains_key(*key) ==> r == Some(old(self)@[*key]),
            !old(self)@.contains_key(*key) ==> r is None,
    { unimplemented!() }
}

impl<K, V> Clone for HashMap<K, V> {
    #[verifier::external_body]
    fn clone(&self) -> (r: Self)
        ensures r@ == self@,
    { unimplemented!() }
}
} // mod im

// ---- A-std4: specifications assumed for std functions that vstd does not cover ----------------------
pub assume_specification<'a, T: Copy>[ Option::<&'a T>::copied ](o: Option<&'a T>) -> (r: Option<T>)
    ensures r == (match o { Some(v) => Some(*v), None => None });

/// the items an `IntoIterator<Item = &T>` yields; only fixed for slices (axiom below)
pub uninterp spec fn ext_items<'a, T: Copy + 'a, I: IntoIterator<Item = &'a T>>(i: I) -> Seq<T>;
pub assume_specification<'a, T: Copy + 'a, A: core::alloc::Allocator, I: IntoIterator<Item = &'a T>>[ <Vec<T, A> as Extend<&'a T>>::extend ](v: &mut Vec<T, A>, i: I)
    ensures final(v)@ == old(v)@ + ext_items::<T, I>(i);
pub broadcast axiom fn axiom_ext_items_slice<'a, T: Copy>(s: &'a [T])
    ensures #[trigger] ext_items::<T, &'a [T]>(s) == s@;

/// the subsequence of s at the positions where mask is true
pub open spec fn mask_filter<T>(s: Seq<T>, mask: Seq<bool>) -> Seq<T>
    decreases s.len(),
{
    if s.len() == 0 || mask.len() != s.len() { Seq::empty() }
    else {
        let r = mask_filter(s.drop_last(), mask.drop_last());
        if mask.last() { r.push(s.last()) } else { r }
    }
}
/// `Vec::retain` calls the predicate once per element, in order, and keeps exactly the elements for
/// which it returned true (`mask` = the values the calls returned)
pub assume_specification<T, A: core::alloc::Allocator, F: FnMut(&T) -> bool>[ Vec::<T, A>::retain ](v: &mut Vec<T, A>, f: F)
    requires
        forall|i: int| #![trigger old(v)@[i]] 0 <= i < old(v)@.len() ==> f.requires((&old(v)@[i],)),
    ensures
        exists|mask: Seq<bool>| #![trigger mask_filter(old(v)@, mask)] mask.len() == old(v)@.len()
            && (forall|i: int| 0 <= i < mask.len() ==> f.ensures((&old(v)@[i],), #[trigger] mask[i]))
            && final(v)@ == mask_filter(old(v)@, mask);

// ---- A-iter additions (belong into env/seqiter.vs) ---------------------------------------------------
impl<T> SeqIter<T> {
    /// std `Iterator::filter`: calls the predicate once per item, in order, and keeps exactly the
    /// items for which it returned true (`mask` = the values the calls returned)
    #[verifier::external_body]
    pub fn filter<F: FnMut(&T) -> bool>(self, f: F) -> (r: SeqIter<T>)
        requires
            forall|i: int| #![trigger self@[i]] 0 <= i < self@.len() ==> f.requires((&self@[i],)),
        ensures
            exists|mask: Seq<bool>| #![trigger mask_filter(self@, mask)] mask.len() == self@.len()
                && (forall|i: int| 0 <= i < mask.len() ==> f.ensures((&self@[i],), #[trigger] mask[i]))
                && r@ == mask_filter(self@, mask),
    { unimplemented!() }
}
/// a mask that drops exactly position p
pub proof fn lemma_mask_filter_remove<T>(s: Seq<T>, mask: Seq<bool>, p: int)
    requires mask.len() == s.len(), 0 <= p < s.len(), forall|i: int| 0 <= i < s.len() ==> #[trigger] mask[i] == (i != p),
    ensures mask_filter(s, mask) == s.remove(p),
    decreases s.len(),
{
    if p == s.len() - 1 {
        lemma_mask_filter_all(s.drop_last(), mask.drop_last());
        assert(s.remove(p) =~= s.drop_last());
    } else {
        lemma_mask_filter_remove(s.drop_last(), mask.drop_last(), p);
        assert(s.remove(p) =~= s.drop_last().remove(p).push(s.last()));
    }
}
pub proof fn lemma_mask_filter_all<T>(s: Seq<T>, mask: Seq<bool>)
    requires mask.len() == s.len(), forall|i: int| 0 <= i < s.len() ==> #[trigger] mask[i],
    ensures mask_filter(s, mask) == s,
    decreases s.len(),
{
    if s.len() > 0 {
        lemma_mask_filter_all(s.drop_last(), mask.drop_last());
        assert(s.drop_last().push(s.last()) =~= s);
    } else {
        assert(s =~= Seq::<T>::empty());
    }
}
/// a mask that drops exactly the occurrences of k, applied to a duplicate-free list
pub proof fn lemma_mask_filter_ne<T>(s: Seq<T>, mask: Seq<bool>, k: T)
    requires mask.len() == s.len(), s.no_duplicates(), forall|i: int| 0 <= i < s.len() ==> #[trigger] mask[i] == (s[i] != k),
    ensures mask_filter(s, mask).no_duplicates(),
        forall|x: T| #[trigger] mask_filter(s, mask).contains(x) <==> (s.contains(x) && x != k),
    decreases s.len(),
{
    let r = mask_filter(s, mask);
    if s.len() == 0 {
        assert forall|x: T| #[trigger] r.contains(x) <==> (s.contains(x) && x != k) by {}
    } else {
        let s1 = s.drop_last();
        let m1 = mask.drop_last();
        let r1 = mask_filter(s1, m1);
        let y = s.last();
        lemma_mask_filter_ne(s1, m1, k);
        assert forall|x: T| s.contains(x) <==> (s1.contains(x) || x == y) by {
            if s.contains(x) {
                let i = choose|i: int| 0 <= i < s.len() && s[i] == x;
                if i < s1.len() { assert(s1[i] == x); }
            }
            if s1.contains(x) {
                let i = choose|i: int| 0 <= i < s1.len() && s1[i] == x;
                assert(s[i] == x);
            }
            if x == y { assert(s[s.len() - 1] == x); }
        }
        assert(!s1.contains(y)) by {
            if s1.contains(y) {
                let i = choose|i: int| 0 <= i < s1.len() && s1[i] == y;
                assert(s[i] == s[s.len() - 1]);
            }
        }
        if mask.last() {
            assert(r == r1.push(y));
            assert(!r1.contains(y));
            // r1.push(y): duplicate-free, membership
            assert forall|x: T| #[trigger] r.contains(x) <==> (r1.contains(x) || x == y) by {
                if r.contains(x) {
                    let i = choose|i: int| 0 <= i < r.len() && r[i] == x;
                    if i < r1.len() { assert(r1[i] == x); }
                }
                if r1.contains(x) {
                    let i = choose|i: int| 0 <= i < r1.len() && r1[i] == x;
                    assert(r[i] == x);
                }
                if x == y { assert(r[r1.len() as int] == x); }
            }
            assert forall|i: int, j: int| 0 <= i < r.len() && 0 <= j < r.len() && i != j implies r[i] != r[j] by {
                if i < r1.len() && j < r1.len() {
                } else if i < r1.len() {
                    assert(r1.contains(r1[i]));
                } else {
                    assert(r1.contains(r1[j]));
                }
            }
        } else {
            assert(r == r1);
        }
    }
}
