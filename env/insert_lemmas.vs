// ---- Tour::insert_path: one lemma per cached figure, over the opaque cuts ---------------------------
impl Tour {
    #[verifier::opaque]
    pub open spec fn spliced(&self, s: int, e: int, n: Seq<NodeIdx>) -> Seq<NodeIdx> {
        self.nodes@.subrange(0, s) + n + self.nodes@.subrange(e, self.len())
    }
}
pub open spec fn ins_ok(t: &Tour, s: int, e: int, n: Seq<NodeIdx>) -> bool {
    cut_ok(t, s, e) && n.len() >= 1 && all_in_net(&t.network, n) && tour_len_ok(n)
}
pub proof fn lemma_spliced(t: &Tour, s: int, e: int, n: Seq<NodeIdx>)
    requires ins_ok(t, s, e, n),
    ensures t.spliced(s, e, n) == t.pre(s) + n + t.suf(e), all_in_net(&t.network, t.spliced(s, e, n)), len_ok(t.spliced(s, e, n)),
        t.spliced(s, e, n).len() == s + n.len() + (t.len() - e), len_ok(n),
{
    reveal(Tour::spliced);
    lemma_cuts(t, s, e);
    let x = t.pre(s) + n + t.suf(e);
    assert forall|i: int| 0 <= i < x.len() implies #[trigger] t.network.has(x[i]) by {
        if i < s { assert(t.network.has(t.pre(s)[i])); }
        else if i < s + n.len() { assert(t.network.has(n[i - s])); }
        else { assert(t.network.has(t.suf(e)[i - s - n.len()])); }
    }
}
pub proof fn lemma_insert_useful(t: &Tour, s: int, e: int, n: Seq<NodeIdx>)
    requires ins_ok(t, s, e, n), t.useful_duration == t.network.spec_useful_duration(t.nodes@),
    ensures ({
        let x = t.network.spec_useful_duration(t.mid(s, e)); let y = t.network.spec_useful_duration(n);
        &&& x is Length && y is Length && t.useful_duration is Length && dur_rank(t.useful_duration) >= dur_rank(x)
        &&& dur_rank(t.useful_duration) - dur_rank(x) + dur_rank(y) <= u64::MAX
        &&& dur_add(dur_sub(t.useful_duration, x), y) == t.network.spec_useful_duration(t.spliced(s, e, n))
    }),
{
    let net = &t.network;
    lemma_cuts(t, s, e); lemma_spliced(t, s, e, n);
    lemma_split3(net, t.nodes@, s, e);
    lemma_nsum_3(t.pre(s), n, t.suf(e), net.f_node_dur());
    lemma_useful_duration_sum(net, n);
    lemma_useful_duration_sum(net, t.spliced(s, e, n));
}
pub proof fn lemma_insert_service(t: &Tour, s: int, e: int, n: Seq<NodeIdx>)
    requires ins_ok(t, s, e, n), t.service_distance == t.network.spec_service_distance(t.nodes@),
    ensures ({
        let x = t.network.spec_service_distance(t.mid(s, e)); let y = t.network.spec_service_distance(n);
        &&& x is Distance && y is Distance && t.service_distance is Distance && t.service_distance->Distance_0 >= x->Distance_0
        &&& t.service_distance->Distance_0 - x->Distance_0 + y->Distance_0 <= u64::MAX
        &&& Distance::Distance((t.service_distance->Distance_0 - x->Distance_0 + y->Distance_0) as u64) == t.network.spec_service_distance(t.spliced(s, e, n))
    }),
{
    let net = &t.network;
    lemma_cuts(t, s, e); lemma_spliced(t, s, e, n);
    lemma_split3(net, t.nodes@, s, e);
    lemma_nsum_3(t.pre(s), n, t.suf(e), net.f_node_dist());
    lemma_dhd_bounds(net, n); lemma_dhd_bounds(net, t.mid(s, e));
    lemma_dhd_bounds(net, t.spliced(s, e, n));
}
pub proof fn lemma_insert_dhd(t: &Tour, s: int, e: int, n: Seq<NodeIdx>)
    requires ins_ok(t, s, e, n), t.dead_head_distance == t.network.spec_dead_head_distance(t.nodes@),
    ensures ({
        let y = ddec(mid_p(t.pre(s), t.mid(s, e), t.suf(e), t.network.f_leg_dist()));
        let z = ddec(mid_p(t.pre(s), n, t.suf(e), t.network.f_leg_dist()));
        // no panic in `dhd - y + z`
        &&& (t.dead_head_distance is Distance ==> y is Distance && t.dead_head_distance->Distance_0 >= y->Distance_0)
        &&& (t.dead_head_distance is Distance && z is Distance ==> (t.dead_head_distance->Distance_0 - y->Distance_0) + z->Distance_0 <= u64::MAX)
        // with a finite old value the delta is exact (an infinite old value needs recomputation)
        &&& (t.dead_head_distance is Distance ==>
            dist_add(Distance::Distance((t.dead_head_distance->Distance_0 - y->Distance_0) as u64), z) == t.network.spec_dead_head_distance(t.spliced(s, e, n)))
    }),
{
    let net = &t.network;
    lemma_cuts(t, s, e); lemma_spliced(t, s, e, n);
    let p = t.pre(s); let m = t.mid(s, e); let u = t.suf(e);
    lemma_split3(net, t.nodes@, s, e);
    lemma_psum_3(p, n, u, net.f_leg_dist());
    lemma_mid_nonneg(net, p, m, u);
    lemma_mid_nonneg(net, p, n, u);
    lemma_dhd_bounds(net, m); lemma_dhd_bounds(net, n);
    lemma_dhd_bounds(net, t.spliced(s, e, n));
}
pub proof fn lemma_insert_costs(t: &Tour, s: int, e: int, n: Seq<NodeIdx>)
    requires ins_ok(t, s, e, n), t.costs as int == t.network.spec_costs(t.nodes@),
    ensures ({
        let y = mid_p(t.pre(s), t.mid(s, e), t.suf(e), t.network.f_leg_cost()) + nsum(t.mid(s, e), t.network.f_node_cost());
        let z = mid_p(t.pre(s), n, t.suf(e), t.network.f_leg_cost()) + nsum(n, t.network.f_node_cost());
        &&& 0 <= y <= t.costs && 0 <= z
        &&& t.costs - y + z <= u64::MAX
        &&& t.costs - y + z == t.network.spec_costs(t.spliced(s, e, n))
    }),
{
    let net = &t.network;
    lemma_cuts(t, s, e); lemma_spliced(t, s, e, n);
    let p = t.pre(s); let m = t.mid(s, e); let u = t.suf(e);
    lemma_split3(net, t.nodes@, s, e);
    lemma_psum_3(p, n, u, net.f_leg_cost());
    lemma_nsum_3(p, n, u, net.f_node_cost());
    lemma_mid_nonneg(net, p, m, u);
    lemma_mid_nonneg(net, p, n, u);
    lemma_cost_bounds(net, n);
    lemma_cost_bounds(net, t.spliced(s, e, n));
}
pub proof fn lemma_insert_vm(t: &Tour, s: int, e: int, n: Seq<NodeIdx>)
    requires ins_ok(t, s, e, n),
    ensures t.network.spec_visits_maintenance(t.spliced(s, e, n))
        == (t.network.spec_visits_maintenance(n) || (t.network.spec_visits_maintenance(t.nodes@)
            && (!t.network.spec_visits_maintenance(t.mid(s, e)) || t.network.spec_visits_maintenance(t.spliced(s, e, n))))),
{
    let net = &t.network;
    lemma_cuts(t, s, e); lemma_spliced(t, s, e, n);
    let p = t.pre(s); let m = t.mid(s, e); let u = t.suf(e);
    lemma_vm_concat(net, p + m, u);
    lemma_vm_concat(net, p, m);
    lemma_vm_concat(net, p + n, u);
    lemma_vm_concat(net, p, n);
}
/// a connected path that is not all depots has depots only at its ends (a start depot first, an end depot last)
pub open spec fn path_shape(net: &Network, n: Seq<NodeIdx>) -> bool {
    &&& n.len() >= 1 && all_in_net(net, n) && connected(net, n) && !all_depots(net, n)
}
pub proof fn lemma_path_shape(net: &Network, n: Seq<NodeIdx>, i: int)
    requires net.wf(), path_shape(net, n), 0 <= i < n.len(),
    ensures
        0 < i < n.len() - 1 ==> net.sp_node(n[i]).sp_is_activity(),
        i == 0 && n.len() > 1 ==> !(net.sp_node(n[i]) is EndDepot),
        i == n.len() - 1 && n.len() > 1 ==> !(net.sp_node(n[i]) is StartDepot),
        n.len() == 1 ==> net.sp_node(n[i]).sp_is_activity(),
{
    assert(net.has(n[i]));
    if i > 0 { assert(net.reach(n[i - 1], n[(i - 1) + 1])); }
    if i < n.len() - 1 { assert(net.reach(n[i], n[i + 1])); }
    if n.len() == 1 {
        if !net.sp_node(n[0]).sp_is_activity() {
            assert forall|k: int| 0 <= k < n.len() implies (#[trigger] net.sp_node(n[k])).sp_is_depot() by {}
        }
    }
}
/// first node does not end after the last node starts (the segment of a connected path is ordered)
pub proof fn lemma_path_ordered(net: &Network, n: Seq<NodeIdx>)
    requires net.wf(), n.len() >= 1, all_in_net(net, n), connected(net, n),
    ensures seg_ordered(net, n[0], n[n.len() - 1]),
{
    if n.len() > 1 {
        lemma_ends_sorted(net, n, 0, n.len() - 1);
        if n[0] == n[n.len() - 1] { }
    }
}
/// the positions computed for an insertion
pub open spec fn ins_positions(t: &Tour, n: Seq<NodeIdx>, s: int, e: int) -> bool {
    &&& (if t.network.sp_node(n[0]).sp_is_depot() { s == 0 } else { t.is_start_pos(n[0], s) })
    &&& (if t.network.sp_node(n[n.len() - 1]).sp_is_depot() { e == t.len() } else { t.is_end_pos(n[n.len() - 1], e) })
}
/// C01: the spliced tour is well formed, provided the inserted path is connected (A-path)
pub proof fn lemma_insert_wf(t: &Tour, n: Seq<NodeIdx>, s: int, e: int)
    requires t.wf(), tour_len_ok(t.nodes@), tour_len_ok(n), path_shape(&t.network, n), ins_positions(t, n, s, e),
        t.is_dummy ==> no_depot(&t.network, n),
    ensures 0 <= s <= e <= t.len(), tour_wf(&t.network, t.spliced(s, e, n), t.is_dummy),
{
    let net = &t.network;
    let len = t.len();
    lemma_path_ordered(net, n);
    assert(net.has(n[0]) && net.has(n[n.len() - 1]));
    lemma_positions_ordered(t, n[0], n[n.len() - 1], s, e);
    lemma_spliced(t, s, e, n);
    reveal(Tour::pre); reveal(Tour::suf);
    let x = t.spliced(s, e, n);
    lemma_path_shape(net, n, 0); lemma_path_shape(net, n, n.len() - 1);
    // bounds on the positions for a real tour: the start depot always stays unless the path brings
    // its own, likewise the end depot
    if !t.is_dummy {
        lemma_tour_kinds(t, 0); lemma_tour_kinds(t, len - 1);
        assert(net.nodes@.contains_key(n[0]) && net.nodes@.contains_key(n[n.len() - 1]));
        if !net.sp_node(n[0]).sp_is_depot() {
            // the start depot reaches the first node, the end depot does not
            assert(net.reach(t.nodes@[0], n[0]));
            if s == 0 { assert(!net.reach(t.nodes@[1 - 1], n[0])); }
            if s == len { assert(net.reach(t.nodes@[len - 1], n[0])); }
            assert(1 <= s <= len - 1);
        }
        if !net.sp_node(n[n.len() - 1]).sp_is_depot() {
            assert(net.reach(n[n.len() - 1], t.nodes@[len - 1]));
            if e == len { assert(!net.reach(n[n.len() - 1], t.nodes@[len - 1])); }
            if e == 0 { assert(net.reach(n[n.len() - 1], t.nodes@[0])); }
            assert(1 <= e <= len - 1);
        }
    }
    assert forall|i: int| 0 <= i < x.len() - 1 implies #[trigger] net.reach(x[i], x[i + 1]) by {
        if i < s - 1 { assert(net.reach(t.nodes@[i], t.nodes@[i + 1])); }
        else if i == s - 1 { }
        else if i < s + n.len() - 1 { assert(net.reach(n[i - s], n[(i - s) + 1])); }
        else if i == s + n.len() - 1 { }
        else { let j = i - s - n.len() + e; assert(net.reach(t.nodes@[j], t.nodes@[j + 1])); }
    }
    if t.is_dummy {
        assert forall|i: int| 0 <= i < x.len() implies (#[trigger] net.sp_node(x[i])).sp_is_activity() by {
            if i < s { lemma_tour_kinds(t, i); }
            else if i < s + n.len() { assert(net.sp_node(n[i - s]).sp_is_activity()); }
            else { lemma_tour_kinds(t, i - s - n.len() + e); }
        }
    } else {
        let inner = x.subrange(1, x.len() - 1);
        assert forall|i: int| 0 <= i < inner.len() implies (#[trigger] net.sp_node(inner[i])).sp_is_activity() by {
            let k = i + 1;
            if k < s { lemma_tour_kinds(t, k); }
            else if k < s + n.len() { lemma_path_shape(net, n, k - s); }
            else { lemma_tour_kinds(t, k - s - n.len() + e); }
        }
        // ends
        if s == 0 { lemma_path_shape(net, n, 0); }
        if e == len { lemma_path_shape(net, n, n.len() - 1); }
    }
}
/// what insert_path really inserts: a dummy tour takes no depots
pub open spec fn strip_depots(net: &Network, s: Seq<NodeIdx>) -> Seq<NodeIdx> {
    let a = if net.sp_node(s[0]).sp_is_depot() { s.subrange(1, s.len() as int) } else { s };
    if net.sp_node(a[a.len() - 1]).sp_is_depot() { a.subrange(0, a.len() - 1) } else { a }
}
pub open spec fn eff_path(t: &Tour, s: Seq<NodeIdx>) -> Seq<NodeIdx> {
    if t.is_dummy { strip_depots(&t.network, s) } else { s }
}
pub proof fn lemma_strip(net: &Network, s: Seq<NodeIdx>)
    requires net.wf(), path_shape(net, s),
    ensures path_shape(net, strip_depots(net, s)), no_depot(net, strip_depots(net, s)),
        net.sp_node(s[0]).sp_is_depot() ==> s.len() >= 2 && !all_depots(net, s.subrange(1, s.len() as int)),
        ({ let a = if net.sp_node(s[0]).sp_is_depot() { s.subrange(1, s.len() as int) } else { s };
           net.sp_node(a[a.len() - 1]).sp_is_depot() ==> a.len() >= 2 && !all_depots(net, a.subrange(0, a.len() - 1)) }),
{
    let r = strip_depots(net, s);
    let k = choose|k: int| 0 <= k < s.len() && !(#[trigger] net.sp_node(s[k])).sp_is_depot();
    lemma_path_shape(net, s, 0); lemma_path_shape(net, s, s.len() - 1); lemma_path_shape(net, s, k);
    let a = if net.sp_node(s[0]).sp_is_depot() { s.subrange(1, s.len() as int) } else { s };
    if net.sp_node(s[0]).sp_is_depot() {
        assert(k >= 1);
        assert(a[k - 1] == s[k]);
        assert(!net.sp_node(a[k - 1]).sp_is_depot());
    }
    let off: int = if net.sp_node(s[0]).sp_is_depot() { 1 } else { 0 };
    if net.sp_node(a[a.len() - 1]).sp_is_depot() {
        assert(a[a.len() - 1] == s[s.len() - 1]);
        assert(k < s.len() - 1);
        let b = a.subrange(0, a.len() - 1);
        assert(b[k - off] == s[k]);
        assert(!net.sp_node(b[k - off]).sp_is_depot());
    }
    assert forall|i: int| 0 <= i < r.len() implies #[trigger] net.has(r[i]) by {
        assert(r[i] == s[i + off]);
        assert(net.has(s[i + off]));
    }
    assert forall|i: int| 0 <= i < r.len() implies (#[trigger] net.sp_node(r[i])).sp_is_activity() by {
        assert(r[i] == s[i + off]);
        lemma_path_shape(net, s, i + off);
    }
    assert forall|i: int| 0 <= i < r.len() - 1 implies #[trigger] net.reach(r[i], r[i + 1]) by {
        assert(r[i] == s[i + off] && r[i + 1] == s[i + off + 1]);
        assert(net.reach(s[i + off], s[(i + off) + 1]));
    }
    assert(r[k - off] == s[k]);
    assert(!net.sp_node(r[k - off]).sp_is_depot());
}
