// ---- shim for slice `json_writer` (the JSON writer of solution/src/json_serialisation.rs) -------------
// Included inside `pub mod tr { use super::*; use self::im::HashMap; use self::im_set::HashSet; … }`
// after env/im_shim.vs.

// ---- A-im (continued): `im::HashSet` is opaque here (only `len` through `spawned_of_type`) -----------
pub mod im_set {
use vstd::prelude::*;

#[verifier::external_body]
#[verifier::reject_recursive_types(T)]
pub struct HashSet<T> { inner: std::collections::HashSet<T> }

impl<T> View for HashSet<T> {
    type V = Set<T>;
    uninterp spec fn view(&self) -> Set<T>;
}
} // mod im_set

// ---- solution: Vehicle, TrainFormation, Transition, Schedule (verbatim type definitions) -------------
//@item solution/src/vehicle.rs struct Vehicle : plain
//@end
//@item solution/src/train_formation.rs struct TrainFormation : plain
//@end
//@item solution/src/transition.rs type CycleIdx : plain
//@end
//@item solution/src/transition/transition_cycle.rs struct TransitionCycle : plain
//@end
//@item solution/src/transition.rs struct Transition : plain
//@end
//@item solution/src/schedule.rs type DepotUsage : plain
//@end
//@item solution/src/schedule.rs struct Schedule : plain
//@drop-derive Clone
//@end

// ---- the JSON document types (verbatim; serde derives and attributes are dropped by R3) --------------
//@item solution/src/json_serialisation.rs struct ScheduleJson : plain
//@end
//@item solution/src/json_serialisation.rs struct DepotLoad : plain
//@end
//@item solution/src/json_serialisation.rs struct Load : plain
//@end
//@item solution/src/json_serialisation.rs struct JsonFleet : plain
//@end
//@item solution/src/json_serialisation.rs struct JsonVehicle : plain
//@end
//@item solution/src/json_serialisation.rs struct JsonFleetDepartureSegment : plain
//@end
//@item solution/src/json_serialisation.rs struct JsonFleetMaintenanceSlot : plain
//@end
//@item solution/src/json_serialisation.rs struct JsonFleetDeadHeadTrip : plain
//@end
//@item solution/src/json_serialisation.rs struct JsonDepartureSegmentWithFormation : plain
//@end
//@item solution/src/json_serialisation.rs struct JsonFleetMaintenanceSlotWithFormation : plain
//@end
//@item solution/src/json_serialisation.rs struct JsonFleetDeadHeadTripWithFormation : plain
//@end

// =====================================================================================================
// A-text: texts are opaque.  The rendering functions of the repository / std are uninterpreted; the
// contracts only say WHICH value was rendered WHERE.
// =====================================================================================================
/// `DateTime::as_iso`
pub uninterp spec fn iso(t: DateTime) -> Seq<char>;
/// `VehicleIdx::to_string` (derive_more Display: "veh_{}" / "dummy_{}")
pub uninterp spec fn vid_text(v: VehicleIdx) -> Seq<char>;
/// `i32::to_string`
pub uninterp spec fn int_text(i: int) -> Seq<char>;
/// `Locations::get_id`: "NOWHERE" or the station's name as stored in the station table
pub open spec fn loc_name(locs: &Locations, l: Location) -> Seq<char> {
    match l {
        Location::Nowhere => "NOWHERE"@,
        Location::Station(i) => locs.stations@[i].0@,
    }
}
/// the id the writer gives the k-th dead-head trip of a vehicle: "dht_" followed by k
pub open spec fn dht_id(k: int) -> Seq<char> { "dht_"@ + int_text(k) }

// A-text: vstd leaves the result of the blanket `ToString::to_string` abstract
// (`to_string_from_display_ensures`); fixed here for the three receiver types the writer uses
pub broadcast axiom fn axiom_to_string_string(t: &String, res: String)
    ensures #[trigger] vstd::string::to_string_from_display_ensures::<String>(t, res) <==> res@ == t@;
pub broadcast axiom fn axiom_to_string_i32(t: &i32, res: String)
    ensures #[trigger] vstd::string::to_string_from_display_ensures::<i32>(t, res) <==> res@ == int_text(*t as int);
pub broadcast axiom fn axiom_to_string_vehicle_idx(t: &VehicleIdx, res: String)
    ensures #[trigger] vstd::string::to_string_from_display_ensures::<VehicleIdx>(t, res) <==> res@ == vid_text(*t);

// A-text: `String + &str` (std: appends) has no precondition and yields the concatenation.  (vstd's
// `AddSpec` is uninterpreted for foreign types; the call is reached through rule R10 `//@add-ufcs`:
// `A + &B` -> `std::ops::Add::add(A, &B)`, because Verus cannot resolve the operator form for `impl Add<&T>`.)
pub broadcast axiom fn axiom_string_add_req(a: String, b: &str)
    ensures #[trigger] <String as vstd::std_specs::ops::AddSpec<&str>>::add_req(a, b);
pub broadcast axiom fn axiom_string_add_obeys()
    ensures #[trigger] <String as vstd::std_specs::ops::AddSpec<&str>>::obeys_add_spec();
pub broadcast axiom fn axiom_string_add_spec(a: String, b: &str)
    ensures (#[trigger] <String as vstd::std_specs::ops::AddSpec<&str>>::add_spec(a, b))@ == a@ + b@;
pub broadcast group group_text {
    axiom_string_add_req, axiom_string_add_obeys, axiom_string_add_spec,
    axiom_to_string_string, axiom_to_string_i32, axiom_to_string_vehicle_idx,
}

//@item @rapid_time/src/date_time.rs DateTime::as_iso : trusted
//@retname r
//@sig
    ensures r@ == iso(*self),
//@end

// =====================================================================================================
// spec vocabulary for C03 (written from the property text)
// =====================================================================================================
/// the depot a depot node belongs to
pub open spec fn sp_depot_idx(net: &Network, n: NodeIdx) -> DepotIdx {
    match net.sp_node(n) {
        Node::StartDepot((_, d)) => d.depot_idx,
        Node::EndDepot((_, d)) => d.depot_idx,
        _ => arbitrary(),
    }
}
pub open spec fn sp_service_trip(net: &Network, n: NodeIdx) -> ServiceTrip { net.sp_node(n)->Service_0.1 }
pub open spec fn sp_maintenance_slot(net: &Network, n: NodeIdx) -> MaintenanceSlot { net.sp_node(n)->Maintenance_0.1 }

/// the service nodes among s, in the order of s
pub open spec fn service_nodes_in(net: &Network, s: Seq<NodeIdx>) -> Seq<NodeIdx>
    decreases s.len(),
{
    if s.len() == 0 { Seq::empty() }
    else {
        let r = service_nodes_in(net, s.drop_last());
        if net.sp_node(s.last()) is Service { r.push(s.last()) } else { r }
    }
}
/// the maintenance nodes among s, in the order of s
pub open spec fn maintenance_nodes_in(net: &Network, s: Seq<NodeIdx>) -> Seq<NodeIdx>
    decreases s.len(),
{
    if s.len() == 0 { Seq::empty() }
    else {
        let r = maintenance_nodes_in(net, s.drop_last());
        if net.sp_node(s.last()) is Maintenance { r.push(s.last()) } else { r }
    }
}
/// C03: "its location changes": the vehicle leaves a at another location than b starts
pub open spec fn loc_change(net: &Network, a: NodeIdx, b: NodeIdx) -> bool {
    net.sp_node(a).sp_end_location() != net.sp_node(b).sp_start_location()
}
/// the positions k < m of s with a location change between s[k] and s[k + 1], ascending
pub open spec fn change_legs(net: &Network, s: Seq<NodeIdx>, m: int) -> Seq<int>
    decreases m,
{
    if m <= 0 { Seq::empty() }
    else {
        let r = change_legs(net, s, m - 1);
        if loc_change(net, s[m - 1], s[m]) { r.push(m - 1) } else { r }
    }
}

/// C03: "with the input's own origin, destination and times": the entry of a vehicle for a service node
pub open spec fn is_segment_entry(net: &Network, n: NodeIdx, e: &JsonFleetDepartureSegment) -> bool {
    &&& e.departure_segment@ == sp_service_trip(net, n).id@
    &&& e.origin@ == loc_name(&net.locations, net.sp_node(n).sp_start_location())
    &&& e.destination@ == loc_name(&net.locations, net.sp_node(n).sp_end_location())
    &&& e.departure@ == iso(net.sp_node(n).sp_start_time())
    &&& e.arrival@ == iso(net.sp_node(n).sp_end_time())
}
pub open spec fn is_slot_entry(net: &Network, n: NodeIdx, e: &JsonFleetMaintenanceSlot) -> bool {
    &&& e.maintenance_slot@ == sp_maintenance_slot(net, n).id@
    &&& e.location@ == loc_name(&net.locations, net.sp_node(n).sp_start_location())
    &&& e.start@ == iso(net.sp_node(n).sp_start_time())
    &&& e.end@ == iso(net.sp_node(n).sp_end_time())
}
/// C03: "each lying inside the gap between the two activities it connects" (the contract of
/// schedule_dead_head_trip, slice json_out)
pub open spec fn in_gap(net: &Network, a: NodeIdx, b: NodeIdx, dep: DateTime, arr: DateTime) -> bool {
    &&& dt_le(net.sp_node(a).sp_end_time(), dep)
    &&& dt_le(dep, arr)
    &&& dt_le(arr, net.sp_node(b).sp_start_time())
}
/// the k-th dead-head trip of a vehicle, between nodes a and b
pub open spec fn is_dht_entry(net: &Network, a: NodeIdx, b: NodeIdx, k: int, e: &JsonFleetDeadHeadTrip) -> bool {
    &&& e.id@ == dht_id(k)
    &&& e.origin@ == loc_name(&net.locations, net.sp_node(a).sp_end_location())
    &&& e.destination@ == loc_name(&net.locations, net.sp_node(b).sp_start_location())
    &&& exists|dep: DateTime, arr: DateTime| #[trigger] in_gap(net, a, b, dep, arr) && e.departure@ == iso(dep) && e.arrival@ == iso(arr)
}
/// the same trip in the fleet-wide list: same texts, formation = [the vehicle]
pub open spec fn is_dht_copy(v: VehicleIdx, e: &JsonFleetDeadHeadTrip, f: &JsonFleetDeadHeadTripWithFormation) -> bool {
    &&& f.id@ == e.id@ && f.origin@ == e.origin@ && f.destination@ == e.destination@
    &&& f.departure@ == e.departure@ && f.arrival@ == e.arrival@
    &&& f.formation@.len() == 1 && f.formation@[0]@ == vid_text(v)
}

/// what vehicle_to_json needs from the tour of the vehicle: a well-formed real tour of the schedule's network
pub open spec fn real_tour(net: &Network, t: &Tour) -> bool {
    t.wf() && !t.is_dummy && *t.network == *net && tour_len_ok(t.nodes@)
}
/// the instance does not start within one dead-head duration after 1.1. of year 0 (precondition of
/// schedule_dead_head_trip, slice json_out), for every leg with a location change
pub open spec fn legs_schedulable(net: &Network, s: Seq<NodeIdx>) -> bool {
    forall|k: int| 0 <= k < s.len() - 1 && #[trigger] loc_change(net, s[k], s[k + 1])
        && net.sp_node(s[k + 1]).sp_is_activity() && net.min_dur(s[k], s[k + 1]) is Length
        ==> tp_secs(net.sp_node(s[k + 1]).sp_start_time()->Point_0) >= net.min_dur(s[k], s[k + 1])->Length_0.seconds
}

/// what vehicle_to_json needs from the schedule for vehicle v (established by C10 for every real vehicle)
pub open spec fn vehicle_ok(s: &Schedule, v: VehicleIdx) -> bool {
    let nodes = s.tours@[v].nodes@;
    // the vehicle is a real vehicle of the schedule with a well-formed real tour (C10 clause 1)
    &&& s.tours@.contains_key(v)
    &&& real_tour(&s.network, &s.tours@[v])
    // A-depots: both depot nodes of the tour belong to depots of the network's depot table
    &&& s.network.depots@.contains_key(sp_depot_idx(&s.network, nodes[0]))
    &&& s.network.depots@.contains_key(sp_depot_idx(&s.network, nodes[nodes.len() - 1]))
    &&& legs_schedulable(&s.network, nodes)
}

/// C03 (vehicle perspective), part 1: id of the vehicle, ids of the depots of its first / last node
pub open spec fn vehicle_json_ids(net: &Network, v: VehicleIdx, nodes: Seq<NodeIdx>, j: &JsonVehicle) -> bool {
    &&& j.id@ == vid_text(v)
    &&& j.start_depot@ == net.depots@[sp_depot_idx(net, nodes[0])].0.id@
    &&& j.end_depot@ == net.depots@[sp_depot_idx(net, nodes[nodes.len() - 1])].0.id@
}
/// part 2: `out` lists exactly the service nodes among `s`, in order, each with its own data
pub open spec fn segments_ok(net: &Network, s: Seq<NodeIdx>, out: Seq<JsonFleetDepartureSegment>) -> bool {
    let svc = service_nodes_in(net, s);
    &&& out.len() == svc.len()
    &&& forall|i: int| 0 <= i < svc.len() ==> is_segment_entry(net, svc[i], #[trigger] &out[i])
}
/// part 3: `out` lists exactly the maintenance nodes among `s`, in order, each with its own data
pub open spec fn slots_ok(net: &Network, s: Seq<NodeIdx>, out: Seq<JsonFleetMaintenanceSlot>) -> bool {
    let mnt = maintenance_nodes_in(net, s);
    &&& out.len() == mnt.len()
    &&& forall|i: int| 0 <= i < mnt.len() ==> is_slot_entry(net, mnt[i], #[trigger] &out[i])
}
/// part 4: `out` has exactly one entry per leg k < m of `s` with a location change, in order (none for
/// legs that stay at the same location), each inside the gap it bridges
pub open spec fn dhts_ok(net: &Network, s: Seq<NodeIdx>, m: int, out: Seq<JsonFleetDeadHeadTrip>) -> bool {
    let legs = change_legs(net, s, m);
    &&& out.len() == legs.len()
    &&& forall|i: int| 0 <= i < legs.len() ==> is_dht_entry(net, s[legs[i]], s[legs[i] + 1], i, #[trigger] &out[i])
}
/// part 5: the fleet-wide list `after` is `before` followed by a copy of each trip of `trips`, formation [v]
pub open spec fn dht_list_grown(v: VehicleIdx, before: Seq<JsonFleetDeadHeadTripWithFormation>, trips: Seq<JsonFleetDeadHeadTrip>,
    after: Seq<JsonFleetDeadHeadTripWithFormation>) -> bool {
    &&& after.len() == before.len() + trips.len()
    &&& forall|i: int| 0 <= i < before.len() ==> #[trigger] after[i] == before[i]
    &&& forall|i: int| 0 <= i < trips.len() ==> is_dht_copy(v, #[trigger] &trips[i], &after[before.len() + i])
}
/// C03 (vehicle perspective): the JSON entry `j` of a vehicle `v` whose itinerary is `nodes`
pub open spec fn is_vehicle_json(net: &Network, v: VehicleIdx, nodes: Seq<NodeIdx>, j: &JsonVehicle) -> bool {
    &&& vehicle_json_ids(net, v, nodes, j)
    &&& segments_ok(net, nodes, j.departure_segments@)
    &&& slots_ok(net, nodes, j.maintenance_slots@)
    &&& dhts_ok(net, nodes, nodes.len() - 1, j.dead_head_trips@)
}

// ---- lemmas: extending the consumed prefix by one node / one leg --------------------------------------
pub proof fn lemma_nodes_in_step(net: &Network, s: Seq<NodeIdx>, k: int)
    requires 0 <= k < s.len(),
    ensures
        service_nodes_in(net, s.subrange(0, k + 1)) == (if net.sp_node(s[k]) is Service { service_nodes_in(net, s.subrange(0, k)).push(s[k]) } else { service_nodes_in(net, s.subrange(0, k)) }),
        maintenance_nodes_in(net, s.subrange(0, k + 1)) == (if net.sp_node(s[k]) is Maintenance { maintenance_nodes_in(net, s.subrange(0, k)).push(s[k]) } else { maintenance_nodes_in(net, s.subrange(0, k)) }),
{
    assert(s.subrange(0, k + 1).drop_last() =~= s.subrange(0, k));
    assert(s.subrange(0, k + 1).last() == s[k]);
}
pub proof fn lemma_nodes_in_len(net: &Network, s: Seq<NodeIdx>)
    ensures service_nodes_in(net, s).len() <= s.len(), maintenance_nodes_in(net, s).len() <= s.len(),
    decreases s.len(),
{
    if s.len() > 0 { lemma_nodes_in_len(net, s.drop_last()); }
}
pub proof fn lemma_change_legs_bounds(net: &Network, s: Seq<NodeIdx>, m: int)
    ensures change_legs(net, s, m).len() <= (if m >= 0 { m } else { 0 }),
        forall|i: int| 0 <= i < change_legs(net, s, m).len() ==> 0 <= #[trigger] change_legs(net, s, m)[i] < m,
    decreases m,
{
    if m > 0 { lemma_change_legs_bounds(net, s, m - 1); }
}

// =====================================================================================================
// fleet_to_json (C03 vehicle perspective for a whole type; C05 / A-json: cycles emitted verbatim)
// =====================================================================================================
/// the vehicles of a type in the order `Schedule::vehicles_iter` yields them
pub open spec fn type_vehicles(s: &Schedule, vt: VehicleTypeIdx) -> Seq<VehicleIdx> { s.vehicle_ids_grouped_and_sorted@[vt]@ }
/// the rotation cycles of a type in the order `Transition::cycles_iter` yields them
pub open spec fn type_cycles(s: &Schedule, vt: VehicleTypeIdx) -> Seq<TransitionCycle> { s.next_period_transitions@[vt].cycles@ }
/// the id text of a vehicle type
pub open spec fn type_id(net: &Network, vt: VehicleTypeIdx) -> Seq<char> { net.vehicle_types.vehicle_types@[vt].id@ }
/// what fleet_to_json needs from the schedule for type vt
pub open spec fn type_ok(s: &Schedule, vt: VehicleTypeIdx) -> bool {
    &&& s.vehicle_ids_grouped_and_sorted@.contains_key(vt)
    &&& s.next_period_transitions@.contains_key(vt)
    &&& s.network.vehicle_types.vehicle_types@.contains_key(vt)
    &&& forall|i: int| 0 <= i < type_vehicles(s, vt).len() ==> vehicle_ok(s, #[trigger] type_vehicles(s, vt)[i])
}
/// `out` is the list of the ids of the vehicles `c`, in order
pub open spec fn ids_listed(c: Seq<VehicleIdx>, out: Seq<String>) -> bool {
    &&& out.len() == c.len()
    &&& forall|j: int| 0 <= j < c.len() ==> (#[trigger] out[j])@ == vid_text(c[j])
}
/// number of dead-head trips of the first k vehicles
pub open spec fn dht_total(vehicles: Seq<JsonVehicle>, k: int) -> int
    decreases k,
{
    if k <= 0 { 0 } else { dht_total(vehicles, k - 1) + vehicles[k - 1].dead_head_trips@.len() }
}
/// the fleet-wide list `after` is `before` followed, vehicle by vehicle, by a copy of each of its trips
pub open spec fn fleet_dht_grown(vs: Seq<VehicleIdx>, vehicles: Seq<JsonVehicle>, before: Seq<JsonFleetDeadHeadTripWithFormation>,
    after: Seq<JsonFleetDeadHeadTripWithFormation>) -> bool {
    &&& after.len() == before.len() + dht_total(vehicles, vehicles.len() as int)
    &&& forall|i: int| 0 <= i < before.len() ==> #[trigger] after[i] == before[i]
    &&& forall|i: int, j: int| 0 <= i < vehicles.len() && 0 <= j < vehicles[i].dead_head_trips@.len()
            ==> is_dht_copy(vs[i], #[trigger] &vehicles[i].dead_head_trips@[j], &after[before.len() + dht_total(vehicles, i) + j])
}
/// C03 (vehicle perspective): `out` lists the vehicles `vs` in order, each with its own itinerary
pub open spec fn vehicles_listed(s: &Schedule, vs: Seq<VehicleIdx>, out: Seq<JsonVehicle>) -> bool {
    &&& out.len() == vs.len()
    &&& forall|i: int| 0 <= i < vs.len() ==> is_vehicle_json(&s.network, vs[i], s.tours@[vs[i]].nodes@, #[trigger] &out[i])
}
/// C05 / A-json: `out` lists every cycle (including empty and one-vehicle cycles), in order, as the ids of its vehicles in order
pub open spec fn cycles_listed(cs: Seq<TransitionCycle>, out: Seq<Vec<String>>) -> bool {
    &&& out.len() == cs.len()
    &&& forall|i: int| 0 <= i < cs.len() ==> ids_listed(cs[i].cycle@, (#[trigger] out[i])@)
}
pub proof fn lemma_dht_total_prefix(a: Seq<JsonVehicle>, b: Seq<JsonVehicle>, k: int)
    requires 0 <= k <= a.len(), k <= b.len(), forall|i: int| 0 <= i < k ==> a[i] == b[i],
    ensures dht_total(a, k) == dht_total(b, k), dht_total(a, k) >= 0,
    decreases k,
{
    if k > 0 { lemma_dht_total_prefix(a, b, k - 1); }
}
pub proof fn lemma_dht_total_mono(a: Seq<JsonVehicle>, i: int, k: int)
    requires 0 <= i <= k,
    ensures 0 <= dht_total(a, i) <= dht_total(a, k),
    decreases k,
{
    if i < k { lemma_dht_total_mono(a, i, k - 1); }
    else if k > 0 { lemma_dht_total_mono(a, i - 1, k - 1); }
}
