// ---- shim for slice `json_writer` (the JSON writer of solution/src/json_serialisation.rs) -------------
// Included inside `pub mod tr { use super::*; use self::im::HashMap; use self::im_set::HashSet; … }`
// after env/im_shim.vs.

// ---- A-im (continued): `im::HashSet` is opaque here (only `len` through `spawned_of_type`) -----------
pub mod im_set {
use vstd::prelude::*;

#[verifier::external_body]
#[verifier::reject_recursive_types(T)]
pub struct HashSet<T> { inner: std::collections::HashSet<T> }

impl<T> View for HashSet<T> {
    type V = Set<T>;
    uninterp spec fn view(&self) -> Set<T>;
}
} // mod im_set

// ---- solution: Vehicle, TrainFormation, Transition, Schedule (verbatim type definitions) -------------
//@item solution/src/vehicle.rs struct Vehicle : plain
//@end
//@item solution/src/train_formation.rs struct TrainFormation : plain
//@end
//@item solution/src/transition.rs type CycleIdx : plain
//@end
//@item solution/src/transition/transition_cycle.rs struct TransitionCycle : plain
//@end
//@item solution/src/transition.rs struct Transition : plain
//@end
//@item solution/src/schedule.rs type DepotUsage : plain
//@end
//@item solution/src/schedule.rs struct Schedule : plain
//@drop-derive Clone
//@end

// ---- the JSON document types (verbatim; serde derives and attributes are dropped by R3) --------------
//@item solution/src/json_serialisation.rs struct ScheduleJson : plain
//@end
//@item solution/src/json_serialisation.rs struct DepotLoad : plain
//@end
//@item solution/src/json_serialisation.rs struct Load : plain
//@end
//@item solution/src/json_serialisation.rs struct JsonFleet : plain
//@end
//@item solution/src/json_serialisation.rs struct JsonVehicle : plain
//@end
//@item solution/src/json_serialisation.rs struct JsonFleetDepartureSegment : plain
//@end
//@item solution/src/json_serialisation.rs struct JsonFleetMaintenanceSlot : plain
//@end
//@item solution/src/json_serialisation.rs struct JsonFleetDeadHeadTrip : plain
//@end
//@item solution/src/json_serialisation.rs struct JsonDepartureSegmentWithFormation : plain
//@end
//@item solution/src/json_serialisation.rs struct JsonFleetMaintenanceSlotWithFormation : plain
//@end
//@item solution/src/json_serialisation.rs struct JsonFleetDeadHeadTripWithFormation : plain
//@end

// =====================================================================================================
// A-text: texts are opaque.  The rendering functions of the repository / std are uninterpreted; the
// contracts only say WHICH value was rendered WHERE.
// =====================================================================================================
/// `DateTime::as_iso`
pub uninterp spec fn iso(t: DateTime) -> Seq<char>;
/// `VehicleIdx::to_string` (derive_more Display: "veh_{}" / "dummy_{}")
pub uninterp spec fn vid_text(v: VehicleIdx) -> Seq<char>;
/// `i32::to_string`
pub uninterp spec fn int_text(i: int) -> Seq<char>;
/// `Locations::get_id`: "NOWHERE" or the station's name as stored in the station table
pub open spec fn loc_name(locs: &Locations, l: Location) -> Seq<char> {
    match l {
        Location::Nowhere => "NOWHERE"@,
        Location::Station(i) => locs.stations@[i].0@,
    }
}
/// the id the writer gives the k-th dead-head trip of a vehicle: "dht_" followed by k
pub open spec fn dht_id(k: int) -> Seq<char> { "dht_"@ + int_text(k) }

// A-text: vstd leaves the result of the blanket `ToString::to_string` abstract
// (`to_string_from_display_ensures`); fixed here for the three receiver types the writer uses
pub broadcast axiom fn axiom_to_string_string(t: &String, res: String)
    ensures #[trigger] vstd::string::to_string_from_display_ensures::<String>(t, res) <==> res@ == t@;
pub broadcast axiom fn axiom_to_string_i32(t: &i32, res: String)
    ensures #[trigger] vstd::string::to_string_from_display_ensures::<i32>(t, res) <==> res@ == int_text(*t as int);
pub broadcast axiom fn axiom_to_string_vehicle_idx(t: &VehicleIdx, res: String)
    ensures #[trigger] vstd::string::to_string_from_display_ensures::<VehicleIdx>(t, res) <==> res@ == vid_text(*t);

// A-text: `String + &str` (std: appends) has no precondition and yields the concatenation.  (vstd's
// `AddSpec` is uninterpreted for foreign types; the call is reached through rule R10 `//@add-ufcs`:
// `A + &B` -> `std::ops::Add::add(A, &B)`, because Verus cannot resolve the operator form for `impl Add<&T>`.)
pub broadcast axiom fn axiom_string_add_req(a: String, b: &str)
    ensures #[trigger] <String as vstd::std_specs::ops::AddSpec<&str>>::add_req(a, b);
pub broadcast axiom fn axiom_string_add_obeys()
    ensures #[trigger] <String as vstd::std_specs::ops::AddSpec<&str>>::obeys_add_spec();
pub broadcast axiom fn axiom_string_add_spec(a: String, b: &str)
    ensures (#[trigger] <String as vstd::std_specs::ops::AddSpec<&str>>::add_spec(a, b))@ == a@ + b@;
pub broadcast group group_text {
    axiom_string_add_req, axiom_string_add_obeys, axiom_string_add_spec,
    axiom_to_string_string, axiom_to_string_i32, axiom_to_string_vehicle_idx,
}

//@item @rapid_time/src/date_time.rs DateTime::as_iso : trusted
//@retname r
//@sig
    ensures r@ == iso(*self),
//@end

// =====================================================================================================
// spec vocabulary for C03 (written from the property text)
// =====================================================================================================
/// the depot a depot node belongs to
pub open spec fn sp_depot_idx(net: &Network, n: NodeIdx) -> DepotIdx {
    match net.sp_node(n) {
        Node::StartDepot((_, d)) => d.depot_idx,
        Node::EndDepot((_, d)) => d.depot_idx,
        _ => arbitrary(),
    }
}
pub open spec fn sp_service_trip(net: &Network, n: NodeIdx) -> ServiceTrip { net.sp_node(n)->Service_0.1 }
pub open spec fn sp_maintenance_slot(net: &Network, n: NodeIdx) -> MaintenanceSlot { net.sp_node(n)->Maintenance_0.1 }

/// the service nodes among s, in the order of s
pub open spec fn service_nodes_in(net: &Network, s: Seq<NodeIdx>) -> Seq<NodeIdx>
    decreases s.len(),
{
    if s.len() == 0 { Seq::empty() }
    else {
        let r = service_nodes_in(net, s.drop_last());
        if net.sp_node(s.last()) is Service { r.push(s.last()) } else { r }
    }
}
/// the maintenance nodes among s, in the order of s
pub open spec fn maintenance_nodes_in(net: &Network, s: Seq<NodeIdx>) -> Seq<NodeIdx>
    decreases s.len(),
{
    if s.len() == 0 { Seq::empty() }
    else {
        let r = maintenance_nodes_in(net, s.drop_last());
        if net.sp_node(s.last()) is Maintenance { r.push(s.last()) } else { r }
    }
}
/// C03: "its location changes": the vehicle leaves a at another location than b starts
pub open spec fn loc_change(net: &Network, a: NodeIdx, b: NodeIdx) -> bool {
    net.sp_node(a).sp_end_location() != net.sp_node(b).sp_start_location()
}
/// the positions k < m of s with a location change between s[k] and s[k + 1], ascending
pub open spec fn change_legs(net: &Network, s: Seq<NodeIdx>, m: int) -> Seq<int>
    decreases m,
{
    if m <= 0 { Seq::empty() }
    else {
        let r = change_legs(net, s, m - 1);
        if loc_change(net, s[m - 1], s[m]) { r.push(m - 1) } else { r }
    }
}

/// C03: "with the input's own origin, destination and times": the entry of a vehicle for a service node
pub open spec fn is_segment_entry(net: &Network, n: NodeIdx, e: &JsonFleetDepartureSegment) -> bool {
    &&& e.departure_segment@ == sp_service_trip(net, n).id@
    &&& e.origin@ == loc_name(&net.locations, net.sp_node(n).sp_start_location())
    &&& e.destination@ == loc_name(&net.locations, net.sp_node(n).sp_end_location())
    &&& e.departure@ == iso(net.sp_node(n).sp_start_time())
    &&& e.arrival@ == iso(net.sp_node(n).sp_end_time())
}
pub open spec fn is_slot_entry(net: &Network, n: NodeIdx, e: &JsonFleetMaintenanceSlot) -> bool {
    &&& e.maintenance_slot@ == sp_maintenance_slot(net, n).id@
    &&& e.location@ == loc_name(&net.locations, net.sp_node(n).sp_start_location())
    &&& e.start@ == iso(net.sp_node(n).sp_start_time())
    &&& e.end@ == iso(net.sp_node(n).sp_end_time())
}
/// C03: "each lying inside the gap between the two activities it connects" (the contract of
/// schedule_dead_head_trip, slice json_out)
pub open spec fn in_gap(net: &Network, a: NodeIdx, b: NodeIdx, dep: DateTime, arr: DateTime) -> bool {
    &&& dt_le(net.sp_node(a).sp_end_time(), dep)
    &&& dt_le(dep, arr)
    &&& dt_le(arr, net.sp_node(b).sp_start_time())
}
/// the k-th dead-head trip of a vehicle, between nodes a and b
pub open spec fn is_dht_entry(net: &Network, a: NodeIdx, b: NodeIdx, k: int, e: &JsonFleetDeadHeadTrip) -> bool {
    &&& e.id@ == dht_id(k)
    &&& e.origin@ == loc_name(&net.locations, net.sp_node(a).sp_end_location())
    &&& e.destination@ == loc_name(&net.locations, net.sp_node(b).sp_start_location())
    &&& exists|dep: DateTime, arr: DateTime| #[trigger] in_gap(net, a, b, dep, arr) && e.departure@ == iso(dep) && e.arrival@ == iso(arr)
}
/// the same trip in the fleet-wide list: same texts, formation = [the vehicle]
pub open spec fn is_dht_copy(v: VehicleIdx, e: &JsonFleetDeadHeadTrip, f: &JsonFleetDeadHeadTripWithFormation) -> bool {
    &&& f.id@ == e.id@ && f.origin@ == e.origin@ && f.destination@ == e.destination@
    &&& f.departure@ == e.departure@ && f.arrival@ == e.arrival@
    &&& f.formation@.len() == 1 && f.formation@[0]@ == vid_text(v)
}

/// what vehicle_to_json needs from the tour of the vehicle: a well-formed real tour of the schedule's network
pub open spec fn real_tour(net: &Network, t: &Tour) -> bool {
    t.wf() && !t.is_dummy && *t.network == *net && tour_len_ok(t.nodes@)
}
/// the precondition of schedule_dead_head_trip (slice json_out) for every leg with a location change:
/// the dead-head trip into an activity can be scheduled backwards from the activity's start
pub open spec fn legs_schedulable(net: &Network, s: Seq<NodeIdx>) -> bool {
    forall|k: int| 0 <= k < s.len() - 1 && #[trigger] loc_change(net, s[k], s[k + 1])
        && net.sp_node(s[k + 1]).sp_is_activity() && net.min_dur(s[k], s[k + 1]) is Length
        ==> tp_secs(net.sp_node(s[k + 1]).sp_start_time()->Point_0) >= net.min_dur(s[k], s[k + 1])->Length_0.seconds
}
/// "the instance does not start within one dead-head duration after 1.1. of year 0": the trip from the
/// start depot to the first activity can be scheduled backwards from the activity's start (for all
/// later legs this follows from the timing rule, lemma_legs_schedulable)
pub open spec fn first_leg_schedulable(net: &Network, s: Seq<NodeIdx>) -> bool {
    loc_change(net, s[0], s[1]) && net.min_dur(s[0], s[1]) is Length
        ==> tp_secs(net.sp_node(s[1]).sp_start_time()->Point_0) >= net.min_dur(s[0], s[1])->Length_0.seconds
}
pub proof fn lemma_dt_add_rank(t: DateTime, d: Duration)
    requires t is Point, dt_ok(t), dt_small(t), d is Length, d->Length_0.seconds < 0x4000_0000_0000_0000,
    ensures dt_rank(dt_add(t, d)) == dt_rank(t) + d->Length_0.seconds,
{
    let p = t->Point_0;
    let l = d->Length_0;
    let s = p.seconds as int + l.seconds as int;
    assert(86400 * (s / 86400) + s % 86400 == s && 0 <= s % 86400 < 86400 && 0 <= s / 86400 <= s) by (nonlinear_arith) requires s >= 0;
    assert(86400 * (p.days + s / 86400) == 86400 * p.days + 86400 * (s / 86400)) by (nonlinear_arith);
}
pub proof fn lemma_legs_schedulable(net: &Network, t: &Tour)
    requires real_tour(net, t), first_leg_schedulable(net, t.nodes@),
    ensures legs_schedulable(net, t.nodes@),
{
    let s = t.nodes@;
    assert forall|k: int| 0 <= k < s.len() - 1 && #[trigger] loc_change(net, s[k], s[k + 1])
        && net.sp_node(s[k + 1]).sp_is_activity() && net.min_dur(s[k], s[k + 1]) is Length
        implies tp_secs(net.sp_node(s[k + 1]).sp_start_time()->Point_0) >= net.min_dur(s[k], s[k + 1])->Length_0.seconds by {
        if k > 0 {
            let a = s[k];
            let b = s[k + 1];
            lemma_tour_kinds(t, k);
            lemma_tour_kinds(t, k + 1);
            assert(net.nodes@.contains_key(a) && net.nodes@.contains_key(b));
            assert(net.reach(s[k], s[k + 1]));
            lemma_min_duration_small(net, a, b);
            lemma_dt_add_rank(net.sp_node(a).sp_end_time(), net.min_dur(a, b));
        }
    }
}
/// what vehicle_to_json needs from the schedule for vehicle v (established by C10 for every real vehicle)
pub open spec fn vehicle_ok(s: &Schedule, v: VehicleIdx) -> bool {
    let nodes = s.tours@[v].nodes@;
    // the vehicle is a real vehicle of the schedule with a well-formed real tour (C10 clause 1)
    &&& s.tours@.contains_key(v)
    &&& real_tour(&s.network, &s.tours@[v])
    // A-depots: both depot nodes of the tour belong to depots of the network's depot table
    &&& s.network.depots@.contains_key(sp_depot_idx(&s.network, nodes[0]))
    &&& s.network.depots@.contains_key(sp_depot_idx(&s.network, nodes[nodes.len() - 1]))
    &&& first_leg_schedulable(&s.network, nodes)
}

/// C03 (vehicle perspective), part 1: id of the vehicle, ids of the depots of its first / last node
pub open spec fn vehicle_json_ids(net: &Network, v: VehicleIdx, nodes: Seq<NodeIdx>, j: &JsonVehicle) -> bool {
    &&& j.id@ == vid_text(v)
    &&& j.start_depot@ == net.depots@[sp_depot_idx(net, nodes[0])].0.id@
    &&& j.end_depot@ == net.depots@[sp_depot_idx(net, nodes[nodes.len() - 1])].0.id@
}
/// part 2: `out` lists exactly the service nodes among `s`, in order, each with its own data
pub open spec fn segments_ok(net: &Network, s: Seq<NodeIdx>, out: Seq<JsonFleetDepartureSegment>) -> bool {
    let svc = service_nodes_in(net, s);
    &&& out.len() == svc.len()
    &&& forall|i: int| 0 <= i < svc.len() ==> is_segment_entry(net, svc[i], #[trigger] &out[i])
}
/// part 3: `out` lists exactly the maintenance nodes among `s`, in order, each with its own data
pub open spec fn slots_ok(net: &Network, s: Seq<NodeIdx>, out: Seq<JsonFleetMaintenanceSlot>) -> bool {
    let mnt = maintenance_nodes_in(net, s);
    &&& out.len() == mnt.len()
    &&& forall|i: int| 0 <= i < mnt.len() ==> is_slot_entry(net, mnt[i], #[trigger] &out[i])
}
/// part 4: `out` has exactly one entry per leg k < m of `s` with a location change, in order (none for
/// legs that stay at the same location), each inside the gap it bridges
pub open spec fn dhts_ok(net: &Network, s: Seq<NodeIdx>, m: int, out: Seq<JsonFleetDeadHeadTrip>) -> bool {
    let legs = change_legs(net, s, m);
    &&& out.len() == legs.len()
    &&& forall|i: int| 0 <= i < legs.len() ==> is_dht_entry(net, s[legs[i]], s[legs[i] + 1], i, #[trigger] &out[i])
}
/// part 5: the fleet-wide list `after` is `before` followed by a copy of each trip of `trips`, formation [v]
pub open spec fn dht_list_grown(v: VehicleIdx, before: Seq<JsonFleetDeadHeadTripWithFormation>, trips: Seq<JsonFleetDeadHeadTrip>,
    after: Seq<JsonFleetDeadHeadTripWithFormation>) -> bool {
    &&& after.len() == before.len() + trips.len()
    &&& forall|i: int| 0 <= i < before.len() ==> #[trigger] after[i] == before[i]
    &&& forall|i: int| 0 <= i < trips.len() ==> is_dht_copy(v, #[trigger] &trips[i], &after[before.len() + i])
}
/// C03 (vehicle perspective): the JSON entry `j` of a vehicle `v` whose itinerary is `nodes`
pub open spec fn is_vehicle_json(net: &Network, v: VehicleIdx, nodes: Seq<NodeIdx>, j: &JsonVehicle) -> bool {
    &&& vehicle_json_ids(net, v, nodes, j)
    &&& segments_ok(net, nodes, j.departure_segments@)
    &&& slots_ok(net, nodes, j.maintenance_slots@)
    &&& dhts_ok(net, nodes, nodes.len() - 1, j.dead_head_trips@)
}

// ---- lemmas: extending the consumed prefix by one node / one leg --------------------------------------
pub proof fn lemma_nodes_in_step(net: &Network, s: Seq<NodeIdx>, k: int)
    requires 0 <= k < s.len(),
    ensures
        service_nodes_in(net, s.subrange(0, k + 1)) == (if net.sp_node(s[k]) is Service { service_nodes_in(net, s.subrange(0, k)).push(s[k]) } else { service_nodes_in(net, s.subrange(0, k)) }),
        maintenance_nodes_in(net, s.subrange(0, k + 1)) == (if net.sp_node(s[k]) is Maintenance { maintenance_nodes_in(net, s.subrange(0, k)).push(s[k]) } else { maintenance_nodes_in(net, s.subrange(0, k)) }),
{
    assert(s.subrange(0, k + 1).drop_last() =~= s.subrange(0, k));
    assert(s.subrange(0, k + 1).last() == s[k]);
}
pub proof fn lemma_nodes_in_len(net: &Network, s: Seq<NodeIdx>)
    ensures service_nodes_in(net, s).len() <= s.len(), maintenance_nodes_in(net, s).len() <= s.len(),
    decreases s.len(),
{
    if s.len() > 0 { lemma_nodes_in_len(net, s.drop_last()); }
}
pub proof fn lemma_change_legs_bounds(net: &Network, s: Seq<NodeIdx>, m: int)
    ensures change_legs(net, s, m).len() <= (if m >= 0 { m } else { 0 }),
        forall|i: int| 0 <= i < change_legs(net, s, m).len() ==> 0 <= #[trigger] change_legs(net, s, m)[i] < m,
    decreases m,
{
    if m > 0 { lemma_change_legs_bounds(net, s, m - 1); }
}

// =====================================================================================================
// fleet_to_json (C03 vehicle perspective for a whole type; C05 / A-json: cycles emitted verbatim)
// =====================================================================================================
/// the vehicles of a type in the order `Schedule::vehicles_iter` yields them
pub open spec fn type_vehicles(s: &Schedule, vt: VehicleTypeIdx) -> Seq<VehicleIdx> { s.vehicle_ids_grouped_and_sorted@[vt]@ }
/// the rotation cycles of a type in the order `Transition::cycles_iter` yields them
pub open spec fn type_cycles(s: &Schedule, vt: VehicleTypeIdx) -> Seq<TransitionCycle> { s.next_period_transitions@[vt].cycles@ }
/// the id text of a vehicle type
pub open spec fn type_id(net: &Network, vt: VehicleTypeIdx) -> Seq<char> { net.vehicle_types.vehicle_types@[vt].id@ }
/// what fleet_to_json needs from the schedule for type vt
pub open spec fn type_ok(s: &Schedule, vt: VehicleTypeIdx) -> bool {
    &&& s.vehicle_ids_grouped_and_sorted@.contains_key(vt)
    &&& s.next_period_transitions@.contains_key(vt)
    &&& s.network.vehicle_types.vehicle_types@.contains_key(vt)
    &&& forall|i: int| 0 <= i < type_vehicles(s, vt).len() ==> vehicle_ok(s, #[trigger] type_vehicles(s, vt)[i])
}
/// `out` is the list of the ids of the vehicles `c`, in order
pub open spec fn ids_listed(c: Seq<VehicleIdx>, out: Seq<String>) -> bool {
    &&& out.len() == c.len()
    &&& forall|j: int| 0 <= j < c.len() ==> (#[trigger] out[j])@ == vid_text(c[j])
}
/// number of dead-head trips of the first k vehicles
pub open spec fn dht_total(vehicles: Seq<JsonVehicle>, k: int) -> int
    decreases k,
{
    if k <= 0 { 0 } else { dht_total(vehicles, k - 1) + vehicles[k - 1].dead_head_trips@.len() }
}
/// the fleet-wide list `after` is `before` followed, vehicle by vehicle, by a copy of each of its trips
pub open spec fn fleet_dht_grown(vs: Seq<VehicleIdx>, vehicles: Seq<JsonVehicle>, before: Seq<JsonFleetDeadHeadTripWithFormation>,
    after: Seq<JsonFleetDeadHeadTripWithFormation>) -> bool {
    &&& after.len() == before.len() + dht_total(vehicles, vehicles.len() as int)
    &&& forall|i: int| 0 <= i < before.len() ==> #[trigger] after[i] == before[i]
    &&& forall|i: int, j: int| 0 <= i < vehicles.len() && 0 <= j < vehicles[i].dead_head_trips@.len()
            ==> is_dht_copy(vs[i], #[trigger] &vehicles[i].dead_head_trips@[j], &after[before.len() + dht_total(vehicles, i) + j])
}
/// C03 (vehicle perspective): `out` lists the vehicles `vs` in order, each with its own itinerary
pub open spec fn vehicles_listed(s: &Schedule, vs: Seq<VehicleIdx>, out: Seq<JsonVehicle>) -> bool {
    &&& out.len() == vs.len()
    &&& forall|i: int| 0 <= i < vs.len() ==> is_vehicle_json(&s.network, vs[i], s.tours@[vs[i]].nodes@, #[trigger] &out[i])
}
/// C05 / A-json: `out` lists every cycle (including empty and one-vehicle cycles), in order, as the ids of its vehicles in order
pub open spec fn cycles_listed(cs: Seq<TransitionCycle>, out: Seq<Vec<String>>) -> bool {
    &&& out.len() == cs.len()
    &&& forall|i: int| 0 <= i < cs.len() ==> ids_listed(cs[i].cycle@, (#[trigger] out[i])@)
}
pub proof fn lemma_dht_total_prefix(a: Seq<JsonVehicle>, b: Seq<JsonVehicle>, k: int)
    requires 0 <= k <= a.len(), k <= b.len(), forall|i: int| 0 <= i < k ==> a[i] == b[i],
    ensures dht_total(a, k) == dht_total(b, k), dht_total(a, k) >= 0,
    decreases k,
{
    if k > 0 { lemma_dht_total_prefix(a, b, k - 1); }
}
pub proof fn lemma_dht_total_mono(a: Seq<JsonVehicle>, i: int, k: int)
    requires 0 <= i <= k,
    ensures 0 <= dht_total(a, i) <= dht_total(a, k),
    decreases k,
{
    if i < k { lemma_dht_total_mono(a, i, k - 1); }
    else if k > 0 { lemma_dht_total_mono(a, i - 1, k - 1); }
}

// =====================================================================================================
// departure_segments_to_json / maintenance_slots_to_json (C03 trip perspective)
// =====================================================================================================
/// C03: "the formation of a segment or slot": `out` lists the ids of the vehicles of formation `f`, in formation order
pub open spec fn formation_listed(f: &TrainFormation, out: Seq<String>) -> bool {
    &&& out.len() == f.formation@.len()
    &&& forall|j: int| 0 <= j < f.formation@.len() ==> (#[trigger] out[j])@ == vid_text(f.formation@[j].idx)
}
/// the entry of the fleet-wide segment list for service node n, enumerated under vehicle type vt
pub open spec fn is_segment_row(s: &Schedule, vt: VehicleTypeIdx, n: NodeIdx, e: &JsonDepartureSegmentWithFormation) -> bool {
    let net = &s.network;
    &&& e.departure_segment@ == sp_service_trip(net, n).id@
    &&& e.origin@ == loc_name(&net.locations, net.sp_node(n).sp_start_location())
    &&& e.destination@ == loc_name(&net.locations, net.sp_node(n).sp_end_location())
    &&& e.departure@ == iso(net.sp_node(n).sp_start_time())
    &&& e.arrival@ == iso(net.sp_node(n).sp_end_time())
    &&& e.vehicle_type@ == type_id(net, vt)
    &&& formation_listed(&s.train_formations@[n], e.formation@)
}
pub open spec fn is_slot_row(s: &Schedule, n: NodeIdx, e: &JsonFleetMaintenanceSlotWithFormation) -> bool {
    let net = &s.network;
    &&& e.maintenance_slot@ == sp_maintenance_slot(net, n).id@
    &&& e.location@ == loc_name(&net.locations, net.sp_node(n).sp_start_location())
    &&& e.start@ == iso(net.sp_node(n).sp_start_time())
    &&& e.end@ == iso(net.sp_node(n).sp_end_time())
    &&& formation_listed(&s.train_formations@[n], e.formation@)
}
pub open spec fn rows_of_type(vt: VehicleTypeIdx, ns: Seq<NodeIdx>) -> Seq<(VehicleTypeIdx, NodeIdx)> {
    Seq::new(ns.len(), |i: int| (vt, ns[i]))
}
/// the (type, service node) pairs the writer enumerates for the first k vehicle types: per type (in
/// `VehicleTypes::iter` order) the type's service-node list (in `Network::service_nodes` order)
pub open spec fn seg_rows(net: &Network, types: Seq<VehicleTypeIdx>, k: int) -> Seq<(VehicleTypeIdx, NodeIdx)>
    decreases k,
{
    if k <= 0 { Seq::empty() } else { seg_rows(net, types, k - 1) + rows_of_type(types[k - 1], net.service_nodes@[types[k - 1]]@) }
}
pub open spec fn all_seg_rows(net: &Network) -> Seq<(VehicleTypeIdx, NodeIdx)> {
    seg_rows(net, net.vehicle_types.ids_sorted@, net.vehicle_types.ids_sorted@.len() as int)
}
pub open spec fn segments_listed(s: &Schedule, rows: Seq<(VehicleTypeIdx, NodeIdx)>, out: Seq<JsonDepartureSegmentWithFormation>) -> bool {
    &&& out.len() == rows.len()
    &&& forall|i: int| 0 <= i < rows.len() ==> is_segment_row(s, rows[i].0, rows[i].1, #[trigger] &out[i])
}
pub open spec fn slots_listed(s: &Schedule, rows: Seq<NodeIdx>, out: Seq<JsonFleetMaintenanceSlotWithFormation>) -> bool {
    &&& out.len() == rows.len()
    &&& forall|i: int| 0 <= i < rows.len() ==> is_slot_row(s, rows[i], #[trigger] &out[i])
}
/// what departure_segments_to_json needs (panic freedom): the per-type index of the network lists
/// service nodes of the network (A-index, half of it), every listed type is a type of the network,
/// and every listed node has a formation entry (C10: "each non-depot node is covered by exactly one
/// train formation", possibly empty)
pub open spec fn segments_pre(s: &Schedule) -> bool {
    let net = &s.network;
    let types = net.vehicle_types.ids_sorted@;
    &&& net.wf()
    &&& forall|i: int| 0 <= i < types.len() ==> net.vehicle_types.vehicle_types@.contains_key(#[trigger] types[i]) && net.service_nodes@.contains_key(types[i])
    &&& forall|i: int, j: int| 0 <= i < types.len() && 0 <= j < net.service_nodes@[types[i]]@.len() ==> {
            let n = #[trigger] net.service_nodes@[types[i]]@[j];
            net.has(n) && net.sp_node(n) is Service && s.train_formations@.contains_key(n)
        }
}
pub open spec fn slots_pre(s: &Schedule) -> bool {
    let net = &s.network;
    &&& net.wf()
    &&& forall|j: int| 0 <= j < net.maintenance_nodes@.len() ==> {
            let n = #[trigger] net.maintenance_nodes@[j];
            net.has(n) && net.sp_node(n) is Maintenance && s.train_formations@.contains_key(n)
        }
}
/// A-index (NOT proved here; established by Network::new, which fills `service_nodes` /
/// `maintenance_nodes` from the node table): every service node of the network occurs exactly once in
/// the enumeration of departure_segments_to_json, every maintenance node exactly once in
/// `maintenance_nodes`.  Under A-index the two listings contain "every departure segment and every
/// maintenance slot of the input exactly once" (C03).
pub open spec fn a_index(net: &Network) -> bool {
    let rows = all_seg_rows(net);
    &&& forall|i: int, j: int| 0 <= i < j < rows.len() ==> (#[trigger] rows[i]).1 != (#[trigger] rows[j]).1
    &&& forall|n: NodeIdx| #[trigger] net.has(n) && net.sp_node(n) is Service ==> exists|i: int| 0 <= i < rows.len() && (#[trigger] rows[i]).1 == n
    &&& net.maintenance_nodes@.no_duplicates()
    &&& forall|n: NodeIdx| #[trigger] net.has(n) && net.sp_node(n) is Maintenance ==> net.maintenance_nodes@.contains(n)
}

// =====================================================================================================
// depot usage (C02 / C09 read-out): one Load per vehicle type with a positive spawn count
// =====================================================================================================
/// the abstract depot usage: (depot, type) -> (vehicles spawned there, vehicles despawned there)
pub type UsageMap = Map<(DepotIdx, VehicleTypeIdx), (HashSet<VehicleIdx>, HashSet<VehicleIdx>)>;
/// C02: "the number of vehicles [of a type] starting there" (same definition as slice admission)
pub open spec fn spawned_of_type(du: UsageMap, d: DepotIdx, vt: VehicleTypeIdx) -> nat {
    if du.contains_key((d, vt)) { du[(d, vt)].0@.len() } else { 0 }
}
/// the types among the first k of `types` with a positive spawn count at depot d, in order
pub open spec fn spawning_types(du: UsageMap, d: DepotIdx, types: Seq<VehicleTypeIdx>, k: int) -> Seq<VehicleTypeIdx>
    decreases k,
{
    if k <= 0 { Seq::empty() }
    else {
        let r = spawning_types(du, d, types, k - 1);
        if spawned_of_type(du, d, types[k - 1]) > 0 { r.push(types[k - 1]) } else { r }
    }
}
pub open spec fn loads_listed(s: &Schedule, d: DepotIdx, rows: Seq<VehicleTypeIdx>, out: Seq<Load>) -> bool {
    &&& out.len() == rows.len()
    &&& forall|i: int| 0 <= i < rows.len() ==> (#[trigger] out[i]).vehicle_type@ == type_id(&s.network, rows[i])
            && out[i].spawn_count == spawned_of_type(s.depot_usage@, d, rows[i])
}
/// the Load list of depot d: exactly the types with a positive count, each with exactly that count
pub open spec fn depot_loads_ok(s: &Schedule, d: DepotIdx, out: Seq<Load>) -> bool {
    let types = s.network.vehicle_types.ids_sorted@;
    loads_listed(s, d, spawning_types(s.depot_usage@, d, types, types.len() as int), out)
}
pub open spec fn usage_pre(s: &Schedule, d: DepotIdx) -> bool {
    let types = s.network.vehicle_types.ids_sorted@;
    forall|i: int| 0 <= i < types.len() ==> s.network.vehicle_types.vehicle_types@.contains_key(#[trigger] types[i])
        // a VehicleCount is a u32 (there are at most 2^16 vehicle ids per kind)
        && spawned_of_type(s.depot_usage@, d, types[i]) <= u32::MAX
}
/// the depots in the order `Network::depots_iter` yields them (`HashMap::keys`: unspecified)
pub uninterp spec fn depot_order(net: &Network) -> Seq<DepotIdx>;
pub open spec fn depots_listed(s: &Schedule, ds: Seq<DepotIdx>, out: Seq<DepotLoad>) -> bool {
    &&& out.len() == ds.len()
    &&& forall|i: int| 0 <= i < ds.len() ==> (#[trigger] out[i]).depot@ == s.network.depots@[ds[i]].0.id@ && depot_loads_ok(s, ds[i], out[i].load@)
}

// =====================================================================================================
// schedule_to_json: assembly of the document
// =====================================================================================================
// A-serde: shim for the `serde_json` crate.  `Value` is opaque; `doc_of(v)` is the ScheduleJson a value
// was produced from.  ASSUMED: serialising a ScheduleJson (strings, u32 and vectors only; string map
// keys only) never fails and represents exactly the struct it was given.
pub mod serde_json {
use super::*;
use vstd::prelude::*;
#[verifier::external_body]
pub struct Value { inner: () }
#[verifier::external_body]
pub struct Error { inner: () }
pub uninterp spec fn doc_of(v: Value) -> ScheduleJson;
#[verifier::external_body]
pub fn to_value(value: ScheduleJson) -> (r: Result<Value, Error>)
    ensures r is Ok, doc_of(r->Ok_0) == value,
{ unimplemented!() }
} // mod serde_json

/// C03 / A-json: the fleet entry of type vt: its id, every vehicle with its itinerary, every cycle verbatim
pub open spec fn is_fleet_json(s: &Schedule, vt: VehicleTypeIdx, f: &JsonFleet) -> bool {
    &&& f.vehicle_type@ == type_id(&s.network, vt)
    &&& vehicles_listed(s, type_vehicles(s, vt), f.vehicles@)
    &&& cycles_listed(type_cycles(s, vt), f.vehicle_cycles@)
}
pub open spec fn fleets_listed(s: &Schedule, types: Seq<VehicleTypeIdx>, out: Seq<JsonFleet>) -> bool {
    &&& out.len() == types.len()
    &&& forall|i: int| 0 <= i < types.len() ==> is_fleet_json(s, types[i], #[trigger] &out[i])
}
/// number of dead-head trips of the first k fleets
pub open spec fn fleet_total(fleets: Seq<JsonFleet>, k: int) -> int
    decreases k,
{
    if k <= 0 { 0 } else { fleet_total(fleets, k - 1) + dht_total(fleets[k - 1].vehicles@, fleets[k - 1].vehicles@.len() as int) }
}
/// C03 (trip perspective == vehicle perspective for dead-head trips): the document's dead-head list is,
/// fleet by fleet and vehicle by vehicle, a copy of each listed trip of each vehicle with formation [that vehicle]
pub open spec fn all_dhts_listed(s: &Schedule, types: Seq<VehicleTypeIdx>, fleets: Seq<JsonFleet>, list: Seq<JsonFleetDeadHeadTripWithFormation>) -> bool {
    &&& list.len() == fleet_total(fleets, fleets.len() as int)
    &&& forall|t: int, i: int, j: int| 0 <= t < fleets.len() && 0 <= i < fleets[t].vehicles@.len() && 0 <= j < fleets[t].vehicles@[i].dead_head_trips@.len()
            ==> is_dht_copy(type_vehicles(s, types[t])[i], #[trigger] &fleets[t].vehicles@[i].dead_head_trips@[j],
                    &list[fleet_total(fleets, t) + dht_total(fleets[t].vehicles@, i) + j])
}
/// what schedule_to_json needs from the schedule (the union of the parts' preconditions)
pub open spec fn document_pre(s: &Schedule) -> bool {
    let types = s.network.vehicle_types.ids_sorted@;
    &&& forall|i: int| 0 <= i < types.len() ==> type_ok(s, #[trigger] types[i])
    &&& segments_pre(s)
    &&& slots_pre(s)
    &&& forall|d: DepotIdx| s.network.depots@.contains_key(d) ==> #[trigger] usage_pre(s, d)
}
/// the document the writer produces for schedule s
pub open spec fn is_schedule_json(s: &Schedule, doc: &ScheduleJson) -> bool {
    let net = &s.network;
    let types = net.vehicle_types.ids_sorted@;
    &&& depots_listed(s, depot_order(net), doc.depot_loads@)
    &&& fleets_listed(s, types, doc.fleet@)
    &&& segments_listed(s, all_seg_rows(net), doc.departure_segments@)
    &&& slots_listed(s, net.maintenance_nodes@, doc.maintenance_slots@)
    &&& all_dhts_listed(s, types, doc.fleet@, doc.dead_head_trips@)
}
pub proof fn lemma_fleet_total_prefix(a: Seq<JsonFleet>, b: Seq<JsonFleet>, k: int)
    requires 0 <= k <= a.len(), k <= b.len(), forall|i: int| 0 <= i < k ==> a[i] == b[i],
    ensures fleet_total(a, k) == fleet_total(b, k),
    decreases k,
{
    if k > 0 { lemma_fleet_total_prefix(a, b, k - 1); }
}
pub proof fn lemma_fleet_total_mono(a: Seq<JsonFleet>, i: int, k: int)
    requires 0 <= i <= k,
    ensures 0 <= fleet_total(a, i) <= fleet_total(a, k),
    decreases k,
{
    if k > 0 { lemma_dht_total_mono(a[k - 1].vehicles@, 0, a[k - 1].vehicles@.len() as int); }
    if i < k { lemma_fleet_total_mono(a, i, k - 1); }
    else if k > 0 { lemma_fleet_total_mono(a, i - 1, k - 1); }
}
/// the j-th trip of vehicle i lies inside the block of its fleet
pub proof fn lemma_dht_slot_in_block(veh: Seq<JsonVehicle>, i: int, j: int)
    requires 0 <= i < veh.len(), 0 <= j < veh[i].dead_head_trips@.len(),
    ensures 0 <= dht_total(veh, i) + j < dht_total(veh, veh.len() as int),
{
    lemma_dht_total_mono(veh, 0, i);
    lemma_dht_total_mono(veh, i + 1, veh.len() as int);
}

/// C03 "lists every departure segment ... of the input exactly once", under A-index: every service node
/// of the network has exactly one row, and that row carries the node's own data and its train formation
pub proof fn lemma_every_segment_exactly_once(s: &Schedule, out: Seq<JsonDepartureSegmentWithFormation>, n: NodeIdx)
    requires a_index(&s.network), segments_listed(s, all_seg_rows(&s.network), out), s.network.has(n), s.network.sp_node(n) is Service,
    ensures
        exists|i: int| 0 <= i < out.len() && (#[trigger] all_seg_rows(&s.network)[i]).1 == n && is_segment_row(s, all_seg_rows(&s.network)[i].0, n, &out[i]),
        forall|i: int, j: int| 0 <= i < j < out.len() ==> !((#[trigger] all_seg_rows(&s.network)[i]).1 == n && (#[trigger] all_seg_rows(&s.network)[j]).1 == n),
{
    let rows = all_seg_rows(&s.network);
    let i = choose|i: int| 0 <= i < rows.len() && (#[trigger] rows[i]).1 == n;
    assert(is_segment_row(s, rows[i].0, rows[i].1, &out[i]));
}
/// the same for maintenance slots
pub proof fn lemma_every_slot_exactly_once(s: &Schedule, out: Seq<JsonFleetMaintenanceSlotWithFormation>, n: NodeIdx)
    requires a_index(&s.network), slots_listed(s, s.network.maintenance_nodes@, out), s.network.has(n), s.network.sp_node(n) is Maintenance,
    ensures
        exists|i: int| 0 <= i < out.len() && #[trigger] s.network.maintenance_nodes@[i] == n && is_slot_row(s, n, &out[i]),
        forall|i: int, j: int| 0 <= i < j < out.len() ==> !(#[trigger] s.network.maintenance_nodes@[i] == n && #[trigger] s.network.maintenance_nodes@[j] == n),
{
    let ns = s.network.maintenance_nodes@;
    assert(ns.contains(n));
    let i = choose|i: int| 0 <= i < ns.len() && ns[i] == n;
    assert(is_slot_row(s, ns[i], &out[i]));
}
