// ---- limit functions of the model under contract (verified in slice limits, stubs elsewhere: R7a) -----
//@item model/src/network/nodes.rs ServiceTrip::vehicle_type
//@retname r
//@sig
    ensures r == self.vehicle_type,
//@end
//@item model/src/network/nodes.rs ServiceTrip::passengers
//@retname r
//@sig
    ensures r == self.passengers,
//@end
//@item model/src/network/nodes.rs ServiceTrip::seated
//@retname r
//@sig
    ensures r == self.seated,
//@end
//@item model/src/network/nodes.rs ServiceTrip::maximal_formation_count
//@retname r
//@sig
    ensures r == self.maximal_formation_count,
//@end
//@item model/src/network/nodes.rs MaintenanceSlot::track_count
//@retname r
//@sig
    ensures r == self.track_count,
//@end
//@item model/src/network/nodes.rs Node::as_service_trip
//@retname r
//@sig
    requires self is Service,
    ensures *r == self->Service_0.1,
//@end
//@item model/src/network/nodes.rs Node::as_maintenance_slot
//@retname r
//@sig
    requires self is Maintenance,
    ensures *r == self->Maintenance_0.1,
//@end
//@item model/src/vehicle_types.rs VehicleType::seats
//@retname r
//@sig
    ensures r == self.seats,
//@end
//@item model/src/vehicle_types.rs VehicleType::capacity
//@retname r
//@sig
    ensures r == self.capacity,
//@end
//@item model/src/vehicle_types.rs VehicleType::maximal_formation_count
//@retname r
//@sig
    ensures r == self.maximal_formation_count,
//@end
//@item model/src/vehicle_types.rs VehicleTypes::get : trusted
//@retname r
//@sig
    ensures
        self.vehicle_types@.contains_key(idx) ==> r is Some && r.unwrap() == self.vehicle_types@[idx],
        !self.vehicle_types@.contains_key(idx) ==> r is None,
//@end
//@item model/src/network.rs Network::vehicle_types
//@retname r
//@sig
    ensures r == self.vehicle_types,
//@end
//@item model/src/network.rs Network::vehicle_type_for
//@retname r
//@sig
    requires self.has(service_trip), self.sp_node(service_trip) is Service,
    ensures r == self.sp_trip(service_trip).vehicle_type,
//@end
//@item model/src/network.rs Network::track_count_of_maintenance_slot
//@retname r
//@sig
    requires self.has(maintenance_node), self.sp_node(maintenance_node) is Maintenance,
    ensures r == self.sp_node(maintenance_node)->Maintenance_0.1.track_count,
//@end
//@item model/src/network.rs Network::maximal_formation_count_for
//@retname r
//@sig
    requires self.is_trip(service_trip),
    ensures r == combined_limit(
        self.vehicle_types.vehicle_types@[self.sp_trip(service_trip).vehicle_type].maximal_formation_count,
        self.sp_trip(service_trip).maximal_formation_count), // @obl C02.maximal_formation_count_for.smaller_of_present_limits
//@closure-params? 0
    VehicleCount
//@closure? 0
    -> (m: VehicleCount) ensures m == (if l <= limit_of_node.unwrap_or(l) { l } else { limit_of_node.unwrap_or(l) })
//@end
//@item model/src/network.rs Network::number_of_vehicles_required_to_serve
//@retname r
//@sig
    requires self.is_trip(service_trip), self.vehicle_types.wf(), self.vehicle_types.vehicle_types@.contains_key(vehicle_type),
    ensures ({
        let vt = self.vehicle_types.vehicle_types@[vehicle_type];
        let t = self.sp_trip(service_trip);
        // C07: enough vehicles for its passengers and seated passengers, and not one more
        &&& (r as int) * (vt.capacity as int) >= (t.passengers as int)
        &&& (r as int) * (vt.seats as int) >= (t.seated as int)
        &&& (r > 0 ==> ((r as int - 1) * (vt.capacity as int) < (t.passengers as int)) || ((r as int - 1) * (vt.seats as int) < (t.seated as int)))
    }), // @obl C07.number_of_vehicles_required.ceil
//@before "service_trip .passengers()"
        proof {
            lemma_div_ceil(service_trip.passengers as int, vehicle_type.capacity as int);
            lemma_div_ceil(service_trip.seated as int, vehicle_type.seats as int);
            let x = ceil_div(service_trip.passengers as int, vehicle_type.capacity as int);
            let y = ceil_div(service_trip.seated as int, vehicle_type.seats as int);
            lemma_mul_mono(x, y, vehicle_type.capacity as int);
            lemma_mul_mono(y, x, vehicle_type.seats as int);
        }
//@end
pub open spec fn ceil_div(a: int, b: int) -> int { if a % b == 0 { a / b } else { a / b + 1 } }
pub proof fn lemma_div_ceil(a: int, b: int)
    requires a >= 0, b > 0,
    ensures ceil_div(a, b) * b >= a, ceil_div(a, b) > 0 ==> (ceil_div(a, b) - 1) * b < a, ceil_div(a, b) >= 0,
{
    assert(a == (a / b) * b + a % b && 0 <= a % b < b && a / b >= 0) by (nonlinear_arith) requires a >= 0, b > 0;
    assert((a / b + 1) * b == (a / b) * b + b) by (nonlinear_arith);
    assert((a / b - 1) * b == (a / b) * b - b) by (nonlinear_arith);
}
pub proof fn lemma_mul_mono(x: int, y: int, c: int)
    requires c >= 0,
    ensures x <= y ==> x * c <= y * c,
{
    assert(x <= y ==> x * c <= y * c) by (nonlinear_arith) requires c >= 0;
}
//@item model/src/network/depot.rs Depot::total_capacity
//@retname r
//@sig
    ensures r == self.total_capacity,
//@end
//@item model/src/network/depot.rs Depot::capacity_for
//@retname r
//@sig
    ensures
        // C02: within the depot's total capacity and within the per-type capacity; types not listed never start there
        !self.allowed_types@.contains_key(vehicle_type_idx) ==> r == 0,
        self.allowed_types@.contains_key(vehicle_type_idx) ==> r <= self.total_capacity
            && (self.allowed_types@[vehicle_type_idx] is Some ==> r <= self.allowed_types@[vehicle_type_idx].unwrap())
            && (r == self.total_capacity || (self.allowed_types@[vehicle_type_idx] is Some && r == self.allowed_types@[vehicle_type_idx].unwrap())), // @obl C02.capacity_for.min_of_limits
//@end
