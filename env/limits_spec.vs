// ---- spec vocabulary for formation / capacity limits (C02, C07) --------------------------------------
pub assume_specification[ u32::div_ceil ](a: u32, b: u32) -> (r: u32)
    requires b != 0,
    ensures r as int == (if a as int % b as int == 0 { a as int / b as int } else { a as int / b as int + 1 });
/// C02: "the smaller of its vehicle type's and its route segment's maximal formation count",
/// over the limits that are present; no limit iff neither is given
pub open spec fn combined_limit(type_limit: Option<VehicleCount>, segment_limit: Option<VehicleCount>) -> Option<VehicleCount> {
    match (type_limit, segment_limit) {
        (Some(a), Some(b)) => Some(if a <= b { a } else { b }),
        (Some(a), None) => Some(a),
        (None, Some(b)) => Some(b),
        (None, None) => None,
    }
}

impl VehicleTypes {
    pub open spec fn wf(&self) -> bool {
        forall|i: VehicleTypeIdx| #[trigger] self.vehicle_types@.contains_key(i) ==> self.vehicle_types@[i].capacity > 0 && self.vehicle_types@[i].seats > 0
    }
}
impl Network {
    pub open spec fn sp_trip(&self, n: NodeIdx) -> ServiceTrip { self.sp_node(n)->Service_0.1 }
    pub open spec fn is_trip(&self, n: NodeIdx) -> bool {
        self.has(n) && self.sp_node(n) is Service && self.vehicle_types.vehicle_types@.contains_key(self.sp_trip(n).vehicle_type)
    }
}


impl Network {
    /// C02: the applicable formation limit of a departure segment
    pub open spec fn sp_formation_limit(&self, n: NodeIdx) -> Option<VehicleCount> {
        combined_limit(self.vehicle_types.vehicle_types@[self.sp_trip(n).vehicle_type].maximal_formation_count, self.sp_trip(n).maximal_formation_count)
    }
}
impl Depot {
    /// C02: how many vehicles of a type may start at a depot: 0 if the type is not listed, else the smaller of the
    /// per-type capacity (if any) and the total capacity
    pub open spec fn sp_capacity_for(&self, vt: VehicleTypeIdx) -> int {
        if !self.allowed_types@.contains_key(vt) { 0 }
        else if self.allowed_types@[vt] is None { self.total_capacity as int }
        else if self.allowed_types@[vt].unwrap() <= self.total_capacity { self.allowed_types@[vt].unwrap() as int }
        else { self.total_capacity as int }
    }
}
