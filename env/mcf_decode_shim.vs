// ---- shim for slice `mcf_decode` (flow decoding of MinCostFlowSolver::solve_for_vehicle_type) --------------
// Every `external_body` item, every `assume_specification` and every `axiom` below is an ASSUMPTION (listed in the
// header of slices/mcf_decode.vs).  Everything else (the abstract views, `index_ok`, the lemmas) is ordinary verified
// vocabulary.

// =====================================================================================================
// A-std (NEW): std::collections::HashMap::get_mut and hash_map::Entry::or_default
// =====================================================================================================
// `HashMap::entry` / `Entry::or_insert` are specified by vstd (Entry::value = the value stored when the entry was
// taken, Entry::final_value = the value stored when the borrow ends).  `or_default` is `or_insert(V::default())`.
/// std: "Ensures a value is in the entry by inserting the default value if empty, and returns a mutable reference to
/// the value in the entry."
pub assume_specification<'a, K, V: Default>[ std::collections::hash_map::Entry::<'a, K, V>::or_default ](entry: std::collections::hash_map::Entry<'a, K, V>) -> (value: &'a mut V)
    ensures
        entry.value() is Some ==> *value == entry.value().unwrap(),
        entry.value() is None ==> call_ensures(V::default, (), *value),
        entry.final_value() == Some(*final(value));

/// the map `new_m` is `old_m` with the (borrowed) key k bound to v; meaning fixed for Q = K by the axiom below (same
/// scheme as vstd's `borrowed_key_removed` / `axiom_deref_key_removed`)
pub uninterp spec fn borrowed_key_rebound<K, V, Q: ?Sized>(old_m: Map<K, V>, new_m: Map<K, V>, k: &Q, v: V) -> bool;
pub broadcast axiom fn axiom_deref_key_rebound<Q, V>(old_m: Map<Q, V>, new_m: Map<Q, V>, k: &Q, v: V)
    ensures #[trigger] borrowed_key_rebound::<Q, V, Q>(old_m, new_m, k, v) <==> new_m == old_m.insert(*k, v);

/// std: "Returns a mutable reference to the value corresponding to the key": a reference INTO the map: None iff the key
/// is absent (map untouched); otherwise the reference starts at the stored value and when the borrow ends the map is the
/// old one with the key bound to the final value of the reference.
pub assume_specification<'a, K, V, S, A, Q>[ std::collections::HashMap::<K, V, S, A>::get_mut ](m: &'a mut std::collections::HashMap<K, V, S, A>, k: &Q) -> (r: Option<&'a mut V>)
    where
        A: std::alloc::Allocator,
        K: std::cmp::Eq + std::hash::Hash + std::borrow::Borrow<Q>,
        Q: std::hash::Hash + std::cmp::Eq + ?Sized,
        S: std::hash::BuildHasher,
    ensures
        vstd::std_specs::hash::obeys_key_model::<K>() && vstd::std_specs::hash::builds_valid_hashers::<S>() ==> {
            &&& r is Some <==> vstd::std_specs::hash::contains_borrowed_key(old(m)@, k)
            &&& r is Some ==> vstd::std_specs::hash::maps_borrowed_key_to_value(old(m)@, k, *r->Some_0)
                    && borrowed_key_rebound(old(m)@, final(m)@, k, *final(r->Some_0))
            &&& r is None ==> final(m)@ == old(m)@
        };

// =====================================================================================================
// A-map: a std HashMap that a fragment only reads by `map[&key]` (text as in env/network_new_shim.vs, which this slice
// does not include).  std: `impl Index<&Q> for HashMap<K, V>`: "Panics if the key is not present in the HashMap"
// =====================================================================================================
#[verifier::external_body]
#[verifier::reject_recursive_types(K)]
#[verifier::accept_recursive_types(V)]
pub struct StdMap<K, V> { inner: std::collections::HashMap<K, V> }

impl<K, V> View for StdMap<K, V> {
    type V = Map<K, V>;
    uninterp spec fn view(&self) -> Map<K, V>;
}
impl<'a, K, V> std::ops::Index<&'a K> for StdMap<K, V> {
    type Output = V;
    #[verifier::external_body]
    fn index(&self, k: &'a K) -> (r: &V)
        ensures *r == self@[*k],
    { unimplemented!() }
}
impl<'a, K, V> vstd::std_specs::core::IndexSpecImpl<&'a K> for StdMap<K, V> {
    open spec fn index_req(&self, k: &&'a K) -> bool { self@.contains_key(**k) }
}

// =====================================================================================================
// A-lib: rs_graph (LinkedListGraph<u32>, its Node / Edge handles, IndexGraph::edge_id) -- opaque
// =====================================================================================================
/// rs_graph::linkedlistgraph::Node<u32> (a Copy handle)
#[verifier::external_body]
#[derive(Clone, Copy)]
pub struct RsNode { id: u32 }
/// rs_graph::linkedlistgraph::Edge<u32> (a Copy handle)
#[verifier::external_body]
#[derive(Clone, Copy)]
pub struct RsEdge { id: u32 }
/// rs_graph::LinkedListGraph<u32>
#[verifier::external_body]
pub struct RsGraph { n: usize }

impl RsGraph {
    /// the index of an edge (IndexGraph: "a unique number between 0 and num_edges")
    pub uninterp spec fn sp_edge_id(&self, e: RsEdge) -> usize;
    /// the tail (source node) of an edge; `inedges(u)` yields `(e, n)` with n = the tail of e
    pub uninterp spec fn sp_src(&self, e: RsEdge) -> RsNode;

    /// rs_graph::IndexGraph::edge_id
    #[verifier::external_body]
    pub fn edge_id(&self, e: RsEdge) -> (r: usize)
        ensures r == self.sp_edge_id(e),
    { unimplemented!() }
}

// =====================================================================================================
// A-iter: `std::iter::repeat(x).take(k)`: x, k times
// =====================================================================================================
#[verifier::external_body]
#[verifier::accept_recursive_types(T)]
pub struct VRepeat<T> { x: T }
impl<T> VRepeat<T> {
    pub uninterp spec fn item(&self) -> T;
    /// std::iter::Iterator::take on std::iter::Repeat
    #[verifier::external_body]
    pub fn take(self, n: usize) -> (r: SeqIter<T>)
        ensures r@ == Seq::new(n as nat, |i: int| self.item()),
    { unimplemented!() }
}
/// std::iter::repeat: "Creates a new iterator that endlessly repeats a single element."
#[verifier::external_body]
pub fn repeat<T: Clone>(x: T) -> (r: VRepeat<T>)
    ensures r.item() == x,
{ unimplemented!() }

// =====================================================================================================
// verified vocabulary: the abstract views of the decoding state
// =====================================================================================================
/// the tours built so far: tour i = the chain of nodes `t[i]`
pub type Tours = Seq<Seq<NodeIdx>>;
/// `last_trip_to_tour`: node -> indices of the tours registered as currently ending there
pub type Ends = Map<NodeIdx, Seq<usize>>;

pub open spec fn tours_view(t: Vec<Vec<NodeIdx>>) -> Tours { Seq::new(t@.len(), |i: int| t@[i]@) }
pub open spec fn ends_view(m: HashMap<NodeIdx, Vec<usize>>) -> Ends {
    Map::new(m@.dom(), |k: NodeIdx| m@[k]@)
}
/// the tours registered as ending at k; an absent key means "none"
pub open spec fn ends_at(e: Ends, k: NodeIdx) -> Seq<usize> { if e.contains_key(k) { e[k] } else { Seq::empty() } }

/// the node a tour currently ends at
pub open spec fn tour_end(t: Tours, i: int) -> NodeIdx { t[i].last() }

/// tour i occurs in the list l
pub open spec fn listed(l: Seq<usize>, i: int) -> bool { exists|j: int| 0 <= j < l.len() && #[trigger] l[j] as int == i }

/// `last_trip_to_tour` is an index of the tours by their last node: every registration is a tour that ends at the key,
/// every tour is registered under its last node, no tour is registered twice under one key
pub open spec fn index_ok(t: Tours, e: Ends) -> bool {
    &&& forall|i: int| 0 <= i < t.len() ==> (#[trigger] t[i]).len() >= 2
    &&& forall|k: NodeIdx, j: int| 0 <= j < ends_at(e, k).len() ==> (#[trigger] ends_at(e, k)[j]) < t.len() && tour_end(t, ends_at(e, k)[j] as int) == k
    &&& forall|i: int| 0 <= i < t.len() ==> listed(ends_at(e, #[trigger] tour_end(t, i)), i)
    &&& forall|k: NodeIdx| (#[trigger] ends_at(e, k)).no_duplicates()
}

/// the list l without its entry at position j
pub open spec fn seq_without(l: Seq<usize>, j: int) -> Seq<usize> {
    l.subrange(0, j) + l.subrange(j + 1, l.len() as int)
}
/// the registrations after one tour (index i, found at position j of p's list) moved from `p` to `node`: that entry
/// leaves p's list, i is appended to node's list, every other list is untouched
pub open spec fn ends_moved(e0: Ends, p: NodeIdx, node: NodeIdx, i: usize, j: int, k: NodeIdx) -> Seq<usize> {
    let a = if k == p { seq_without(ends_at(e0, k), j) } else { ends_at(e0, k) };
    if k == node { a.push(i) } else { a }
}
/// the registrations after a new tour (index i) was registered at `node`
pub open spec fn ends_added(e0: Ends, node: NodeIdx, i: usize, k: NodeIdx) -> Seq<usize> {
    if k == node { ends_at(e0, k).push(i) } else { ends_at(e0, k) }
}

/// ONE UNIT OF FLOW pred -> node between two activities, the tours: tour i, one of those registered as ending at p (at
/// position j of p's list), is extended by `node`; every other tour is untouched, in order
pub open spec fn tour_extended(t0: Tours, e0: Ends, t1: Tours, p: NodeIdx, node: NodeIdx, i: usize, j: int) -> bool {
    &&& 0 <= j < ends_at(e0, p).len() && ends_at(e0, p)[j] == i
    &&& i < t0.len()
    &&& t1 =~= t0.update(i as int, t0[i as int].push(node))
}
/// … and the registrations: that tour is from now on registered at `node` and no longer at p; every other registration
/// is untouched
pub open spec fn unit_extends(t0: Tours, e0: Ends, t1: Tours, e1: Ends, p: NodeIdx, node: NodeIdx, i: usize, j: int) -> bool {
    &&& tour_extended(t0, e0, t1, p, node, i, j)
    &&& forall|k: NodeIdx| #[trigger] ends_at(e1, k) =~= ends_moved(e0, p, node, i, j, k)
}
/// what the code does for such a unit, exactly: it takes the tour registered LAST at p (`pop()`) and appends the new
/// registration (`push`).  Only a bridge between the statement and `unit_extends` (lemma_lifo_is_unit_extends): the
/// contract of the fragment does not say WHICH of the tours waiting at p is extended.
pub open spec fn lifo_moved(e0: Ends, p: NodeIdx, node: NodeIdx, i: usize, k: NodeIdx) -> Seq<usize> {
    let a = if k == p { ends_at(e0, k).drop_last() } else { ends_at(e0, k) };
    if k == node { a.push(i) } else { a }
}
pub open spec fn lifo_tour_extended(t0: Tours, e0: Ends, t1: Tours, p: NodeIdx, node: NodeIdx) -> bool {
    &&& ends_at(e0, p).len() > 0 && ends_at(e0, p).last() < t0.len()
    &&& t1 =~= t0.update(ends_at(e0, p).last() as int, t0[ends_at(e0, p).last() as int].push(node))
}
pub open spec fn lifo_extends(t0: Tours, e0: Ends, t1: Tours, e1: Ends, p: NodeIdx, node: NodeIdx) -> bool {
    &&& lifo_tour_extended(t0, e0, t1, p, node)
    &&& forall|k: NodeIdx| #[trigger] ends_at(e1, k) =~= lifo_moved(e0, p, node, ends_at(e0, p).last(), k)
}
pub proof fn lemma_lifo_is_unit_extends(t0: Tours, e0: Ends, t1: Tours, e1: Ends, p: NodeIdx, node: NodeIdx)
    requires lifo_extends(t0, e0, t1, e1, p, node),
    ensures unit_extends(t0, e0, t1, e1, p, node, ends_at(e0, p).last(), ends_at(e0, p).len() - 1),
{
    let l0 = ends_at(e0, p);
    let i = l0.last();
    let j = l0.len() - 1;
    assert(l0[j] == i);
    assert(l0.drop_last() =~= seq_without(l0, j));
    assert forall|k: NodeIdx| #[trigger] ends_at(e1, k) =~= ends_moved(e0, p, node, i, j, k) by {
        assert(ends_at(e1, k) =~= lifo_moved(e0, p, node, i, k));
    }
}
/// ONE UNIT OF FLOW depot -> node: a new tour `[start, node]` is appended and registered at `node`; nothing else changes
pub open spec fn unit_starts(t0: Tours, e0: Ends, t1: Tours, e1: Ends, start: NodeIdx, node: NodeIdx) -> bool {
    &&& t0.len() < usize::MAX
    &&& t1 =~= t0.push(seq![start, node])
    &&& forall|k: NodeIdx| #[trigger] ends_at(e1, k) =~= ends_added(e0, node, t0.len() as usize, k)
}
/// nothing changes (as far as the tours and their registrations are concerned)
pub open spec fn unit_ignored(t0: Tours, e0: Ends, t1: Tours, e1: Ends) -> bool {
    &&& t1 =~= t0
    &&& forall|k: NodeIdx| #[trigger] ends_at(e1, k) =~= ends_at(e0, k)
}

/// number of tours that pass through (contain) node n
pub open spec fn visits(t: Tours, n: NodeIdx) -> int
    decreases t.len()
{
    if t.len() == 0 { 0 } else { visits(t.drop_last(), n) + (if t.last().contains(n) { 1int } else { 0int }) }
}

// ---- lemmas: the unit steps keep the index invariant ----------------------------------------------------
pub proof fn lemma_extend_keeps_index(t0: Tours, e0: Ends, t1: Tours, e1: Ends, p: NodeIdx, node: NodeIdx, i: usize, jp: int)
    requires index_ok(t0, e0), unit_extends(t0, e0, t1, e1, p, node, i, jp),
    ensures index_ok(t1, e1), tour_end(t0, i as int) == p, tour_end(t1, i as int) == node,
{
    let ii = i as int;
    let lp = ends_at(e0, p);
    assert(lp[jp] == i);
    assert(tour_end(t0, lp[jp] as int) == p);
    assert(t1[ii] == t0[ii].push(node));
    assert(t0[ii].len() >= 2);
    assert(lp.no_duplicates());
    assert forall|x: int| 0 <= x < t1.len() implies (#[trigger] t1[x]).len() >= 2 by {
        if x != ii { assert(t1[x] == t0[x]); }
    }
    // soundness of every registration
    assert forall|k: NodeIdx, j: int| 0 <= j < ends_at(e1, k).len() implies (#[trigger] ends_at(e1, k)[j]) < t1.len() && tour_end(t1, ends_at(e1, k)[j] as int) == k by {
        let l1 = ends_at(e1, k);
        assert(l1 == ends_moved(e0, p, node, i, jp, k));
        let l0 = ends_at(e0, k);
        let a = if k == p { seq_without(l0, jp) } else { l0 };
        if k == node && j == a.len() {
            assert(l1[j] == i);
        } else {
            assert(l1[j] == a[j]);
            // the position of this entry in the old list
            let j0 = if k == p && j >= jp { j + 1 } else { j };
            assert(a[j] == l0[j0]);
            let x = l0[j0];
            assert(x < t0.len() && tour_end(t0, x as int) == k);
            if x == i {
                // i ends at p in t0, so k == p; p's list is duplicate-free and position jp was taken out
                assert(k == p);
                assert(lp[j0] == lp[jp] && j0 != jp);
                assert(false);
            } else {
                assert(t1[x as int] == t0[x as int]);
            }
        }
    }
    // every tour is registered where it ends
    assert forall|x: int| 0 <= x < t1.len() implies listed(ends_at(e1, #[trigger] tour_end(t1, x)), x) by {
        if x == ii {
            let l1 = ends_at(e1, node);
            assert(l1 == ends_moved(e0, p, node, i, jp, node));
            assert(l1[l1.len() - 1] as int == x);
        } else {
            assert(t1[x] == t0[x]);
            let k = tour_end(t0, x);
            let l0 = ends_at(e0, k);
            assert(listed(l0, x));
            let j = choose|j: int| 0 <= j < l0.len() && #[trigger] l0[j] as int == x;
            let l1 = ends_at(e1, k);
            assert(l1 == ends_moved(e0, p, node, i, jp, k));
            if k == p {
                assert(j != jp);
                let j1 = if j < jp { j } else { j - 1 };
                assert(seq_without(l0, jp)[j1] as int == x);
                assert(l1[j1] as int == x);
            } else {
                assert(l1[j] as int == x);
            }
        }
    }
    // no tour is registered twice under one key
    assert forall|k: NodeIdx| (#[trigger] ends_at(e1, k)).no_duplicates() by {
        let l1 = ends_at(e1, k);
        assert(l1 == ends_moved(e0, p, node, i, jp, k));
        let l0 = ends_at(e0, k);
        assert(l0.no_duplicates());
        let a = if k == p { seq_without(l0, jp) } else { l0 };
        assert(a.no_duplicates()) by {
            if k == p {
                assert forall|x: int, y: int| 0 <= x < a.len() && 0 <= y < a.len() && x != y implies a[x] != a[y] by {
                    let x0 = if x >= jp { x + 1 } else { x };
                    let y0 = if y >= jp { y + 1 } else { y };
                    assert(a[x] == l0[x0] && a[y] == l0[y0] && x0 != y0);
                }
            }
        }
        if k == node {
            assert forall|j: int| 0 <= j < a.len() implies a[j] != i by {
                let j0 = if k == p && j >= jp { j + 1 } else { j };
                assert(a[j] == l0[j0]);
                if l0[j0] == i {
                    assert(tour_end(t0, l0[j0] as int) == k);
                    assert(k == p);
                    assert(lp[j0] == lp[jp] && j0 != jp);
                }
            }
        }
    }
}

pub proof fn lemma_start_keeps_index(t0: Tours, e0: Ends, t1: Tours, e1: Ends, start: NodeIdx, node: NodeIdx)
    requires index_ok(t0, e0), unit_starts(t0, e0, t1, e1, start, node),
    ensures index_ok(t1, e1), tour_end(t1, t0.len() as int) == node,
{
    let n = t0.len() as int;
    let nu = t0.len() as usize;
    assert(t1[n] == seq![start, node]);
    assert(seq![start, node].len() == 2);
    assert(seq![start, node][1] == node);
    assert forall|x: int| 0 <= x < t1.len() implies (#[trigger] t1[x]).len() >= 2 by {
        if x != n { assert(t1[x] == t0[x]); }
    }
    assert forall|k: NodeIdx, j: int| 0 <= j < ends_at(e1, k).len() implies (#[trigger] ends_at(e1, k)[j]) < t1.len() && tour_end(t1, ends_at(e1, k)[j] as int) == k by {
        let l1 = ends_at(e1, k);
        assert(l1 == ends_added(e0, node, nu, k));
        if k == node && j == ends_at(e0, k).len() {
            assert(l1[j] == nu);
        } else {
            let x = ends_at(e0, k)[j];
            assert(l1[j] == x);
            assert(x < t0.len() && tour_end(t0, x as int) == k);
            assert(t1[x as int] == t0[x as int]);
        }
    }
    assert forall|x: int| 0 <= x < t1.len() implies listed(ends_at(e1, #[trigger] tour_end(t1, x)), x) by {
        if x == n {
            let l1 = ends_at(e1, node);
            assert(l1 == ends_added(e0, node, nu, node));
            assert(l1[l1.len() - 1] as int == x);
        } else {
            assert(t1[x] == t0[x]);
            let k = tour_end(t0, x);
            let l0 = ends_at(e0, k);
            assert(listed(l0, x));
            let j = choose|j: int| 0 <= j < l0.len() && #[trigger] l0[j] as int == x;
            let l1 = ends_at(e1, k);
            assert(l1 == ends_added(e0, node, nu, k));
            assert(l1[j] as int == x);
        }
    }
    assert forall|k: NodeIdx| (#[trigger] ends_at(e1, k)).no_duplicates() by {
        let l1 = ends_at(e1, k);
        assert(l1 == ends_added(e0, node, nu, k));
        let l0 = ends_at(e0, k);
        assert(l0.no_duplicates());
        if k == node {
            assert forall|j: int| 0 <= j < l0.len() implies l0[j] != nu by {
                assert(l0[j] < t0.len());
            }
        }
    }
}

pub proof fn lemma_ignored_keeps_index(t0: Tours, e0: Ends, t1: Tours, e1: Ends)
    requires index_ok(t0, e0), unit_ignored(t0, e0, t1, e1),
    ensures index_ok(t1, e1),
{
    assert forall|k: NodeIdx, j: int| 0 <= j < ends_at(e1, k).len() implies (#[trigger] ends_at(e1, k)[j]) < t1.len() && tour_end(t1, ends_at(e1, k)[j] as int) == k by {
        assert(ends_at(e1, k) == ends_at(e0, k));
        assert(ends_at(e0, k)[j] < t0.len());
    }
    assert forall|x: int| 0 <= x < t1.len() implies listed(ends_at(e1, #[trigger] tour_end(t1, x)), x) by {
        assert(ends_at(e1, tour_end(t0, x)) == ends_at(e0, tour_end(t0, x)));
    }
    assert forall|k: NodeIdx| (#[trigger] ends_at(e1, k)).no_duplicates() by {
        assert(ends_at(e1, k) == ends_at(e0, k));
    }
}
