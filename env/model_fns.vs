// ---- model: accessor and reachability functions under contract (verbatim bodies) -------------------
//@item model/src/network/nodes.rs Node::is_service
//@retname r
//@sig
    ensures r == (self is Service),
//@end
//@item model/src/network/nodes.rs Node::is_maintenance
//@retname r
//@sig
    ensures r == (self is Maintenance),
//@end
//@item model/src/network/nodes.rs Node::is_depot
//@retname r
//@sig
    ensures r == self.sp_is_depot(),
//@end
//@item model/src/network/nodes.rs Node::is_start_depot
//@retname r
//@sig
    ensures r == (self is StartDepot),
//@end
//@item model/src/network/nodes.rs Node::is_end_depot
//@retname r
//@sig
    ensures r == (self is EndDepot),
//@end
//@item model/src/network/nodes.rs Node::idx
//@retname r
//@sig
    ensures r == self.sp_idx(),
//@end
//@item model/src/network/nodes.rs Node::start_time
//@retname r
//@sig
    ensures r == self.sp_start_time(),
//@end
//@item model/src/network/nodes.rs Node::end_time
//@retname r
//@sig
    ensures r == self.sp_end_time(),
//@end
//@item model/src/network/nodes.rs Node::duration
//@retname r
//@sig
    requires self.wf(),
    ensures r == self.sp_duration(),
//@end
//@item model/src/network/nodes.rs Node::start_location
//@retname r
//@sig
    ensures r == self.sp_start_location(),
//@end
//@item model/src/network/nodes.rs Node::end_location
//@retname r
//@sig
    ensures r == self.sp_end_location(),
//@end
//@item model/src/network/nodes.rs Node::travel_distance
//@retname r
//@sig
    ensures r == self.sp_travel_distance(),
//@end
//@item model/src/base_types/distance.rs Distance::ZERO
//@end
//@item model/src/locations.rs Locations::get_dead_head_trip
//@retname r
//@sig
    requires self.wf(), self.has(a), self.has(b),
    ensures
        (a is Station && b is Station) ==> r == Some(&self.sp_trip(a->Station_0, b->Station_0)),
        !(a is Station && b is Station) ==> r is None,
//@first
        proof { lemma_locations_wf2(self, a, b); }
//@end
//@item model/src/locations.rs Locations::distance
//@retname r
//@sig
    requires self.wf(), self.has(a), self.has(b),
    ensures r == self.sp_distance(a, b),
//@end
//@item model/src/locations.rs Locations::travel_time
//@retname r
//@sig
    requires self.wf(), self.has(a), self.has(b),
    ensures r == self.sp_travel_time(a, b),
//@end
//@item model/src/network.rs Network::node
//@retname r
//@sig
    requires self.has(idx),
    ensures *r == self.sp_node(idx),
//@end
//@item model/src/network.rs Network::shunting_duration_between_activities_if_no_dead_head_trip
//@retname r
//@sig
    ensures r == (if n1.sp_is_activity() && n2.sp_is_activity() { self.config.shunting.minimal } else { Duration::Length(DurationLength { seconds: 0 }) }),
//@end
//@item model/src/network.rs Network::shunting_duration_between_activities_if_dead_head_trip
//@retname r
//@sig
    requires self.config.wf(),
    ensures r == dur_add(
                if n1.sp_is_activity() { self.config.shunting.dead_head_trip } else { Duration::Length(DurationLength { seconds: 0 }) },
                if n2.sp_is_activity() { self.config.shunting.dead_head_trip } else { Duration::Length(DurationLength { seconds: 0 }) }),
//@end
//@item model/src/network.rs Network::minimal_duration_between_nodes_as_ref
//@retname r
//@sig
    requires self.wf(),
        self.locations.has(n1.sp_end_location()), self.locations.has(n2.sp_start_location()),
    ensures r == rule_min_duration(&self.config, &self.locations, n1, n2),
        r is Length ==> r->Length_0.seconds < 0x4_0000_0000_0000,
//@first
        proof { lemma_locations_wf2(&self.locations, n1.sp_end_location(), n2.sp_start_location()); }
//@end
//@item model/src/network.rs Network::minimal_duration_between_nodes
//@retname r
//@sig
    requires self.wf(), self.has(node1), self.has(node2),
    ensures r == self.min_dur(node1, node2),
        r is Length ==> r->Length_0.seconds < 0x4_0000_0000_0000,
//@end
//@item model/src/network.rs Network::can_reach
//@retname r
//@sig
    requires self.wf(), self.has(node1), self.has(node2),
    ensures r == self.reach(node1, node2), // @obl C17.can_reach.rule
//@end
//@item model/src/network.rs Network::dead_head_time_between
//@retname r
//@sig
    requires self.wf(), self.has(node1), self.has(node2),
    ensures r == self.locations.sp_travel_time(self.sp_node(node1).sp_end_location(), self.sp_node(node2).sp_start_location()),
//@end
//@item model/src/network.rs Network::dead_head_distance_between
//@retname r
//@sig
    requires self.wf(), self.has(node1), self.has(node2),
    ensures r == self.locations.sp_distance(self.sp_node(node1).sp_end_location(), self.sp_node(node2).sp_start_location()),
//@end
//@item model/src/network.rs Network::idle_time_between
//@retname r
//@sig
    requires self.wf(), self.has(node1), self.has(node2),
    ensures r == self.leg_idle(node1, node2),
//@first
        broadcast use lemma_dt_cmp_rank;
        proof {
            assert(self.nodes@.contains_key(node1) && self.nodes@.contains_key(node2));
            let l1 = self.sp_node(node1).sp_end_location(); let l2 = self.sp_node(node2).sp_start_location();
            lemma_locations_wf2(&self.locations, l1, l2);
        }
//@end
