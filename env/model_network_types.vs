// ---- model: nodes, depots, locations, config, vehicle types, network (verbatim type definitions) ---
//@item model/src/network/nodes.rs enum Node : plain
//@end
//@item model/src/network/nodes.rs struct DepotNode : plain
//@end
//@item model/src/network/nodes.rs struct ServiceTrip : plain
//@end
//@item model/src/network/nodes.rs struct MaintenanceSlot : plain
//@end
//@item model/src/network/depot.rs struct Depot : plain
//@end
//@item model/src/locations.rs struct Locations : plain
//@end
//@item model/src/locations.rs struct DeadHeadTrip : plain
//@end
//@item model/src/config.rs struct Config : plain
//@end
//@item model/src/config.rs struct ShuntingConfig : plain
//@end
//@item model/src/config.rs struct MaintenanceConfig : plain
//@end
//@item model/src/config.rs struct CostsConfig : plain
//@end
//@item model/src/vehicle_types.rs struct VehicleTypes : plain
//@end
//@item model/src/vehicle_types.rs struct VehicleType : plain
//@end
//@item model/src/network.rs type SortedNodes : plain
//@end
//@item model/src/network.rs struct Network : plain
//@end
