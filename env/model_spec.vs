// ---- spec vocabulary for the model (DESIGN §4) -----------------------------------------------------
pub open spec fn dur_small(d: Duration) -> bool { d is Length ==> d->Length_0.seconds < 0x1_0000_0000_0000 }

impl Node {
    pub open spec fn sp_is_depot(&self) -> bool { self is StartDepot || self is EndDepot }
    pub open spec fn sp_is_activity(&self) -> bool { self is Service || self is Maintenance }
    pub open spec fn sp_idx(&self) -> NodeIdx {
        match self {
            Node::Service((i, _)) => *i, Node::Maintenance((i, _)) => *i,
            Node::StartDepot((i, _)) => *i, Node::EndDepot((i, _)) => *i,
        }
    }
    pub open spec fn sp_start_time(&self) -> DateTime {
        match self {
            Node::Service((_, s)) => s.departure,
            Node::Maintenance((_, m)) => m.start,
            Node::StartDepot(_) => DateTime::Earliest,
            Node::EndDepot(_) => DateTime::Latest,
        }
    }
    pub open spec fn sp_end_time(&self) -> DateTime {
        match self {
            Node::Service((_, s)) => s.arrival,
            Node::Maintenance((_, m)) => m.end,
            Node::StartDepot(_) => DateTime::Earliest,
            Node::EndDepot(_) => DateTime::Latest,
        }
    }
    pub open spec fn sp_start_location(&self) -> Location {
        match self {
            Node::Service((_, s)) => s.origin,
            Node::Maintenance((_, m)) => m.location,
            Node::StartDepot((_, d)) => d.location,
            Node::EndDepot((_, d)) => d.location,
        }
    }
    pub open spec fn sp_end_location(&self) -> Location {
        match self {
            Node::Service((_, s)) => s.destination,
            Node::Maintenance((_, m)) => m.location,
            Node::StartDepot((_, d)) => d.location,
            Node::EndDepot((_, d)) => d.location,
        }
    }
    pub open spec fn sp_travel_distance(&self) -> Distance {
        match self { Node::Service((_, s)) => s.distance, _ => Distance::Distance(0) }
    }
    pub open spec fn sp_duration(&self) -> Duration {
        if self.sp_is_depot() { Duration::Length(DurationLength { seconds: 0 }) }
        else { dt_sub(self.sp_end_time(), self.sp_start_time()) }
    }
    /// validity of a node of a loaded instance: activities have proper points in time with a
    /// positive duration (documented input format), magnitudes are small enough for u64 arithmetic
    pub open spec fn wf(&self) -> bool {
        &&& self.sp_is_activity() ==> {
            &&& self.sp_start_time() is Point && self.sp_end_time() is Point
            &&& dt_ok(self.sp_start_time()) && dt_ok(self.sp_end_time())
            &&& dt_small(self.sp_start_time()) && dt_small(self.sp_end_time())
            &&& dt_lt(self.sp_start_time(), self.sp_end_time())
            // activities take place at stations (only the overflow depot is Nowhere)
            &&& self.sp_start_location() is Station && self.sp_end_location() is Station
        }
        &&& (self.sp_travel_distance() is Distance && self.sp_travel_distance()->Distance_0 <= 0x100_0000_0000)
    }
}

impl Locations {
    pub open spec fn has(&self, l: Location) -> bool {
        l is Station ==> self.stations@.contains_key(l->Station_0)
    }
    pub open spec fn sp_trip(&self, a: LocationIdx, b: LocationIdx) -> DeadHeadTrip {
        self.dead_head_trips@[a]@[b]
    }
    /// the dead-head matrix is total on the stations and its entries are small
    /// (opaque: the pairwise quantifier is only unfolded inside the lemmas / accessors that need it)
    #[verifier::opaque]
    pub open spec fn wf(&self) -> bool {
        forall|a: LocationIdx, b: LocationIdx|
            #![trigger self.stations@.contains_key(a), self.stations@.contains_key(b)]
            self.stations@.contains_key(a) && self.stations@.contains_key(b) ==> {
                &&& self.dead_head_trips@.contains_key(a)
                &&& self.dead_head_trips@[a]@.contains_key(b)
                &&& dur_small(self.sp_trip(a, b).travel_time)
                &&& self.sp_trip(a, b).distance is Distance && self.sp_trip(a, b).distance->Distance_0 <= 0x100_0000_0000
            }
    }
    /// documented semantics: the table entry between two stations, infinitely far from/to Nowhere
    pub open spec fn sp_travel_time(&self, a: Location, b: Location) -> Duration {
        if a is Station && b is Station { self.sp_trip(a->Station_0, b->Station_0).travel_time } else { Duration::Infinity }
    }
    pub open spec fn sp_distance(&self, a: Location, b: Location) -> Distance {
        if a is Station && b is Station { self.sp_trip(a->Station_0, b->Station_0).distance } else { Distance::Infinity }
    }
}

pub proof fn lemma_locations_wf(l: &Locations, a: LocationIdx, b: LocationIdx)
    requires l.wf(), l.stations@.contains_key(a), l.stations@.contains_key(b),
    ensures l.dead_head_trips@.contains_key(a), l.dead_head_trips@[a]@.contains_key(b),
        dur_small(l.sp_trip(a, b).travel_time),
        l.sp_trip(a, b).distance is Distance && l.sp_trip(a, b).distance->Distance_0 <= 0x100_0000_0000,
{
    reveal(Locations::wf);
}
pub proof fn lemma_locations_wf2(l: &Locations, a: Location, b: Location)
    requires l.wf(), l.has(a), l.has(b),
    ensures a is Station && b is Station ==> l.dead_head_trips@.contains_key(a->Station_0) && l.dead_head_trips@[a->Station_0]@.contains_key(b->Station_0)
        && dur_small(l.sp_trip(a->Station_0, b->Station_0).travel_time)
        && l.sp_trip(a->Station_0, b->Station_0).distance is Distance && l.sp_trip(a->Station_0, b->Station_0).distance->Distance_0 <= 0x100_0000_0000,
{
    if a is Station && b is Station { lemma_locations_wf(l, a->Station_0, b->Station_0); }
}

impl Config {
    pub open spec fn wf(&self) -> bool {
        &&& self.shunting.minimal is Length && dur_small(self.shunting.minimal)
        &&& self.shunting.dead_head_trip is Length && dur_small(self.shunting.dead_head_trip)
    }
}

/// C01/C17: "minimal shunting when staying at the same location; dead-head travel time plus
/// dead-head shunting on each non-depot side otherwise"
pub open spec fn rule_min_duration(cfg: &Config, locs: &Locations, n1: &Node, n2: &Node) -> Duration {
    if n1.sp_end_location() == n2.sp_start_location() {
        if n1.sp_is_activity() && n2.sp_is_activity() { cfg.shunting.minimal } else { Duration::Length(DurationLength { seconds: 0 }) }
    } else {
        dur_add(
            locs.sp_travel_time(n1.sp_end_location(), n2.sp_start_location()),
            dur_add(
                if n1.sp_is_activity() { cfg.shunting.dead_head_trip } else { Duration::Length(DurationLength { seconds: 0 }) },
                if n2.sp_is_activity() { cfg.shunting.dead_head_trip } else { Duration::Length(DurationLength { seconds: 0 }) },
            ),
        )
    }
}

/// C01/C17: the documented timing rule.  Nothing reaches a start depot, an end depot reaches
/// nothing; otherwise a start depot reaches everything and an end depot is reached by everything;
/// with dead-heads forbidden no location change; arrival + turnaround <= next start.
pub open spec fn rule_can_reach(cfg: &Config, locs: &Locations, n1: &Node, n2: &Node) -> bool {
    if n2 is StartDepot || n1 is EndDepot { false }
    else if n1 is StartDepot || n2 is EndDepot { true }
    else if cfg.forbid_dead_head_trip && n1.sp_end_location() != n2.sp_start_location() { false }
    else { dt_le(dt_add(n1.sp_end_time(), rule_min_duration(cfg, locs, n1, n2)), n2.sp_start_time()) }
}

impl Network {
    pub open spec fn has(&self, i: NodeIdx) -> bool { self.nodes@.contains_key(i) }
    pub open spec fn sp_node(&self, i: NodeIdx) -> Node { self.nodes@[i] }
    /// magnitudes small enough for the u64 arithmetic of the cost caches (stated precondition, not
    /// "arithmetic treated as mathematical"): rates <= 2^16, planning horizon, travel times and any
    /// span between two activity times <= 2^28 s (8.5 years), distances <= 2^40 m
    pub open spec fn bounded(&self) -> bool { self.bounded_scalars() && self.bounded_pairs() }
    pub open spec fn bounded_scalars(&self) -> bool {
        &&& self.planning_days is Length && self.planning_days->Length_0.seconds <= 0x1000_0000
        &&& self.config.costs.service_trip <= 0xffff && self.config.costs.maintenance <= 0xffff
        &&& self.config.costs.dead_head_trip <= 0xffff && self.config.costs.idle <= 0xffff
    }
    /// (opaque: the pairwise quantifiers are only unfolded inside the lemmas that need them)
    #[verifier::opaque]
    pub open spec fn bounded_pairs(&self) -> bool {
        &&& forall|a: LocationIdx, b: LocationIdx|
            #![trigger self.locations.stations@.contains_key(a), self.locations.stations@.contains_key(b)]
            self.locations.stations@.contains_key(a) && self.locations.stations@.contains_key(b) ==>
                (self.locations.sp_trip(a, b).travel_time is Length ==> self.locations.sp_trip(a, b).travel_time->Length_0.seconds <= 0x1000_0000)
        &&& forall|i: NodeIdx, j: NodeIdx| #![trigger self.nodes@.contains_key(i), self.nodes@.contains_key(j)]
            self.nodes@.contains_key(i) && self.nodes@.contains_key(j) && self.sp_node(i).sp_is_activity() && self.sp_node(j).sp_is_activity()
                ==> dt_rank(self.sp_node(j).sp_end_time()) - dt_rank(self.sp_node(i).sp_start_time()) <= 0x1000_0000
    }
    pub open spec fn wf(&self) -> bool {
        &&& self.locations.wf()
        &&& self.config.wf()
        &&& self.bounded()
        &&& forall|i: NodeIdx| #[trigger] self.nodes@.contains_key(i) ==> {
            &&& self.nodes@[i].wf()
            &&& self.locations.has(self.nodes@[i].sp_start_location())
            &&& self.locations.has(self.nodes@[i].sp_end_location())
        }
    }
    pub open spec fn reach(&self, a: NodeIdx, b: NodeIdx) -> bool {
        rule_can_reach(&self.config, &self.locations, &self.nodes@[a], &self.nodes@[b])
    }
    pub open spec fn leg_time(&self, a: NodeIdx, b: NodeIdx) -> Duration {
        self.locations.sp_travel_time(self.sp_node(a).sp_end_location(), self.sp_node(b).sp_start_location())
    }
    /// idle time of a leg: what is left of the gap after the dead-head trip; none out of a start
    /// depot or into an end depot
    pub open spec fn leg_idle(&self, a: NodeIdx, b: NodeIdx) -> Duration {
        if self.sp_node(a) is StartDepot || self.sp_node(b) is EndDepot { Duration::Length(DurationLength { seconds: 0 }) }
        else {
            let arrive = dt_add(self.sp_node(a).sp_end_time(), self.leg_time(a, b));
            if dt_le(arrive, self.sp_node(b).sp_start_time()) { dt_sub(self.sp_node(b).sp_start_time(), arrive) }
            else { Duration::Length(DurationLength { seconds: 0 }) }
        }
    }
    pub open spec fn min_dur(&self, a: NodeIdx, b: NodeIdx) -> Duration {
        rule_min_duration(&self.config, &self.locations, &self.nodes@[a], &self.nodes@[b])
    }
}

// A-display: the Display impls (outside verus!, no-ops here; derive_more / hand written in the
// repository) have no precondition
impl vstd::std_specs::fmt::DisplaySpecImpl for NodeIdx {
    open spec fn fmt_req(&self, f: &std::fmt::Formatter<'_>) -> bool { true }
}
impl vstd::std_specs::fmt::DisplaySpecImpl for VehicleIdx {
    open spec fn fmt_req(&self, f: &std::fmt::Formatter<'_>) -> bool { true }
}
impl vstd::std_specs::fmt::DisplaySpecImpl for Node {
    open spec fn fmt_req(&self, f: &std::fmt::Formatter<'_>) -> bool { true }
}
pub mod fmt_axioms {
use super::*;
use vstd::prelude::*;
/// A-display: `{}` of a `&Node` (Display impl of the repository, no-op here) has no precondition
pub broadcast axiom fn axiom_fmt_node()
    ensures #[trigger] vstd::std_specs::fmt::fmt_req_all::<Node>();
}
