// ---- model: base types (verbatim) ------------------------------------------------------------------
//@item model/src/base_types.rs type Idx : plain
//@end
//@item model/src/base_types.rs struct LocationIdx : plain
//@end
//@item model/src/base_types.rs struct VehicleTypeIdx : plain
//@end
//@item model/src/base_types.rs enum VehicleIdx : plain
//@end
//@item model/src/base_types.rs struct DepotIdx : plain
//@end
//@item model/src/base_types.rs enum NodeIdx : plain
//@end
//@item model/src/base_types.rs type VehicleCount : plain
//@end
//@item model/src/base_types.rs type PassengerCount : plain
//@end
//@item model/src/base_types.rs type Meter : plain
//@end
//@item model/src/base_types.rs type Cost : plain
//@end
//@item model/src/base_types.rs const INF_DISTANCE : plain
//@end
//@item model/src/base_types.rs const MAX_DISTANCE : plain
//@end
//@item model/src/base_types.rs type MaintenanceCounter : plain
//@end
//@item model/src/base_types/distance.rs enum Distance : plain
//@end
//@item model/src/base_types/location.rs enum Location : plain
//@end

// A-derive: derived PartialEq is structural equality
impl vstd::std_specs::cmp::PartialEqSpecImpl for LocationIdx {
    open spec fn obeys_eq_spec() -> bool { true }
    open spec fn eq_spec(&self, other: &LocationIdx) -> bool { *self == *other }
}
impl vstd::std_specs::cmp::PartialEqSpecImpl for VehicleTypeIdx {
    open spec fn obeys_eq_spec() -> bool { true }
    open spec fn eq_spec(&self, other: &VehicleTypeIdx) -> bool { *self == *other }
}
impl vstd::std_specs::cmp::PartialEqSpecImpl for VehicleIdx {
    open spec fn obeys_eq_spec() -> bool { true }
    open spec fn eq_spec(&self, other: &VehicleIdx) -> bool { *self == *other }
}
impl vstd::std_specs::cmp::PartialEqSpecImpl for DepotIdx {
    open spec fn obeys_eq_spec() -> bool { true }
    open spec fn eq_spec(&self, other: &DepotIdx) -> bool { *self == *other }
}
impl vstd::std_specs::cmp::PartialEqSpecImpl for NodeIdx {
    open spec fn obeys_eq_spec() -> bool { true }
    open spec fn eq_spec(&self, other: &NodeIdx) -> bool { *self == *other }
}
impl vstd::std_specs::cmp::PartialEqSpecImpl for Location {
    open spec fn obeys_eq_spec() -> bool { true }
    open spec fn eq_spec(&self, other: &Location) -> bool { *self == *other }
}
impl vstd::std_specs::cmp::PartialEqSpecImpl for Distance {
    open spec fn obeys_eq_spec() -> bool { true }
    open spec fn eq_spec(&self, other: &Distance) -> bool { *self == *other }
}

pub mod key_axioms {
use super::*;
use vstd::prelude::*;
// A-vstd: the derived Hash/Eq of the index types obey vstd's key model (needed for HashMap specs)
pub broadcast axiom fn axiom_key_model_node_idx()
    ensures #[trigger] vstd::std_specs::hash::obeys_key_model::<NodeIdx>();
pub broadcast axiom fn axiom_key_model_location_idx()
    ensures #[trigger] vstd::std_specs::hash::obeys_key_model::<LocationIdx>();
pub broadcast axiom fn axiom_key_model_vehicle_type_idx()
    ensures #[trigger] vstd::std_specs::hash::obeys_key_model::<VehicleTypeIdx>();
pub broadcast axiom fn axiom_key_model_depot_idx()
    ensures #[trigger] vstd::std_specs::hash::obeys_key_model::<DepotIdx>();
pub broadcast axiom fn axiom_key_model_vehicle_idx()
    ensures #[trigger] vstd::std_specs::hash::obeys_key_model::<VehicleIdx>();
}
