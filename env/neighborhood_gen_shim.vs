// ---- environment of the slice `neighborhood_gen` (C11: "Generating candidates never panics") ----------------
// Included inside `pub mod tr { … }` after env/swaps_shim.vs and the struct RSSchedParallelNeighborhood.

// A-display: `{}` of the moves / a vehicle type (hand written Display impls of the repository; no-ops outside verus!)
impl vstd::std_specs::fmt::DisplaySpecImpl for SpawnVehicleForMaintenance {
    open spec fn fmt_req(&self, f: &std::fmt::Formatter<'_>) -> bool { true }
}
impl vstd::std_specs::fmt::DisplaySpecImpl for AddTripForHitchHiking {
    open spec fn fmt_req(&self, f: &std::fmt::Formatter<'_>) -> bool { true }
}
impl vstd::std_specs::fmt::DisplaySpecImpl for RemoveSingleNode {
    open spec fn fmt_req(&self, f: &std::fmt::Formatter<'_>) -> bool { true }
}

pub mod gen_fmt_axioms {
use super::*;
use vstd::prelude::*;
/// A-display: `{}` of an `Arc<VehicleType>` (std: `impl<T: Display> Display for Arc<T>` delegates to T; the Display impl of
/// the repository writes the type's id; a no-op here) has no precondition
pub broadcast axiom fn axiom_fmt_arc_vehicle_type()
    ensures #[trigger] vstd::std_specs::fmt::fmt_req_all::<Arc<VehicleType>>();
}

/// A-std9 (std: "Rotates the slice in-place such that the first `mid` elements of the slice move to the end while the last
/// `self.len() - mid` elements move to the front. ... Panics: This function will panic if `mid` is greater than the length")
pub assume_specification<T>[ <[T]>::rotate_left ](s: &mut [T], mid: usize)
    requires mid <= old(s)@.len(),
    ensures final(s)@ == old(s)@.subrange(mid as int, old(s)@.len() as int) + old(s)@.subrange(0, mid as int);
/// a rotation is a rearrangement
pub proof fn lemma_rotation_multiset<T>(s: Seq<T>, mid: int)
    requires 0 <= mid <= s.len(),
    ensures (s.subrange(mid, s.len() as int) + s.subrange(0, mid)).to_multiset() == s.to_multiset(),
{
    let a = s.subrange(0, mid);
    let b = s.subrange(mid, s.len() as int);
    assert(s =~= a + b);
    vstd::seq_lib::lemma_multiset_commutative(a, b);
    vstd::seq_lib::lemma_multiset_commutative(b, a);
}

// =====================================================================================================
// the invariants the generator relies on
// =====================================================================================================
/// number of vehicles in the formation of a node
pub open spec fn slot_count(s: &Schedule, m: NodeIdx) -> int { s.train_formations@[m].formation@.len() as int }
/// number of tracks of a maintenance slot
pub open spec fn slot_tracks(net: &Network, m: NodeIdx) -> VehicleCount { net.sp_node(m)->Maintenance_0.1.track_count }

/// A-net (established by Network::new, not under contract here): the redundant node lists of the network name nodes
/// of the network of the right kind -- every listed maintenance node is a maintenance node; every vehicle type has a
/// list of service nodes (`create_service_trips` inserts an empty list per type), whose entries are service trips
pub open spec fn net_lists_ok(net: &Network) -> bool {
    &&& forall|i: int| 0 <= i < net.maintenance_nodes@.len() ==>
            net.has(#[trigger] net.maintenance_nodes@[i]) && net.sp_node(net.maintenance_nodes@[i]) is Maintenance
    &&& forall|vt: VehicleTypeIdx| #[trigger] net.vehicle_types.vehicle_types@.contains_key(vt) ==> net.service_nodes@.contains_key(vt)
    &&& forall|vt: VehicleTypeIdx, i: int| net.service_nodes@.contains_key(vt) && 0 <= i < net.service_nodes@[vt]@.len() ==>
            net.is_trip(#[trigger] net.service_nodes@[vt]@[i])
}
/// C10 "each non-depot node is covered by exactly one train formation" (first conjunct of formations_ok,
/// env/remove_segment_shim.vs) with the MAGNITUDE: a formation lists vehicles of the schedule, of which there are at
/// most 2^17 (ids are 16 bit: max_vehicles)
pub open spec fn formations_cover(s: &Schedule) -> bool {
    forall|n: NodeIdx| s.network.has(n) && s.network.sp_node(n).sp_is_activity() ==>
        #[trigger] s.train_formations@.contains_key(n) && s.train_formations@[n].formation@.len() <= max_vehicles()
}

/// C10: every vehicle's type is a vehicle type of the network
pub open spec fn types_known(s: &Schedule) -> bool {
    forall|v: VehicleIdx| #[trigger] s.vehicles@.contains_key(v) ==> s.network.vehicle_types.vehicle_types@.contains_key(s.type_of(v))
}

/// C10 "dummy listings ... match the stored tours" (one direction of dd_dummy_listing_exact, env/dummy_ops_shim.vs) and
/// every stored dummy tour is a well-formed dummy tour of the schedule's network (dummy_tour_ok, same file)
pub open spec fn dummies_ok(s: &Schedule) -> bool {
    &&& forall|d: VehicleIdx| #[trigger] s.dummy_ids_sorted@.contains(d) ==> s.dummy_tours@.contains_key(d)
    &&& forall|d: VehicleIdx| #[trigger] s.dummy_tours@.contains_key(d) ==>
            s.dummy_tours@[d].wf() && s.dummy_tours@[d].is_dummy && *s.dummy_tours@[d].network == *s.network
}
/// what the generator needs of the base schedule: the schedule invariants (C10) and A-net
pub open spec fn sched_gen_ok(s: &Schedule) -> bool {
    &&& s.sched_ok()
    &&& net_lists_ok(&s.network)
    &&& formations_cover(s)
    &&& types_known(s)
    &&& dummies_ok(s)
}
impl RSSchedParallelNeighborhood {
    /// ... and that the neighbourhood was built for the schedule's network
    pub open spec fn gen_ok(&self, s: &Schedule) -> bool {
        self.network == s.network && sched_gen_ok(s)
    }
    /// the sort key `(vehicle_count * 10000) / track_count` is defined: no division by zero, no u32 overflow
    pub open spec fn sort_key_req(&self, s: &Schedule, m: NodeIdx) -> bool {
        slot_tracks(&self.network, m) > 0 && slot_count(s, m) * 10000 <= u32::MAX
    }
}

/// a listed maintenance node is a maintenance node of the network and has a (small) formation
pub proof fn lemma_maintenance_node(g: &RSSchedParallelNeighborhood, s: &Schedule, m: NodeIdx)
    requires g.gen_ok(s), g.network.maintenance_nodes@.contains(m),
    ensures
        s.network.has(m) && s.network.sp_node(m) is Maintenance,
        s.train_formations@.contains_key(m), 0 <= slot_count(s, m) <= max_vehicles(),
{
    let i = choose|i: int| 0 <= i < g.network.maintenance_nodes@.len() && g.network.maintenance_nodes@[i] == m;
    assert(s.network.has(s.network.maintenance_nodes@[i]));
    assert(s.train_formations@.contains_key(m));
}

/// a vehicle of the listing is a real vehicle with a valid tour, of a type of the network
pub proof fn lemma_listed_vehicle(s: &Schedule, v: VehicleIdx)
    requires sched_gen_ok(s), sched_vehicles(s).contains(v),
    ensures
        s.vehicles@.contains_key(v) && s.tours@.contains_key(v) && s.vehicle_ok(v),
        s.has_tour(v) && s.sp_tour_of(v) == s.tours@[v],
        s.network.vehicle_types.vehicle_types@.contains_key(s.type_of(v)),
{
    assert(s.tours@.contains_key(v));
    assert(s.vehicle_ok(v));
}

// =====================================================================================================
// SpawnVehicleForMaintenance: the precondition of `apply` (SpawnVehicleForMaintenance::req, env/swaps_shim.vs), split into
// the clauses about the PARAMETERS and the base schedule (proved here from what the iterators yield) and the clause about
// the intermediate schedules (A-carried: a consequence of the modifications' contracts in their own slices)
// =====================================================================================================
pub open spec fn spawn_move(maintenance: NodeIdx, receiver: VehicleIdx) -> SpawnVehicleForMaintenance {
    SpawnVehicleForMaintenance { maintenance_slot: maintenance, vehicle: receiver }
}
impl SpawnVehicleForMaintenance {
    /// clauses 1-4 of `req` (text copied)
    pub open spec fn req_base(&self, s: &Schedule) -> bool {
        &&& s.vehicles@.contains_key(self.vehicle) && s.tours@.contains_key(self.vehicle)
        &&& s.network.wf() && s.network.has(self.maintenance_slot) && s.network.sp_node(self.maintenance_slot) is Maintenance
        &&& s.train_formations@.contains_key(self.maintenance_slot)
        &&& self.slot_full(s) ==> self.occupants(s).len() > 0
    }
    /// clause 5 of `req` (text copied)
    pub open spec fn req_carried(&self, s: &Schedule) -> bool {
        !s.tours@[self.vehicle].visits_maintenance && self.steps_ok(s) ==> idr_req(self.schedule3(s), self.changed3(s))
    }
}
/// the split is exact
pub proof fn lemma_spawn_req_split(w: &SpawnVehicleForMaintenance, s: &Schedule)
    ensures w.req(s) == (w.req_base(s) && w.req_carried(s)),
{
}
/// C11 / C06: the generator only hands over (slot, vehicle) pairs that satisfy the move's parameter preconditions
pub proof fn lemma_spawn_parameters(g: &RSSchedParallelNeighborhood, s: &Schedule, maintenance: NodeIdx, receiver: VehicleIdx)
    requires
        g.gen_ok(s), g.network.maintenance_nodes@.contains(maintenance),
        slot_count(s, maintenance) < slot_tracks(&g.network, maintenance),
        sched_vehicles(s).contains(receiver),
    ensures
        spawn_move(maintenance, receiver).req_base(s), // @obl C11.generator.spawn_parameters_satisfy_the_moves_precondition
{
    lemma_maintenance_node(g, s, maintenance);
    lemma_listed_vehicle(s, receiver);
    let w = spawn_move(maintenance, receiver);
    assert(w.occupants(s).len() == slot_count(s, maintenance));
}

// =====================================================================================================
// AddTripForHitchHiking: AddTripForHitchHiking::req (env/swaps_shim.vs) split like SpawnVehicleForMaintenance::req
// =====================================================================================================
pub open spec fn hitch_move(node: NodeIdx, vehicle: VehicleIdx) -> AddTripForHitchHiking {
    AddTripForHitchHiking { node: node, vehicle: vehicle }
}
impl AddTripForHitchHiking {
    /// clauses 1-2 of `req` (text copied)
    pub open spec fn req_base(&self, s: &Schedule) -> bool {
        &&& s.network.wf() && s.network.is_trip(self.node)
        &&& s.train_formations@.contains_key(self.node) && s.train_formations@[self.node].formation@.len() <= u32::MAX
    }
    /// clause 3 of `req` (text copied)
    pub open spec fn req_carried(&self, s: &Schedule) -> bool {
        !self.full(s) && self.added(s) is Ok && self.added(s)->Ok_0.1 is None ==> idr_req(self.added(s)->Ok_0.0, seq![self.vehicle])
    }
}
pub proof fn lemma_hitch_req_split(w: &AddTripForHitchHiking, s: &Schedule)
    ensures w.req(s) == (w.req_base(s) && w.req_carried(s)),
{
}
/// C11 / C06: the generator only hands over (trip, vehicle) pairs that satisfy the move's parameter preconditions; the
/// vehicle is a REAL vehicle (slices/swaps.vs: "THE VEHICLE MUST BE A REAL VEHICLE ... the neighbourhood only passes
/// vehicles_iter_all()")
pub proof fn lemma_hitch_parameters(g: &RSSchedParallelNeighborhood, s: &Schedule, vehicle: VehicleIdx, node: NodeIdx)
    requires
        g.gen_ok(s), sched_vehicles(s).contains(vehicle),
        g.network.service_nodes@.contains_key(s.type_of(vehicle)),
        g.network.service_nodes@[s.type_of(vehicle)]@.contains(node),
    ensures
        hitch_move(node, vehicle).req_base(s), // @obl C11.generator.hitch_hiking_parameters_satisfy_the_moves_precondition
        s.vehicles@.contains_key(vehicle), // @obl C11.generator.hitch_hiking_only_real_vehicles
{
    lemma_listed_vehicle(s, vehicle);
    let vt = s.type_of(vehicle);
    let l = s.network.service_nodes@[vt]@;
    let i = choose|i: int| 0 <= i < l.len() && l[i] == node;
    assert(s.network.is_trip(s.network.service_nodes@[vt]@[i]));
    assert(s.network.sp_node(node).sp_is_activity());
    assert(s.train_formations@.contains_key(node));
}

// =====================================================================================================
// tours: the activities `all_non_depot_nodes_iter` yields
// =====================================================================================================
pub open spec fn nd_off(t: &Tour) -> int { if t.is_dummy { 0 } else { 1 } }
pub open spec fn non_depot_nodes(t: &Tour) -> Seq<NodeIdx> {
    if t.is_dummy { t.nodes@ } else { t.nodes@.subrange(1, t.nodes@.len() - 1) }
}
/// the k-th activity of a well-formed tour: where it sits, and that it is an activity of the tour's network
pub proof fn lemma_non_depot_at(t: &Tour, k: int)
    requires t.wf(), 0 <= k < non_depot_nodes(t).len(),
    ensures
        0 <= k + nd_off(t) < t.len(),
        non_depot_nodes(t)[k] == t.nodes@[k + nd_off(t)],
        t.has_node(non_depot_nodes(t)[k]),
        t.network.has(non_depot_nodes(t)[k]),
        t.network.sp_node(non_depot_nodes(t)[k]).sp_is_activity(),
{
    lemma_tour_kinds(t, k + nd_off(t));
}

// =====================================================================================================
// RemoveSingleNode
// =====================================================================================================
pub open spec fn remove_move(node: NodeIdx, vehicle: VehicleIdx) -> RemoveSingleNode {
    RemoveSingleNode { node: node, vehicle: vehicle }
}
/// C11 / C06: the generator only hands over (node, vehicle) pairs where the vehicle is a real vehicle with a tour and the
/// node is an activity of THAT tour, hence a node of the network (the parameter clause of RemoveSingleNode::req of level B,
/// env/swaps_sem_shim.vs: `s.network.has(self.node)`)
pub proof fn lemma_remove_parameters(g: &RSSchedParallelNeighborhood, s: &Schedule, vehicle: VehicleIdx, node: NodeIdx)
    requires
        g.gen_ok(s), sched_vehicles(s).contains(vehicle),
        non_depot_nodes(&s.tours@[vehicle]).contains(node),
    ensures
        s.vehicles@.contains_key(vehicle) && s.tours@.contains_key(vehicle), // @obl C11.generator.remove_parameters_satisfy_the_moves_precondition
        s.network.has(node) && s.network.sp_node(node).sp_is_activity(), // @obl C11.generator.remove_parameters_satisfy_the_moves_precondition
        s.tours@[vehicle].has_node(node), // @obl C11.generator.remove_parameters_satisfy_the_moves_precondition
{
    lemma_listed_vehicle(s, vehicle);
    let t = &s.tours@[vehicle];
    let nd = non_depot_nodes(t);
    let k = choose|k: int| 0 <= k < nd.len() && nd[k] == node;
    lemma_non_depot_at(t, k);
}

// =====================================================================================================
// segments
// =====================================================================================================
/// the providers `dummy_and_real_vehicles` yields: the listed dummies and the listed vehicles
pub open spec fn provider_listed(s: &Schedule, p: VehicleIdx) -> bool {
    s.dummy_ids_sorted@.contains(p) || sched_vehicles(s).contains(p)
}
/// the provider has a well-formed tour over the schedule's network; unless it is stored as a dummy it is a real tour
pub open spec fn provider_tour_ok(s: &Schedule, p: VehicleIdx) -> bool {
    let t = s.sp_tour_of(p);
    &&& s.has_tour(p)
    &&& t.wf() && *t.network == *s.network
    &&& !s.dummy_tours@.contains_key(p) ==> !t.is_dummy
}
pub proof fn lemma_provider(s: &Schedule, p: VehicleIdx)
    requires sched_gen_ok(s), provider_listed(s, p),
    ensures provider_tour_ok(s, p), // @obl C11.generator.segments_provider_has_a_tour
{
    if sched_vehicles(s).contains(p) {
        lemma_listed_vehicle(s, p);
    } else {
        assert(s.dummy_tours@.contains_key(p));
    }
}
/// a node of a well-formed tour is a node of its network
pub proof fn lemma_tour_member(t: &Tour, n: NodeIdx)
    requires t.wf(), t.has_node(n),
    ensures t.network.has(n), t.nodes@.contains(n),
{
    let k = choose|k: int| 0 <= k < t.len() && #[trigger] t.nodes@[k] == n;
    assert(t.network.has(t.nodes@[k]));
}
/// an activity of the tour is a node of the tour
pub proof fn lemma_non_depot_member(t: &Tour, n: NodeIdx)
    requires t.wf(), non_depot_nodes(t).contains(n),
    ensures t.has_node(n), t.network.has(n),
{
    let nd = non_depot_nodes(t);
    let k = choose|k: int| 0 <= k < nd.len() && nd[k] == n;
    lemma_non_depot_at(t, k);
}
/// what the subtractions of preceding_overhead / subsequent_overhead need (`DateTime - DateTime` asserts `other <= self`):
/// along a well-formed tour a node does not start before its predecessor has ended
pub proof fn lemma_gap(t: &Tour, p: int)
    requires t.wf(), 1 <= p < t.len(),
    ensures
        t.network.has(t.nodes@[p]) && t.network.has(t.nodes@[p - 1]),
        vstd::std_specs::ops::SubSpec::sub_req(t.start_at(p), t.end_at(p - 1)), // @obl C11.generator.overhead_of_a_node_of_the_tour_is_defined
{
    lemma_ends_sorted(&t.network, t.nodes@, p - 1, p);
    lemma_tour_times_ok(t, p);
    lemma_tour_times_ok(t, p - 1);
}
/// the times of a node of a well-formed tour satisfy the type invariants of DateTime
pub proof fn lemma_tour_times_ok(t: &Tour, p: int)
    requires t.wf(), 0 <= p < t.len(),
    ensures dt_ok(t.start_at(p)) && dt_ok(t.end_at(p)) && dt_small(t.start_at(p)) && dt_small(t.end_at(p)),
{
    assert(t.network.has(t.nodes@[p]));
    assert(t.network.nodes@.contains_key(t.nodes@[p]));
    assert(t.network.nodes@[t.nodes@[p]].wf());
}
/// the i-th activity of a tour does not start after the j-th (j >= i) has ended: `end_time(seg_end) - start_time(seg_start)`
/// in the `take_while` of `segments` does not panic
pub proof fn lemma_segment_span(t: &Tour, i: int, j: int)
    requires t.wf(), 0 <= i <= j < non_depot_nodes(t).len(),
    ensures
        t.network.has(non_depot_nodes(t)[i]) && t.network.has(non_depot_nodes(t)[j]),
        vstd::std_specs::ops::SubSpec::sub_req(t.network.sp_node(non_depot_nodes(t)[j]).sp_end_time(),
            t.network.sp_node(non_depot_nodes(t)[i]).sp_start_time()), // @obl C11.generator.segment_length_is_defined
{
    lemma_non_depot_at(t, i);
    lemma_non_depot_at(t, j);
    let a = i + nd_off(t);
    let b = j + nd_off(t);
    lemma_ends_sorted(&t.network, t.nodes@, a, b);
    lemma_tour_times_ok(t, a);
    lemma_tour_times_ok(t, b);
    lemma_node_start_le_end(&t.network, t.nodes@[b]);
}

// =====================================================================================================
// PathExchange
// =====================================================================================================
pub open spec fn exchange_move(seg: Segment, provider: VehicleIdx, receiver: VehicleIdx) -> PathExchange {
    PathExchange { segment: seg, provider: provider, receiver: receiver }
}
/// parameter clause of override_reassign's precondition (or_pre, env/override_reassign_shim.vs; text copied): "the segment is
/// a segment of the provider's tour that does not consist of depots only"
pub open spec fn exchange_segment_ok(s: &Schedule, segment: Segment, p: VehicleIdx) -> bool {
    exists|i: int, j: int| #[trigger] Schedule::seg_at(&s.sp_tour_of(p), segment, i, j)
        && !all_depots(&s.network, s.sp_tour_of(p).nodes@.subrange(i, j + 1))
}
/// C11 / C06: the generator only hands over (segment, provider, receiver) triples that satisfy the parameter clauses of
/// override_reassign's precondition: provider != receiver, both have a tour, the segment is a segment of the provider's
/// tour that holds an activity
pub proof fn lemma_exchange_parameters(s: &Schedule, seg: Segment, provider: VehicleIdx, receiver: VehicleIdx)
    requires
        sched_gen_ok(s), provider_listed(s, provider), provider_listed(s, receiver), receiver != provider,
        exists|i: int, j: int| #[trigger] Schedule::seg_at(&s.sp_tour_of(provider), seg, i, j),
        !s.network.sp_node(seg.start).sp_is_depot(),
    ensures
        provider != receiver, // @obl C11.generator.exchange_parameters_satisfy_the_moves_precondition
        s.has_tour(provider) && s.has_tour(receiver), // @obl C11.generator.exchange_parameters_satisfy_the_moves_precondition
        exchange_segment_ok(s, seg, provider), // @obl C11.generator.exchange_parameters_satisfy_the_moves_precondition
{
    lemma_provider(s, provider);
    lemma_provider(s, receiver);
    let t = s.sp_tour_of(provider);
    let (i, j) = choose|i: int, j: int| #[trigger] Schedule::seg_at(&t, seg, i, j);
    let sub = t.nodes@.subrange(i, j + 1);
    assert(sub[0] == seg.start);
    assert(!s.network.sp_node(sub[0]).sp_is_depot());
    assert(Schedule::seg_at(&t, seg, i, j) && !all_depots(&s.network, sub));
}
