// ---- shim for slice `network_new` (Network::new / create_network / create_depots fragments) ---------
// Every `external_body` item and every `axiom` below is an ASSUMPTION (listed in the slice header).
// Everything else (set_sum, its lemmas) is ordinary verified vocabulary.

// ---- A-map: a std `HashMap<K, V>` that a fragment only *iterates* is declared as `StdMap<K, V>` in the
// fragment's parameter list (the lifted text `m.values()` / `m.len()` then resolves to the methods
// below).  View = the same abstract `Map<K, V>` vstd uses for std HashMap.  Assumed semantics:
//   values(): every entry's value exactly once, in SOME order (std: "arbitrary order")
//   len():    number of entries
#[verifier::external_body]
#[verifier::reject_recursive_types(K)]
#[verifier::accept_recursive_types(V)]
pub struct StdMap<K, V> { inner: std::collections::HashMap<K, V> }

impl<K, V> View for StdMap<K, V> {
    type V = Map<K, V>;
    uninterp spec fn view(&self) -> Map<K, V>;
}

/// `keys` lists the domain of `m` exactly once
pub open spec fn key_enum<K, V>(m: Map<K, V>, keys: Seq<K>) -> bool {
    keys.no_duplicates() && keys.to_set() == m.dom()
}
/// `vals` are the values of `m` in the order of the key enumeration `keys`
pub open spec fn enumerates<K, V>(m: Map<K, V>, keys: Seq<K>, vals: Seq<&V>) -> bool {
    &&& key_enum(m, keys)
    &&& vals.len() == keys.len()
    &&& forall|i: int| 0 <= i < keys.len() ==> *(#[trigger] vals[i]) == m[keys[i]]
}

impl<K, V> StdMap<K, V> {
    /// std::collections::HashMap::values
    #[verifier::external_body]
    pub fn values<'a>(&'a self) -> (r: SeqIter<&'a V>)
        ensures exists|keys: Seq<K>| #[trigger] enumerates(self@, keys, r@),
    { unimplemented!() }

    /// std::collections::HashMap::len
    #[verifier::external_body]
    pub fn len(&self) -> (r: usize)
        ensures r == self@.dom().len(),
    { unimplemented!() }
}

// ---- A-iter additions ------------------------------------------------------------------------------
// `.sum::<u32>()`: the integer total; `sum_req` demands that it fits (debug builds panic on overflow,
// release builds wrap).  Same text as env/vsum_impls.vs (not included: it needs the Distance codec).
impl VSum<u32> for u32 {
    open spec fn sum_req(s: Seq<u32>) -> bool { isum(s.map_values(|x: u32| x as int)) <= u32::MAX }
    open spec fn spec_sum(s: Seq<u32>) -> u32 { isum(s.map_values(|x: u32| x as int)) as u32 }
}
impl VSum<u64> for u64 {
    open spec fn sum_req(s: Seq<u64>) -> bool { isum(s.map_values(|x: u64| x as int)) <= u64::MAX }
    open spec fn spec_sum(s: Seq<u64>) -> u64 { isum(s.map_values(|x: u64| x as int)) as u64 }
}
impl SeqIter<u32> {
    /// std::iter::Iterator::max for u32 items: None iff the iterator is empty, else the maximum
    #[verifier::external_body]
    pub fn max(self) -> (r: Option<u32>)
        ensures
            self@.len() == 0 <==> r is None,
            r is Some ==> (exists|i: int| 0 <= i < self@.len() && #[trigger] self@[i] == r.unwrap()),
            r is Some ==> (forall|i: int| 0 <= i < self@.len() ==> #[trigger] self@[i] <= r.unwrap()),
    { unimplemented!() }
}
/// `iter.collect::<HashMap<K, V>>()` (FromIterator for HashMap inserts the pairs in order): the keys of
/// the result are exactly the first components, and every key maps to the second component of SOME
/// pair with that key (in fact the last one; not needed here).
pub uninterp spec fn hm_source<K, V>(m: std::collections::HashMap<K, V>) -> Seq<(K, V)>;
impl<K, V> VCollect<(K, V)> for std::collections::HashMap<K, V> {
    open spec fn collected(&self) -> Seq<(K, V)> { hm_source(*self) }
}
pub broadcast axiom fn axiom_hm_collect<K, V>(m: std::collections::HashMap<K, V>)
    ensures
        forall|k: K| #[trigger] m@.contains_key(k) ==> exists|i: int| 0 <= i < hm_source(m).len() && #[trigger] hm_source(m)[i] == (k, m@[k]),
        forall|i: int| 0 <= i < hm_source(m).len() ==> m@.contains_key((#[trigger] hm_source(m)[i]).0),
        #[trigger] hm_source(m).len() >= 0;

// ---- A-std: `impl<T> From<T> for T` is the identity (std blanket impl), here for VehicleCount = u32
pub broadcast axiom fn axiom_from_id_u32_obeys()
    ensures #[trigger] <u32 as vstd::std_specs::convert::FromSpec<u32>>::obeys_from_spec();
pub broadcast axiom fn axiom_from_id_u32(x: u32)
    ensures #[trigger] <u32 as vstd::std_specs::convert::FromSpec<u32>>::from_spec(x) == x;
// ---- A-derive: `#[derive(derive_more::From)] struct DepotIdx(pub Idx)` generates the wrapping conversion
impl vstd::std_specs::convert::FromSpecImpl<Idx> for DepotIdx {
    open spec fn obeys_from_spec() -> bool { true }
    open spec fn from_spec(x: Idx) -> DepotIdx { DepotIdx(x) }
}
impl From<Idx> for DepotIdx {
    fn from(x: Idx) -> (r: DepotIdx) { DepotIdx(x) }
}

// ---- verified vocabulary: sums over a finite key set -------------------------------------------------
/// sum of f over the set s (vstd `Set` is finite by construction)
pub open spec fn set_sum<K>(s: Set<K>, f: spec_fn(K) -> int) -> int
    decreases s.len()
{
    if s.len() > 0 {
        let k = s.choose();
        f(k) + set_sum(s.remove(k), f)
    } else {
        0
    }
}
pub proof fn lemma_set_sum_remove<K>(s: Set<K>, f: spec_fn(K) -> int, x: K)
    requires s.contains(x),
    ensures set_sum(s, f) == f(x) + set_sum(s.remove(x), f),
    decreases s.len(),
{
    let k = s.choose();
    if k != x {
        lemma_set_sum_remove(s.remove(k), f, x);
        lemma_set_sum_remove(s.remove(x), f, k);
        assert(s.remove(k).remove(x) =~= s.remove(x).remove(k));
    }
}
pub proof fn lemma_set_sum_enum<K>(keys: Seq<K>, f: spec_fn(K) -> int)
    requires keys.no_duplicates(),
    ensures isum(keys.map_values(f)) == set_sum(keys.to_set(), f),
    decreases keys.len(),
{
    keys.unique_seq_to_set();
    if keys.len() == 0 {
        assert(keys.to_set() =~= Set::<K>::empty());
    } else {
        let init = keys.drop_last();
        let last = keys.last();
        assert(keys.to_set().contains(last)) by { assert(keys[keys.len() - 1] == last); }
        assert(keys.to_set().remove(last) =~= init.to_set()) by {
            assert forall|k: K| keys.to_set().remove(last).contains(k) == init.to_set().contains(k) by {
                if init.to_set().contains(k) {
                    let j = choose|j: int| 0 <= j < init.len() && init[j] == k;
                    assert(keys[j] == k);
                }
                if keys.to_set().remove(last).contains(k) {
                    let j = choose|j: int| 0 <= j < keys.len() && keys[j] == k;
                    assert(init[j] == k);
                }
            }
        }
        lemma_set_sum_remove(keys.to_set(), f, last);
        lemma_set_sum_enum(init, f);
        assert(keys.map_values(f).drop_last() =~= init.map_values(f));
    }
}
pub proof fn lemma_set_sum_nonneg<K>(s: Set<K>, f: spec_fn(K) -> int)
    requires forall|k: K| s.contains(k) ==> 0 <= #[trigger] f(k),
    ensures 0 <= set_sum(s, f),
    decreases s.len()
{
    if s.len() > 0 {
        lemma_set_sum_nonneg(s.remove(s.choose()), f);
    }
}
/// pointwise g <= c * f implies sum g <= c * sum f
pub proof fn lemma_set_sum_le_scaled<K>(s: Set<K>, g: spec_fn(K) -> int, f: spec_fn(K) -> int, c: int)
    requires forall|k: K| s.contains(k) ==> #[trigger] g(k) <= c * f(k),
    ensures set_sum(s, g) <= c * set_sum(s, f),
    decreases s.len()
{
    if s.len() > 0 {
        let k = s.choose();
        lemma_set_sum_le_scaled(s.remove(k), g, f, c);
        assert(c * (f(k) + set_sum(s.remove(k), f)) == c * f(k) + c * set_sum(s.remove(k), f)) by (nonlinear_arith);
    } else {
        assert(c * 0 == 0) by (nonlinear_arith);
    }
}
pub proof fn lemma_set_sum_ge_each<K>(s: Set<K>, f: spec_fn(K) -> int, x: K)
    requires s.contains(x), forall|k: K| s.contains(k) ==> 0 <= #[trigger] f(k),
    ensures f(x) <= set_sum(s, f),
{
    lemma_set_sum_remove(s, f, x);
    lemma_set_sum_nonneg(s.remove(x), f);
}

/// number of service trips of an instance = total length of the trip vectors over all vehicle types
pub open spec fn len_of<K, T>(m: Map<K, Vec<T>>) -> spec_fn(K) -> int { |k: K| m[k]@.len() as int }
pub open spec fn total_len<K, T>(m: Map<K, Vec<T>>) -> int { set_sum(m.dom(), len_of(m)) }

/// the order in which `values()` yields the vectors does not matter: any sequence s that lists the
/// lengths along a key enumeration sums to total_len
pub broadcast proof fn lemma_sum_enum<K, T>(m: Map<K, Vec<T>>, keys: Seq<K>, s: Seq<int>)
    requires
        key_enum(m, keys),
        s.len() == keys.len(),
        forall|i: int| 0 <= i < s.len() ==> s[i] == m[keys[i]]@.len(),
    ensures
        #![trigger isum(s), key_enum(m, keys)]
        isum(s) == total_len(m),
{
    lemma_set_sum_enum(keys, len_of(m));
    assert(s =~= keys.map_values(len_of(m)));
}
/// trigger bridge (verified, trivially true): positions of one sequence are also looked at in every other
/// sequence whose length is mentioned.  `SeqIter::map` states its result pointwise with the trigger
/// `r@[i]`; a fragment's postcondition that speaks about the i-th *input* needs that instance.
pub closed spec fn touched<T>(x: T) -> bool { true }
pub broadcast proof fn lemma_touch_same_index<A, B>(s: Seq<A>, t: Seq<B>, i: int)
    ensures #![trigger s[i], t.len()] touched(t[i]),
{
}
/// an enumeration reaches every key, and every enumerated vector is at most as long as the total
pub broadcast proof fn lemma_enum_hits<K, V>(m: Map<K, V>, keys: Seq<K>, vals: Seq<&V>, k: K)
    requires enumerates(m, keys, vals), m.dom().contains(k),
    ensures #![trigger enumerates(m, keys, vals), m[k]]
        exists|i: int| 0 <= i < keys.len() && keys[i] == k && *(#[trigger] vals[i]) == m[k],
{
    assert(keys.to_set().contains(k));
    let i = choose|i: int| 0 <= i < keys.len() && keys[i] == k;
    assert(*vals[i] == m[k]);
}
pub broadcast proof fn lemma_enum_len_le_total<K, T>(m: Map<K, Vec<T>>, keys: Seq<K>, vals: Seq<&Vec<T>>, i: int)
    requires enumerates(m, keys, vals), 0 <= i < keys.len(),
    ensures #![trigger enumerates(m, keys, vals), vals[i]]
        m.dom().contains(keys[i]) && vals[i]@.len() <= total_len(m),
{
    assert(keys.to_set().contains(keys[i]));
    lemma_each_len_le_total(m, keys[i]);
}
/// every vector is at most as long as the total
pub proof fn lemma_each_len_le_total<K, T>(m: Map<K, Vec<T>>, k: K)
    requires m.dom().contains(k),
    ensures m[k]@.len() <= total_len(m),
{
    lemma_set_sum_ge_each(m.dom(), len_of(m), k);
}

// ---- loader fragments (create_maintenance_slots): look-up by id and time parsing ------------------------
/// std: `impl Index<&Q> for HashMap<K, V>`: "Panics if the key is not present in the HashMap"
impl<'a, K, V> std::ops::Index<&'a K> for StdMap<K, V> {
    type Output = V;
    #[verifier::external_body]
    fn index(&self, k: &'a K) -> (r: &V)
        ensures *r == self@[*k],
    { unimplemented!() }
}
impl<'a, K, V> vstd::std_specs::core::IndexSpecImpl<&'a K> for StdMap<K, V> {
    open spec fn index_req(&self, k: &&'a K) -> bool { self@.contains_key(**k) }
}
/// A-text: the time a date-time string denotes (rapid_time's parser is not under contract; it panics on
/// malformed strings, `dt_text_ok` says the string is well formed)
pub uninterp spec fn dt_of_text(s: Seq<char>) -> DateTime;
pub uninterp spec fn dt_text_ok(s: Seq<char>) -> bool;
