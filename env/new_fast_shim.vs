// ---- environment of the slice `new_fast` (Transition::new_fast = Transition::one_cluster_per_maintenance) ----------
// Included inside `pub mod tr { … }` after env/im_shim.vs and env/transition_spec.vs (both included as they are).
// Everything `external_body` / `uninterp` / `axiom` in this file is an ASSUMPTION (listed in the header of
// slices/new_fast.vs): A-iter (`vec.iter_mut().find(p)`, `SeqIter::enumerate`, `SeqIter::flat_map`, `VCycleIter::viter`), A-im
// (FromIterator of im::HashMap).  A-std (`sort_by_key` only rearranges) is the spec predicate `permutes`, a HYPOTHESIS of the
// composition lemmas (the sorts are pinned plumbing, no verified code calls them).  The rest are open spec functions and
// proved lemmas.

/// a cluster under construction: its vehicles in rotation order and the running counter
pub type Cluster = (Vec<VehicleIdx>, MaintenanceCounter);

// =====================================================================================================
// C15: the counter of a cluster that is still open
// =====================================================================================================
/// the cycle counter WITHOUT the closing edge: the sum of the members' tour counters plus the dead-head distances
/// between consecutive members (end depot of c[i] to start depot of c[i+1], i + 1 < len) -- `edge_seq` without its last
/// entry, which is the trip from the last member back to the first
pub open spec fn open_counter(net: &Network, tours: Map<VehicleIdx, Tour>, c: Seq<VehicleIdx>) -> int {
    if c.len() == 0 { 0 } else { sum_seq(counter_seq(tours, c)) + sum_seq(edge_seq(net, tours, c).drop_last()) }
}
pub proof fn lemma_open_single(net: &Network, tours: Map<VehicleIdx, Tour>, v: VehicleIdx)
    ensures open_counter(net, tours, seq![v]) == tour_counter(&tours[v]),
{
    let c = seq![v];
    assert(counter_seq(tours, c) =~= seq![tour_counter(&tours[v])]);
    assert(edge_seq(net, tours, c).drop_last() =~= Seq::<int>::empty());
    lemma_sum_one(tour_counter(&tours[v]));
}
/// appending a vehicle to an open cluster: its own counter plus the trip from the previous last member
pub proof fn lemma_open_push(net: &Network, tours: Map<VehicleIdx, Tour>, c: Seq<VehicleIdx>, v: VehicleIdx)
    requires c.len() >= 1,
    ensures open_counter(net, tours, c.push(v)) == open_counter(net, tours, c) + tour_counter(&tours[v]) + depot_edge(net, tours, c[c.len() - 1], v),
{
    let n = c.len() as int;
    let c2 = c.push(v);
    let a1 = counter_seq(tours, c);
    let a2 = counter_seq(tours, c2);
    let b1 = edge_seq(net, tours, c).drop_last();
    let b2 = edge_seq(net, tours, c2).drop_last();
    let x = depot_edge(net, tours, c[n - 1], v);
    assert(a2 =~= a1.push(tour_counter(&tours[v])));
    assert(b2.len() == n && b1.len() == n - 1);
    assert forall|i: int| 0 <= i < n implies #[trigger] b2[i] == b1.push(x)[i] by {
        lemma_mod_next(i, n + 1);
        if i < n - 1 { lemma_mod_next(i, n); }
    }
    assert(b2 =~= b1.push(x));
    lemma_sum_push(a1, tour_counter(&tours[v]));
    lemma_sum_push(b1, x);
}
/// closing a cluster: the trip from the end depot of the last member to the start depot of the first one
pub proof fn lemma_open_close(net: &Network, tours: Map<VehicleIdx, Tour>, c: Seq<VehicleIdx>)
    requires c.len() >= 1,
    ensures spec_cycle_counter(net, tours, c) == open_counter(net, tours, c) + depot_edge(net, tours, c[c.len() - 1], c[0]),
{
    let n = c.len() as int;
    let b = edge_seq(net, tours, c);
    lemma_mod_next(n - 1, n);
    assert(b =~= b.drop_last().push(depot_edge(net, tours, c[n - 1], c[0])));
    lemma_sum_push(b.drop_last(), depot_edge(net, tours, c[n - 1], c[0]));
}
/// |open counter| <= len * 2^41
pub proof fn lemma_open_bound(net: &Network, tours: Map<VehicleIdx, Tour>, c: Seq<VehicleIdx>)
    requires cycle_tours_ok(net, tours, c),
    ensures -(c.len() * vehicle_bound()) <= open_counter(net, tours, c) <= c.len() * vehicle_bound(),
{
    let n = c.len() as int;
    if n > 0 {
        let cs = counter_seq(tours, c);
        let es = edge_seq(net, tours, c).drop_last();
        assert forall|i: int| 0 <= i < n - 1 implies 0 <= #[trigger] es[i] <= counter_bound() by {
            lemma_mod_next(i, n);
            lemma_edge_bound(net, tours, c[i], c[(i + 1) % n]);
        }
        assert forall|i: int| 0 <= i < n implies -counter_bound() <= #[trigger] cs[i] <= counter_bound() by {
            assert(tour_ok(net, &tours[c[i]]));
        }
        lemma_sum_bounds(cs, -counter_bound(), counter_bound());
        lemma_sum_bounds(es, 0, counter_bound());
        assert(n * vehicle_bound() == n * counter_bound() + n * counter_bound()) by (nonlinear_arith)
            requires vehicle_bound() == 2 * counter_bound();
        assert((-counter_bound()) * n == -(n * counter_bound())) by (nonlinear_arith);
        assert(counter_bound() * n == n * counter_bound()) by (nonlinear_arith);
        assert(counter_bound() * (n - 1) <= n * counter_bound()) by (nonlinear_arith) requires counter_bound() >= 0;
        assert(0 * (n - 1) == 0);
    }
}
/// the magnitude the i64 arithmetic needs: a cluster of at most 2^17 vehicles with admissible tours
pub proof fn lemma_open_small(net: &Network, tours: Map<VehicleIdx, Tour>, c: Seq<VehicleIdx>)
    requires cycle_tours_ok(net, tours, c), c.len() <= max_vehicles(),
    ensures -0x400_0000_0000_0000 <= open_counter(net, tours, c) <= 0x400_0000_0000_0000,
{
    lemma_open_bound(net, tours, c);
    let l = c.len() as int;
    assert(0 <= l * vehicle_bound() <= 0x400_0000_0000_0000) by (nonlinear_arith)
        requires 0 <= l <= 0x2_0000, vehicle_bound() == 0x200_0000_0000;
}

// =====================================================================================================
// the closing step
// =====================================================================================================
/// what the closing step needs: a non-empty cluster of at most 2^17 vehicles with admissible tours whose running counter
/// is exact, and totals that are small (at most 2^58 in magnitude: the counters of at most 2^17 vehicles)
pub open spec fn close_pre(net: &Network, tours: Map<VehicleIdx, Tour>, c: Seq<VehicleIdx>, mc0: int, tv0: int, tc0: int) -> bool {
    &&& c.len() >= 1 && c.len() <= max_vehicles()
    &&& cycle_tours_ok(net, tours, c)
    &&& mc0 == open_counter(net, tours, c)
    &&& 0 <= tv0 <= 0x400_0000_0000_0000
    &&& -0x400_0000_0000_0000 <= tc0 <= 0x400_0000_0000_0000
}
/// what it yields: the cycle of these vehicles with its exact counter; the totals grow by the counter resp. its positive part
pub open spec fn close_post(net: &Network, tours: Map<VehicleIdx, Tour>, c: Seq<VehicleIdx>, mc0: int, tv0: int, tc0: int,
        r: TransitionCycle, tv1: int, tc1: int) -> bool {
    &&& r.cycle@ == c
    &&& r.maintenance_counter == spec_cycle_counter(net, tours, c)
    &&& tv1 == tv0 + max0(r.maintenance_counter as int)
    &&& tc1 == tc0 + r.maintenance_counter
}

// =====================================================================================================
// ASSUMPTIONS (A-iter, A-im)
// =====================================================================================================
// ---- A-iter: `vec.iter_mut().find(p)` ------------------------------------------------------------------------
// Inside the module `tr` the method call `v.iter_mut()` on a `Vec<T>` (or a `&mut Vec<T>`) resolves to the trait method
// below (method probing finds a trait method with receiver `&mut Vec<T>` before it dereferences to the slice), so the
// chain `sorted_clusters.iter_mut().find(..)` runs over this shim instead of `core::slice::IterMut`, for which vstd
// specifies `find` without saying that the items it skips are handed back unchanged.
/// std `slice::IterMut`: one mutable reference INTO the vector per element, in order (`items`)
#[verifier::external_body]
#[verifier::accept_recursive_types(T)]
pub struct VecIterMut<'a, T> { inner: core::slice::IterMut<'a, T> }
impl<'a, T> VecIterMut<'a, T> {
    pub uninterp spec fn items(&self) -> Seq<&'a mut T>;
}
pub trait VIterMut<T> {
    spec fn vseq_mut(&self) -> Seq<T>;
    /// std `<[T]>::iter_mut`: "Returns an iterator that allows modifying each value."  The i-th reference points to the i-th
    /// element: its current value is the element, and when the borrow ends the element is the reference's final value
    fn iter_mut<'a>(&'a mut self) -> (r: VecIterMut<'a, T>)
        ensures
            r.items().len() == old(self).vseq_mut().len(),
            final(self).vseq_mut().len() == old(self).vseq_mut().len(),
            forall|i: int| #![trigger r.items()[i]] #![trigger old(self).vseq_mut()[i]] #![trigger final(self).vseq_mut()[i]]
                0 <= i < r.items().len() ==> *r.items()[i] == old(self).vseq_mut()[i] && *final(r.items()[i]) == final(self).vseq_mut()[i];
}
impl<T> VIterMut<T> for Vec<T> {
    open spec fn vseq_mut(&self) -> Seq<T> { self@ }
    #[verifier::external_body]
    fn iter_mut<'a>(&'a mut self) -> (r: VecIterMut<'a, T>) { unimplemented!() }
}
impl<'a, T> VecIterMut<'a, T> {
    /// std `Iterator::find` ("Searches for an element of an iterator that satisfies a predicate … returns the first
    /// element [for which it] returns true … None [if] they all return false") applied to a TEMPORARY IterMut, which is
    /// dropped at the end of the statement (hence `self` by value): the result is one of the references; all the others
    /// -- those handed to the predicate as `&&mut T` and skipped, and those never reached -- are dropped unmodified
    #[verifier::external_body]
    pub fn find<P: FnMut(&&'a mut T) -> bool>(self, predicate: P) -> (r: Option<&'a mut T>)
        requires forall|i: int| 0 <= i < self.items().len() ==> predicate.requires((&#[trigger] self.items()[i],)),
        ensures
            r is None ==> forall|i: int| 0 <= i < self.items().len() ==> *final(#[trigger] self.items()[i]) == *self.items()[i],
            r is Some ==> exists|k: int| 0 <= k < self.items().len() && r->Some_0 == #[trigger] self.items()[k]
                && forall|i: int| 0 <= i < self.items().len() && i != k ==> *final(#[trigger] self.items()[i]) == *self.items()[i],
    { unimplemented!() }
}

// ---- A-iter: enumerate (text of env/fit_reassign_shim.vs), flat_map ----------------------------------------------
/// the items of the given iterators one after the other
pub open spec fn flat_views<U>(parts: Seq<SeqIter<U>>) -> Seq<U>
    decreases parts.len(),
{
    if parts.len() == 0 { Seq::empty() } else { flat_views(parts.drop_last()) + parts.last()@ }
}
impl<T> SeqIter<T> {
    /// std `Iterator::enumerate`: "Creates an iterator which gives the current iteration count as well as the next value."
    #[verifier::external_body]
    pub fn enumerate(self) -> (r: SeqIter<(usize, T)>)
        ensures r@.len() == self@.len(), forall|i: int| 0 <= i < self@.len() ==> (#[trigger] r@[i]).0 == i && r@[i].1 == self@[i],
    { unimplemented!() }
    /// std `Iterator::flat_map`: "Creates an iterator that works like map, but flattens nested structure": the closure is
    /// applied to every item, in order (`parts`), and the items of the iterators it returns are yielded one after the other
    #[verifier::external_body]
    pub fn flat_map<U, F: Fn(T) -> SeqIter<U>>(self, f: F) -> (r: SeqIter<U>)
        requires forall|i: int| 0 <= i < self@.len() ==> f.requires((#[trigger] self@[i],)),
        ensures exists|parts: Seq<SeqIter<U>>| #![trigger flat_views(parts)] parts.len() == self@.len() && r@ == flat_views(parts)
            && forall|i: int| 0 <= i < self@.len() ==> f.ensures((self@[i],), #[trigger] parts[i]),
    { unimplemented!() }
}
/// R5 (`//@viter`) also rewrites `cycle.iter()` -- the user method TransitionCycle::iter (`self.cycle.iter().copied()`) -- to
/// `cycle.viter()` inside a lifted fragment (`//@viter-skip` is not available there); this trait gives that call the
/// contract of the stub of TransitionCycle::iter in slices/transition.vs: the vehicles of the cycle, by value, in order
pub trait VCycleIter {
    spec fn vcycle(&self) -> Seq<VehicleIdx>;
    fn viter(&self) -> (r: SeqIter<VehicleIdx>)
        ensures r@ == self.vcycle();
}
impl VCycleIter for TransitionCycle {
    open spec fn vcycle(&self) -> Seq<VehicleIdx> { self.cycle@ }
    #[verifier::external_body]
    fn viter(&self) -> (r: SeqIter<VehicleIdx>) { unimplemented!() }
}
// ---- A-im: `iter.collect::<im::HashMap<K, V>>()` (text of env/sched_ctor_shim.vs): the keys of the result are exactly the
// first components, and every key maps to the second component of SOME pair with that key
pub uninterp spec fn imhm_source<K, V>(m: self::im::HashMap<K, V>) -> Seq<(K, V)>;
impl<K, V> VCollect<(K, V)> for self::im::HashMap<K, V> {
    open spec fn collected(&self) -> Seq<(K, V)> { imhm_source(*self) }
}
pub broadcast axiom fn axiom_imhm_collect<K, V>(m: self::im::HashMap<K, V>)
    ensures
        forall|k: K| #[trigger] m@.contains_key(k) ==> exists|i: int| 0 <= i < imhm_source(m).len() && #[trigger] imhm_source(m)[i] == (k, m@[k]),
        forall|i: int| 0 <= i < imhm_source(m).len() ==> m@.contains_key((#[trigger] imhm_source(m)[i]).0),
        #[trigger] imhm_source(m).len() >= 0;

// =====================================================================================================
// the clusters while they are built
// =====================================================================================================
pub open spec fn cl(sc: Seq<Cluster>, i: int) -> Seq<VehicleIdx> { sc[i].0@ }
/// what the code assumes about its input ("It is assumed that each vehicle has a tour"): every given vehicle has an
/// admissible tour (`tours.get(..).unwrap()`, `start_depot().unwrap()`), no vehicle is listed twice, at most 2^17 vehicles
pub open spec fn given_ok(net: &Network, tours: Map<VehicleIdx, Tour>, vs: Seq<VehicleIdx>) -> bool {
    &&& net.wf()
    &&& vs.no_duplicates()
    &&& vs.len() <= max_vehicles()
    &&& cycle_tours_ok(net, tours, vs)
}
/// clusters are non-empty, duplicate-free, pairwise disjoint, hold given vehicles only, and their running counters are exact
pub open spec fn clusters_ok(net: &Network, tours: Map<VehicleIdx, Tour>, vs: Seq<VehicleIdx>, sc: Seq<Cluster>) -> bool {
    &&& forall|i: int| 0 <= i < sc.len() ==> (#[trigger] cl(sc, i)).len() >= 1 && cl(sc, i).no_duplicates()
    &&& forall|i: int, j: int, a: int, b: int| 0 <= i < sc.len() && 0 <= j < sc.len() && i != j && 0 <= a < cl(sc, i).len() && 0 <= b < cl(sc, j).len()
            ==> #[trigger] cl(sc, i)[a] != #[trigger] cl(sc, j)[b]
    &&& forall|i: int, a: int| 0 <= i < sc.len() && 0 <= a < cl(sc, i).len() ==> vs.contains(#[trigger] cl(sc, i)[a])
    &&& forall|i: int| 0 <= i < sc.len() ==> sc[i].1 == open_counter(net, tours, #[trigger] cl(sc, i))
}
pub open spec fn in_cluster(sc: Seq<Cluster>, v: VehicleIdx) -> bool {
    exists|i: int| 0 <= i < sc.len() && (#[trigger] cl(sc, i)).contains(v)
}
/// v is one of the unassigned vehicles that are still to come
pub open spec fn pending(su: Seq<VehicleIdx>, k: int, v: VehicleIdx) -> bool {
    exists|a: int| k <= a < su.len() && #[trigger] su[a] == v
}
/// v is one of the first k given vehicles
pub open spec fn in_prefix(vs: Seq<VehicleIdx>, k: int, v: VehicleIdx) -> bool {
    exists|j: int| 0 <= j < k && #[trigger] vs[j] == v
}
/// loop 1 after k given vehicles: "every processed vehicle is in exactly one cluster or in sorted_unassigned_vehicles"
#[verifier::opaque]
pub open spec fn split_inv(net: &Network, tours: Map<VehicleIdx, Tour>, vs: Seq<VehicleIdx>, k: int, sc: Seq<Cluster>, su: Seq<VehicleIdx>) -> bool {
    &&& given_ok(net, tours, vs)
    &&& 0 <= k <= vs.len()
    &&& clusters_ok(net, tours, vs, sc)
    &&& su.no_duplicates()
    &&& forall|a: int| 0 <= a < su.len() ==> in_prefix(vs, k, #[trigger] su[a])
    &&& forall|i: int, b: int| 0 <= i < sc.len() && 0 <= b < cl(sc, i).len() ==> in_prefix(vs, k, #[trigger] cl(sc, i)[b])
    &&& forall|a: int| 0 <= a < su.len() ==> !in_cluster(sc, #[trigger] su[a])
    &&& forall|j: int| 0 <= j < k ==> in_cluster(sc, #[trigger] vs[j]) || su.contains(vs[j])
}
/// loop 2 after k unassigned vehicles: the clusters are fine, the unassigned vehicles still to come are in no cluster, and
/// every given vehicle is in a cluster or still to come
pub open spec fn lp2_inv(net: &Network, tours: Map<VehicleIdx, Tour>, vs: Seq<VehicleIdx>, su: Seq<VehicleIdx>, k: int, sc: Seq<Cluster>) -> bool {
    &&& given_ok(net, tours, vs)
    &&& clusters_ok(net, tours, vs, sc)
    &&& 0 <= k <= su.len()
    &&& su.no_duplicates()
    &&& forall|a: int| 0 <= a < su.len() ==> vs.contains(#[trigger] su[a])
    &&& forall|a: int| k <= a < su.len() ==> !in_cluster(sc, #[trigger] su[a])
    &&& forall|j: int| 0 <= j < vs.len() ==> in_cluster(sc, #[trigger] vs[j]) || pending(su, k, vs[j])
}

// ---- the contracts of the lifted pieces of loop 2 -------------------------------------------------------------------
/// `sorted_clusters.iter_mut().find(..)`: None and the clusters are untouched, or a reference into the vector: its current
/// value is cluster k, and when the borrow ends the vector is the old one with cluster k replaced by the reference's final value
pub open spec fn find_post(sc0: Seq<Cluster>, found: Option<(Cluster, Cluster)>, sc1: Seq<Cluster>) -> bool {
    match found {
        None => sc1 =~= sc0,
        Some(p) => exists|k: int| 0 <= k < sc0.len() && #[trigger] sc0[k] == p.0 && sc1 =~= sc0.update(k, p.1),
    }
}
/// a cluster the vehicle can be pushed to
pub open spec fn member_ok(net: &Network, tours: Map<VehicleIdx, Tour>, c: Cluster) -> bool {
    &&& c.0@.len() >= 1 && c.0@.len() < max_vehicles()
    &&& cycle_tours_ok(net, tours, c.0@)
    &&& c.1 == open_counter(net, tours, c.0@)
}
/// cluster k gains v at its end (its running counter stays exact), all other clusters stay
pub open spec fn gains(net: &Network, tours: Map<VehicleIdx, Tour>, sc: Seq<Cluster>, sc2: Seq<Cluster>, k: int, v: VehicleIdx) -> bool {
    &&& 0 <= k < sc.len() && sc2.len() == sc.len()
    &&& cl(sc2, k) == cl(sc, k).push(v)
    &&& sc2[k].1 == open_counter(net, tours, cl(sc2, k))
    &&& forall|j: int| 0 <= j < sc.len() && j != k ==> #[trigger] sc2[j] == sc[j]
}
/// one iteration of loop 2 up to the sort: some cluster gains v, or (there was none) v becomes the only cluster
pub open spec fn step_post(net: &Network, tours: Map<VehicleIdx, Tour>, sc: Seq<Cluster>, sc2: Seq<Cluster>, v: VehicleIdx) -> bool {
    ||| exists|k: int| #[trigger] gains(net, tours, sc, sc2, k, v)
    ||| (sc.len() == 0 && sc2.len() == 1 && cl(sc2, 0) == seq![v] && sc2[0].1 == open_counter(net, tours, seq![v]))
}
pub open spec fn match_pre(net: &Network, tours: Map<VehicleIdx, Tour>, found: Option<Cluster>, sc0: Seq<Cluster>, v: VehicleIdx, mc: int) -> bool {
    &&& tours.contains_key(v) && tour_ok(net, &tours[v]) && mc == tour_counter(&tours[v])
    &&& match found {
            Some(c) => member_ok(net, tours, c),
            None => forall|i: int| 0 <= i < sc0.len() ==> member_ok(net, tours, #[trigger] sc0[i]),
        }
}
/// `match best_cluster_opt { … }`: with Some(reference) the referenced cluster gains v and `sorted_clusters` itself is not
/// touched; with None the last cluster of `sorted_clusters` gains v, or v becomes the only cluster
pub open spec fn match_post(net: &Network, tours: Map<VehicleIdx, Tour>, found: Option<(Cluster, Cluster)>, sc0: Seq<Cluster>, sc1: Seq<Cluster>, v: VehicleIdx) -> bool {
    match found {
        Some(p) => sc1 == sc0 && p.1.0@ == p.0.0@.push(v) && p.1.1 == open_counter(net, tours, p.1.0@),
        None => step_post(net, tours, sc0, sc1, v),
    }
}
/// the pairs `cycle.iter().map(move |vehicle| (vehicle, idx))` yields for cycle number i
pub open spec fn pairs_of_cycle(c: TransitionCycle, i: int, s: Seq<(VehicleIdx, CycleIdx)>) -> bool {
    &&& s.len() == c.cycle@.len()
    &&& forall|j: int| 0 <= j < s.len() ==> (#[trigger] s[j]).0 == c.cycle@[j] && s[j].1 as int == i
}
/// the pairs the lookup is collected from: for every cycle, in order, its vehicles paired with its index
pub open spec fn lookup_src(cycles: Seq<TransitionCycle>, src: Seq<(VehicleIdx, CycleIdx)>) -> bool {
    exists|parts: Seq<SeqIter<(VehicleIdx, CycleIdx)>>| #![trigger flat_views(parts)] parts.len() == cycles.len() && src == flat_views(parts)
        && forall|i: int| 0 <= i < cycles.len() ==> pairs_of_cycle(cycles[i], i, (#[trigger] parts[i])@)
}

// =====================================================================================================
// lemmas: loop 1
// =====================================================================================================
pub proof fn lemma_not_in_prefix(vs: Seq<VehicleIdx>, k: int)
    requires vs.no_duplicates(), 0 <= k < vs.len(),
    ensures !in_prefix(vs, k, vs[k]),
{
}
pub proof fn lemma_in_prefix_contains(vs: Seq<VehicleIdx>, k: int, v: VehicleIdx)
    requires in_prefix(vs, k, v), 0 <= k <= vs.len(),
    ensures vs.contains(v), in_prefix(vs, k + 1, v),
{
    let j = choose|j: int| 0 <= j < k && #[trigger] vs[j] == v;
    assert(vs[j] == v);
}
pub proof fn lemma_split_init(net: &Network, tours: Map<VehicleIdx, Tour>, vs: Seq<VehicleIdx>, sc: Seq<Cluster>, su: Seq<VehicleIdx>)
    requires given_ok(net, tours, vs), sc.len() == 0, su.len() == 0,
    ensures split_inv(net, tours, vs, 0, sc, su),
{
    reveal(split_inv);
}
/// the k-th given vehicle becomes a new one-vehicle cluster
pub proof fn lemma_split_cluster(net: &Network, tours: Map<VehicleIdx, Tour>, vs: Seq<VehicleIdx>, k: int, sc: Seq<Cluster>, su: Seq<VehicleIdx>, c: Cluster)
    requires
        split_inv(net, tours, vs, k, sc, su), k < vs.len(),
        c.0@ == seq![vs[k]], c.1 == tour_counter(&tours[vs[k]]),
    ensures split_inv(net, tours, vs, k + 1, sc.push(c), su),
{
    reveal(split_inv);
    let v = vs[k];
    let n = sc.len() as int;
    let sc2 = sc.push(c);
    lemma_not_in_prefix(vs, k);
    lemma_open_single(net, tours, v);
    assert(vs.contains(v));
    assert forall|i: int| 0 <= i < n implies cl(sc2, i) == cl(sc, i) by {}
    assert(cl(sc2, n) == seq![v]);
    assert forall|i: int| 0 <= i < sc2.len() implies (#[trigger] cl(sc2, i)).len() >= 1 && cl(sc2, i).no_duplicates() by {
        if i < n { assert(cl(sc, i).len() >= 1 && cl(sc, i).no_duplicates()); }
    }
    assert forall|i: int, j: int, a: int, b: int| 0 <= i < sc2.len() && 0 <= j < sc2.len() && i != j && 0 <= a < cl(sc2, i).len() && 0 <= b < cl(sc2, j).len()
        implies #[trigger] cl(sc2, i)[a] != #[trigger] cl(sc2, j)[b] by {
        if i < n && j < n {
            assert(cl(sc, i)[a] != cl(sc, j)[b]);
        } else if i < n {
            assert(in_prefix(vs, k, cl(sc, i)[a]));
        } else {
            assert(in_prefix(vs, k, cl(sc, j)[b]));
        }
    }
    assert forall|i: int, a: int| 0 <= i < sc2.len() && 0 <= a < cl(sc2, i).len() implies vs.contains(#[trigger] cl(sc2, i)[a]) && in_prefix(vs, k + 1, cl(sc2, i)[a]) by {
        if i < n {
            assert(vs.contains(cl(sc, i)[a]));
            assert(in_prefix(vs, k, cl(sc, i)[a]));
            lemma_in_prefix_contains(vs, k, cl(sc, i)[a]);
        } else {
            assert(vs[k] == v);
        }
    }
    assert forall|i: int| 0 <= i < sc2.len() implies sc2[i].1 == open_counter(net, tours, #[trigger] cl(sc2, i)) by {
        if i < n { assert(sc[i].1 == open_counter(net, tours, cl(sc, i))); }
    }
    assert(clusters_ok(net, tours, vs, sc2));
    assert forall|a: int| 0 <= a < su.len() implies in_prefix(vs, k + 1, #[trigger] su[a]) && !in_cluster(sc2, su[a]) by {
        assert(in_prefix(vs, k, su[a]));
        lemma_in_prefix_contains(vs, k, su[a]);
        assert(!in_cluster(sc, su[a]));
        if in_cluster(sc2, su[a]) {
            let i = choose|i: int| 0 <= i < sc2.len() && (#[trigger] cl(sc2, i)).contains(su[a]);
            if i < n { assert(cl(sc, i).contains(su[a])); } else { assert(cl(sc2, n)[0] == v); }
        }
    }
    assert forall|j: int| 0 <= j < k + 1 implies in_cluster(sc2, #[trigger] vs[j]) || su.contains(vs[j]) by {
        if j < k {
            if in_cluster(sc, vs[j]) {
                let i = choose|i: int| 0 <= i < sc.len() && (#[trigger] cl(sc, i)).contains(vs[j]);
                assert(cl(sc2, i).contains(vs[j]));
            }
        } else {
            assert(cl(sc2, n)[0] == v);
            assert(cl(sc2, n).contains(v));
        }
    }
}
/// the k-th given vehicle joins the unassigned vehicles
pub proof fn lemma_split_unassigned(net: &Network, tours: Map<VehicleIdx, Tour>, vs: Seq<VehicleIdx>, k: int, sc: Seq<Cluster>, su: Seq<VehicleIdx>)
    requires split_inv(net, tours, vs, k, sc, su), k < vs.len(),
    ensures split_inv(net, tours, vs, k + 1, sc, su.push(vs[k])),
{
    reveal(split_inv);
    let v = vs[k];
    let su2 = su.push(v);
    lemma_not_in_prefix(vs, k);
    assert(!su.contains(v)) by {
        if su.contains(v) {
            let a = choose|a: int| 0 <= a < su.len() && su[a] == v;
            assert(in_prefix(vs, k, su[a]));
        }
    }
    lemma_push_contains(su, v);
    assert(!in_cluster(sc, v)) by {
        if in_cluster(sc, v) {
            let i = choose|i: int| 0 <= i < sc.len() && (#[trigger] cl(sc, i)).contains(v);
            let b = choose|b: int| 0 <= b < cl(sc, i).len() && cl(sc, i)[b] == v;
            assert(in_prefix(vs, k, cl(sc, i)[b]));
        }
    }
    assert forall|a: int| 0 <= a < su2.len() implies in_prefix(vs, k + 1, #[trigger] su2[a]) && !in_cluster(sc, su2[a]) by {
        if a < su.len() {
            assert(in_prefix(vs, k, su[a]));
            lemma_in_prefix_contains(vs, k, su[a]);
            assert(!in_cluster(sc, su[a]));
        } else {
            assert(vs[k] == v);
        }
    }
    assert forall|i: int, b: int| 0 <= i < sc.len() && 0 <= b < cl(sc, i).len() implies in_prefix(vs, k + 1, #[trigger] cl(sc, i)[b]) by {
        assert(in_prefix(vs, k, cl(sc, i)[b]));
        lemma_in_prefix_contains(vs, k, cl(sc, i)[b]);
    }
    assert forall|j: int| 0 <= j < k + 1 implies in_cluster(sc, #[trigger] vs[j]) || su2.contains(vs[j]) by {
        if j < k {
            if su.contains(vs[j]) { assert(su2.contains(vs[j])); }
        } else {
            assert(su2.contains(v));
        }
    }
}
/// after loop 1: the state loop 2 starts from
pub proof fn lemma_split_done(net: &Network, tours: Map<VehicleIdx, Tour>, vs: Seq<VehicleIdx>, sc: Seq<Cluster>, su: Seq<VehicleIdx>)
    requires split_inv(net, tours, vs, vs.len() as int, sc, su),
    ensures lp2_inv(net, tours, vs, su, 0, sc),
{
    reveal(split_inv);
    let n = vs.len() as int;
    assert forall|a: int| 0 <= a < su.len() implies vs.contains(#[trigger] su[a]) by {
        assert(in_prefix(vs, n, su[a]));
        lemma_in_prefix_contains(vs, n, su[a]);
    }
    assert forall|j: int| 0 <= j < vs.len() implies in_cluster(sc, #[trigger] vs[j]) || pending(su, 0, vs[j]) by {
        if su.contains(vs[j]) {
            let a = choose|a: int| 0 <= a < su.len() && su[a] == vs[j];
            assert(su[a] == vs[j]);
        }
    }
}

// =====================================================================================================
// lemmas: loop 2
// =====================================================================================================
// ---- A-std: `<[T]>::sort_by_key` only rearranges ("Sorts the slice with a key extraction function"): the new slice is the
// old one under a bijection of the positions.  The three sorts are part of the pinned plumbing; this is what the composition
// lemmas assume about them (the ORDER they establish is not used: which cluster a vehicle joins is not part of the contract)
pub open spec fn perm_maps(n: int, p: Seq<int>, q: Seq<int>) -> bool {
    &&& p.len() == n && q.len() == n
    &&& forall|i: int| 0 <= i < n ==> 0 <= #[trigger] p[i] < n && q[p[i]] == i
    &&& forall|k: int| 0 <= k < n ==> 0 <= #[trigger] q[k] < n && p[q[k]] == k
}
pub open spec fn permutes<T>(a: Seq<T>, b: Seq<T>) -> bool {
    &&& b.len() == a.len()
    &&& exists|p: Seq<int>, q: Seq<int>| #![trigger perm_maps(a.len() as int, p, q)] perm_maps(a.len() as int, p, q)
            && forall|i: int| 0 <= i < a.len() ==> #[trigger] b[i] == a[p[i]]
}
pub proof fn lemma_in_cluster_perm(sc: Seq<Cluster>, sc2: Seq<Cluster>, p: Seq<int>, q: Seq<int>, v: VehicleIdx)
    requires sc2.len() == sc.len(), perm_maps(sc.len() as int, p, q), forall|i: int| 0 <= i < sc.len() ==> #[trigger] sc2[i] == sc[p[i]],
    ensures in_cluster(sc2, v) == in_cluster(sc, v),
{
    if in_cluster(sc2, v) {
        let i = choose|i: int| 0 <= i < sc2.len() && (#[trigger] cl(sc2, i)).contains(v);
        assert(sc2[i] == sc[p[i]]);
        assert(cl(sc, p[i]).contains(v));
    }
    if in_cluster(sc, v) {
        let i = choose|i: int| 0 <= i < sc.len() && (#[trigger] cl(sc, i)).contains(v);
        assert(sc2[q[i]] == sc[p[q[i]]]);
        assert(cl(sc2, q[i]).contains(v));
    }
}
/// sorting the clusters keeps the invariant of loop 2
pub proof fn lemma_lp2_perm_sc(net: &Network, tours: Map<VehicleIdx, Tour>, vs: Seq<VehicleIdx>, su: Seq<VehicleIdx>, k: int, sc: Seq<Cluster>, sc2: Seq<Cluster>)
    requires lp2_inv(net, tours, vs, su, k, sc), permutes(sc, sc2),
    ensures lp2_inv(net, tours, vs, su, k, sc2),
{
    let n = sc.len() as int;
    let (p, q) = choose|p: Seq<int>, q: Seq<int>| #![trigger perm_maps(n, p, q)] perm_maps(n, p, q)
        && forall|i: int| 0 <= i < sc.len() ==> #[trigger] sc2[i] == sc[p[i]];
    assert forall|i: int| 0 <= i < n implies cl(sc2, i) == cl(sc, p[i]) by { assert(sc2[i] == sc[p[i]]); }
    assert forall|i: int| 0 <= i < sc2.len() implies (#[trigger] cl(sc2, i)).len() >= 1 && cl(sc2, i).no_duplicates() by {
        assert(cl(sc2, i) == cl(sc, p[i]));
        assert(cl(sc, p[i]).len() >= 1 && cl(sc, p[i]).no_duplicates());
    }
    assert forall|i: int, j: int, a: int, b: int| 0 <= i < sc2.len() && 0 <= j < sc2.len() && i != j && 0 <= a < cl(sc2, i).len() && 0 <= b < cl(sc2, j).len()
        implies #[trigger] cl(sc2, i)[a] != #[trigger] cl(sc2, j)[b] by {
        assert(cl(sc2, i) == cl(sc, p[i]) && cl(sc2, j) == cl(sc, p[j]));
        assert(q[p[i]] == i && q[p[j]] == j);
        assert(cl(sc, p[i])[a] != cl(sc, p[j])[b]);
    }
    assert forall|i: int, a: int| 0 <= i < sc2.len() && 0 <= a < cl(sc2, i).len() implies vs.contains(#[trigger] cl(sc2, i)[a]) by {
        assert(cl(sc2, i) == cl(sc, p[i]));
        assert(vs.contains(cl(sc, p[i])[a]));
    }
    assert forall|i: int| 0 <= i < sc2.len() implies sc2[i].1 == open_counter(net, tours, #[trigger] cl(sc2, i)) by {
        assert(sc2[i] == sc[p[i]]);
        assert(sc[p[i]].1 == open_counter(net, tours, cl(sc, p[i])));
    }
    assert forall|a: int| k <= a < su.len() implies !in_cluster(sc2, #[trigger] su[a]) by {
        lemma_in_cluster_perm(sc, sc2, p, q, su[a]);
    }
    assert forall|j: int| 0 <= j < vs.len() implies in_cluster(sc2, #[trigger] vs[j]) || pending(su, k, vs[j]) by {
        lemma_in_cluster_perm(sc, sc2, p, q, vs[j]);
    }
}
/// sorting the unassigned vehicles (before loop 2 starts) keeps the invariant of loop 2
pub proof fn lemma_lp2_perm_su(net: &Network, tours: Map<VehicleIdx, Tour>, vs: Seq<VehicleIdx>, su: Seq<VehicleIdx>, su2: Seq<VehicleIdx>, sc: Seq<Cluster>)
    requires lp2_inv(net, tours, vs, su, 0, sc), permutes(su, su2),
    ensures lp2_inv(net, tours, vs, su2, 0, sc),
{
    let n = su.len() as int;
    let (p, q) = choose|p: Seq<int>, q: Seq<int>| #![trigger perm_maps(n, p, q)] perm_maps(n, p, q)
        && forall|i: int| 0 <= i < su.len() ==> #[trigger] su2[i] == su[p[i]];
    assert forall|a: int, b: int| 0 <= a < su2.len() && 0 <= b < su2.len() && a != b implies su2[a] != su2[b] by {
        assert(su2[a] == su[p[a]] && su2[b] == su[p[b]]);
        assert(q[p[a]] == a && q[p[b]] == b);
    }
    assert forall|a: int| 0 <= a < su2.len() implies vs.contains(#[trigger] su2[a]) && !in_cluster(sc, su2[a]) by {
        assert(su2[a] == su[p[a]]);
        assert(vs.contains(su[p[a]]) && !in_cluster(sc, su[p[a]]));
    }
    assert forall|j: int| 0 <= j < vs.len() implies in_cluster(sc, #[trigger] vs[j]) || pending(su2, 0, vs[j]) by {
        if pending(su, 0, vs[j]) {
            let a = choose|a: int| 0 <= a < su.len() && #[trigger] su[a] == vs[j];
            assert(su2[q[a]] == su[p[q[a]]]);
        }
    }
}
/// a duplicate-free list of members of vs is at most as long as vs
pub proof fn lemma_nodup_subset_len(c: Seq<VehicleIdx>, vs: Seq<VehicleIdx>)
    requires c.no_duplicates(), forall|a: int| 0 <= a < c.len() ==> vs.contains(#[trigger] c[a]),
    ensures c.len() <= vs.len(),
{
    c.unique_seq_to_set();
    vs.lemma_cardinality_of_set();
    assert(c.to_set().subset_of(vs.to_set())) by {
        assert forall|x: VehicleIdx| c.to_set().contains(x) implies vs.to_set().contains(x) by {
            let a = choose|a: int| 0 <= a < c.len() && c[a] == x;
            assert(vs.contains(c[a]));
        }
    }
    vstd::set_lib::lemma_len_subset(c.to_set(), vs.to_set());
}
/// every cluster of a state of loop 2 has admissible tours and is small
pub proof fn lemma_cluster_facts(net: &Network, tours: Map<VehicleIdx, Tour>, vs: Seq<VehicleIdx>, sc: Seq<Cluster>, i: int)
    requires given_ok(net, tours, vs), clusters_ok(net, tours, vs, sc), 0 <= i < sc.len(),
    ensures
        cycle_tours_ok(net, tours, cl(sc, i)), 1 <= cl(sc, i).len() <= vs.len(),
        -0x400_0000_0000_0000 <= sc[i].1 <= 0x400_0000_0000_0000,
{
    let c = cl(sc, i);
    assert(c.len() >= 1 && c.no_duplicates());
    assert forall|a: int| 0 <= a < c.len() implies vs.contains(#[trigger] c[a]) by { assert(vs.contains(cl(sc, i)[a])); }
    assert forall|a: int| 0 <= a < c.len() implies tours.contains_key(#[trigger] c[a]) && tour_ok(net, &tours[c[a]]) by {
        let j = choose|j: int| 0 <= j < vs.len() && vs[j] == c[a];
        assert(tours.contains_key(vs[j]) && tour_ok(net, &tours[vs[j]]));
    }
    lemma_nodup_subset_len(c, vs);
    lemma_open_small(net, tours, c);
    assert(sc[i].1 == open_counter(net, tours, cl(sc, i)));
}
/// the preconditions of the lifted pieces hold at the head of iteration k of loop 2: the vehicle has an admissible tour
/// (`tours.get(&vehicle).unwrap()`, `tour.maintenance_counter()`), all counters are small (frag_find_cluster), and every
/// cluster can take the vehicle (frag_join_cluster, whichever cluster the reference points to)
pub proof fn lemma_lp2_pre(net: &Network, tours: Map<VehicleIdx, Tour>, vs: Seq<VehicleIdx>, su: Seq<VehicleIdx>, k: int, sc: Seq<Cluster>)
    requires lp2_inv(net, tours, vs, su, k, sc), k < su.len(),
    ensures
        tours.contains_key(su[k]) && tour_ok(net, &tours[su[k]]),
        forall|i: int| 0 <= i < sc.len() ==> -0x400_0000_0000_0000 <= (#[trigger] sc[i]).1 <= 0x400_0000_0000_0000,
        forall|i: int| 0 <= i < sc.len() ==> member_ok(net, tours, #[trigger] sc[i]),
{
    let v = su[k];
    assert(vs.contains(su[k]));
    let j = choose|j: int| 0 <= j < vs.len() && vs[j] == v;
    assert(tours.contains_key(vs[j]) && tour_ok(net, &tours[vs[j]]));
    assert(!in_cluster(sc, su[k]));
    assert forall|i: int| 0 <= i < sc.len() implies -0x400_0000_0000_0000 <= (#[trigger] sc[i]).1 <= 0x400_0000_0000_0000 && member_ok(net, tours, sc[i]) by {
        lemma_cluster_facts(net, tours, vs, sc, i);
        let c = cl(sc, i);
        // c + [v] is a duplicate-free list of given vehicles, too
        assert(!c.contains(v));
        lemma_push_contains(c, v);
        assert forall|a: int| 0 <= a < c.push(v).len() implies vs.contains(#[trigger] c.push(v)[a]) by {
            if a < c.len() { assert(vs.contains(cl(sc, i)[a])); }
        }
        lemma_nodup_subset_len(c.push(v), vs);
    }
}
/// the contracts of frag_find_cluster and frag_join_cluster put together again (in the host function the reference the
/// first one returns points into `sorted_clusters`, which the Some arm of the match does not use)
pub proof fn lemma_step_compose(net: &Network, tours: Map<VehicleIdx, Tour>, sc0: Seq<Cluster>, found: Option<(Cluster, Cluster)>, sc1: Seq<Cluster>,
        scm1: Seq<Cluster>, v: VehicleIdx)
    requires
        find_post(sc0, found, sc1),
        match_post(net, tours, found, sc0, scm1, v),
    ensures step_post(net, tours, sc0, if found is Some { sc1 } else { scm1 }, v),
{
    match found {
        Some(p) => {
            let k = choose|k: int| 0 <= k < sc0.len() && #[trigger] sc0[k] == p.0 && sc1 =~= sc0.update(k, p.1);
            assert(gains(net, tours, sc0, sc1, k, v));
        }
        None => {}
    }
}
/// one iteration of loop 2 (up to the sort) keeps the invariant
pub proof fn lemma_lp2_step(net: &Network, tours: Map<VehicleIdx, Tour>, vs: Seq<VehicleIdx>, su: Seq<VehicleIdx>, k: int, sc: Seq<Cluster>, sc2: Seq<Cluster>)
    requires lp2_inv(net, tours, vs, su, k, sc), k < su.len(), step_post(net, tours, sc, sc2, su[k]),
    ensures lp2_inv(net, tours, vs, su, k + 1, sc2),
{
    let v = su[k];
    assert(vs.contains(su[k]));
    assert(!in_cluster(sc, su[k]));
    if sc.len() == 0 && sc2.len() == 1 && cl(sc2, 0) == seq![v] && sc2[0].1 == open_counter(net, tours, seq![v]) {
        assert(cl(sc2, 0)[0] == v);
        assert(cl(sc2, 0).contains(v));
        assert forall|a: int| k + 1 <= a < su.len() implies !in_cluster(sc2, #[trigger] su[a]) by {
            if in_cluster(sc2, su[a]) {
                let i = choose|i: int| 0 <= i < sc2.len() && (#[trigger] cl(sc2, i)).contains(su[a]);
                let b = choose|b: int| 0 <= b < cl(sc2, 0).len() && cl(sc2, 0)[b] == su[a];
                assert(su[a] == su[k]);
            }
        }
        assert forall|j: int| 0 <= j < vs.len() implies in_cluster(sc2, #[trigger] vs[j]) || pending(su, k + 1, vs[j]) by {
            assert(!in_cluster(sc, vs[j]));
            let a = choose|a: int| k <= a < su.len() && #[trigger] su[a] == vs[j];
            if a == k { assert(cl(sc2, 0).contains(vs[j])); } else { assert(su[a] == vs[j]); }
        }
    } else {
        let kk = choose|kk: int| #[trigger] gains(net, tours, sc, sc2, kk, v);
        let c = cl(sc, kk);
        let c2 = cl(sc2, kk);
        assert(!c.contains(v));
        assert(c.len() >= 1 && c.no_duplicates());
        lemma_push_contains(c, v);
        assert forall|i: int| 0 <= i < sc.len() && i != kk implies cl(sc2, i) == cl(sc, i) by { assert(sc2[i] == sc[i]); }
        assert forall|i: int| 0 <= i < sc2.len() implies (#[trigger] cl(sc2, i)).len() >= 1 && cl(sc2, i).no_duplicates() by {
            if i != kk { assert(cl(sc, i).len() >= 1 && cl(sc, i).no_duplicates()); }
        }
        // a member of a new cluster is a member of the old cluster of the same index, or it is v (index kk)
        assert forall|i: int, a: int| 0 <= i < sc2.len() && 0 <= a < cl(sc2, i).len()
            implies (a < cl(sc, i).len() && #[trigger] cl(sc2, i)[a] == cl(sc, i)[a]) || (i == kk && cl(sc2, i)[a] == v) by {
            if i != kk { assert(cl(sc2, i) == cl(sc, i)); }
        }
        assert forall|i: int, j: int, a: int, b: int| 0 <= i < sc2.len() && 0 <= j < sc2.len() && i != j && 0 <= a < cl(sc2, i).len() && 0 <= b < cl(sc2, j).len()
            implies #[trigger] cl(sc2, i)[a] != #[trigger] cl(sc2, j)[b] by {
            let x = cl(sc2, i)[a];
            let y = cl(sc2, j)[b];
            if a < cl(sc, i).len() && x == cl(sc, i)[a] {
                if b < cl(sc, j).len() && y == cl(sc, j)[b] {
                    assert(cl(sc, i)[a] != cl(sc, j)[b]);
                } else {
                    assert(cl(sc, i).contains(cl(sc, i)[a]));
                }
            } else {
                assert(b < cl(sc, j).len() && y == cl(sc, j)[b]);
                assert(cl(sc, j).contains(cl(sc, j)[b]));
            }
        }
        assert forall|i: int, a: int| 0 <= i < sc2.len() && 0 <= a < cl(sc2, i).len() implies vs.contains(#[trigger] cl(sc2, i)[a]) by {
            if a < cl(sc, i).len() && cl(sc2, i)[a] == cl(sc, i)[a] { assert(vs.contains(cl(sc, i)[a])); }
        }
        assert forall|i: int| 0 <= i < sc2.len() implies sc2[i].1 == open_counter(net, tours, #[trigger] cl(sc2, i)) by {
            if i != kk { assert(sc2[i] == sc[i]); assert(sc[i].1 == open_counter(net, tours, cl(sc, i))); }
        }
        assert(clusters_ok(net, tours, vs, sc2));
        assert forall|a: int| k + 1 <= a < su.len() implies !in_cluster(sc2, #[trigger] su[a]) by {
            assert(!in_cluster(sc, su[a]));
            if in_cluster(sc2, su[a]) {
                let i = choose|i: int| 0 <= i < sc2.len() && (#[trigger] cl(sc2, i)).contains(su[a]);
                let b = choose|b: int| 0 <= b < cl(sc2, i).len() && cl(sc2, i)[b] == su[a];
                if b < cl(sc, i).len() && cl(sc2, i)[b] == cl(sc, i)[b] {
                    assert(cl(sc, i).contains(su[a]));
                } else {
                    assert(su[a] == su[k]);
                }
            }
        }
        assert forall|j: int| 0 <= j < vs.len() implies in_cluster(sc2, #[trigger] vs[j]) || pending(su, k + 1, vs[j]) by {
            if in_cluster(sc, vs[j]) {
                let i = choose|i: int| 0 <= i < sc.len() && (#[trigger] cl(sc, i)).contains(vs[j]);
                let b = choose|b: int| 0 <= b < cl(sc, i).len() && cl(sc, i)[b] == vs[j];
                if i == kk { assert(c2[b] == vs[j]); } else { assert(cl(sc2, i) == cl(sc, i)); }
                assert(cl(sc2, i).contains(vs[j]));
            } else {
                let a = choose|a: int| k <= a < su.len() && #[trigger] su[a] == vs[j];
                if a == k {
                    assert(c2[c.len() as int] == v);
                    assert(cl(sc2, kk).contains(vs[j]));
                } else {
                    assert(su[a] == vs[j]);
                }
            }
        }
    }
}

// =====================================================================================================
// lemmas: closing the clusters, the lookup, the transition
// =====================================================================================================
/// after loop 2: every given vehicle is in a cluster
pub open spec fn all_assigned(net: &Network, tours: Map<VehicleIdx, Tour>, vs: Seq<VehicleIdx>, sc: Seq<Cluster>) -> bool {
    &&& given_ok(net, tours, vs)
    &&& clusters_ok(net, tours, vs, sc)
    &&& forall|j: int| 0 <= j < vs.len() ==> in_cluster(sc, #[trigger] vs[j])
}
pub proof fn lemma_lp2_done(net: &Network, tours: Map<VehicleIdx, Tour>, vs: Seq<VehicleIdx>, su: Seq<VehicleIdx>, sc: Seq<Cluster>)
    requires lp2_inv(net, tours, vs, su, su.len() as int, sc),
    ensures all_assigned(net, tours, vs, sc),
{
    assert forall|j: int| 0 <= j < vs.len() implies in_cluster(sc, #[trigger] vs[j]) by {
        assert(!pending(su, su.len() as int, vs[j]));
    }
}
/// `sorted_clusters.into_iter().map(closure).collect()` (pinned plumbing, A-iter): the closing step is applied to the first m
/// clusters in order; it starts from totals 0 and every call sees the totals the previous call left (tvs / tcs: the values of
/// `total_maintenance_violation` / `total_maintenance_counter` before call i); cycles[i] is what call i returned
pub open spec fn closes_upto(net: &Network, tours: Map<VehicleIdx, Tour>, sc: Seq<Cluster>, cycles: Seq<TransitionCycle>, tvs: Seq<int>, tcs: Seq<int>, m: int) -> bool {
    &&& 0 <= m <= sc.len() && cycles.len() == sc.len() && tvs.len() == sc.len() + 1 && tcs.len() == sc.len() + 1
    &&& tvs[0] == 0 && tcs[0] == 0
    &&& forall|i: int| 0 <= i < m ==> close_post(net, tours, cl(sc, i), sc[i].1 as int, tvs[i], tcs[i], #[trigger] cycles[i], tvs[i + 1], tcs[i + 1])
}
pub open spec fn cl_lens(sc: Seq<Cluster>) -> Seq<int> { Seq::new(sc.len(), |i: int| cl(sc, i).len() as int) }
/// the vehicles of the first m clusters
pub open spec fn cl_union(sc: Seq<Cluster>, m: int) -> Set<VehicleIdx>
    decreases m,
{
    if m <= 0 { Set::empty() } else { cl_union(sc, m - 1).union(cl(sc, m - 1).to_set()) }
}
pub proof fn lemma_cl_union_member(sc: Seq<Cluster>, m: int, v: VehicleIdx)
    requires 0 <= m <= sc.len(),
    ensures cl_union(sc, m).contains(v) <==> exists|i: int| 0 <= i < m && (#[trigger] cl(sc, i)).contains(v),
    decreases m,
{
    if m > 0 {
        lemma_cl_union_member(sc, m - 1, v);
        if cl_union(sc, m).contains(v) {
            if cl(sc, m - 1).contains(v) { assert(0 <= m - 1 < m && cl(sc, m - 1).contains(v)); }
            else {
                let i = choose|i: int| 0 <= i < m - 1 && (#[trigger] cl(sc, i)).contains(v);
                assert(0 <= i < m && cl(sc, i).contains(v));
            }
        }
        if exists|i: int| 0 <= i < m && (#[trigger] cl(sc, i)).contains(v) {
            let i = choose|i: int| 0 <= i < m && (#[trigger] cl(sc, i)).contains(v);
            if i < m - 1 { assert(0 <= i < m - 1 && cl(sc, i).contains(v)); }
        }
    }
}
/// pairwise disjoint duplicate-free clusters of given vehicles hold at most as many vehicles as are given
pub proof fn lemma_cl_lens_bound(net: &Network, tours: Map<VehicleIdx, Tour>, vs: Seq<VehicleIdx>, sc: Seq<Cluster>, m: int)
    requires clusters_ok(net, tours, vs, sc), 0 <= m <= sc.len(),
    ensures
        cl_union(sc, m).len() == sum_seq(cl_lens(sc).take(m)),
        cl_union(sc, m).subset_of(vs.to_set()),
        0 <= sum_seq(cl_lens(sc).take(m)) <= vs.len(),
    decreases m,
{
    let l = cl_lens(sc);
    if m > 0 {
        lemma_cl_lens_bound(net, tours, vs, sc, m - 1);
        let a = cl_union(sc, m - 1);
        let c = cl(sc, m - 1);
        let b = c.to_set();
        assert(c.len() >= 1 && c.no_duplicates());
        assert(a.disjoint(b)) by {
            assert forall|v: VehicleIdx| !(a.contains(v) && b.contains(v)) by {
                if a.contains(v) && b.contains(v) {
                    lemma_cl_union_member(sc, m - 1, v);
                    let i = choose|i: int| 0 <= i < m - 1 && (#[trigger] cl(sc, i)).contains(v);
                    let x = choose|x: int| 0 <= x < cl(sc, i).len() && cl(sc, i)[x] == v;
                    let y = choose|y: int| 0 <= y < c.len() && c[y] == v;
                    assert(cl(sc, i)[x] != cl(sc, m - 1)[y]);
                }
            }
        }
        vstd::set_lib::lemma_set_disjoint_lens(a, b);
        c.unique_seq_to_set();
        assert(l.take(m).drop_last() =~= l.take(m - 1));
        assert(l.take(m).last() == c.len());
        assert(b.subset_of(vs.to_set())) by {
            assert forall|v: VehicleIdx| b.contains(v) implies vs.to_set().contains(v) by {
                let y = choose|y: int| 0 <= y < c.len() && c[y] == v;
                assert(vs.contains(cl(sc, m - 1)[y]));
            }
        }
        vs.lemma_cardinality_of_set();
        vstd::set_lib::lemma_len_subset(cl_union(sc, m), vs.to_set());
    } else {
        assert(l.take(0) =~= Seq::<int>::empty());
    }
}
/// the totals the first m closing steps leave are the sums of the first m counters resp. of their positive parts, and small
pub proof fn lemma_totals(net: &Network, tours: Map<VehicleIdx, Tour>, vs: Seq<VehicleIdx>, sc: Seq<Cluster>, cycles: Seq<TransitionCycle>, tvs: Seq<int>, tcs: Seq<int>, m: int)
    requires given_ok(net, tours, vs), clusters_ok(net, tours, vs, sc), closes_upto(net, tours, sc, cycles, tvs, tcs, m),
    ensures
        tcs[m] == sum_seq(counters_of(cycles).take(m)),
        tvs[m] == sum_seq(violations_of(cycles).take(m)),
        -(sum_seq(cl_lens(sc).take(m)) * vehicle_bound()) <= tcs[m] <= sum_seq(cl_lens(sc).take(m)) * vehicle_bound(),
        0 <= tvs[m] <= sum_seq(cl_lens(sc).take(m)) * vehicle_bound(),
    decreases m,
{
    let cs = counters_of(cycles);
    let vv = violations_of(cycles);
    let l = cl_lens(sc);
    if m > 0 {
        lemma_totals(net, tours, vs, sc, cycles, tvs, tcs, m - 1);
        let i = m - 1;
        assert(close_post(net, tours, cl(sc, i), sc[i].1 as int, tvs[i], tcs[i], cycles[i], tvs[i + 1], tcs[i + 1]));
        lemma_cluster_facts(net, tours, vs, sc, i);
        lemma_counter_bound(net, tours, cl(sc, i));
        assert(cs.take(m).drop_last() =~= cs.take(m - 1));
        assert(vv.take(m).drop_last() =~= vv.take(m - 1));
        assert(l.take(m).drop_last() =~= l.take(m - 1));
        assert(cs.take(m).last() == cycles[i].maintenance_counter);
        assert(vv.take(m).last() == max0(cycles[i].maintenance_counter as int));
        assert(l.take(m).last() == cl(sc, i).len());
        let x = sum_seq(l.take(m - 1)); let y = cl(sc, i).len() as int;
        assert((x + y) * vehicle_bound() == x * vehicle_bound() + y * vehicle_bound()) by (nonlinear_arith);
    } else {
        assert(cs.take(0) =~= Seq::<int>::empty());
        assert(vv.take(0) =~= Seq::<int>::empty());
        assert(l.take(0) =~= Seq::<int>::empty());
    }
}
/// the precondition of the closing step holds for cluster m when the first m clusters have been closed
pub proof fn lemma_close_pre(net: &Network, tours: Map<VehicleIdx, Tour>, vs: Seq<VehicleIdx>, sc: Seq<Cluster>, cycles: Seq<TransitionCycle>, tvs: Seq<int>, tcs: Seq<int>, m: int)
    requires given_ok(net, tours, vs), clusters_ok(net, tours, vs, sc), closes_upto(net, tours, sc, cycles, tvs, tcs, m), m < sc.len(),
    ensures close_pre(net, tours, cl(sc, m), sc[m].1 as int, tvs[m], tcs[m]),
{
    lemma_totals(net, tours, vs, sc, cycles, tvs, tcs, m);
    lemma_cl_lens_bound(net, tours, vs, sc, m);
    lemma_cluster_facts(net, tours, vs, sc, m);
    assert(sc[m].1 == open_counter(net, tours, cl(sc, m)));
    let s = sum_seq(cl_lens(sc).take(m));
    assert(0 <= s * vehicle_bound() <= 0x400_0000_0000_0000) by (nonlinear_arith)
        requires 0 <= s <= 0x2_0000, vehicle_bound() == 0x200_0000_0000;
}

// ---- the lookup -------------------------------------------------------------------------------------------------------
pub proof fn lemma_flat_index<U>(parts: Seq<SeqIter<U>>, x: int)
    requires 0 <= x < flat_views(parts).len(),
    ensures exists|i: int, j: int| 0 <= i < parts.len() && 0 <= j < (#[trigger] parts[i])@.len() && flat_views(parts)[x] == #[trigger] parts[i]@[j],
    decreases parts.len(),
{
    if parts.len() > 0 {
        let d = parts.drop_last();
        if x < flat_views(d).len() {
            lemma_flat_index(d, x);
            let (i, j) = choose|i: int, j: int| 0 <= i < d.len() && 0 <= j < (#[trigger] d[i])@.len() && flat_views(d)[x] == #[trigger] d[i]@[j];
            assert(parts[i] == d[i]);
            assert(0 <= i < parts.len() && 0 <= j < parts[i]@.len() && flat_views(parts)[x] == parts[i]@[j]);
        } else {
            let i = parts.len() - 1;
            let j = x - flat_views(d).len();
            assert(0 <= i < parts.len() && 0 <= j < parts[i]@.len() && flat_views(parts)[x] == parts[i]@[j]);
        }
    }
}
pub proof fn lemma_flat_has<U>(parts: Seq<SeqIter<U>>, i: int, j: int)
    requires 0 <= i < parts.len(), 0 <= j < parts[i]@.len(),
    ensures exists|x: int| 0 <= x < flat_views(parts).len() && #[trigger] flat_views(parts)[x] == parts[i]@[j],
    decreases parts.len(),
{
    let d = parts.drop_last();
    if i < parts.len() - 1 {
        lemma_flat_has(d, i, j);
        let x = choose|x: int| 0 <= x < flat_views(d).len() && #[trigger] flat_views(d)[x] == d[i]@[j];
        assert(flat_views(parts)[x] == parts[i]@[j]);
    } else {
        let x = flat_views(d).len() + j;
        assert(flat_views(parts)[x] == parts[i]@[j]);
    }
}
/// C15 "cycle_lookup matches the cycles", as far as it does not need disjointness: every key is mapped to the index of a
/// cycle that contains it, and every vehicle of a cycle is a key
pub open spec fn lookup_post(cycles: Seq<TransitionCycle>, m: Map<VehicleIdx, CycleIdx>) -> bool {
    &&& forall|v: VehicleIdx| #[trigger] m.contains_key(v) ==> 0 <= m[v] < cycles.len() && cycles[m[v] as int].cycle@.contains(v)
    &&& forall|i: int, a: int| 0 <= i < cycles.len() && 0 <= a < cycles[i].cycle@.len() ==> m.contains_key(#[trigger] cycles[i].cycle@[a])
}
/// what frag_cycle_lookup ensures about the collected pairs, and A-im, give the lookup
pub proof fn lemma_lookup_of_src(cycles: Seq<TransitionCycle>, m: self::im::HashMap<VehicleIdx, CycleIdx>)
    requires lookup_src(cycles, imhm_source(m)),
    ensures lookup_post(cycles, m@),
{
    broadcast use axiom_imhm_collect;
    let src = imhm_source(m);
    let parts = choose|parts: Seq<SeqIter<(VehicleIdx, CycleIdx)>>| #![trigger flat_views(parts)] parts.len() == cycles.len() && src == flat_views(parts)
        && forall|i: int| 0 <= i < cycles.len() ==> pairs_of_cycle(cycles[i], i, (#[trigger] parts[i])@);
    assert(src.len() >= 0);
    assert forall|v: VehicleIdx| #[trigger] m@.contains_key(v) implies 0 <= m@[v] < cycles.len() && cycles[m@[v] as int].cycle@.contains(v) by {
        let x = choose|x: int| 0 <= x < src.len() && #[trigger] src[x] == (v, m@[v]);
        lemma_flat_index(parts, x);
        let (i, j) = choose|i: int, j: int| 0 <= i < parts.len() && 0 <= j < (#[trigger] parts[i])@.len() && flat_views(parts)[x] == #[trigger] parts[i]@[j];
        assert(pairs_of_cycle(cycles[i], i, parts[i]@));
        assert(parts[i]@[j].0 == cycles[i].cycle@[j] && parts[i]@[j].1 as int == i);
        assert(cycles[i].cycle@[j] == v);
    }
    assert forall|i: int, a: int| 0 <= i < cycles.len() && 0 <= a < cycles[i].cycle@.len() implies m@.contains_key(#[trigger] cycles[i].cycle@[a]) by {
        assert(pairs_of_cycle(cycles[i], i, parts[i]@));
        lemma_flat_has(parts, i, a);
        let x = choose|x: int| 0 <= x < flat_views(parts).len() && #[trigger] flat_views(parts)[x] == parts[i]@[a];
        assert(parts[i]@[a].0 == cycles[i].cycle@[a]);
        assert(m@.contains_key(src[x].0));
    }
}

// ---- the transition ---------------------------------------------------------------------------------------------------
/// C15 / C10 / C09 for what one_cluster_per_maintenance builds: clusters that hold every given vehicle exactly once, closed
/// one by one, the lookup collected from the cycles, `empty_cycles: Vec::new()`
pub proof fn lemma_built_wf(net: &Network, tours: Map<VehicleIdx, Tour>, vs: Seq<VehicleIdx>, sc: Seq<Cluster>, cycles: Seq<TransitionCycle>, tvs: Seq<int>, tcs: Seq<int>, t: TView)
    requires
        all_assigned(net, tours, vs, sc),
        closes_upto(net, tours, sc, cycles, tvs, tcs, sc.len() as int),
        lookup_post(cycles, t.lookup),
        t.cycles == cycles, t.total_violation == tvs[sc.len() as int], t.total_counter == tcs[sc.len() as int], t.empty.len() == 0,
    ensures
        t.wf(net, tours), // @obl C15.new_fast.cycle_counters_and_totals_exact
        // every given vehicle is a key of the lookup, is in the cycle the lookup names and in no other cycle
        forall|v: VehicleIdx| vs.contains(v) ==> #[trigger] t.has_vehicle(v) && 0 <= t.cycle_of(v) < t.n() && t.cyc(t.cycle_of(v)).contains(v)
            && forall|i: int| 0 <= i < t.n() && i != t.cycle_of(v) ==> !(#[trigger] t.cyc(i)).contains(v), // @obl C15.new_fast.every_given_vehicle_in_exactly_one_cycle
        // no other vehicle is a key or in a cycle
        forall|v: VehicleIdx| #[trigger] t.has_vehicle(v) ==> vs.contains(v), // @obl C15.new_fast.every_given_vehicle_in_exactly_one_cycle
        forall|i: int, a: int| 0 <= i < t.n() && 0 <= a < t.cyc(i).len() ==> vs.contains(#[trigger] t.cyc(i)[a]), // @obl C15.new_fast.every_given_vehicle_in_exactly_one_cycle
        t.total_len() == vs.len(),
        t.empty.len() == 0 && forall|i: int| 0 <= i < t.n() ==> (#[trigger] t.cyc(i)).len() >= 1,
{
    let n = sc.len() as int;
    assert forall|i: int| 0 <= i < n implies #[trigger] t.cyc(i) == cl(sc, i)
        && t.cycles[i].maintenance_counter == spec_cycle_counter(net, tours, t.cyc(i)) by {
        assert(close_post(net, tours, cl(sc, i), sc[i].1 as int, tvs[i], tcs[i], cycles[i], tvs[i + 1], tcs[i + 1]));
    }
    // sizes
    assert(lens_of(t.cycles) =~= cl_lens(sc)) by {
        assert forall|i: int| 0 <= i < n implies lens_of(t.cycles)[i] == cl_lens(sc)[i] by { assert(t.cyc(i) == cl(sc, i)); }
    }
    lemma_cl_lens_bound(net, tours, vs, sc, n);
    assert(cl_lens(sc).take(n) =~= cl_lens(sc));
    // cycles
    assert forall|i: int| 0 <= i < t.n() implies (#[trigger] t.cyc(i)).no_duplicates() && t.cyc(i).len() >= 1 by {
        assert(t.cyc(i) == cl(sc, i));
        assert(cl(sc, i).len() >= 1 && cl(sc, i).no_duplicates());
    }
    assert forall|i: int, j: int, a: int, b: int|
        0 <= i < t.n() && 0 <= j < t.n() && i != j && 0 <= a < t.cyc(i).len() && 0 <= b < t.cyc(j).len()
        implies #[trigger] t.cyc(i)[a] != #[trigger] t.cyc(j)[b] by {
        assert(t.cyc(i) == cl(sc, i) && t.cyc(j) == cl(sc, j));
        assert(cl(sc, i)[a] != cl(sc, j)[b]);
    }
    // lookup
    assert forall|v: VehicleIdx| #[trigger] t.lookup.contains_key(v)
        implies 0 <= t.cycle_of(v) < t.n() && t.cyc(t.cycle_of(v)).contains(v) by {}
    assert forall|i: int, a: int| 0 <= i < t.n() && 0 <= a < t.cyc(i).len()
        implies t.lookup.contains_key(#[trigger] t.cyc(i)[a]) && t.cycle_of(t.cyc(i)[a]) == i by {
        let v = t.cyc(i)[a];
        assert(t.lookup.contains_key(cycles[i].cycle@[a]));
        let j = t.cycle_of(v);
        assert(t.cyc(j).contains(v));
        if j != i {
            let b = choose|b: int| 0 <= b < t.cyc(j).len() && t.cyc(j)[b] == v;
            assert(t.cyc(i)[a] != t.cyc(j)[b]);
        }
    }
    // tours
    assert forall|i: int, a: int| 0 <= i < t.n() && 0 <= a < t.cyc(i).len()
        implies tours.contains_key(#[trigger] t.cyc(i)[a]) && tour_ok(net, &tours[t.cyc(i)[a]]) && vs.contains(t.cyc(i)[a]) by {
        assert(t.cyc(i) == cl(sc, i));
        lemma_cluster_facts(net, tours, vs, sc, i);
        assert(vs.contains(cl(sc, i)[a]));
    }
    // counters
    lemma_totals(net, tours, vs, sc, cycles, tvs, tcs, n);
    assert(counters_of(cycles).take(n) =~= counters_of(cycles));
    assert(violations_of(cycles).take(n) =~= violations_of(cycles));
    assert(t.wf_counters(net, tours));
    // empty cycles
    assert(t.wf_empty()) by {
        assert forall|x: CycleIdx| #[trigger] t.empty.contains(x) <==> (0 <= x < t.n() && t.cyc(x as int).len() == 0) by {
            if 0 <= x < t.n() { assert(t.cyc(x as int).len() >= 1); }
        }
    }
    assert(t.wf_cycles());
    assert(t.wf_lookup());
    assert(t.wf_tours(net, tours));
    // membership
    assert forall|v: VehicleIdx| vs.contains(v) implies #[trigger] t.has_vehicle(v) && 0 <= t.cycle_of(v) < t.n() && t.cyc(t.cycle_of(v)).contains(v)
        && forall|i: int| 0 <= i < t.n() && i != t.cycle_of(v) ==> !(#[trigger] t.cyc(i)).contains(v) by {
        let j0 = choose|j: int| 0 <= j < vs.len() && vs[j] == v;
        assert(in_cluster(sc, vs[j0]));
        let i0 = choose|i: int| 0 <= i < sc.len() && (#[trigger] cl(sc, i)).contains(v);
        assert(t.cyc(i0) == cl(sc, i0));
        let a0 = choose|a: int| 0 <= a < t.cyc(i0).len() && t.cyc(i0)[a] == v;
        assert(t.lookup.contains_key(t.cyc(i0)[a0]) && t.cycle_of(t.cyc(i0)[a0]) == i0);
        assert forall|i: int| 0 <= i < t.n() && i != t.cycle_of(v) implies !(#[trigger] t.cyc(i)).contains(v) by {
            if t.cyc(i).contains(v) {
                let b = choose|b: int| 0 <= b < t.cyc(i).len() && t.cyc(i)[b] == v;
                assert(t.cyc(i)[b] != t.cyc(i0)[a0]);
            }
        }
    }
    assert forall|v: VehicleIdx| #[trigger] t.has_vehicle(v) implies vs.contains(v) by {
        let j = t.cycle_of(v);
        assert(t.cyc(j).contains(v));
        let b = choose|b: int| 0 <= b < t.cyc(j).len() && t.cyc(j)[b] == v;
        assert(vs.contains(t.cyc(j)[b]));
    }
    // all given vehicles are in the union of the clusters, hence the sizes agree
    assert(cl_union(sc, n) =~= vs.to_set()) by {
        assert forall|v: VehicleIdx| vs.to_set().contains(v) implies cl_union(sc, n).contains(v) by {
            let j0 = choose|j: int| 0 <= j < vs.len() && vs[j] == v;
            assert(in_cluster(sc, vs[j0]));
            lemma_cl_union_member(sc, n, v);
        }
    }
    vs.unique_seq_to_set();
}
