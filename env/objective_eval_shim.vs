// ---- shim for slice `objective_eval` (C04 / C08): how rapid_solve evaluates and compares ------------------
// Included inside `pub mod tr { … }` after env/objective_shim.vs.  Everything `external_body` / `axiom` /
// `assume_specification` in this file is an ASSUMPTION (listed in the header of slices/objective_eval.vs); the
// `proof fn`s are proved.

// ---- A-std: core::cmp::Ordering::then_with -------------------------------------------------------------
/// std: `match self { Equal => f(), _ => self }`
pub assume_specification<F: FnOnce() -> core::cmp::Ordering>[ core::cmp::Ordering::then_with::<F> ](a: core::cmp::Ordering, f: F) -> (r: core::cmp::Ordering)
    requires a is Equal ==> f.requires(()),
    ensures a is Equal ==> f.ensures((), r), !(a is Equal) ==> r == a;

/// std: `match self { Equal => other, _ => self }` (same text as env/ord_specs.vs, which this slice does not include;
/// not used by the unchanged crate source: it keeps an edit `then_with(|| e)` -> `then(e)` decidable)
pub assume_specification[ core::cmp::Ordering::then ](a: core::cmp::Ordering, b: core::cmp::Ordering) -> (r: core::cmp::Ordering)
    ensures r == (if a is Equal { b } else { a });

// ---- A-iter: Iterator::zip and Iterator::fold on the shim iterator ---------------------------------------
/// std's `fold` is `let mut acc = init; for x in self { acc = f(acc, x); } acc`: `accs` are the values of `acc` before
/// the first and after each of the first `k` calls (what each call returns is only known through `f.ensures`)
pub open spec fn fold_trace<T, B, F: Fn(B, T) -> B>(s: Seq<T>, init: B, f: F, accs: Seq<B>, k: int) -> bool {
    &&& 0 <= k <= s.len() && accs.len() == k + 1 && accs[0] == init
    &&& forall|i: int| 0 <= i < k ==> f.ensures((#[trigger] accs[i], s[i]), accs[i + 1])
}
/// what the fold can return: the last accumulator of a complete trace
pub open spec fn fold_rel<T, B, F: Fn(B, T) -> B>(s: Seq<T>, init: B, f: F, r: B) -> bool {
    exists|accs: Seq<B>| #[trigger] fold_trace(s, init, f, accs, s.len() as int) && accs[s.len() as int] == r
}
/// the fold calls `f` only on (accumulator reached after k items, item k): these calls must be admissible
pub open spec fn fold_ok<T, B, F: Fn(B, T) -> B>(s: Seq<T>, init: B, f: F) -> bool {
    forall|accs: Seq<B>, k: int| k < s.len() && #[trigger] fold_trace(s, init, f, accs, k) ==> f.requires((accs[k], s[k]))
}
impl<T> SeqIter<T> {
    /// std: pairs up the items until one of the two iterators is exhausted
    #[verifier::external_body]
    pub fn zip<U, I: Iterator<Item = U>>(self, other: I) -> (r: SeqIter<(T, U)>)
        ensures
            r@.len() == (if self@.len() <= vstd::std_specs::iter::IteratorSpec::remaining(&other).len() { self@.len() } else { vstd::std_specs::iter::IteratorSpec::remaining(&other).len() }),
            forall|i: int| 0 <= i < r@.len() ==> #[trigger] r@[i] == (self@[i], vstd::std_specs::iter::IteratorSpec::remaining(&other)[i]),
    { unimplemented!() }

    /// std: the items in reverse order (not used by the unchanged crate source: keeps an edit that reverses the
    /// levels decidable)
    #[verifier::external_body]
    pub fn rev(self) -> (r: SeqIter<T>)
        ensures r@ == self@.reverse(),
    { unimplemented!() }

    /// std: `let mut acc = init; for x in self { acc = f(acc, x); } acc`
    #[verifier::external_body]
    pub fn fold<B, F: Fn(B, T) -> B>(self, init: B, f: F) -> (r: B)
        requires fold_ok(self@, init, f),
        ensures fold_rel(self@, init, f, r),
    { unimplemented!() }
}
/// the loop-invariant rule for `fold`: `inv(k, acc)` ("after k items") holds at the start and is preserved by the closure …
pub open spec fn fold_inv_step<T, B, F: Fn(B, T) -> B>(s: Seq<T>, init: B, f: F, inv: spec_fn(int, B) -> bool) -> bool {
    &&& inv(0, init)
    &&& forall|k: int, m: B, r: B| 0 <= k < s.len() && #[trigger] inv(k, m) && #[trigger] f.ensures((m, s[k]), r) ==> inv(k + 1, r)
}
/// … and makes the closure admissible
pub open spec fn fold_inv_req<T, B, F: Fn(B, T) -> B>(s: Seq<T>, f: F, inv: spec_fn(int, B) -> bool) -> bool {
    forall|k: int, m: B| 0 <= k < s.len() && #[trigger] inv(k, m) ==> f.requires((m, s[k]))
}
/// (proved) the invariant holds along every trace
pub proof fn lemma_trace_inv<T, B, F: Fn(B, T) -> B>(s: Seq<T>, init: B, f: F, inv: spec_fn(int, B) -> bool, accs: Seq<B>, k: int, i: int)
    requires fold_inv_step(s, init, f, inv), fold_trace(s, init, f, accs, k), 0 <= i <= k,
    ensures inv(i, accs[i]),
    decreases i,
{
    if i > 0 {
        lemma_trace_inv(s, init, f, inv, accs, k, i - 1);
        assert(f.ensures((accs[i - 1], s[i - 1]), accs[i - 1 + 1]));
    }
}
/// (proved) an invariant that makes the closure admissible makes the fold admissible
pub proof fn lemma_fold_ok_inv<T, B, F: Fn(B, T) -> B>(s: Seq<T>, init: B, f: F, inv: spec_fn(int, B) -> bool)
    requires fold_inv_step(s, init, f, inv), fold_inv_req(s, f, inv),
    ensures fold_ok(s, init, f),
{
    assert forall|accs: Seq<B>, k: int| k < s.len() && #[trigger] fold_trace(s, init, f, accs, k) implies f.requires((accs[k], s[k])) by {
        lemma_trace_inv(s, init, f, inv, accs, k, k);
    }
}
/// (proved) the invariant holds for every result of the fold
pub proof fn lemma_fold_rel_inv<T, B, F: Fn(B, T) -> B>(s: Seq<T>, init: B, f: F, inv: spec_fn(int, B) -> bool)
    requires fold_inv_step(s, init, f, inv),
    ensures forall|r: B| #[trigger] fold_rel(s, init, f, r) ==> inv(s.len() as int, r),
{
    assert forall|r: B| #[trigger] fold_rel(s, init, f, r) implies inv(s.len() as int, r) by {
        let accs = choose|accs: Seq<B>| #[trigger] fold_trace(s, init, f, accs, s.len() as int) && accs[s.len() as int] == r;
        lemma_trace_inv(s, init, f, inv, accs, s.len() as int, s.len() as int);
    }
}

// ---- C08 vocabulary: the lexicographic order of integer vectors ------------------------------------------
/// the integer carried by an `Integer` value
pub open spec fn ival(v: BaseValue) -> int { v->Integer_0 as int }
pub open spec fn all_integer(v: Seq<BaseValue>) -> bool { forall|i: int| 0 <= i < v.len() ==> (#[trigger] v[i]) is Integer }
/// position i is the first one where the two vectors differ
pub open spec fn first_diff(a: Seq<BaseValue>, b: Seq<BaseValue>, i: int) -> bool {
    ival(a[i]) != ival(b[i]) && forall|j: int| 0 <= j < i ==> ival(#[trigger] a[j]) == ival(b[j])
}
/// `zip` stops at the shorter vector
pub open spec fn common_len(a: Seq<BaseValue>, b: Seq<BaseValue>) -> int { if a.len() <= b.len() { a.len() as int } else { b.len() as int } }
/// `r` is the lexicographic comparison of the first `m` entries: Equal iff they agree, otherwise the first
/// differing position decides
pub open spec fn lex_upto(a: Seq<BaseValue>, b: Seq<BaseValue>, m: int, r: core::cmp::Ordering) -> bool {
    &&& (r is Equal <==> forall|i: int| 0 <= i < m ==> ival(#[trigger] a[i]) == ival(b[i]))
    &&& forall|i: int| 0 <= i < m && #[trigger] first_diff(a, b, i) ==> r == int_cmp(ival(a[i]), ival(b[i]))
}

// ---- the fold of ObjectiveValue::cmp ------------------------------------------------------------------
/// one step of the fold, as the closure's contract states it
pub open spec fn cmp_step(acc: core::cmp::Ordering, x: BaseValue, y: BaseValue) -> core::cmp::Ordering {
    if acc is Equal { int_cmp(ival(x), ival(y)) } else { acc }
}
/// (proved) the fold of `cmp` is admissible when the zipped entries are Integers.  Generic in the closure type and
/// broadcast, because the closure of the verbatim body cannot be named in ghost code: it is instantiated from
/// the proof goal `fold_ok(..)` at the call of `fold`.
pub broadcast proof fn lemma_cmp_fold_ok<'a, F: Fn(core::cmp::Ordering, (&'a BaseValue, &'a BaseValue)) -> core::cmp::Ordering>(s: Seq<(&'a BaseValue, &'a BaseValue)>, f: F)
    requires
        forall|i: int| 0 <= i < s.len() ==> (#[trigger] s[i]).0 is Integer && s[i].1 is Integer,
        forall|acc: core::cmp::Ordering, p: (&'a BaseValue, &'a BaseValue)| *p.0 is Integer && *p.1 is Integer ==> #[trigger] f.requires((acc, p)),
    ensures #[trigger] fold_ok(s, core::cmp::Ordering::Equal, f),
{
    let inv = |k: int, acc: core::cmp::Ordering| true;
    lemma_fold_ok_inv(s, core::cmp::Ordering::Equal, f, inv);
}
/// (proved) … and its result is the lexicographic comparison of the zipped entries (instantiated from the fact
/// `fold_rel(..)` that `fold` returns and the goal `lex_upto(..)` of the postcondition)
pub broadcast proof fn lemma_cmp_fold_rel<'a, F: Fn(core::cmp::Ordering, (&'a BaseValue, &'a BaseValue)) -> core::cmp::Ordering>(s: Seq<(&'a BaseValue, &'a BaseValue)>, f: F, r: core::cmp::Ordering, a: Seq<BaseValue>, b: Seq<BaseValue>, m: int)
    requires
        #[trigger] fold_rel(s, core::cmp::Ordering::Equal, f, r),
        m == s.len(), m <= a.len(), m <= b.len(),
        forall|i: int| 0 <= i < m ==> *(#[trigger] s[i]).0 == a[i] && *s[i].1 == b[i],
        forall|acc: core::cmp::Ordering, p: (&'a BaseValue, &'a BaseValue), o: core::cmp::Ordering| #[trigger] f.ensures((acc, p), o) ==> o == cmp_step(acc, *p.0, *p.1),
    ensures #[trigger] lex_upto(a, b, m, r),
{
    let inv = |k: int, acc: core::cmp::Ordering| 0 <= k <= m && lex_upto(a, b, k, acc);
    assert(fold_inv_step(s, core::cmp::Ordering::Equal, f, inv)) by {
        assert(inv(0, core::cmp::Ordering::Equal));
        assert forall|k: int, acc: core::cmp::Ordering, o: core::cmp::Ordering| 0 <= k < s.len() && #[trigger] inv(k, acc) && #[trigger] f.ensures((acc, s[k]), o) implies inv(k + 1, o) by {
            assert(o == cmp_step(acc, a[k], b[k]));
            lemma_lex_step(a, b, k, acc);
        }
    }
    lemma_fold_rel_inv(s, core::cmp::Ordering::Equal, f, inv);
}
/// (proved) one more position: the lexicographic comparison of k+1 entries from that of k entries
pub proof fn lemma_lex_step(a: Seq<BaseValue>, b: Seq<BaseValue>, k: int, acc: core::cmp::Ordering)
    requires 0 <= k < a.len(), k < b.len(), lex_upto(a, b, k, acc),
    ensures lex_upto(a, b, k + 1, cmp_step(acc, a[k], b[k])),
{
    let o = cmp_step(acc, a[k], b[k]);
    if acc is Equal {
        assert forall|i: int| 0 <= i < k + 1 && #[trigger] first_diff(a, b, i) implies o == int_cmp(ival(a[i]), ival(b[i])) by {
            if i < k { assert(ival(a[i]) == ival(b[i])); }
        }
        if ival(a[k]) == ival(b[k]) {
            assert forall|i: int| 0 <= i < k + 1 implies ival(#[trigger] a[i]) == ival(b[i]) by {}
        } else {
            assert(!(o is Equal));
        }
    } else {
        let i0 = choose|i: int| 0 <= i < k && ival(#[trigger] a[i]) != ival(b[i]);
        assert(ival(a[i0]) != ival(b[i0]));
        assert forall|i: int| 0 <= i < k + 1 && #[trigger] first_diff(a, b, i) implies o == int_cmp(ival(a[i]), ival(b[i])) by {
            if i == k { assert(ival(a[i0]) == ival(b[i0])); }
        }
    }
}

// ---- C04 vocabulary: Coefficient * BaseValue, BaseValue + BaseValue, sum (Integer / Zero cases only) ------
/// `Coefficient::Integer(c) * BaseValue::Integer(b)` is `c as i64 * b`, an i64 multiplication (panics on overflow
/// in debug builds, wraps in release builds): admissible when the product fits
pub open spec fn coef_mul_req(c: Coefficient, v: BaseValue) -> bool {
    c is Integer && v is Integer && i64::MIN <= (c->Integer_0 as int) * (v->Integer_0 as int) <= i64::MAX
}
pub open spec fn coef_mul(c: Coefficient, v: BaseValue) -> BaseValue {
    BaseValue::Integer(((c->Integer_0 as int) * (v->Integer_0 as int)) as i64)
}
impl vstd::std_specs::ops::MulSpecImpl<BaseValue> for Coefficient {
    open spec fn obeys_mul_spec() -> bool { true }
    open spec fn mul_req(self, other: BaseValue) -> bool { coef_mul_req(self, other) }
    open spec fn mul_spec(self, other: BaseValue) -> BaseValue { coef_mul(self, other) }
}
impl vstd::std_specs::ops::MulSpecImpl<BaseValue> for &Coefficient {
    open spec fn obeys_mul_spec() -> bool { true }
    open spec fn mul_req(self, other: BaseValue) -> bool { coef_mul_req(*self, other) }
    open spec fn mul_spec(self, other: BaseValue) -> BaseValue { coef_mul(*self, other) }
}
/// `Integer(a) + Integer(b)` is the i64 addition `a + b` (must fit); `Zero` is the neutral element
pub open spec fn bv_add_req(a: BaseValue, b: BaseValue) -> bool {
    &&& a is Integer || a is Zero
    &&& b is Integer || b is Zero
    &&& a is Integer && b is Integer ==> i64::MIN <= a->Integer_0 + b->Integer_0 <= i64::MAX
}
pub open spec fn bv_add(a: BaseValue, b: BaseValue) -> BaseValue {
    if a is Integer && b is Integer { BaseValue::Integer((a->Integer_0 + b->Integer_0) as i64) }
    else if a is Zero { b }
    else { a }
}
impl vstd::std_specs::ops::AddSpecImpl<BaseValue> for BaseValue {
    open spec fn obeys_add_spec() -> bool { true }
    open spec fn add_req(self, other: BaseValue) -> bool { bv_add_req(self, other) }
    open spec fn add_spec(self, other: BaseValue) -> BaseValue { bv_add(self, other) }
}

// ---- `impl Sum for BaseValue`: the fold `iter.fold(BaseValue::Zero, |a, b| a + b)` ------------------------
/// the left-to-right sum starting from `Zero`
pub open spec fn bv_sum(s: Seq<BaseValue>) -> BaseValue
    decreases s.len(),
{
    if s.len() == 0 { BaseValue::Zero } else { bv_add(bv_sum(s.drop_last()), s.last()) }
}
/// every addition of that sum is admissible (Integer / Zero operands, every partial sum fits i64)
pub open spec fn bv_sum_req(s: Seq<BaseValue>) -> bool
    decreases s.len(),
{
    s.len() == 0 || (bv_sum_req(s.drop_last()) && bv_add_req(bv_sum(s.drop_last()), s.last()))
}
/// A-iter: `Iterator::sum::<BaseValue>()` is `<BaseValue as Sum>::sum(iter)` (std: `fn sum<S: Sum<Self::Item>>(self) -> S
/// { Sum::sum(self) }`), whose verbatim body is verified against exactly this pair (fragment `base_value_sum`)
impl VSum<BaseValue> for BaseValue {
    open spec fn sum_req(s: Seq<BaseValue>) -> bool { bv_sum_req(s) }
    open spec fn spec_sum(s: Seq<BaseValue>) -> BaseValue { bv_sum(s) }
}
/// (proved) prefixes of an admissible sum are admissible, and the sum grows by one `+` per item
pub proof fn lemma_bv_sum_prefix(s: Seq<BaseValue>, k: int)
    requires bv_sum_req(s), 0 <= k <= s.len(),
    ensures
        bv_sum_req(s.take(k)),
        k < s.len() ==> bv_add_req(bv_sum(s.take(k)), s[k]) && bv_sum(s.take(k + 1)) == bv_add(bv_sum(s.take(k)), s[k]),
    decreases s.len() - k,
{
    if k == s.len() {
        assert(s.take(k) =~= s);
    } else {
        lemma_bv_sum_prefix(s, k + 1);
        assert(s.take(k + 1).drop_last() =~= s.take(k));
        assert(s.take(k + 1).last() == s[k]);
    }
}
/// (proved) the fold of `Sum for BaseValue` is admissible …  (generic in the closure type and broadcast for the
/// same reason as lemma_cmp_fold_ok)
pub broadcast proof fn lemma_sum_fold_ok<F: Fn(BaseValue, BaseValue) -> BaseValue>(s: Seq<BaseValue>, f: F)
    requires
        bv_sum_req(s),
        forall|a: BaseValue, b: BaseValue| bv_add_req(a, b) ==> #[trigger] f.requires((a, b)),
        forall|a: BaseValue, b: BaseValue, o: BaseValue| #[trigger] f.ensures((a, b), o) ==> o == bv_add(a, b),
    ensures #[trigger] fold_ok(s, BaseValue::Zero, f),
{
    let inv = |k: int, acc: BaseValue| 0 <= k <= s.len() && acc == bv_sum(s.take(k));
    assert(s.take(0) =~= Seq::<BaseValue>::empty());
    assert(fold_inv_step(s, BaseValue::Zero, f, inv)) by {
        assert forall|k: int, m: BaseValue, r: BaseValue| 0 <= k < s.len() && #[trigger] inv(k, m) && #[trigger] f.ensures((m, s[k]), r) implies inv(k + 1, r) by {
            lemma_bv_sum_prefix(s, k);
        }
    }
    assert(fold_inv_req(s, f, inv)) by {
        assert forall|k: int, m: BaseValue| 0 <= k < s.len() && #[trigger] inv(k, m) implies f.requires((m, s[k])) by {
            lemma_bv_sum_prefix(s, k);
        }
    }
    lemma_fold_ok_inv(s, BaseValue::Zero, f, inv);
}
/// (proved) … and returns the sum
pub broadcast proof fn lemma_sum_fold_rel<F: Fn(BaseValue, BaseValue) -> BaseValue>(s: Seq<BaseValue>, f: F, r: BaseValue)
    requires
        #[trigger] fold_rel(s, BaseValue::Zero, f, r),
        bv_sum_req(s),
        forall|a: BaseValue, b: BaseValue, o: BaseValue| #[trigger] f.ensures((a, b), o) ==> o == bv_add(a, b),
    ensures r == bv_sum(s),
{
    let inv = |k: int, acc: BaseValue| 0 <= k <= s.len() && acc == bv_sum(s.take(k));
    assert(s.take(0) =~= Seq::<BaseValue>::empty());
    assert(fold_inv_step(s, BaseValue::Zero, f, inv)) by {
        assert forall|k: int, m: BaseValue, r: BaseValue| 0 <= k < s.len() && #[trigger] inv(k, m) && #[trigger] f.ensures((m, s[k]), r) implies inv(k + 1, r) by {
            lemma_bv_sum_prefix(s, k);
        }
    }
    lemma_fold_rel_inv(s, BaseValue::Zero, f, inv);
    assert(s.take(s.len() as int) =~= s);
}

// ---- A-dyn (calls): `indicator.evaluate(solution)` through `&Box<dyn Indicator<S>>` ----------------------
/// what calling `evaluate` through the trait object yields, for any solution type (objective_shim's `dyn_eval` is
/// this function at S = ScheduleWithInfo: axiom_dyn_eval_sched)
pub uninterp spec fn dyn_eval_s<S>(b: Box<dyn Indicator<S>>, s: &S) -> BaseValue;
pub axiom fn axiom_dyn_eval_sched(b: Box<dyn Indicator<ScheduleWithInfo>>, s: ScheduleWithInfo)
    ensures #[trigger] dyn_eval_s(b, &s) == dyn_eval(b, s);
/// A-dyn (call stub): the hand-declared trait `Indicator<S>` (objective_shim) gives a call through the box no
/// postcondition, so the method call `indicator.evaluate(solution)` on a `&Box<dyn Indicator<S>>` receiver is
/// resolved to this extension method (found at the receiver type itself, before auto-deref reaches `dyn
/// Indicator<S>`): same precondition hook, result named `dyn_eval_s(box, solution)`.
pub trait BoxedIndicatorCall<S> {
    spec fn call_value(&self, solution: &S) -> BaseValue;
    fn evaluate(&self, solution: &S) -> (r: BaseValue)
        requires ind_req(solution),
        ensures r == self.call_value(solution);
}
impl<S> BoxedIndicatorCall<S> for Box<dyn Indicator<S>> {
    open spec fn call_value(&self, solution: &S) -> BaseValue { dyn_eval_s(*self, solution) }
    #[verifier::external_body]
    fn evaluate(&self, solution: &S) -> (r: BaseValue) { (**self).evaluate(solution) }
}

// ---- C04 vocabulary: the value of a hierarchy level ------------------------------------------------------
/// the i-th summand: coefficient * indicator value
pub open spec fn lc_term<S>(l: LinearCombination<S>, sol: &S, i: int) -> BaseValue {
    coef_mul(l.summands@[i].0, dyn_eval_s(l.summands@[i].1, sol))
}
pub open spec fn lc_terms<S>(l: LinearCombination<S>, sol: &S) -> Seq<BaseValue> {
    Seq::new(l.summands@.len(), |i: int| lc_term(l, sol, i))
}
/// the level can be evaluated without panic / overflow: Integer coefficients and indicator values, every product
/// and every partial sum fits i64
pub open spec fn lc_req<S>(l: LinearCombination<S>, sol: &S) -> bool {
    &&& forall|i: int| 0 <= i < l.summands@.len() ==> coef_mul_req((#[trigger] l.summands@[i]).0, dyn_eval_s(l.summands@[i].1, sol))
    &&& bv_sum_req(lc_terms(l, sol))
}
/// sum over the summands of coefficient * indicator value
pub open spec fn lc_value<S>(l: LinearCombination<S>, sol: &S) -> BaseValue { bv_sum(lc_terms(l, sol)) }
pub open spec fn is_lc_terms<S>(l: LinearCombination<S>, sol: &S, s: Seq<BaseValue>) -> bool {
    s.len() == l.summands@.len() && forall|i: int| 0 <= i < s.len() ==> #[trigger] s[i] == lc_term(l, sol, i)
}
/// (proved) pattern of env/cache_lemmas.vs: every sequence that is pointwise the level's terms sums up to its value
pub proof fn lemma_lc_terms<S>(l: LinearCombination<S>, sol: &S)
    requires lc_req(l, sol),
    ensures
        forall|s: Seq<BaseValue>| is_lc_terms(l, sol, s) ==> #[trigger] <BaseValue as VSum<BaseValue>>::sum_req(s),
        forall|s: Seq<BaseValue>| is_lc_terms(l, sol, s) ==> #[trigger] <BaseValue as VSum<BaseValue>>::spec_sum(s) == lc_value(l, sol),
{
    assert forall|s: Seq<BaseValue>| #[trigger] is_lc_terms(l, sol, s) implies
        <BaseValue as VSum<BaseValue>>::sum_req(s) && <BaseValue as VSum<BaseValue>>::spec_sum(s) == lc_value(l, sol) by {
        assert(s =~= lc_terms(l, sol));
    }
}
/// (proved) a level that is exactly `1 * indicator` with an Integer indicator value can be evaluated and its value
/// is the indicator's value: 1 * x = x, Zero + x = x
pub proof fn lemma_single_unit_term<S>(l: LinearCombination<S>, sol: &S)
    requires
        l.summands@.len() == 1, l.summands@[0].0 == Coefficient::Integer(1),
        dyn_eval_s(l.summands@[0].1, sol) is Integer,
    ensures
        lc_req(l, sol),
        lc_value(l, sol) == dyn_eval_s(l.summands@[0].1, sol),
{
    let t = lc_terms(l, sol);
    let v = dyn_eval_s(l.summands@[0].1, sol);
    assert(t.len() == 1);
    assert(t.drop_last() =~= Seq::<BaseValue>::empty());
    assert(t.last() == t[0] && t[0] == lc_term(l, sol, 0));
    assert(lc_term(l, sol, 0) == coef_mul(Coefficient::Integer(1), v));
    assert(1 * (v->Integer_0 as int) == v->Integer_0 as int);
    assert(coef_mul(Coefficient::Integer(1), v) == v);
    assert(bv_sum(t.drop_last()) == BaseValue::Zero);
    assert(bv_sum_req(t.drop_last()));
    assert(bv_sum(t) == bv_add(bv_sum(t.drop_last()), t.last()));
    assert(bv_sum_req(t));
}
