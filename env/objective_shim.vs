// ---- shim for slice `objective` (C04): the objective indicators and the level order --------------------
// Included inside `pub mod tr { … }` after env/im_shim.vs and the Schedule struct.  Everything
// `external_body` / `axiom` / hand-written declaration in this file is an ASSUMPTION (listed in the header of
// slices/objective.vs).

impl<K, V> self::im::HashMap<K, V> {
    /// im: `len(&self) -> usize` (number of entries)
    #[verifier::external_body]
    pub fn len(&self) -> (r: usize)
        ensures r == self@.len(),
    { unimplemented!() }
}

/// A-dyn (interface stub): rapid_solve's `pub trait Indicator<S>: Send + Sync { fn evaluate(&self, solution: &S)
/// -> BaseValue; fn name(&self) -> String; }` declared with `evaluate` only (`name` and the marker bounds are
/// dropped) and with a precondition hook: Verus does not allow an impl to add `requires`, so the magnitude
/// condition of the one indicator that adds two u32 (`ind_req`) is attached to the declaration.
pub trait Indicator<S> {
    fn evaluate(&self, solution: &S) -> BaseValue
        requires ind_req(solution);
}
/// the precondition hook; for `ScheduleWithInfo` it is fixed by axiom_ind_req, for other `S` it stays abstract
pub uninterp spec fn ind_req<S>(solution: &S) -> bool;
/// A-dyn: the hook means "the two unserved-passenger counters can be added in u32" (`.0 + .1` panics in debug
/// builds and wraps in release builds otherwise)
pub axiom fn axiom_ind_req(s: &ScheduleWithInfo)
    ensures ind_req(s) == (s.schedule.unserved_passengers.0 + s.schedule.unserved_passengers.1 <= u32::MAX);

// ---- C04, transcribed: the four objective components as functions of the schedule ---------------------
/// "unserved passengers (capacity and seat shortfall summed over segments)": the schedule's pair, added
pub open spec fn unserved_value(s: ScheduleWithInfo) -> BaseValue {
    BaseValue::Integer((s.schedule.unserved_passengers.0 + s.schedule.unserved_passengers.1) as i64)
}
/// "maintenance violation": the schedule's aggregate (C09: = sum over the installed transitions)
pub open spec fn violation_value(s: ScheduleWithInfo) -> BaseValue { BaseValue::Integer(s.schedule.maintenance_violation) }
/// "vehicle count": the number of real vehicles
pub open spec fn count_value(s: ScheduleWithInfo) -> BaseValue { BaseValue::Integer(s.schedule.vehicles@.len() as i64) }
/// "costs": the schedule's aggregate (C09: = sum of the tours' costs)
pub open spec fn costs_value(s: ScheduleWithInfo) -> BaseValue { BaseValue::Integer(s.schedule.costs as i64) }

/// what calling `evaluate` through the trait object yields
pub uninterp spec fn dyn_eval(b: Box<dyn Indicator<ScheduleWithInfo>>, s: ScheduleWithInfo) -> BaseValue;
/// A-dyn: dynamic dispatch on a boxed indicator runs that type's `evaluate` — whose result is the value on
/// the right by the VERIFIED postcondition of the respective impl below (same spec function in both places)
pub axiom fn axiom_dyn_unserved(s: ScheduleWithInfo) ensures dyn_eval(Box::new(UnservedPassengersIndicator), s) == unserved_value(s);
pub axiom fn axiom_dyn_violation(s: ScheduleWithInfo) ensures dyn_eval(Box::new(MaintenanceViolationIndicator), s) == violation_value(s);
pub axiom fn axiom_dyn_count(s: ScheduleWithInfo) ensures dyn_eval(Box::new(VehicleCountIndicator), s) == count_value(s);
pub axiom fn axiom_dyn_costs(s: ScheduleWithInfo) ensures dyn_eval(Box::new(CostsIndicator), s) == costs_value(s);

/// one hierarchy level that is exactly `1 * indicator`
pub open spec fn single_term(l: LinearCombination<ScheduleWithInfo>) -> bool {
    l.summands@.len() == 1 && l.summands@[0].0 == Coefficient::Integer(1)
}
/// the value of such a level for a schedule
pub open spec fn level_value(l: LinearCombination<ScheduleWithInfo>, s: ScheduleWithInfo) -> BaseValue { dyn_eval(l.summands@[0].1, s) }
