// ---- A-derive: derived Ord::cmp of DateTime / TimePoint / NodeIdx (same order as the PartialOrd specs) ----
impl vstd::std_specs::cmp::OrdSpecImpl for TimePoint {
    open spec fn obeys_cmp_spec() -> bool { true }
    open spec fn cmp_spec(&self, other: &TimePoint) -> core::cmp::Ordering { tp_cmp(*self, *other) }
}
impl vstd::std_specs::cmp::OrdSpecImpl for DateTime {
    open spec fn obeys_cmp_spec() -> bool { true }
    open spec fn cmp_spec(&self, other: &DateTime) -> core::cmp::Ordering { dt_cmp(*self, *other) }
}
pub open spec fn node_idx_rank(n: NodeIdx) -> int {
    match n {
        NodeIdx::StartDepot(i) => i as int,
        NodeIdx::Service(i) => 0x10000 + i as int,
        NodeIdx::Maintenance(i) => 0x20000 + i as int,
        NodeIdx::EndDepot(i) => 0x30000 + i as int,
    }
}
impl vstd::std_specs::cmp::PartialOrdSpecImpl for NodeIdx {
    open spec fn obeys_partial_cmp_spec() -> bool { true }
    open spec fn partial_cmp_spec(&self, other: &NodeIdx) -> Option<core::cmp::Ordering> { Some(int_cmp(node_idx_rank(*self), node_idx_rank(*other))) }
}
impl vstd::std_specs::cmp::OrdSpecImpl for NodeIdx {
    open spec fn obeys_cmp_spec() -> bool { true }
    open spec fn cmp_spec(&self, other: &NodeIdx) -> core::cmp::Ordering { int_cmp(node_idx_rank(*self), node_idx_rank(*other)) }
}
pub assume_specification[ core::cmp::Ordering::then ](a: core::cmp::Ordering, b: core::cmp::Ordering) -> (r: core::cmp::Ordering)
    ensures r == (if a is Equal { b } else { a });
