// ---- environment of the slice `override_reassign` (Schedule::override_reassign) ------------------------
// Included inside `pub mod tr { … }` after env/im_shim.vs, env/depot_usage_shim.vs, the type definitions, the module
// `trs` (env/transition_spec.vs), env/update_tours_shim.vs and env/train_formation_update_shim.vs.
// ASSUMPTIONS in this file (listed in the header of slices/override_reassign.vs): the Display spec of Segment, the
// external_body shim `SeqIter<&T>::cloned`, the trait `node_items::NodeItems` (reading of an iterator parameter).  Everything
// else is an open spec function or a proved lemma.
//
// Copied text (the files that define it cannot be included next to env/depot_usage_shim.vs / env/update_tours_shim.vs:
// duplicate definitions of the im::HashSet shim, `Vehicle`, `keys`, `type_of`, the Ord / binary_search text …):
//   * env/sched_guard_shim.vs: `Network::sp_compatible`, `vtype`, `Schedule::{has_tour, sp_tour_of, seg_at}`, `real_in`,
//     `sched_types`, `viol_sum`, `len_sum`, `Schedule::{eff_type, change_ok, upd_pre, touches_type}` -- the vocabulary of the
//     contracts of check_receiver_type_compatibility and update_transitions_and_violation_fast;
//   * env/remove_segment_shim.vs: the Display spec of Segment, `ids_gain` (contract of add_dummy_tour), `svc_mask`,
//     `svc_filter`, `has_service` (contract of Tour::new_dummy), `ids_valid`, `Schedule::{ids_ok, next_dummy_id}`;
//     `Schedule::or_transitions_ok` is `transitions_ok` of that file with room for two listed vehicles.
//   * env/sched_ctor_shim.vs: the counting lemmas `cyc_elems`, `lemma_cyc_elems_member`, `lemma_cyc_elems_len`,
//     `lemma_total_len_is_lookup` (here with the prefix `orc_`), for the closure of the magnitude clause of or_transitions_ok.
// CLOSURE (last section): `orc_*` / `lemma_orc_*` -- on Ok the result satisfies the schedule-invariant part of or_pre again.

// A-display: `{}` of a Segment (hand written Display impl of the repository; a no-op outside verus!)
impl vstd::std_specs::fmt::DisplaySpecImpl for Segment {
    open spec fn fmt_req(&self, f: &std::fmt::Formatter<'_>) -> bool { true }
}

// =====================================================================================================
// ASSUMPTION A-iter (continued): `Iterator::cloned` on the shim iterator
// =====================================================================================================
impl<'a, T: Clone> SeqIter<&'a T> {
    /// std `Iterator::cloned`: "Creates an iterator which clones all of its elements."  For the index types (Copy, derived
    /// Clone) the clone of an item is the item (A-derive).
    #[verifier::external_body]
    pub fn cloned(self) -> (r: SeqIter<T>)
        ensures r@.len() == self@.len(), forall|i: int| 0 <= i < self@.len() ==> #[trigger] r@[i] == *self@[i],
    { unimplemented!() }
}

// =====================================================================================================
// A-iter / R12 for the stub of update_train_formation in this slice: the parameter `moved_nodes: impl Iterator<Item =
// NodeIdx>` is retyped to `impl NodeItems` = ANY iterator over NodeIdx; `moved_nodes@` is the sequence of the items it will
// yield (vstd's prophetic `IteratorSpec::remaining`; for the shim iterator SeqIter that is its view, see env/seqiter.vs).
// Same assumption as R12 with SeqIter<NodeIdx> ("the caller's iterator is its sequence of items"), but a call site that
// hands in a std iterator (`Vec::into_iter`) still type-checks.  The trait lives in a module of its own and is NOT imported:
// its `view` must not compete with `View::view` of SeqIter.
// =====================================================================================================
pub mod node_items {
    use super::*;
    use vstd::prelude::*;
    use vstd::std_specs::iter::IteratorSpec;
    pub trait NodeItems {
        #[verifier::prophetic]
        spec fn view(&self) -> Seq<NodeIdx>;
    }
    impl<I: Iterator<Item = NodeIdx>> NodeItems for I {
        #[verifier::prophetic]
        open spec fn view(&self) -> Seq<NodeIdx> { self.remaining() }
    }
}

// =====================================================================================================
// vocabulary copied from env/sched_guard_shim.vs
// =====================================================================================================
impl Network {
    /// C01: "a vehicle only serves departure segments whose route prescribes its own vehicle type":
    /// a node is compatible with a vehicle type unless it is a service trip of another type
    pub open spec fn sp_compatible(&self, n: NodeIdx, vt: VehicleTypeIdx) -> bool {
        self.sp_node(n) is Service ==> self.sp_node(n)->Service_0.1.vehicle_type == vt
    }
}
pub open spec fn vtype(vh: Vehicle) -> VehicleTypeIdx { vh.vehicle_type.idx }

impl Schedule {
    /// the tour `tour_of` looks up: the vehicle's tour, a dummy's tour otherwise
    pub open spec fn has_tour(&self, v: VehicleIdx) -> bool { self.tours@.contains_key(v) || self.dummy_tours@.contains_key(v) }
    pub open spec fn sp_tour_of(&self, v: VehicleIdx) -> Tour {
        if self.tours@.contains_key(v) { self.tours@[v] } else { self.dummy_tours@[v] }
    }
    /// [i ..= j] is an occurrence of the segment in the tour
    pub open spec fn seg_at(t: &Tour, segment: Segment, i: int, j: int) -> bool {
        0 <= i <= j < t.len() && t.nodes@[i] == segment.start && t.nodes@[j] == segment.end
    }
}
/// x is a real vehicle of the list of changed vehicles
pub open spec fn real_in(cv: Seq<VehicleIdx>, x: VehicleIdx) -> bool { x is Vehicle && cv.contains(x) }
/// the vehicle types of the schedule's network
pub open spec fn sched_types(s: &Schedule) -> Seq<VehicleTypeIdx> { s.network.vehicle_types.ids_sorted@ }
/// C09: the maintenance violation from scratch: the sum of the violations of the listed types' transitions
pub open spec fn viol_sum(trs: Map<VehicleTypeIdx, Transition>, vts: Seq<VehicleTypeIdx>) -> int
    decreases vts.len(),
{
    if vts.len() == 0 { 0 } else { viol_sum(trs, vts.drop_last()) + trs[vts.last()].total_maintenance_violation as int }
}
/// the number of vehicles in the cycles of the listed types' transitions
pub open spec fn len_sum(trs: Map<VehicleTypeIdx, Transition>, vts: Seq<VehicleTypeIdx>) -> int
    decreases vts.len(),
{
    if vts.len() == 0 { 0 } else { len_sum(trs, vts.drop_last()) + trs[vts.last()].total_len() }
}
impl Schedule {
    /// the type of v: the one of the new vehicle map if v is there, the one of the old schedule otherwise
    pub open spec fn eff_type(&self, vehicles: Map<VehicleIdx, Vehicle>, v: VehicleIdx) -> VehicleTypeIdx {
        if vehicles.contains_key(v) { vtype(vehicles[v]) } else { vtype(self.vehicles@[v]) }
    }
    /// what the caller guarantees about one changed real vehicle: it is a vehicle of the old or of the
    /// new schedule (or both), its type has a transition, and if it stays it has an admissible new tour
    pub open spec fn change_ok(&self, trs: Map<VehicleTypeIdx, Transition>, vehicles: Map<VehicleIdx, Vehicle>, tours: Map<VehicleIdx, Tour>, v: VehicleIdx) -> bool {
        &&& self.vehicles@.contains_key(v) || vehicles.contains_key(v)
        &&& trs.contains_key(self.eff_type(vehicles, v))
        &&& vehicles.contains_key(v) ==> tours.contains_key(v) && tour_ok(&self.network, &tours[v])
    }
    /// the precondition of update_transitions_and_violation_fast
    pub open spec fn upd_pre(&self, trs: Map<VehicleTypeIdx, Transition>, mv: int, cv: Seq<VehicleIdx>, vehicles: Map<VehicleIdx, Vehicle>, tours: Map<VehicleIdx, Tour>) -> bool {
        let vts = sched_types(self);
        // there is one transition per vehicle type of the network
        &&& vts.no_duplicates()
        &&& forall|vt: VehicleTypeIdx| #[trigger] trs.contains_key(vt) <==> vts.contains(vt)
        // C15 / C10 for the old schedule: every transition is consistent with the old tours and holds
        // exactly the old vehicles of its type
        &&& forall|vt: VehicleTypeIdx| #[trigger] trs.contains_key(vt) ==> trs[vt].wf(&self.network, self.tours@)
        &&& forall|vt: VehicleTypeIdx, v: VehicleIdx| #![trigger trs[vt].has_vehicle(v)] trs.contains_key(vt)
                ==> (trs[vt].has_vehicle(v) <==> self.vehicles@.contains_key(v) && self.type_of(v) == vt)
        // C09 for the old schedule
        &&& mv == viol_sum(trs, vts)
        // caller-side assumption: no real vehicle is listed twice (update_vehicle / remove_vehicle read
        // the vehicle's previous tour from the OLD schedule)
        &&& forall|i: int, j: int| 0 <= i < j < cv.len() && cv[i] is Vehicle ==> #[trigger] cv[i] != #[trigger] cv[j]
        // every changed real vehicle is in one of the three cases
        &&& forall|i: int| 0 <= i < cv.len() && (#[trigger] cv[i]) is Vehicle ==> self.change_ok(trs, vehicles, tours, cv[i])
        // all other vehicles are vehicles of both schedules or of none, with the same tour
        &&& forall|v: VehicleIdx| !real_in(cv, v) ==> (self.vehicles@.contains_key(v) <==> #[trigger] vehicles.contains_key(v))
        &&& forall|v: VehicleIdx| !real_in(cv, v) && #[trigger] vehicles.contains_key(v) ==> tours.contains_key(v) && tours[v] == self.tours@[v]
        // a vehicle keeps its type
        &&& forall|v: VehicleIdx| self.vehicles@.contains_key(v) && #[trigger] vehicles.contains_key(v) ==> vtype(vehicles[v]) == self.type_of(v)
        // magnitudes: at most 2^17 vehicles in total (so that the i64 sums stay below 2^59)
        &&& len_sum(trs, vts) + cv.len() <= max_vehicles()
    }
    /// some real vehicle of the list of changed vehicles is of type vt
    pub open spec fn touches_type(&self, vehicles: Map<VehicleIdx, Vehicle>, cv: Seq<VehicleIdx>, vt: VehicleTypeIdx) -> bool {
        exists|i: int| 0 <= i < cv.len() && (#[trigger] cv[i]) is Vehicle && self.eff_type(vehicles, cv[i]) == vt
    }
}

// =====================================================================================================
// vocabulary copied from env/remove_segment_shim.vs
// =====================================================================================================
/// `new` is `old` with `id` put in at some position
pub open spec fn ids_gain(old: Seq<VehicleIdx>, new: Seq<VehicleIdx>, id: VehicleIdx) -> bool {
    exists|p: int| 0 <= p <= old.len() && new == #[trigger] old.insert(p, id)
}
pub open spec fn svc_mask(net: &Network, s: Seq<NodeIdx>) -> Seq<bool> { Seq::new(s.len(), |i: int| net.sp_node(s[i]) is Service) }
/// the service trips among the nodes s, in order
pub open spec fn svc_filter(net: &Network, s: Seq<NodeIdx>) -> Seq<NodeIdx> { mask_filter(s, svc_mask(net, s)) }
pub open spec fn has_service(net: &Network, s: Seq<NodeIdx>) -> bool {
    exists|i: int| 0 <= i < s.len() && #[trigger] net.sp_node(s[i]) is Service
}
/// C10 (ids): real vehicles are stored under their own id, an id of the `Vehicle` kind, and have a tour; dummy tours are
/// stored under ids of the `Dummy` kind that were handed out already (index below the counter); the dummy id list is sorted
pub open spec fn ids_valid(vehicles: VehicleMap, tours: TourMap, dummies: TourMap, ids: Seq<VehicleIdx>, counter: usize) -> bool {
    &&& forall|v: VehicleIdx| #[trigger] vehicles.contains_key(v) ==> v is Vehicle && vehicles[v].idx == v
    &&& forall|v: VehicleIdx| #[trigger] vehicles.contains_key(v) <==> tours.contains_key(v)
    &&& forall|d: VehicleIdx| #[trigger] dummies.contains_key(d) ==> d is Dummy && (d->Dummy_0 as int) < counter
    &&& sorted_cmp(ids)
}
impl Schedule {
    pub open spec fn ids_ok(&self) -> bool {
        ids_valid(self.vehicles@, self.tours@, self.dummy_tours@, self.dummy_ids_sorted@, self.vehicle_counter)
    }
    /// the id the next new dummy tour gets (ids are 16 bit: meaningful while fewer than 2^16 ids have been handed out)
    pub open spec fn next_dummy_id(&self) -> VehicleIdx { VehicleIdx::Dummy(self.vehicle_counter as Idx) }
}

// =====================================================================================================
// Schedule::override_reassign: the positions Tour::insert_path chooses are unique
// =====================================================================================================
/// THE pair of positions of an insertion (C12: "longest prefix whose last node reaches the path" / "longest suffix the
/// path reaches"; lemma_ins_unique: there is at most one such pair)
pub open spec fn ins_pos(t: &Tour, n: Seq<NodeIdx>) -> (int, int) { choose|s: int, e: int| ins_positions(t, n, s, e) }
pub proof fn lemma_ins_unique(t: &Tour, n: Seq<NodeIdx>, s: int, e: int)
    requires ins_positions(t, n, s, e),
    ensures ins_pos(t, n) == (s, e),
{
    let (s2, e2) = ins_pos(t, n);
    assert(ins_positions(t, n, s2, e2));
    let first = n[0];
    let last = n[n.len() - 1];
    if !t.network.sp_node(first).sp_is_depot() {
        if s < s2 { assert(!t.network.reach(t.nodes@[s2 - 1], first)); }
        if s2 < s { assert(!t.network.reach(t.nodes@[s - 1], first)); }
    }
    if !t.network.sp_node(last).sp_is_depot() {
        if e < e2 { assert(!t.network.reach(last, t.nodes@[e])); }
        if e2 < e { assert(!t.network.reach(last, t.nodes@[e2])); }
    }
}

// =====================================================================================================
// Schedule::override_reassign: vocabulary of the contract
// =====================================================================================================
/// the tour stored for v in a pair of tour maps (`tour_of`: the vehicle's tour, a dummy's tour otherwise), if there is one
pub open spec fn tour_in(tours: TourMap, dummies: TourMap, v: VehicleIdx) -> Tour {
    if tours.contains_key(v) { tours[v] } else { dummies[v] }
}
pub open spec fn tour_opt_in(tours: TourMap, dummies: TourMap, v: VehicleIdx) -> Option<Tour> {
    if tours.contains_key(v) || dummies.contains_key(v) { Some(tour_in(tours, dummies, v)) } else { None }
}
impl Schedule {
    // ---- the segment in the provider's tour (vocabulary of Tour::remove's contract) ----------------------
    pub open spec fn or_lo(&self, segment: Segment, p: VehicleIdx) -> int { self.sp_tour_of(p).index_of(segment.start) }
    pub open spec fn or_hi(&self, segment: Segment, p: VehicleIdx) -> int { self.sp_tour_of(p).index_of(segment.end) }
    /// C12: Tour::remove accepts the segment
    pub open spec fn or_removes(&self, segment: Segment, p: VehicleIdx) -> bool {
        self.sp_tour_of(p).has_node(segment.start) && self.sp_tour_of(p).has_node(segment.end)
            && self.sp_tour_of(p).removable(self.or_lo(segment, p), self.or_hi(segment, p))
    }
    /// the nodes the provider loses (= the moved nodes) / keeps
    pub open spec fn or_moved(&self, segment: Segment, p: VehicleIdx) -> Seq<NodeIdx> {
        self.sp_tour_of(p).mid(self.or_lo(segment, p), self.or_hi(segment, p) + 1)
    }
    pub open spec fn or_kept(&self, segment: Segment, p: VehicleIdx) -> Seq<NodeIdx> {
        self.sp_tour_of(p).rest(self.or_lo(segment, p), self.or_hi(segment, p) + 1)
    }
    // ---- the insertion into the receiver's tour (vocabulary of Tour::insert_path's contract) ---------------
    /// what the receiver's tour takes of the moved nodes (a dummy tour takes no depots)
    pub open spec fn or_ins(&self, segment: Segment, p: VehicleIdx, rcv: VehicleIdx) -> Seq<NodeIdx> {
        eff_path(&self.sp_tour_of(rcv), self.or_moved(segment, p))
    }
    pub open spec fn or_s(&self, segment: Segment, p: VehicleIdx, rcv: VehicleIdx) -> int { ins_pos(&self.sp_tour_of(rcv), self.or_ins(segment, p, rcv)).0 }
    pub open spec fn or_e(&self, segment: Segment, p: VehicleIdx, rcv: VehicleIdx) -> int { ins_pos(&self.sp_tour_of(rcv), self.or_ins(segment, p, rcv)).1 }
    /// the nodes of the receiver's old tour that clash with the moved nodes: the DISPLACED nodes
    pub open spec fn or_displaced(&self, segment: Segment, p: VehicleIdx, rcv: VehicleIdx) -> Seq<NodeIdx> {
        self.sp_tour_of(rcv).mid(self.or_s(segment, p, rcv), self.or_e(segment, p, rcv))
    }
    /// the receiver's new tour: prefix + moved nodes + suffix
    pub open spec fn or_gained(&self, segment: Segment, p: VehicleIdx, rcv: VehicleIdx) -> Seq<NodeIdx> {
        self.sp_tour_of(rcv).spliced(self.or_s(segment, p, rcv), self.or_e(segment, p, rcv), self.or_ins(segment, p, rcv))
    }
    /// "displaced … service trips are handed back … in a new dummy tour": Tour::new_dummy keeps the service trips and
    /// succeeds iff there is one
    pub open spec fn or_creates_dummy(&self, segment: Segment, p: VehicleIdx, rcv: VehicleIdx) -> bool {
        has_service(&self.network, self.or_displaced(segment, p, rcv))
    }

    // ---- PRECONDITIONS --------------------------------------------------------------------------------------
    /// C10 / C01 / C09 for one participant v of the modification
    pub open spec fn part_ok(&self, v: VehicleIdx) -> bool {
        let t = self.sp_tour_of(v);
        // "It is assumed that provider … and receiver are part of self.vehicles" -- or of the dummies --, not both (C10 ids)
        &&& self.sp_is_vehicle(v) != self.sp_is_dummy(v)
        // C01 / C10 clause 1: its tour is a well-formed tour over the schedule's network; C09: the tour's cached figures
        // are exact; A-len: at most 2^17 + 2 nodes
        &&& t.wf() && t.caches_ok() && *t.network == *self.network && tour_len_ok(t.nodes@)
        // C10: a real vehicle has a real (non-dummy) tour
        &&& self.sp_is_vehicle(v) ==> !t.is_dummy
        // C10 / C15: the type of a real vehicle has a transition
        &&& self.sp_is_vehicle(v) ==> self.next_period_transitions@.contains_key(self.type_of(v))
    }
    /// C15 / C10 / C09 for the rotation cycles (the clauses of `upd_pre` that speak about the old schedule only; text of
    /// `transitions_ok` in env/remove_segment_shim.vs, with room for the two listed vehicles)
    pub open spec fn or_transitions_ok(&self) -> bool {
        let trs = self.next_period_transitions@;
        let vts = sched_types(self);
        &&& vts.no_duplicates()
        &&& forall|vt: VehicleTypeIdx| #[trigger] trs.contains_key(vt) <==> vts.contains(vt)
        &&& forall|vt: VehicleTypeIdx| #[trigger] trs.contains_key(vt) ==> trs[vt].wf(&self.network, self.tours@)
        &&& forall|vt: VehicleTypeIdx, v: VehicleIdx| #![trigger trs[vt].has_vehicle(v)] trs.contains_key(vt)
                ==> (trs[vt].has_vehicle(v) <==> self.vehicles@.contains_key(v) && self.type_of(v) == vt)
        &&& self.maintenance_violation as int == viol_sum(trs, vts)
        // magnitude: at most 2^17 vehicles (ids are 16 bit)
        &&& len_sum(trs, vts) + 2 <= max_vehicles()
    }
    /// A-counter (magnitude): the maintenance counters of the two new tours are small (the counter is an uninterpreted
    /// atom of the rotation-cycle vocabulary, env/transition_spec.vs)
    pub open spec fn or_counters_ok(&self, segment: Segment, p: VehicleIdx, rcv: VehicleIdx) -> bool {
        forall|t: Tour| (t.nodes@ == self.or_kept(segment, p) || t.nodes@ == self.or_gained(segment, p, rcv))
            && tour_of_net(&self.network, &t) && t.caches_ok()
            ==> -counter_bound() <= #[trigger] tour_counter(&t) <= counter_bound()
    }
    /// the state between the two formation updates: the table / the pair update_tours leaves (its contract)
    pub open spec fn or_between(&self, segment: Segment, p: VehicleIdx, rcv: VehicleIdx, tf1: Formations, u1: (PassengerCount, PassengerCount)) -> bool {
        let tf0 = self.train_formations@;
        let m = self.or_moved(segment, p);
        let rv = self.sp_receiver_vehicle(rcv);
        let k = m.len() as int;
        &&& self.formations_elsewhere_untouched(m, tf0, tf1)
        &&& self.moved_get_replacement(m, tf0, tf1, Some(p), rv)
        &&& u1.0 == self.unserved_passengers.0 - self.un_sum(tf0, Some(p), rv, m, k, false, 0) + self.un_sum(tf0, Some(p), rv, m, k, true, 0)
        &&& u1.1 == self.unserved_passengers.1 - self.un_sum(tf0, Some(p), rv, m, k, false, 1) + self.un_sum(tf0, Some(p), rv, m, k, true, 1)
    }
    /// the receiver is taken out of the formations of the displaced nodes: a real receiver and a displaced activity
    pub open spec fn or_second_update(&self, segment: Segment, p: VehicleIdx, rcv: VehicleIdx) -> bool {
        self.sp_is_vehicle(rcv) && !all_depots(&self.network, self.or_displaced(segment, p, rcv))
    }
    /// the precondition of override_reassign apart from the ones of the two formation updates
    pub open spec fn or_pre(&self, segment: Segment, p: VehicleIdx, rcv: VehicleIdx) -> bool {
        // the bookkeeping of update_tours / of the rotation cycles runs once per vehicle: provider and receiver differ (the
        // only enumerator, Neighborhood::segment_exchange_iterator, "skip[s] provider as receiver")
        &&& p != rcv
        // C10 (ids): see ids_valid
        &&& self.ids_ok()
        // C10 / C01 / C09 for the two participants
        &&& self.part_ok(p) && self.part_ok(rcv)
        // the segment is a segment of the provider's tour that does not consist of depots only (the two `unwrap`s of the
        // type guard: `tour_of(provider).unwrap().sub_path(segment).unwrap()`)
        &&& exists|i: int, j: int| #[trigger] Schedule::seg_at(&self.sp_tour_of(p), segment, i, j)
                && !all_depots(&self.network, self.sp_tour_of(p).nodes@.subrange(i, j + 1))
        // C10: "vehicle and dummy listings are sorted and match the stored tours"
        &&& listings_ok(self.vehicles@, self.dummy_tours@, self.vehicle_ids_grouped_and_sorted@, self.dummy_ids_sorted@)
        // C09: the depot table has its from-scratch value
        &&& usage_exact(self.depot_usage@, &self.network, self.vehicles@, self.tours@)
        // C09: the schedule's costs cover the tours of the (real) participants (they are the sum of all tours' costs plus
        // non-negative terms); magnitude: with the two new tours' costs they still fit into u64
        &&& self.cost_out_provider(self.tours@, Some(p)) + self.cost_out_receiver(self.tours@, rcv) <= self.costs
        &&& self.or_removes(segment, p) ==> self.costs + self.network.spec_costs(self.or_kept(segment, p))
                + self.network.spec_costs(self.or_gained(segment, p, rcv)) <= u64::MAX
        // C15 / C10 / C09: rotation cycles
        &&& self.or_transitions_ok()
        // A-counter
        &&& self.or_counters_ok(segment, p, rcv)
    }
    /// caller-side: the precondition of the formation bookkeeping for the moved nodes (tfu_pre, see
    /// slices/train_formation_update.vs: formations exist, u32 magnitudes, C09 for the unserved-passenger pair)
    pub open spec fn or_pre_move(&self, segment: Segment, p: VehicleIdx, rcv: VehicleIdx) -> bool {
        self.or_removes(segment, p) ==> self.tfu_pre(self.train_formations@, self.unserved_passengers, Some(p),
            self.sp_receiver_vehicle(rcv), self.or_moved(segment, p))
    }
    /// caller-side: the same for the second formation update (the receiver leaves the formations of the displaced nodes),
    /// which runs on the table / the pair the first one leaves
    pub open spec fn or_pre_displace(&self, segment: Segment, p: VehicleIdx, rcv: VehicleIdx) -> bool {
        self.or_removes(segment, p) && self.or_second_update(segment, p, rcv) ==>
            forall|tf1: Formations, u1: (PassengerCount, PassengerCount)| #[trigger] self.or_between(segment, p, rcv, tf1, u1)
                ==> self.tfu_pre(tf1, u1, Some(rcv), None::<Vehicle>, self.or_displaced(segment, p, rcv))
    }

    // ---- POSTCONDITIONS -------------------------------------------------------------------------------------
    /// C01, type clause (the guarantee of the type guard): every moved node may be served by the receiver's type
    pub open spec fn or_compatible(&self, segment: Segment, p: VehicleIdx, rcv: VehicleIdx) -> bool {
        self.sp_is_vehicle(rcv) && !(self.sp_is_vehicle(p) && self.type_of(p) == self.type_of(rcv))
            ==> forall|k: int| 0 <= k < self.or_moved(segment, p).len()
                    ==> self.network.sp_compatible(#[trigger] self.or_moved(segment, p)[k], self.type_of(rcv))
    }
    /// the two new tours: what Tour::remove / Tour::insert_path return
    pub open spec fn or_new_tours(&self, segment: Segment, p: VehicleIdx, rcv: VehicleIdx, stp: Option<Tour>, ntr: Tour) -> bool {
        let tp = self.sp_tour_of(p);
        let tr = self.sp_tour_of(rcv);
        &&& stp is Some ==> stp.unwrap().nodes@ == self.or_kept(segment, p) && stp.unwrap().is_dummy == tp.is_dummy
                && stp.unwrap().network == tp.network && stp.unwrap().wf() && stp.unwrap().caches_ok()
        &&& ntr.nodes@ == self.or_gained(segment, p, rcv) && ntr.is_dummy == tr.is_dummy && ntr.network == tr.network
                && ntr.wf() && ntr.caches_ok()
    }
    /// C13: "the provider loses exactly the moved nodes … a vehicle left without activities disappears": in the new
    /// schedule (vehicles1 / tours1 / dummies1 = its three maps) the provider either has the tour Tour::remove returns (same
    /// kind of tour, in the same map) or is gone
    pub open spec fn or_provider_after(&self, segment: Segment, p: VehicleIdx, rcv: VehicleIdx, vehicles1: VehicleMap, tours1: TourMap, dummies1: TourMap) -> bool {
        let tp = self.sp_tour_of(p);
        let stp = tour_opt_in(tours1, dummies1, p);
        &&& stp is Some ==> stp.unwrap().nodes@ == self.or_kept(segment, p) && stp.unwrap().is_dummy == tp.is_dummy
                && stp.unwrap().network == tp.network && stp.unwrap().wf() && stp.unwrap().caches_ok()
                && tours1.contains_key(p) == self.tours@.contains_key(p)
        &&& vehicles1 == self.vehicles_after(self.vehicles@, Some(p), stp)
    }
    /// C13: "the receiver gains them (override)": its new tour is the longest prefix of its old tour that reaches the moved
    /// nodes + the moved nodes + the longest suffix they reach (Tour::insert_path)
    pub open spec fn or_receiver_after(&self, segment: Segment, p: VehicleIdx, rcv: VehicleIdx, tours1: TourMap, dummies1: TourMap) -> bool {
        let tr = self.sp_tour_of(rcv);
        let ntr = tour_in(tours1, dummies1, rcv);
        &&& tour_opt_in(tours1, dummies1, rcv) is Some && tours1.contains_key(rcv) == self.tours@.contains_key(rcv)
        &&& ntr.nodes@ == self.or_gained(segment, p, rcv) && ntr.is_dummy == tr.is_dummy && ntr.network == tr.network
                && ntr.wf() && ntr.caches_ok()
    }
    /// C13: "all other vehicles' tours … stay untouched": the two tour maps are the old ones with the provider's and the
    /// receiver's entries rewritten (vocabulary of env/update_tours_shim.vs; lemma_frame spells the frame out per key) and
    /// -- iff a displaced service trip exists -- ONE new entry under the next dummy id
    pub open spec fn or_maps_after(&self, segment: Segment, p: VehicleIdx, rcv: VehicleIdx, tours1: TourMap, dummies1: TourMap) -> bool {
        let stp = tour_opt_in(tours1, dummies1, p);
        let ntr = tour_in(tours1, dummies1, rcv);
        let id = self.next_dummy_id();
        let d1 = self.dummies_after(self.dummy_tours@, Some(p), stp, rcv, ntr);
        &&& tours1 == self.tours_after(self.tours@, Some(p), stp, rcv, ntr)
        &&& dummies1 == (if self.or_creates_dummy(segment, p, rcv) { d1.insert(id, dummies1[id]) } else { d1 })
    }
    /// C13: "displaced … service trips are handed back … in a new dummy tour": iff the displaced nodes contain a service
    /// trip a dummy tour is stored under the next id (a fresh one), it holds exactly the displaced service trips in order
    /// (what Tour::new_dummy keeps), the counter is bumped and the id is reported
    pub open spec fn or_dummy_after(&self, segment: Segment, p: VehicleIdx, rcv: VehicleIdx, dummies1: TourMap, counter1: usize, nd: Option<VehicleIdx>) -> bool {
        let id = self.next_dummy_id();
        if self.or_creates_dummy(segment, p, rcv) {
            &&& nd == Some(id) && !self.dummy_tours@.contains_key(id) && id != p && id != rcv
            &&& dummies1.contains_key(id)
            &&& dummies1[id].nodes@ == svc_filter(&self.network, self.or_displaced(segment, p, rcv))
            &&& dummies1[id].is_dummy && dummies1[id].network == self.network && dummies1[id].caches_ok()
            &&& counter1 == self.vehicle_counter + 1
        } else {
            nd is None && counter1 == self.vehicle_counter
        }
    }
    /// C13 / C10: the listings: a deleted provider leaves its list (lists_follow, env/update_tours_shim.vs), then the new
    /// dummy id -- if any -- enters the sorted dummy list
    pub open spec fn or_lists_after(&self, segment: Segment, p: VehicleIdx, rcv: VehicleIdx, tours1: TourMap, dummies1: TourMap, grouped1: Grouped, ids2: Seq<VehicleIdx>) -> bool {
        exists|ids1: Seq<VehicleIdx>| #[trigger] self.lists_follow(self.vehicle_ids_grouped_and_sorted@, grouped1,
                self.dummy_ids_sorted@, ids1, Some(p), tour_opt_in(tours1, dummies1, p))
            && (if self.or_creates_dummy(segment, p, rcv) { ids_gain(ids1, ids2, self.next_dummy_id()) } else { ids2 == ids1 })
            && sorted_cmp(ids2)
    }
    /// C09: the costs: minus the old tours of the (real) participants, plus their new ones
    pub open spec fn or_costs_after(&self, p: VehicleIdx, rcv: VehicleIdx, tours1: TourMap, dummies1: TourMap, costs1: Cost) -> bool {
        costs1 == self.costs - self.cost_out_provider(self.tours@, Some(p)) - self.cost_out_receiver(self.tours@, rcv)
            + self.cost_in_provider(Some(p), tour_opt_in(tours1, dummies1, p)) + self.cost_in_receiver(rcv, tour_in(tours1, dummies1, rcv))
    }

    // ---- formations (C10 / C03 / C13) -------------------------------------------------------------------------
    /// the formation of node n after the moved nodes went from the provider to the receiver (update_train_formation
    /// within update_tours: the replacement for a moved non-depot node, the old formation otherwise)
    pub open spec fn or_form_mid(&self, segment: Segment, p: VehicleIdx, rcv: VehicleIdx, n: NodeIdx) -> Seq<Vehicle> {
        if moved_nd(&self.network, self.or_moved(segment, p), n) {
            self.repl_seq(self.train_formations@[n].formation@, Some(p), self.sp_receiver_vehicle(rcv))
        } else { self.train_formations@[n].formation@ }
    }
    /// n is a displaced non-depot node and the receiver is a real vehicle: the receiver no longer visits n
    pub open spec fn or_rcv_leaves(&self, segment: Segment, p: VehicleIdx, rcv: VehicleIdx, n: NodeIdx) -> bool {
        self.sp_is_vehicle(rcv) && moved_nd(&self.network, self.or_displaced(segment, p, rcv), n)
    }
    /// C13: "formations elsewhere … stay untouched"
    pub open spec fn or_formations_elsewhere(&self, segment: Segment, p: VehicleIdx, rcv: VehicleIdx, tf: Formations) -> bool {
        &&& tf.dom() == self.train_formations@.dom()
        &&& forall|n: NodeIdx| #![trigger self.or_rcv_leaves(segment, p, rcv, n)] #![trigger tf[n]]
                !moved_nd(&self.network, self.or_moved(segment, p), n) && !self.or_rcv_leaves(segment, p, rcv, n)
                ==> tf[n] == self.train_formations@[n]
    }
    /// C10: at a moved non-depot node (that the receiver did not visit before) the formation gets the replacement
    /// provider -> receiver that update_train_formation specifies
    pub open spec fn or_formations_moved(&self, segment: Segment, p: VehicleIdx, rcv: VehicleIdx, tf: Formations) -> bool {
        forall|n: NodeIdx| #![trigger self.or_rcv_leaves(segment, p, rcv, n)] #![trigger tf[n]]
            moved_nd(&self.network, self.or_moved(segment, p), n) && !self.or_rcv_leaves(segment, p, rcv, n)
            ==> tf[n].formation@ == self.or_form_mid(segment, p, rcv, n)
                && self.repl_ok(self.train_formations@[n].formation@, Some(p), self.sp_receiver_vehicle(rcv), n)
    }
    /// C10 / C03: "a vehicle is in the formation of a node exactly if its tour contains the node": at every displaced
    /// non-depot node a real receiver is taken out of the formation (first occurrence, the others keep their order) --
    /// whether or not a dummy tour is created
    pub open spec fn or_formations_displaced(&self, segment: Segment, p: VehicleIdx, rcv: VehicleIdx, tf: Formations) -> bool {
        forall|n: NodeIdx| #![trigger self.or_rcv_leaves(segment, p, rcv, n)] #![trigger tf[n]] self.or_rcv_leaves(segment, p, rcv, n)
            ==> has_vehicle(self.or_form_mid(segment, p, rcv, n), rcv)
                && tf[n].formation@ == self.or_form_mid(segment, p, rcv, n).remove(first_pos(self.or_form_mid(segment, p, rcv, n), rcv))
    }

    // ---- cached aggregates (C09) ------------------------------------------------------------------------------
    /// C09: the unserved-passenger pair: the exact delta of the first formation update, then -- for a real receiver -- the one
    /// of taking the receiver out of the formations of the displaced nodes (on the table the first update leaves; depots and
    /// maintenance slots contribute 0)
    pub open spec fn or_unserved_after(&self, segment: Segment, p: VehicleIdx, rcv: VehicleIdx, uf: (PassengerCount, PassengerCount)) -> bool {
        let d = self.or_displaced(segment, p, rcv);
        let k = d.len() as int;
        exists|tf1: Formations, u1: (PassengerCount, PassengerCount)| #[trigger] self.or_between(segment, p, rcv, tf1, u1)
            && (if self.sp_is_vehicle(rcv) {
                    &&& uf.0 == u1.0 - self.un_sum(tf1, Some(rcv), None, d, k, false, 0) + self.un_sum(tf1, Some(rcv), None, d, k, true, 0)
                    &&& uf.1 == u1.1 - self.un_sum(tf1, Some(rcv), None, d, k, false, 1) + self.un_sum(tf1, Some(rcv), None, d, k, true, 1)
                } else { uf == u1 })
    }
    /// C15 / C10 / C09: the rotation cycles follow the new vehicles / tours, the maintenance violation is their from-scratch
    /// sum, the transitions of the types of neither participant are untouched
    pub open spec fn or_transitions_after(&self, p: VehicleIdx, rcv: VehicleIdx, trs1: Map<VehicleTypeIdx, Transition>, mv1: MaintenanceCounter,
            vehicles1: VehicleMap, tours1: TourMap) -> bool {
        &&& forall|vt: VehicleTypeIdx| self.next_period_transitions@.contains_key(vt) <==> #[trigger] trs1.contains_key(vt)
        &&& forall|vt: VehicleTypeIdx| #[trigger] trs1.contains_key(vt) ==> trs1[vt].wf(&self.network, tours1)
        &&& forall|vt: VehicleTypeIdx, u: VehicleIdx| #![trigger trs1[vt].has_vehicle(u)] trs1.contains_key(vt)
                ==> (trs1[vt].has_vehicle(u) <==> (vehicles1.contains_key(u) && vtype(vehicles1[u]) == vt))
        &&& mv1 as int == viol_sum(trs1, sched_types(self))
        &&& forall|vt: VehicleTypeIdx| #[trigger] trs1.contains_key(vt)
                && !(self.sp_is_vehicle(p) && self.type_of(p) == vt) && !(self.sp_is_vehicle(rcv) && self.type_of(rcv) == vt)
                ==> trs1[vt] == self.next_period_transitions@[vt]
    }
}

// =====================================================================================================
// lemmas: the preconditions of the callees
// =====================================================================================================
/// two sequences with the same items are the same sequence (for the view of `moved_nodes.iter().cloned()`)
pub proof fn lemma_seq_ext_all(m: Seq<NodeIdx>)
    ensures forall|q: Seq<NodeIdx>| #![trigger q.len()] q.len() == m.len() && (forall|i: int| 0 <= i < q.len() ==> q[i] == m[i]) ==> q == m,
{
    assert forall|q: Seq<NodeIdx>| #![trigger q.len()] q.len() == m.len() && (forall|i: int| 0 <= i < q.len() ==> q[i] == m[i]) implies q == m by {
        assert(q =~= m);
    }
}
/// what a valid schedule provides for the two look-ups, the type guard and Tour::remove
pub proof fn lemma_or_setup(s: &Schedule, segment: Segment, p: VehicleIdx, rcv: VehicleIdx)
    requires s.or_pre(segment, p, rcv),
    ensures
        s.has_tour(p), s.has_tour(rcv),
        s.tours@.contains_key(p) == s.sp_is_vehicle(p), s.tours@.contains_key(rcv) == s.sp_is_vehicle(rcv),
        !s.tours@.contains_key(p) ==> s.dummy_tours@.contains_key(p), !s.tours@.contains_key(rcv) ==> s.dummy_tours@.contains_key(rcv),
        s.sp_tour_of(p).wf(), s.sp_tour_of(p).caches_ok(), tour_len_ok(s.sp_tour_of(p).nodes@),
        *s.sp_tour_of(p).network == *s.network,
        s.sp_tour_of(p).network.has(segment.start), s.sp_tour_of(p).network.has(segment.end),
        s.network.wf(),
        exists|i: int, j: int| #[trigger] Schedule::seg_at(&s.sp_tour_of(p), segment, i, j)
            && !all_depots(&s.network, s.sp_tour_of(p).nodes@.subrange(i, j + 1)),
        listings_ok(s.vehicles@, s.dummy_tours@, s.vehicle_ids_grouped_and_sorted@, s.dummy_ids_sorted@),
        usage_exact(s.depot_usage@, &s.network, s.vehicles@, s.tours@),
{
    let tp = s.sp_tour_of(p);
    let (i, j) = choose|i: int, j: int| #[trigger] Schedule::seg_at(&tp, segment, i, j) && !all_depots(&s.network, tp.nodes@.subrange(i, j + 1));
    assert(tp.network.has(tp.nodes@[i]) && tp.network.has(tp.nodes@[j]));
}
/// the segment Tour::remove cuts out: its positions, its nodes
pub proof fn lemma_or_cut(s: &Schedule, segment: Segment, p: VehicleIdx, rcv: VehicleIdx)
    requires s.or_pre(segment, p, rcv), s.or_removes(segment, p),
    ensures
        0 <= s.or_lo(segment, p) <= s.or_hi(segment, p) < s.sp_tour_of(p).len(),
        Schedule::seg_at(&s.sp_tour_of(p), segment, s.or_lo(segment, p), s.or_hi(segment, p)),
        s.or_moved(segment, p) == s.sp_tour_of(p).nodes@.subrange(s.or_lo(segment, p), s.or_hi(segment, p) + 1),
        s.or_moved(segment, p).len() == s.or_hi(segment, p) + 1 - s.or_lo(segment, p),
        all_in_net(&s.network, s.or_moved(segment, p)), all_in_net(&s.network, s.or_kept(segment, p)),
        len_ok(s.or_kept(segment, p)), tour_len_ok(s.or_moved(segment, p)),
        !all_depots(&s.network, s.or_moved(segment, p)),
        connected(&s.network, s.or_moved(segment, p)),
        s.or_moved(segment, p).no_duplicates(),
{
    let tp = s.sp_tour_of(p);
    let lo = s.or_lo(segment, p);
    let hi = s.or_hi(segment, p);
    let m = s.or_moved(segment, p);
    lemma_cuts(&tp, lo, hi + 1);
    lemma_remove_block(&tp, lo, hi);
    assert forall|i: int| 0 <= i < m.len() - 1 implies #[trigger] s.network.reach(m[i], m[i + 1]) by {
        assert(tp.network.reach(tp.nodes@[lo + i], tp.nodes@[(lo + i) + 1]));
    }
    assert forall|i: int, j: int| 0 <= i < m.len() && 0 <= j < m.len() && i != j implies m[i] != m[j] by {
        if m[i] == m[j] { lemma_tour_distinct(&tp, lo + i, lo + j); }
    }
}
/// C01: the type guard's guarantee, read on the moved nodes
pub proof fn lemma_or_guard(s: &Schedule, segment: Segment, p: VehicleIdx, rcv: VehicleIdx)
    requires
        s.or_pre(segment, p, rcv), s.or_removes(segment, p),
    ensures
        // the postcondition of check_receiver_type_compatibility for the answer `true` (antecedent, see above)
        (s.vehicles@.contains_key(rcv) && !(s.vehicles@.contains_key(p) && s.type_of(p) == s.type_of(rcv))
            ==> forall|i: int, j: int, q: int| #[trigger] Schedule::seg_at(&s.sp_tour_of(p), segment, i, j) && i <= q <= j
                ==> s.network.sp_compatible(#[trigger] s.sp_tour_of(p).nodes@[q], s.type_of(rcv)))
        ==> s.or_compatible(segment, p, rcv),
{
    lemma_or_cut(s, segment, p, rcv);
    let tp = s.sp_tour_of(p);
    let lo = s.or_lo(segment, p);
    let hi = s.or_hi(segment, p);
    let m = s.or_moved(segment, p);
    if s.sp_is_vehicle(rcv) && !(s.sp_is_vehicle(p) && s.type_of(p) == s.type_of(rcv))
        && (forall|i: int, j: int, q: int| #[trigger] Schedule::seg_at(&s.sp_tour_of(p), segment, i, j) && i <= q <= j
                ==> s.network.sp_compatible(#[trigger] s.sp_tour_of(p).nodes@[q], s.type_of(rcv))) {
        assert forall|k: int| 0 <= k < m.len() implies s.network.sp_compatible(#[trigger] m[k], s.type_of(rcv)) by {
            assert(Schedule::seg_at(&tp, segment, lo, hi) && lo <= lo + k <= hi);
            assert(m[k] == tp.nodes@[lo + k]);
        }
    }
}
/// the preconditions of Tour::insert_path (A-path: the removed path is a connected path with an activity)
pub proof fn lemma_or_path(s: &Schedule, segment: Segment, p: VehicleIdx, rcv: VehicleIdx)
    requires s.or_pre(segment, p, rcv), s.or_removes(segment, p),
    ensures
        s.sp_tour_of(rcv).wf(), s.sp_tour_of(rcv).caches_ok(), tour_len_ok(s.sp_tour_of(rcv).nodes@),
        s.sp_tour_of(p).network == s.sp_tour_of(rcv).network,
        tour_len_ok(s.or_moved(segment, p)),
        path_shape(&s.sp_tour_of(rcv).network, s.or_moved(segment, p)),
{
    lemma_or_cut(s, segment, p, rcv);
}
/// what Tour::insert_path's contract says, read with THE positions (lemma_ins_unique)
pub proof fn lemma_or_inserted(s: &Schedule, segment: Segment, p: VehicleIdx, rcv: VehicleIdx, ntr: Tour, rp: Option<Path>)
    requires
        s.or_pre(segment, p, rcv), s.or_removes(segment, p),
        ({
            let t = s.sp_tour_of(rcv);
            let n = s.or_ins(segment, p, rcv);
            exists|a: int, b: int| {
                &&& ins_positions(&t, n, a, b) && 0 <= a <= b <= t.len()
                &&& ntr.nodes@ == #[trigger] t.spliced(a, b, n)
                &&& (all_depots(&t.network, t.mid(a, b)) ==> rp is None)
                &&& (!all_depots(&t.network, t.mid(a, b)) ==> rp is Some && rp.unwrap().node_sequence@ == t.mid(a, b))
            }
        }),
    ensures
        ntr.nodes@ == s.or_gained(segment, p, rcv),
        0 <= s.or_s(segment, p, rcv) <= s.or_e(segment, p, rcv) <= s.sp_tour_of(rcv).len(),
        rp is None <==> all_depots(&s.network, s.or_displaced(segment, p, rcv)),
        rp is Some ==> rp.unwrap().node_sequence@ == s.or_displaced(segment, p, rcv),
        all_in_net(&s.network, s.or_displaced(segment, p, rcv)), len_ok(s.or_displaced(segment, p, rcv)),
        all_depots(&s.network, s.or_displaced(segment, p, rcv)) ==> !has_service(&s.network, s.or_displaced(segment, p, rcv)),
{
    let t = s.sp_tour_of(rcv);
    let n = s.or_ins(segment, p, rcv);
    let (a, b) = choose|a: int, b: int| {
        &&& ins_positions(&t, n, a, b) && 0 <= a <= b <= t.len()
        &&& ntr.nodes@ == #[trigger] t.spliced(a, b, n)
        &&& (all_depots(&t.network, t.mid(a, b)) ==> rp is None)
        &&& (!all_depots(&t.network, t.mid(a, b)) ==> rp is Some && rp.unwrap().node_sequence@ == t.mid(a, b))
    };
    lemma_ins_unique(&t, n, a, b);
    lemma_cuts(&t, a, b);
    let d = s.or_displaced(segment, p, rcv);
    if all_depots(&s.network, d) && has_service(&s.network, d) {
        let i = choose|i: int| 0 <= i < d.len() && #[trigger] s.network.sp_node(d[i]) is Service;
        assert(s.network.sp_node(d[i]).sp_is_depot());
    }
}
/// C09 / magnitudes: the u64 arithmetic of the costs
pub proof fn lemma_or_costs_arith(s: &Schedule, segment: Segment, p: VehicleIdx, rcv: VehicleIdx, stp: Option<Tour>, ntr: Tour)
    requires s.or_pre(segment, p, rcv), s.or_removes(segment, p), s.or_new_tours(segment, p, rcv, stp, ntr),
    ensures s.costs_arith_ok(s.costs as int, s.tours@, Some(p), stp, rcv, ntr),
{
    lemma_or_cut(s, segment, p, rcv);
    lemma_cost_bounds(&s.network, s.or_kept(segment, p));
    lemma_costs_arith_from_totals(s, s.costs as int, s.tours@, Some(p), stp, rcv, ntr);
}
/// the precondition of update_tours (apart from tfu_pre)
pub proof fn lemma_or_ut_pre(s: &Schedule, segment: Segment, p: VehicleIdx, rcv: VehicleIdx, stp: Option<Tour>, ntr: Tour)
    requires s.or_pre(segment, p, rcv), s.or_removes(segment, p), s.or_new_tours(segment, p, rcv, stp, ntr),
    ensures
        s.ut_pre(s.vehicles@, s.tours@, s.depot_usage@, s.dummy_tours@, s.vehicle_ids_grouped_and_sorted@, s.dummy_ids_sorted@,
            s.costs, Some(p), stp, rcv, ntr),
{
    lemma_or_setup(s, segment, p, rcv);
    lemma_or_costs_arith(s, segment, p, rcv, stp, ntr);
    assert(usage_exact_for(s.depot_usage@, &s.network, s.vehicles@, s.tours@, rcv));
    assert(usage_exact_for(s.depot_usage@, &s.network, s.vehicles@, s.tours@, p));
    assert(s.participant_ok(rcv));
    assert(s.participant_ok(p));
    if s.deletes_dummy(Some(p), stp) {
        assert(s.dummy_ids_sorted@.contains(p) <==> s.dummy_tours@.contains_key(p));
    }
    if s.deletes_vehicle(Some(p), stp) {
        assert(s.vehicle_ids_grouped_and_sorted@.contains_key(s.vehicles@[p].vehicle_type.idx));
        assert(listing_sorted(s.vehicle_ids_grouped_and_sorted@[s.type_of(p)]@));
        assert(s.vehicle_ids_grouped_and_sorted@[s.type_of(p)]@.contains(p));
    }
}
/// C10: the dummy list of matching listings is sorted (`binary_search` in add_dummy_tour)
pub proof fn lemma_listing_sorted(vehicles: VehicleMap, dummies: TourMap, grouped: Grouped, dummy_ids: Seq<VehicleIdx>)
    requires listings_ok(vehicles, dummies, grouped, dummy_ids),
    ensures sorted_cmp(dummy_ids),
{
}

// =====================================================================================================
// lemmas: the postconditions.  The facts the callees' contracts provide are ANTECEDENTS of the conclusions (not
// `requires`): if the code stops providing one of them, the failing obligation is the tagged postcondition of
// override_reassign, not the call of the lemma.
// =====================================================================================================
/// the next dummy id is fresh (C10 ids: every stored dummy id is below the counter; real vehicles have `Vehicle` ids)
pub proof fn lemma_or_fresh_id(s: &Schedule, segment: Segment, p: VehicleIdx, rcv: VehicleIdx)
    requires s.or_pre(segment, p, rcv), s.vehicle_counter <= 0xffff,
    ensures
        !s.dummy_tours@.contains_key(s.next_dummy_id()), !s.vehicles@.contains_key(s.next_dummy_id()), !s.tours@.contains_key(s.next_dummy_id()),
        s.next_dummy_id() != p, s.next_dummy_id() != rcv,
{
    let id = s.next_dummy_id();
    if s.dummy_tours@.contains_key(id) { assert((id->Dummy_0 as int) < s.vehicle_counter); }
    if s.vehicles@.contains_key(id) { assert(id is Vehicle); }
}
/// C13 (1) / C09: provider, receiver, all other tours, the new dummy tour, the costs
pub proof fn lemma_or_tours_post(s: &Schedule, segment: Segment, p: VehicleIdx, rcv: VehicleIdx,
        stp: Option<Tour>, ntr: Tour, ndt: Option<Tour>, nd: Option<VehicleIdx>,
        vehicles1: VehicleMap, tours1: TourMap, dummies1: TourMap, counter1: usize, costs1: Cost)
    requires s.or_pre(segment, p, rcv), s.or_removes(segment, p), s.or_new_tours(segment, p, rcv, stp, ntr),
    ensures
        ({
            let id = s.next_dummy_id();
            let d1 = s.dummies_after(s.dummy_tours@, Some(p), stp, rcv, ntr);
            &&& vehicles1 == s.vehicles_after(s.vehicles@, Some(p), stp)
            &&& tours1 == s.tours_after(s.tours@, Some(p), stp, rcv, ntr)
            &&& dummies1 == (match ndt { Some(t) => d1.insert(id, t), None => d1 })
            // a new dummy tour is only stored if an id is left (Schedule::next_free_idx)
            &&& ndt is Some ==> s.vehicle_counter <= 0xffff
        }) ==> {
            &&& tour_opt_in(tours1, dummies1, p) == stp && tour_in(tours1, dummies1, rcv) == ntr
            &&& s.or_provider_after(segment, p, rcv, vehicles1, tours1, dummies1)
            &&& s.or_receiver_after(segment, p, rcv, tours1, dummies1)
            &&& (ndt is Some <==> s.or_creates_dummy(segment, p, rcv)) ==> s.or_maps_after(segment, p, rcv, tours1, dummies1)
            &&& (ndt is Some <==> s.or_creates_dummy(segment, p, rcv))
                && (ndt is Some ==> ndt.unwrap().nodes@ == svc_filter(&s.network, s.or_displaced(segment, p, rcv)) && ndt.unwrap().is_dummy
                        && ndt.unwrap().network == s.network && ndt.unwrap().caches_ok()
                        && nd == Some(s.next_dummy_id()) && counter1 == s.vehicle_counter + 1)
                && (ndt is None ==> nd is None && counter1 == s.vehicle_counter)
                ==> s.or_dummy_after(segment, p, rcv, dummies1, counter1, nd)
            &&& costs1 == s.costs - s.cost_out_provider(s.tours@, Some(p)) - s.cost_out_receiver(s.tours@, rcv)
                    + s.cost_in_provider(Some(p), stp) + s.cost_in_receiver(rcv, ntr)
                ==> s.or_costs_after(p, rcv, tours1, dummies1, costs1)
        },
{
    lemma_or_setup(s, segment, p, rcv);
    if s.vehicle_counter <= 0xffff { lemma_or_fresh_id(s, segment, p, rcv); }
    let id = s.next_dummy_id();
    let d1 = s.dummies_after(s.dummy_tours@, Some(p), stp, rcv, ntr);
    if vehicles1 == s.vehicles_after(s.vehicles@, Some(p), stp)
        && tours1 == s.tours_after(s.tours@, Some(p), stp, rcv, ntr)
        && dummies1 == (match ndt { Some(t) => d1.insert(id, t), None => d1 })
        && (ndt is Some ==> s.vehicle_counter <= 0xffff) {
        assert(tour_opt_in(tours1, dummies1, p) == stp);
        assert(tour_in(tours1, dummies1, rcv) == ntr);
        if ndt is Some <==> s.or_creates_dummy(segment, p, rcv) {
            if ndt is Some { assert(dummies1[id] == ndt.unwrap()); }
            assert(s.or_maps_after(segment, p, rcv, tours1, dummies1));
        }
    }
}
/// C13 / C10: the listings
pub proof fn lemma_or_lists_post(s: &Schedule, segment: Segment, p: VehicleIdx, rcv: VehicleIdx, stp: Option<Tour>,
        tours1: TourMap, dummies1: TourMap, grouped1: Grouped, ids1: Seq<VehicleIdx>, ids2: Seq<VehicleIdx>)
    ensures
        tour_opt_in(tours1, dummies1, p) == stp
            && s.lists_follow(s.vehicle_ids_grouped_and_sorted@, grouped1, s.dummy_ids_sorted@, ids1, Some(p), stp)
            && (if s.or_creates_dummy(segment, p, rcv) { ids_gain(ids1, ids2, s.next_dummy_id()) } else { ids2 == ids1 })
            && sorted_cmp(ids2)
            ==> s.or_lists_after(segment, p, rcv, tours1, dummies1, grouped1, ids2),
{
}
/// putting a new id into a duplicate-free list: membership, duplicate-freeness
pub proof fn lemma_insert_listing(a: Seq<VehicleIdx>, pos: int, x: VehicleIdx)
    requires 0 <= pos <= a.len(), a.no_duplicates(), !a.contains(x),
    ensures
        a.insert(pos, x).no_duplicates(),
        forall|v: VehicleIdx| #[trigger] a.insert(pos, x).contains(v) <==> (a.contains(v) || v == x),
{
    let b = a.insert(pos, x);
    assert forall|i: int, j: int| 0 <= i < b.len() && 0 <= j < b.len() && i != j implies b[i] != b[j] by {
        let ia = if i < pos { i } else { i - 1 };
        let ja = if j < pos { j } else { j - 1 };
        if i != pos && j != pos { assert(b[i] == a[ia] && b[j] == a[ja]); }
        else if i == pos { assert(b[j] == a[ja]); assert(a.contains(a[ja])); }
        else { assert(b[i] == a[ia]); assert(a.contains(a[ia])); }
    }
    assert forall|v: VehicleIdx| #[trigger] b.contains(v) <==> (a.contains(v) || v == x) by {
        if b.contains(v) {
            let i = choose|i: int| 0 <= i < b.len() && b[i] == v;
            if i < pos { assert(a[i] == v); } else if i > pos { assert(a[i - 1] == v); }
        }
        if a.contains(v) {
            let i = choose|i: int| 0 <= i < a.len() && a[i] == v;
            if i < pos { assert(b[i] == v); } else { assert(b[i + 1] == v); }
        }
        if v == x { assert(b[pos] == x); }
    }
}
/// C10: "vehicle and dummy listings are sorted and match the stored tours" still holds after the new dummy id entered the
/// dummy list (dummies1 / ids1: after update_tours; dummies2 / ids2: after add_dummy_tour, if it runs)
pub proof fn lemma_or_listings_post(s: &Schedule, segment: Segment, p: VehicleIdx, rcv: VehicleIdx, stp: Option<Tour>, ntr: Tour, ndt: Option<Tour>,
        vehicles1: VehicleMap, dummies1: TourMap, grouped1: Grouped, ids1: Seq<VehicleIdx>, dummies2: TourMap, ids2: Seq<VehicleIdx>)
    requires s.or_pre(segment, p, rcv),
    ensures
        listings_ok(vehicles1, dummies1, grouped1, ids1) && dummies1 == s.dummies_after(s.dummy_tours@, Some(p), stp, rcv, ntr)
            && (ndt is Some ==> s.vehicle_counter <= 0xffff)
            && (match ndt {
                    Some(t) => dummies2 == dummies1.insert(s.next_dummy_id(), t) && ids_gain(ids1, ids2, s.next_dummy_id()) && sorted_cmp(ids2),
                    None => dummies2 == dummies1 && ids2 == ids1,
                })
            ==> listings_ok(vehicles1, dummies2, grouped1, ids2),
{
    let id = s.next_dummy_id();
    if listings_ok(vehicles1, dummies1, grouped1, ids1) && dummies1 == s.dummies_after(s.dummy_tours@, Some(p), stp, rcv, ntr)
        && ndt is Some && s.vehicle_counter <= 0xffff
        && dummies2 == dummies1.insert(id, ndt.unwrap()) && ids_gain(ids1, ids2, id) && sorted_cmp(ids2) {
        lemma_or_fresh_id(s, segment, p, rcv);
        assert(!dummies1.contains_key(id));
        assert(ids1.contains(id) <==> dummies1.contains_key(id));
        let pos = choose|pos: int| 0 <= pos <= ids1.len() && ids2 == #[trigger] ids1.insert(pos, id);
        lemma_insert_listing(ids1, pos, id);
        assert forall|v: VehicleIdx| #[trigger] ids2.contains(v) <==> dummies2.contains_key(v) by {
            assert(ids1.contains(v) <==> dummies1.contains_key(v));
        }
    }
}
/// C10 (ids): the ids stay valid: the vehicles still have tours and ids of the `Vehicle` kind, every dummy id is below the
/// counter (the next id is fresh again), the dummy list is sorted
pub proof fn lemma_or_ids_post(s: &Schedule, segment: Segment, p: VehicleIdx, rcv: VehicleIdx, stp: Option<Tour>, ntr: Tour, ndt: Option<Tour>,
        vehicles1: VehicleMap, tours1: TourMap, dummies2: TourMap, ids2: Seq<VehicleIdx>, counter1: usize)
    requires s.or_pre(segment, p, rcv),
    ensures
        ({
            let d1 = s.dummies_after(s.dummy_tours@, Some(p), stp, rcv, ntr);
            &&& vehicles1 == s.vehicles_after(s.vehicles@, Some(p), stp)
            &&& tours1 == s.tours_after(s.tours@, Some(p), stp, rcv, ntr)
            &&& dummies2 == (match ndt { Some(t) => d1.insert(s.next_dummy_id(), t), None => d1 })
            &&& ndt is Some ==> s.vehicle_counter <= 0xffff && counter1 == s.vehicle_counter + 1
            &&& ndt is None ==> counter1 == s.vehicle_counter
            &&& sorted_cmp(ids2)
        }) ==> ids_valid(vehicles1, tours1, dummies2, ids2, counter1),
{
    lemma_or_setup(s, segment, p, rcv);
    let d1 = s.dummies_after(s.dummy_tours@, Some(p), stp, rcv, ntr);
    if vehicles1 == s.vehicles_after(s.vehicles@, Some(p), stp) && tours1 == s.tours_after(s.tours@, Some(p), stp, rcv, ntr)
        && dummies2 == (match ndt { Some(t) => d1.insert(s.next_dummy_id(), t), None => d1 })
        && (ndt is Some ==> s.vehicle_counter <= 0xffff && counter1 == s.vehicle_counter + 1)
        && (ndt is None ==> counter1 == s.vehicle_counter) && sorted_cmp(ids2) {
        assert forall|v: VehicleIdx| #[trigger] vehicles1.contains_key(v) implies v is Vehicle && vehicles1[v].idx == v by {
            assert(s.vehicles@.contains_key(v));
        }
        assert forall|v: VehicleIdx| #[trigger] vehicles1.contains_key(v) <==> tours1.contains_key(v) by {
            assert(s.vehicles@.contains_key(v) <==> s.tours@.contains_key(v));
        }
        assert forall|d: VehicleIdx| #[trigger] dummies2.contains_key(d) implies d is Dummy && (d->Dummy_0 as int) < counter1 by {
            if d == s.next_dummy_id() && ndt is Some {
            } else {
                assert(d1.contains_key(d));
                assert(s.dummy_tours@.contains_key(d));
            }
        }
    }
}
/// C10 / C03 / C13 (2): the formations after the two formation updates (tf1 = the table between them, tf2 = the final one)
pub proof fn lemma_or_formations_post(s: &Schedule, segment: Segment, p: VehicleIdx, rcv: VehicleIdx, tf1: Formations, u1: (PassengerCount, PassengerCount), tf2: Formations)
    requires s.or_pre(segment, p, rcv),
    ensures
        // the second update -- if it runs at all -- rewrites displaced nodes only, for a real receiver only
        s.or_between(segment, p, rcv, tf1, u1)
            && (tf2 == tf1 || (s.sp_is_vehicle(rcv) && s.formations_elsewhere_untouched(s.or_displaced(segment, p, rcv), tf1, tf2)))
            ==> s.or_formations_elsewhere(segment, p, rcv, tf2) && s.or_formations_moved(segment, p, rcv, tf2),
        // it runs whenever the receiver is real and some displaced node is not a depot
        s.or_between(segment, p, rcv, tf1, u1)
            && (s.or_second_update(segment, p, rcv) ==> s.formations_elsewhere_untouched(s.or_displaced(segment, p, rcv), tf1, tf2)
                    && s.moved_get_replacement(s.or_displaced(segment, p, rcv), tf1, tf2, Some(rcv), None))
            ==> s.or_formations_displaced(segment, p, rcv, tf2),
{
    let net = &s.network;
    let tf0 = s.train_formations@;
    let m = s.or_moved(segment, p);
    let d = s.or_displaced(segment, p, rcv);
    let rv = s.sp_receiver_vehicle(rcv);
    let second = s.or_second_update(segment, p, rcv);
    let none: Option<Vehicle> = None;
    if s.or_between(segment, p, rcv, tf1, u1) {
        // the table between the two updates, node by node
        assert forall|n: NodeIdx| (#[trigger] tf1[n]).formation@ == s.or_form_mid(segment, p, rcv, n) by {
            if !moved_nd(net, m, n) { assert(tf1[n] == tf0[n]); }
        }
        // a displaced non-depot node exists only if the displaced nodes are not all depots
        assert forall|n: NodeIdx| s.or_rcv_leaves(segment, p, rcv, n) implies second by {
            let i = choose|i: int| 0 <= i < d.len() && d[i] == n;
            assert(!net.sp_node(d[i]).sp_is_depot());
        }
        if tf2 == tf1 || (s.sp_is_vehicle(rcv) && s.formations_elsewhere_untouched(d, tf1, tf2)) {
            assert forall|n: NodeIdx| !s.or_rcv_leaves(segment, p, rcv, n) implies #[trigger] tf2[n] == tf1[n] by {
                if tf2 != tf1 { assert(!moved_nd(net, d, n)); }
            }
            assert(tf2.dom() == tf0.dom());
            assert forall|n: NodeIdx| #![trigger s.or_rcv_leaves(segment, p, rcv, n)] #![trigger tf2[n]]
                !moved_nd(net, m, n) && !s.or_rcv_leaves(segment, p, rcv, n) implies tf2[n] == tf0[n] by {
                assert(tf2[n] == tf1[n]);
                assert(tf1[n] == tf0[n]);
            }
            assert forall|n: NodeIdx| #![trigger s.or_rcv_leaves(segment, p, rcv, n)] #![trigger tf2[n]]
                moved_nd(net, m, n) && !s.or_rcv_leaves(segment, p, rcv, n) implies
                tf2[n].formation@ == s.or_form_mid(segment, p, rcv, n) && s.repl_ok(tf0[n].formation@, Some(p), rv, n) by {
                assert(tf2[n] == tf1[n]);
                assert(tf1[n].formation@ == s.or_form_mid(segment, p, rcv, n));
            }
            assert(s.or_formations_elsewhere(segment, p, rcv, tf2));
            assert(s.or_formations_moved(segment, p, rcv, tf2));
        }
        if second ==> s.formations_elsewhere_untouched(d, tf1, tf2) && s.moved_get_replacement(d, tf1, tf2, Some(rcv), none) {
            assert forall|n: NodeIdx| #![trigger s.or_rcv_leaves(segment, p, rcv, n)] #![trigger tf2[n]] s.or_rcv_leaves(segment, p, rcv, n) implies
                has_vehicle(s.or_form_mid(segment, p, rcv, n), rcv)
                && tf2[n].formation@ == s.or_form_mid(segment, p, rcv, n).remove(first_pos(s.or_form_mid(segment, p, rcv, n), rcv)) by {
                assert(second);
                assert(moved_nd(net, d, n));
                assert(s.shrinks(Some(rcv), none));
                assert(tf1[n].formation@ == s.or_form_mid(segment, p, rcv, n));
                assert(tf2[n].formation@ == s.repl_seq(tf1[n].formation@, Some(rcv), none));
                assert(s.repl_ok(tf1[n].formation@, Some(rcv), none, n));
            }
            assert(s.or_formations_displaced(segment, p, rcv, tf2));
        }
    }
}
/// nodes that are not service trips contribute nothing to the unserved passengers
pub proof fn lemma_un_sum_no_service(s: &Schedule, tf: Formations, provider: Option<VehicleIdx>, receiver: Option<Vehicle>, moved: Seq<NodeIdx>, k: int, after: bool, c: int)
    requires 0 <= k <= moved.len(), !has_service(&s.network, moved),
    ensures s.un_sum(tf, provider, receiver, moved, k, after, c) == 0,
    decreases k,
{
    if k > 0 {
        lemma_un_sum_no_service(s, tf, provider, receiver, moved, k - 1, after, c);
        assert(!(s.network.sp_node(moved[k - 1]) is Service));
    }
}
/// C09: the unserved-passenger pair (the second update runs for a real receiver, or is skipped -- then no displaced node is
/// a service trip, or the receiver is a dummy)
pub proof fn lemma_or_unserved_post(s: &Schedule, segment: Segment, p: VehicleIdx, rcv: VehicleIdx, tf1: Formations, u1: (PassengerCount, PassengerCount), uf: (PassengerCount, PassengerCount))
    ensures
        ({
            let d = s.or_displaced(segment, p, rcv);
            let k = d.len() as int;
            s.or_between(segment, p, rcv, tf1, u1)
            && ((s.sp_is_vehicle(rcv)
                    && uf.0 == u1.0 - s.un_sum(tf1, Some(rcv), None, d, k, false, 0) + s.un_sum(tf1, Some(rcv), None, d, k, true, 0)
                    && uf.1 == u1.1 - s.un_sum(tf1, Some(rcv), None, d, k, false, 1) + s.un_sum(tf1, Some(rcv), None, d, k, true, 1))
                || (uf == u1 && (!s.sp_is_vehicle(rcv) || !has_service(&s.network, d))))
        }) ==> s.or_unserved_after(segment, p, rcv, uf),
{
    let d = s.or_displaced(segment, p, rcv);
    let k = d.len() as int;
    let none: Option<Vehicle> = None;
    if !has_service(&s.network, d) {
        lemma_un_sum_no_service(s, tf1, Some(rcv), none, d, k, false, 0);
        lemma_un_sum_no_service(s, tf1, Some(rcv), none, d, k, true, 0);
        lemma_un_sum_no_service(s, tf1, Some(rcv), none, d, k, false, 1);
        lemma_un_sum_no_service(s, tf1, Some(rcv), none, d, k, true, 1);
    }
}

// =====================================================================================================
// lemmas: rotation cycles (the precondition / the postcondition of update_transitions_and_violation_fast)
// =====================================================================================================
/// an id of the `Vehicle` kind among the participants is a real vehicle (C10 ids: dummies have `Dummy` ids)
pub proof fn lemma_or_real(s: &Schedule, segment: Segment, p: VehicleIdx, rcv: VehicleIdx)
    requires s.or_pre(segment, p, rcv),
    ensures
        p is Vehicle <==> s.sp_is_vehicle(p), rcv is Vehicle <==> s.sp_is_vehicle(rcv),
{
    if s.dummy_tours@.contains_key(p) { assert(p is Dummy); }
    if s.dummy_tours@.contains_key(rcv) { assert(rcv is Dummy); }
    if s.vehicles@.contains_key(p) { assert(p is Vehicle); }
    if s.vehicles@.contains_key(rcv) { assert(rcv is Vehicle); }
}
/// the precondition of the rotation-cycle update for the list [provider, receiver] and the maps update_tours leaves
pub proof fn lemma_or_upd_pre_0(s: &Schedule, segment: Segment, p: VehicleIdx, rcv: VehicleIdx, stp: Option<Tour>, ntr: Tour,
        vehicles1: VehicleMap, tours1: TourMap)
    requires
        s.or_pre(segment, p, rcv), s.or_removes(segment, p), s.or_new_tours(segment, p, rcv, stp, ntr),
        vehicles1 == s.vehicles_after(s.vehicles@, Some(p), stp),
        tours1 == s.tours_after(s.tours@, Some(p), stp, rcv, ntr),
    ensures
        s.upd_pre(s.next_period_transitions@, s.maintenance_violation as int, seq![p, rcv], vehicles1, tours1),
{
    lemma_or_setup(s, segment, p, rcv);
    lemma_or_real(s, segment, p, rcv);
    let trs = s.next_period_transitions@;
    let cv = seq![p, rcv];
    assert(cv.len() == 2 && cv[0] == p && cv[1] == rcv);
    let tp = s.sp_tour_of(p);
    let tr = s.sp_tour_of(rcv);
    // the new tours of real participants are admissible tours of a rotation cycle
    if s.sp_is_vehicle(rcv) {
        assert(tours1[rcv] == ntr);
        assert(tour_of_net(&s.network, &ntr));
        assert(tour_ok(&s.network, &ntr));
    }
    if s.sp_is_vehicle(p) && stp is Some {
        assert(tours1[p] == stp.unwrap());
        assert(tour_of_net(&s.network, &stp.unwrap()));
        assert(tour_ok(&s.network, &stp.unwrap()));
    }
    assert forall|i: int| 0 <= i < cv.len() && (#[trigger] cv[i]) is Vehicle implies s.change_ok(trs, vehicles1, tours1, cv[i]) by {
        if i == 0 { assert(s.eff_type(vehicles1, p) == s.type_of(p)); } else { assert(s.eff_type(vehicles1, rcv) == s.type_of(rcv)); }
    }
    assert forall|v: VehicleIdx| !real_in(cv, v) implies (s.vehicles@.contains_key(v) <==> #[trigger] vehicles1.contains_key(v)) by {
        if v == p { assert(cv[0] == p); assert(cv.contains(p)); }
    }
    assert forall|v: VehicleIdx| !real_in(cv, v) && #[trigger] vehicles1.contains_key(v) implies tours1.contains_key(v) && tours1[v] == s.tours@[v] by {
        assert(s.vehicles@.contains_key(v));
        assert(s.tours@.contains_key(v));
        if v == p { assert(cv[0] == p); assert(cv.contains(p)); }
        if v == rcv { assert(cv[1] == rcv); assert(cv.contains(rcv)); }
        lemma_frame(s, s.vehicles@, s.tours@, s.dummy_tours@, Some(p), stp, rcv, ntr, v);
    }
    assert forall|i: int, j: int| 0 <= i < j < cv.len() && cv[i] is Vehicle implies #[trigger] cv[i] != #[trigger] cv[j] by {}
}
pub proof fn lemma_or_upd_pre(s: &Schedule, segment: Segment, p: VehicleIdx, rcv: VehicleIdx, stp: Option<Tour>, ntr: Tour,
        vehicles1: VehicleMap, tours1: TourMap)
    requires
        s.or_pre(segment, p, rcv), s.or_removes(segment, p), s.or_new_tours(segment, p, rcv, stp, ntr),
        vehicles1 == s.vehicles_after(s.vehicles@, Some(p), stp),
        tours1 == s.tours_after(s.tours@, Some(p), stp, rcv, ntr),
    ensures
        // for `vec![provider, receiver]`, whatever sequence of these two items its view is
        forall|cv: Seq<VehicleIdx>| cv.len() == 2 && cv[0] == p && cv[1] == rcv
            ==> #[trigger] s.upd_pre(s.next_period_transitions@, s.maintenance_violation as int, cv, vehicles1, tours1),
        forall|cv: Seq<VehicleIdx>| #![trigger cv.len()] cv.len() == 2 && cv[0] == p && cv[1] == rcv
            ==> (forall|i: int, j: int| 0 <= i < j < cv.len() && cv[i] is Vehicle ==> #[trigger] cv[i] != #[trigger] cv[j]),
        // only the types of the (real) participants are touched
        forall|cv: Seq<VehicleIdx>, vt: VehicleTypeIdx| cv.len() == 2 && cv[0] == p && cv[1] == rcv && #[trigger] s.touches_type(vehicles1, cv, vt)
            ==> (s.sp_is_vehicle(p) && s.type_of(p) == vt) || (s.sp_is_vehicle(rcv) && s.type_of(rcv) == vt),
{
    lemma_or_upd_pre_0(s, segment, p, rcv, stp, ntr, vehicles1, tours1);
    lemma_or_real(s, segment, p, rcv);
    assert forall|cv: Seq<VehicleIdx>| cv.len() == 2 && cv[0] == p && cv[1] == rcv
        implies #[trigger] s.upd_pre(s.next_period_transitions@, s.maintenance_violation as int, cv, vehicles1, tours1) by {
        assert(cv =~= seq![p, rcv]);
    }
    assert forall|cv: Seq<VehicleIdx>, vt: VehicleTypeIdx| cv.len() == 2 && cv[0] == p && cv[1] == rcv && #[trigger] s.touches_type(vehicles1, cv, vt)
        implies (s.sp_is_vehicle(p) && s.type_of(p) == vt) || (s.sp_is_vehicle(rcv) && s.type_of(rcv) == vt) by {
        let i = choose|i: int| 0 <= i < cv.len() && (#[trigger] cv[i]) is Vehicle && s.eff_type(vehicles1, cv[i]) == vt;
        if i == 0 { assert(s.eff_type(vehicles1, p) == s.type_of(p)); } else { assert(s.eff_type(vehicles1, rcv) == s.type_of(rcv)); }
    }
}

// =====================================================================================================
// CLOSURE (the induction step of C10 / C09): on Ok the result schedule `res` satisfies the schedule-invariant part of
// `or_pre` again.  Every lemma below is a lemma ABOUT THE CONTRACT: its hypotheses are `or_pre` for the old schedule and the
// effect clauses (or_provider_after, or_receiver_after, or_maps_after, or_dummy_after, or_costs_after,
// or_transitions_after, res.network == self.network) read on `res`; nothing else is known about `res`.
// =====================================================================================================
impl Schedule {
    /// `res` is the schedule Schedule::new builds from these components (the ones the closure clauses read)
    pub open spec fn orc_built(res: &Schedule, net: Arc<Network>, vehicles1: VehicleMap, tours1: TourMap, dummies1: TourMap, counter1: usize,
            trs1: Map<VehicleTypeIdx, Transition>, mv1: MaintenanceCounter, costs1: Cost) -> bool {
        &&& res.network == net && res.vehicles@ == vehicles1 && res.tours@ == tours1 && res.dummy_tours@ == dummies1
        &&& res.vehicle_counter == counter1 && res.next_period_transitions@ == trs1 && res.maintenance_violation == mv1 && res.costs == costs1
    }
    /// closure of `part_ok` (C10 / C01 / C09 per vehicle): EVERY vehicle or dummy v that satisfied part_ok in the old schedule
    /// and still has a tour in the new one satisfies part_ok in the new one -- the provider (if it still exists), the
    /// receiver, and every vehicle the modification does not touch.  Magnitude (A-len): the receiver's new tour may be longer
    /// than both old tours; `tour_len_ok` of it is the (weakest) extra hypothesis for v == receiver.
    pub open spec fn orc_parts_after(&self, segment: Segment, p: VehicleIdx, rcv: VehicleIdx, res: &Schedule) -> bool {
        forall|v: VehicleIdx| #![trigger res.part_ok(v)]
            self.part_ok(v) && res.has_tour(v) && (v == rcv ==> tour_len_ok(self.or_gained(segment, p, rcv))) ==> res.part_ok(v)
    }
    /// the new dummy tour (if one is created) satisfies part_ok as soon as it is well-formed (its connectivity is A-path / D9,
    /// see slices/remove_segment.vs: Tour::new_dummy's contract does not state `wf`)
    pub open spec fn orc_new_dummy_part(&self, segment: Segment, p: VehicleIdx, rcv: VehicleIdx, res: &Schedule) -> bool {
        self.or_creates_dummy(segment, p, rcv) && res.dummy_tours@[self.next_dummy_id()].wf() ==> res.part_ok(self.next_dummy_id())
    }
    /// the costs clause of `or_pre`, verbatim: "the schedule's costs cover the tours of the (real) participants"
    pub open spec fn orc_costs_cover(&self, p: VehicleIdx, rcv: VehicleIdx) -> bool {
        self.cost_out_provider(self.tours@, Some(p)) + self.cost_out_receiver(self.tours@, rcv) <= self.costs
    }
}
/// what is kept of a list is not longer than the list
pub proof fn lemma_orc_mask_filter_len<T>(s: Seq<T>, mask: Seq<bool>)
    ensures mask_filter(s, mask).len() <= s.len(),
    decreases s.len(),
{
    if s.len() > 0 && mask.len() == s.len() { lemma_orc_mask_filter_len(s.drop_last(), mask.drop_last()); }
}
/// closure of part_ok
pub proof fn lemma_orc_parts(s: &Schedule, segment: Segment, p: VehicleIdx, rcv: VehicleIdx, res: &Schedule, nd: Option<VehicleIdx>)
    requires
        s.or_pre(segment, p, rcv), s.or_removes(segment, p),
        res.network == s.network,
        s.or_provider_after(segment, p, rcv, res.vehicles@, res.tours@, res.dummy_tours@),
        s.or_receiver_after(segment, p, rcv, res.tours@, res.dummy_tours@),
        s.or_maps_after(segment, p, rcv, res.tours@, res.dummy_tours@),
        s.or_dummy_after(segment, p, rcv, res.dummy_tours@, res.vehicle_counter, nd),
        forall|vt: VehicleTypeIdx| s.next_period_transitions@.contains_key(vt) <==> #[trigger] res.next_period_transitions@.contains_key(vt),
        0 <= s.or_s(segment, p, rcv) <= s.or_e(segment, p, rcv) <= s.sp_tour_of(rcv).len(),
    ensures
        s.orc_parts_after(segment, p, rcv, res),
        s.orc_new_dummy_part(segment, p, rcv, res),
{
    lemma_or_setup(s, segment, p, rcv);
    lemma_or_cut(s, segment, p, rcv);
    let id = s.next_dummy_id();
    let tp = s.sp_tour_of(p);
    let tr = s.sp_tour_of(rcv);
    let stp = tour_opt_in(res.tours@, res.dummy_tours@, p);
    let ntr = tour_in(res.tours@, res.dummy_tours@, rcv);
    let d1 = s.dummies_after(s.dummy_tours@, Some(p), stp, rcv, ntr);
    let creates = s.or_creates_dummy(segment, p, rcv);
    lemma_cuts(&tp, s.or_lo(segment, p), s.or_hi(segment, p) + 1);
    assert(tour_len_ok(s.or_kept(segment, p)));
    if creates {
        if s.vehicles@.contains_key(id) { assert(id is Vehicle); }
        assert(!s.vehicles@.contains_key(id) && !s.tours@.contains_key(id) && !s.dummy_tours@.contains_key(id));
    }
    assert forall|v: VehicleIdx| #![trigger res.part_ok(v)]
        s.part_ok(v) && res.has_tour(v) && (v == rcv ==> tour_len_ok(s.or_gained(segment, p, rcv))) implies res.part_ok(v) by {
        assert(s.vehicles@.contains_key(v) <==> s.tours@.contains_key(v));
        assert(s.has_tour(v));
        if creates { assert(v != id); }
        if v == rcv {
            assert(res.sp_tour_of(rcv) == ntr);
            assert(res.vehicles@.contains_key(rcv) == s.vehicles@.contains_key(rcv));
            assert(res.dummy_tours@.contains_key(rcv) == s.dummy_tours@.contains_key(rcv));
            if res.sp_is_vehicle(rcv) { assert(res.type_of(rcv) == s.type_of(rcv)); }
        } else if v == p {
            assert(stp is Some);
            assert(res.sp_tour_of(p) == stp.unwrap());
            assert(res.vehicles@.contains_key(p) == s.vehicles@.contains_key(p));
            assert(res.dummy_tours@.contains_key(p) == s.dummy_tours@.contains_key(p));
            if res.sp_is_vehicle(p) { assert(res.type_of(p) == s.type_of(p)); }
        } else {
            lemma_frame(s, s.vehicles@, s.tours@, s.dummy_tours@, Some(p), stp, rcv, ntr, v);
            assert(res.dummy_tours@.contains_key(v) == s.dummy_tours@.contains_key(v) && res.dummy_tours@[v] == s.dummy_tours@[v]);
            assert(res.sp_tour_of(v) == s.sp_tour_of(v));
            if res.sp_is_vehicle(v) { assert(res.type_of(v) == s.type_of(v)); }
        }
    }
    if creates && res.dummy_tours@[id].wf() {
        let d = s.or_displaced(segment, p, rcv);
        lemma_cuts(&tr, s.or_s(segment, p, rcv), s.or_e(segment, p, rcv));
        lemma_orc_mask_filter_len(d, svc_mask(&s.network, d));
        assert(!res.tours@.contains_key(id));
        assert(!res.vehicles@.contains_key(id));
        assert(res.sp_tour_of(id) == res.dummy_tours@[id]);
        assert(res.part_ok(id));
    }
}
/// closure of the costs clause: the new costs cover the new tours of the (real) participants
pub proof fn lemma_orc_costs(s: &Schedule, segment: Segment, p: VehicleIdx, rcv: VehicleIdx, res: &Schedule)
    requires
        s.or_pre(segment, p, rcv),
        s.or_provider_after(segment, p, rcv, res.vehicles@, res.tours@, res.dummy_tours@),
        s.or_receiver_after(segment, p, rcv, res.tours@, res.dummy_tours@),
        s.or_maps_after(segment, p, rcv, res.tours@, res.dummy_tours@),
        s.or_costs_after(p, rcv, res.tours@, res.dummy_tours@, res.costs),
    ensures
        res.orc_costs_cover(p, rcv),
{
    lemma_or_setup(s, segment, p, rcv);
    let stp = tour_opt_in(res.tours@, res.dummy_tours@, p);
    let ntr = tour_in(res.tours@, res.dummy_tours@, rcv);
    assert(res.vehicles@.contains_key(rcv) == s.vehicles@.contains_key(rcv));
    if res.sp_is_vehicle(rcv) { assert(res.tours@[rcv] == ntr); }
    if res.sp_is_vehicle(p) {
        assert(s.sp_is_vehicle(p) && stp is Some);
        assert(res.tours@[p] == stp.unwrap());
    }
    assert(res.cost_out_provider(res.tours@, Some(p)) == s.cost_in_provider(Some(p), stp));
    assert(res.cost_out_receiver(res.tours@, rcv) == s.cost_in_receiver(rcv, ntr));
}

// ---- closure of or_transitions_ok; counting (text of env/sched_ctor_shim.vs, which cannot be included here): a consistent
// transition holds as many vehicles as its lookup has keys, so a transition whose vehicles are among the vehicles of another
// one is not longer -- the modification creates no real vehicle, hence the magnitude clause `len_sum + 2 <= 2^17` is kept
/// the vehicles in the first k cycles
pub open spec fn orc_cyc_elems(t: TView, k: int) -> Set<VehicleIdx>
    decreases k,
{
    if k <= 0 { Set::empty() } else { orc_cyc_elems(t, k - 1).union(t.cyc(k - 1).to_set()) }
}
pub proof fn lemma_orc_cyc_elems_member(t: TView, k: int, v: VehicleIdx)
    requires 0 <= k <= t.n(),
    ensures orc_cyc_elems(t, k).contains(v) <==> exists|i: int| 0 <= i < k && (#[trigger] t.cyc(i)).contains(v),
    decreases k,
{
    if k > 0 {
        lemma_orc_cyc_elems_member(t, k - 1, v);
        if orc_cyc_elems(t, k).contains(v) {
            if t.cyc(k - 1).contains(v) { assert(0 <= k - 1 < k && t.cyc(k - 1).contains(v)); }
            else {
                let i = choose|i: int| 0 <= i < k - 1 && (#[trigger] t.cyc(i)).contains(v);
                assert(0 <= i < k && t.cyc(i).contains(v));
            }
        }
        if exists|i: int| 0 <= i < k && (#[trigger] t.cyc(i)).contains(v) {
            let i = choose|i: int| 0 <= i < k && (#[trigger] t.cyc(i)).contains(v);
            if i < k - 1 { assert(0 <= i < k - 1 && t.cyc(i).contains(v)); }
        }
    }
}
pub proof fn lemma_orc_cyc_elems_len(t: TView, k: int)
    requires t.wf_cycles(), 0 <= k <= t.n(),
    ensures orc_cyc_elems(t, k).len() == sum_seq(lens_of(t.cycles).take(k)),
    decreases k,
{
    let l = lens_of(t.cycles);
    if k > 0 {
        lemma_orc_cyc_elems_len(t, k - 1);
        let a = orc_cyc_elems(t, k - 1);
        let b = t.cyc(k - 1).to_set();
        assert(a.disjoint(b)) by {
            assert forall|v: VehicleIdx| !(a.contains(v) && b.contains(v)) by {
                if a.contains(v) && b.contains(v) {
                    lemma_orc_cyc_elems_member(t, k - 1, v);
                    let i = choose|i: int| 0 <= i < k - 1 && (#[trigger] t.cyc(i)).contains(v);
                    let x = choose|x: int| 0 <= x < t.cyc(i).len() && t.cyc(i)[x] == v;
                    let ck = t.cyc(k - 1);
                    let y = choose|y: int| 0 <= y < ck.len() && ck[y] == v;
                    assert(t.cyc(i)[x] != t.cyc(k - 1)[y]);
                }
            }
        }
        vstd::set_lib::lemma_set_disjoint_lens(a, b);
        t.cyc(k - 1).unique_seq_to_set();
        assert(l.take(k).drop_last() =~= l.take(k - 1));
        assert(l.take(k).last() == t.cyc(k - 1).len());
    } else {
        assert(l.take(0) =~= Seq::<int>::empty());
    }
}
/// C15: a consistent transition holds as many vehicles as its lookup has keys
pub proof fn lemma_orc_total_len_is_lookup(t: TView)
    requires t.wf_cycles(), t.wf_lookup(),
    ensures t.total_len() == t.lookup.dom().len(),
{
    let l = lens_of(t.cycles);
    lemma_orc_cyc_elems_len(t, t.n());
    assert(l.take(t.n()) =~= l);
    assert(orc_cyc_elems(t, t.n()) =~= t.lookup.dom()) by {
        assert forall|v: VehicleIdx| orc_cyc_elems(t, t.n()).contains(v) <==> #[trigger] t.lookup.dom().contains(v) by {
            lemma_orc_cyc_elems_member(t, t.n(), v);
            if orc_cyc_elems(t, t.n()).contains(v) {
                let i = choose|i: int| 0 <= i < t.n() && (#[trigger] t.cyc(i)).contains(v);
                let x = choose|x: int| 0 <= x < t.cyc(i).len() && t.cyc(i)[x] == v;
                assert(t.lookup.contains_key(t.cyc(i)[x]));
            }
            if t.lookup.contains_key(v) {
                assert(0 <= t.cycle_of(v) < t.n() && t.cyc(t.cycle_of(v)).contains(v));
            }
        }
    }
}
/// a consistent transition whose vehicles all are vehicles of another consistent transition is not longer
pub proof fn lemma_orc_total_len_le(t0: TView, t1: TView)
    requires
        t0.wf_cycles(), t0.wf_lookup(), t1.wf_cycles(), t1.wf_lookup(),
        forall|v: VehicleIdx| #[trigger] t1.lookup.contains_key(v) ==> t0.lookup.contains_key(v),
    ensures t1.total_len() <= t0.total_len(),
{
    lemma_orc_total_len_is_lookup(t0);
    lemma_orc_total_len_is_lookup(t1);
    assert(t1.lookup.dom().subset_of(t0.lookup.dom())) by {
        assert forall|v: VehicleIdx| t1.lookup.dom().contains(v) implies t0.lookup.dom().contains(v) by {
            assert(t1.lookup.contains_key(v));
        }
    }
    vstd::set_lib::lemma_len_subset(t1.lookup.dom(), t0.lookup.dom());
}
pub proof fn lemma_orc_len_sum_le(trs0: Map<VehicleTypeIdx, Transition>, trs1: Map<VehicleTypeIdx, Transition>, vts: Seq<VehicleTypeIdx>)
    requires forall|i: int| 0 <= i < vts.len() ==> trs1[#[trigger] vts[i]].total_len() <= trs0[vts[i]].total_len(),
    ensures len_sum(trs1, vts) <= len_sum(trs0, vts),
    decreases vts.len(),
{
    if vts.len() > 0 {
        let w = vts.drop_last();
        assert forall|i: int| 0 <= i < w.len() implies trs1[#[trigger] w[i]].total_len() <= trs0[w[i]].total_len() by {
            assert(w[i] == vts[i]);
        }
        lemma_orc_len_sum_le(trs0, trs1, w);
        assert(vts.last() == vts[vts.len() - 1]);
    }
}
/// closure of or_transitions_ok (C15 / C10 / C09 for the rotation cycles, incl. the magnitude clause)
pub proof fn lemma_orc_transitions(s: &Schedule, segment: Segment, p: VehicleIdx, rcv: VehicleIdx, res: &Schedule)
    requires
        s.or_pre(segment, p, rcv),
        res.network == s.network,
        s.or_provider_after(segment, p, rcv, res.vehicles@, res.tours@, res.dummy_tours@),
        s.or_transitions_after(p, rcv, res.next_period_transitions@, res.maintenance_violation, res.vehicles@, res.tours@),
    ensures
        res.or_transitions_ok(),
{
    let trs0 = s.next_period_transitions@;
    let trs1 = res.next_period_transitions@;
    let vts = sched_types(s);
    assert(sched_types(res) == vts);
    // no new real vehicle, types kept
    assert forall|v: VehicleIdx| #[trigger] res.vehicles@.contains_key(v) implies s.vehicles@.contains_key(v) && res.vehicles@[v] == s.vehicles@[v] by {}
    assert forall|i: int| 0 <= i < vts.len() implies trs1[#[trigger] vts[i]].total_len() <= trs0[vts[i]].total_len() by {
        let vt = vts[i];
        assert(vts.contains(vt));
        assert(trs0.contains_key(vt) && trs1.contains_key(vt));
        assert(trs0[vt].wf(&s.network, s.tours@) && trs1[vt].wf(&s.network, res.tours@));
        assert forall|v: VehicleIdx| #[trigger] trs1[vt]@.lookup.contains_key(v) implies trs0[vt]@.lookup.contains_key(v) by {
            assert(trs1[vt].has_vehicle(v));
            assert(res.vehicles@.contains_key(v) && vtype(res.vehicles@[v]) == vt);
            assert(s.vehicles@.contains_key(v) && s.type_of(v) == vt);
            assert(trs0[vt].has_vehicle(v));
        }
        lemma_orc_total_len_le(trs0[vt]@, trs1[vt]@);
    }
    lemma_orc_len_sum_le(trs0, trs1, vts);
    assert forall|vt: VehicleTypeIdx, v: VehicleIdx| #![trigger trs1[vt].has_vehicle(v)] trs1.contains_key(vt)
        implies (trs1[vt].has_vehicle(v) <==> res.vehicles@.contains_key(v) && res.type_of(v) == vt) by {}
}
/// CLOSURE, for the schedule Schedule::new builds from the final components: the facts the callees' contracts provide are
/// ANTECEDENTS (the effect clauses of the contract, read on the components)
pub proof fn lemma_orc_closure(s: &Schedule, segment: Segment, p: VehicleIdx, rcv: VehicleIdx, nd: Option<VehicleIdx>,
        vehicles1: VehicleMap, tours1: TourMap, dummies1: TourMap, counter1: usize, trs1: Map<VehicleTypeIdx, Transition>, mv1: MaintenanceCounter, costs1: Cost)
    requires s.or_pre(segment, p, rcv), s.or_removes(segment, p),
    ensures
        s.or_provider_after(segment, p, rcv, vehicles1, tours1, dummies1)
            && s.or_receiver_after(segment, p, rcv, tours1, dummies1)
            && s.or_maps_after(segment, p, rcv, tours1, dummies1)
            && s.or_dummy_after(segment, p, rcv, dummies1, counter1, nd)
            && s.or_costs_after(p, rcv, tours1, dummies1, costs1)
            && s.or_transitions_after(p, rcv, trs1, mv1, vehicles1, tours1)
            && 0 <= s.or_s(segment, p, rcv) <= s.or_e(segment, p, rcv) <= s.sp_tour_of(rcv).len()
        ==> forall|res: Schedule| #![trigger s.orc_parts_after(segment, p, rcv, &res)] #![trigger s.orc_new_dummy_part(segment, p, rcv, &res)]
                #![trigger res.orc_costs_cover(p, rcv)] #![trigger res.or_transitions_ok()]
                Schedule::orc_built(&res, s.network, vehicles1, tours1, dummies1, counter1, trs1, mv1, costs1)
                ==> s.orc_parts_after(segment, p, rcv, &res) && s.orc_new_dummy_part(segment, p, rcv, &res)
                    && res.orc_costs_cover(p, rcv) && res.or_transitions_ok(),
{
    if s.or_provider_after(segment, p, rcv, vehicles1, tours1, dummies1)
        && s.or_receiver_after(segment, p, rcv, tours1, dummies1)
        && s.or_maps_after(segment, p, rcv, tours1, dummies1)
        && s.or_dummy_after(segment, p, rcv, dummies1, counter1, nd)
        && s.or_costs_after(p, rcv, tours1, dummies1, costs1)
        && s.or_transitions_after(p, rcv, trs1, mv1, vehicles1, tours1)
        && 0 <= s.or_s(segment, p, rcv) <= s.or_e(segment, p, rcv) <= s.sp_tour_of(rcv).len() {
        assert forall|res: Schedule| #![trigger s.orc_parts_after(segment, p, rcv, &res)] #![trigger s.orc_new_dummy_part(segment, p, rcv, &res)]
            #![trigger res.orc_costs_cover(p, rcv)] #![trigger res.or_transitions_ok()]
            Schedule::orc_built(&res, s.network, vehicles1, tours1, dummies1, counter1, trs1, mv1, costs1)
            implies s.orc_parts_after(segment, p, rcv, &res) && s.orc_new_dummy_part(segment, p, rcv, &res)
                && res.orc_costs_cover(p, rcv) && res.or_transitions_ok() by {
            lemma_orc_parts(s, segment, p, rcv, &res, nd);
            lemma_orc_costs(s, segment, p, rcv, &res);
            lemma_orc_transitions(s, segment, p, rcv, &res);
        }
    }
}
