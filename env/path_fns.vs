// ---- Path::new_trusted under contract (verified in slice path, stub elsewhere: R7a) ------------------------
//@item solution/src/path.rs Path::new_trusted
//@retname r
//@sig
    requires nw.wf(), all_in_net(&nw, node_sequence@),
    ensures
        all_depots(&nw, node_sequence@) ==> r is None,
        !all_depots(&nw, node_sequence@) ==> r is Some && r.unwrap().node_sequence@ == node_sequence@ && r.unwrap().network == nw,
//@viter
//@closure-params 0
    &NodeIdx
//@closure 0
    -> (b: bool) requires nw.has(*p0) ensures b == nw.sp_node(*p0).sp_is_depot()
//@end
