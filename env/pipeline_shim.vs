// ---- A-pipe: environment of the slice `pipeline` (C16: stage wiring of the two entry points) --------
// Everything the bodies of `server::solve_instance` / `internal::run` touch, laid out as the crates
// they come from (`model`, `solution`, `solver`, `rapid_solve`, `serde_json`), so that the paths and
// `use` lines of the two entry points resolve as in the repository.
//  * every TYPE is opaque (`external_body`): nothing is known about its values except equality;
//  * every FUNCTION is a stub whose contract is `result == spec_<stage>(arguments)` for an
//    UNINTERPRETED spec function: the only thing assumed about a stage is that it is a function of
//    its arguments.  The three exceptions (an accessor undoes its constructor) are marked A-pipe-proj;
//  * in-repo callees are extracted (`//@item … : trusted`), so their signature text is the real one;
//    so are the methods of rapid_solve's `EvaluatedSolution` / `Objective` (`@rapid_solve/…`, the registry
//    source pinned by Cargo.lock); the trait `Solver`, its impl, the opaque types and the two solver
//    builders are hand-written with the name, arity and shape of the real item (quoted above each).
// Modules that hold extracted stubs are top-level (`model_network`, `solver_objective`, …) and re-exported
// under the crate path (`model::network`, `solver::objective`, …): lib/runner.py selects the vacuity
// canaries with `--verify-only-module <simple name>`, which only finds top-level modules.
// Needs env/seqiter.vs and env/im_shim.vs (module `im`) included before, at crate level.

// ---- std::time (the real std types; `use std::time as stdtime;` in the entry points) -----------------
#[verifier::external_type_specification]
#[verifier::external_body]
pub struct ExInstant(std::time::Instant);
// (std::time::Duration = core::time::Duration is already declared by vstd)
/// time stamps carry no contract: nothing in C16 may depend on them
pub assume_specification[ std::time::Instant::now ]() -> std::time::Instant;
pub assume_specification[ std::time::Instant::duration_since ](a: &std::time::Instant, earlier: std::time::Instant) -> std::time::Duration;

// ---- serde_json ------------------------------------------------------------------------------------
pub mod serde_json {
use vstd::prelude::*;
/// serde_json::Value (opaque)
#[verifier::external_body]
pub struct Value { _p: () }
}

// ---- rapid_solve 0.1.7 -----------------------------------------------------------------------------
pub mod rapid_solve_objective {
use vstd::prelude::*;
/// rapid_solve::objective::ObjectiveValue (opaque)
#[verifier::external_body]
pub struct ObjectiveValue { _p: () }

/// rapid_solve::objective::EvaluatedSolution<S> { objective_value: ObjectiveValue, solution: S } (opaque)
#[verifier::external_body]
#[verifier::accept_recursive_types(S)]
pub struct EvaluatedSolution<S> { _p: core::marker::PhantomData<S> }

/// rapid_solve::objective::Objective<S> (opaque)
#[verifier::external_body]
#[verifier::reject_recursive_types(S)]
pub struct Objective<S> { _p: core::marker::PhantomData<S> }

pub uninterp spec fn ev_solution<S>(e: EvaluatedSolution<S>) -> S;
pub uninterp spec fn ev_value<S>(e: EvaluatedSolution<S>) -> ObjectiveValue;
pub uninterp spec fn spec_evaluate<S>(objective: Objective<S>, solution: S) -> EvaluatedSolution<S>;

// signatures extracted from the registry source pinned by Cargo.lock (`@rapid_solve/…`)
//@item @rapid_solve/src/objective/evaluated_solution.rs EvaluatedSolution<S>::solution : trusted
//@retname r
//@sig
    ensures *r == ev_solution(*self),
//@end
//@item @rapid_solve/src/objective/evaluated_solution.rs EvaluatedSolution<S>::objective_value : trusted
//@retname r
//@sig
    ensures *r == ev_value(*self),
//@end
//@item @rapid_solve/src/objective/evaluated_solution.rs EvaluatedSolution<S>::unwrap : trusted
//@retname r
//@sig
    ensures r == ev_solution(self),
//@end
//@item @rapid_solve/src/objective/mod.rs Objective<S>::evaluate : trusted
//@retname r
//@sig
    ensures
        r == spec_evaluate(*self, solution),
        ev_solution(r) == solution, // A-pipe-proj: `EvaluatedSolution::new(solution, …)` / `&self.solution`
//@end
//@item @rapid_solve/src/objective/mod.rs Objective<S>::print_objective_value : trusted
//@end
} // mod rapid_solve_objective

pub mod rapid_solve {
pub mod objective { pub use crate::rapid_solve_objective::*; }
pub mod heuristics {
use vstd::prelude::*;
use crate::rapid_solve::objective::EvaluatedSolution;

/// `pub trait Solver<S> { fn solve(&self, initial_solution: S) -> EvaluatedSolution<S>; }`
/// (the spec member is ghost: what the solver returns is a function of the solver and the start solution)
pub trait Solver<S> {
    spec fn spec_solve(&self, initial_solution: S) -> EvaluatedSolution<S>;
    fn solve(&self, initial_solution: S) -> (r: EvaluatedSolution<S>)
        ensures r == self.spec_solve(initial_solution);
}

pub mod parallel_local_search {
use vstd::prelude::*;
use crate::rapid_solve::objective::EvaluatedSolution;
use crate::rapid_solve::heuristics::Solver;

/// rapid_solve::heuristics::parallel_local_search::ParallelLocalSearchSolver<S> (opaque)
#[verifier::external_body]
#[verifier::reject_recursive_types(S)]
pub struct ParallelLocalSearchSolver<S> { _p: core::marker::PhantomData<S> }

pub uninterp spec fn pls_solve<S>(solver: ParallelLocalSearchSolver<S>, initial_solution: S) -> EvaluatedSolution<S>;

/// `impl<S> Solver<S> for ParallelLocalSearchSolver<S>`
impl<S> Solver<S> for ParallelLocalSearchSolver<S> {
    open spec fn spec_solve(&self, initial_solution: S) -> EvaluatedSolution<S> { pls_solve(*self, initial_solution) }
    #[verifier::external_body]
    fn solve(&self, initial_solution: S) -> (r: EvaluatedSolution<S>)
    { unimplemented!() }
}
} // mod parallel_local_search
} // mod heuristics
} // mod rapid_solve

// ---- crate model -------------------------------------------------------------------------------------
pub mod model {
pub mod base_types {
use vstd::prelude::*;
//@item model/src/base_types.rs type Idx : plain
//@end
//@item model/src/base_types.rs struct VehicleTypeIdx : plain
//@end
//@item model/src/base_types.rs enum VehicleIdx : plain
//@end
//@item model/src/base_types.rs struct DepotIdx : plain
//@end
//@item model/src/base_types.rs enum NodeIdx : plain
//@end
//@item model/src/base_types.rs type VehicleCount : plain
//@end
} // mod base_types

pub mod vehicle_types { pub use crate::model_vehicle_types::*; }
pub mod network { pub use crate::model_network::*; }
pub mod json_serialisation { pub use crate::model_json_serialisation::*; }
} // mod model

pub mod model_vehicle_types {
use vstd::prelude::*;
use crate::SeqIter;
use crate::model::base_types::VehicleTypeIdx;
/// model::vehicle_types::VehicleTypes (opaque)
#[verifier::external_body]
pub struct VehicleTypes { _p: () }
/// the type indices in the order `VehicleTypes::iter` yields them
pub uninterp spec fn spec_vt_ids(v: VehicleTypes) -> Seq<VehicleTypeIdx>;
//@item model/src/vehicle_types.rs VehicleTypes::iter : trusted
//@ret SeqIter<VehicleTypeIdx>
//@retname r
//@sig
    ensures r@ == spec_vt_ids(*self),
//@end
} // mod model_vehicle_types

pub mod model_network {
use vstd::prelude::*;
use std::sync::Arc;
use crate::model::base_types::{DepotIdx, NodeIdx};
use crate::model::vehicle_types::VehicleTypes;
/// model::network::Network (opaque)
#[verifier::external_body]
pub struct Network { _p: () }
pub uninterp spec fn spec_vehicle_types(n: Network) -> Arc<VehicleTypes>;
pub uninterp spec fn spec_maintenance_considered(n: Network) -> bool;
pub uninterp spec fn spec_overflow_depot_idxs(n: Network) -> (DepotIdx, NodeIdx, NodeIdx);
//@item model/src/network.rs Network::vehicle_types : trusted
//@retname r
//@sig
    ensures r == spec_vehicle_types(*self),
//@end
//@item model/src/network.rs Network::maintenance_considered : trusted
//@retname r
//@sig
    ensures r == spec_maintenance_considered(*self),
//@end
//@item model/src/network.rs Network::overflow_depot_idxs : trusted
//@retname r
//@sig
    ensures r == spec_overflow_depot_idxs(*self),
//@end
} // mod model_network

pub mod model_json_serialisation {
use vstd::prelude::*;
use std::sync::Arc;
use crate::serde_json;
use crate::model::network::Network;
/// stage 0: parsing the request
pub uninterp spec fn spec_load_network(input_data: serde_json::Value) -> Arc<Network>;
//@item model/src/json_serialisation/mod.rs fn load_rolling_stock_problem_instance_from_json : trusted
//@retname r
//@sig
    ensures r == spec_load_network(input_data),
//@end
} // mod model_json_serialisation

// ---- crate solution ----------------------------------------------------------------------------------
pub mod solution {
pub use self::schedule::Schedule;

pub mod transition {
use vstd::prelude::*;
/// solution::transition::Transition (opaque here; the slice `transition` verifies its operations)
#[verifier::external_body]
pub struct Transition { _p: () }
/// `#[derive(Clone)]` (A-clone)
impl Clone for Transition {
    #[verifier::external_body]
    fn clone(&self) -> (r: Self)
        ensures r == *self,
    { unimplemented!() }
}
} // mod transition
pub mod schedule { pub use crate::solution_schedule::*; }
} // mod solution

pub mod solution_schedule {
use vstd::prelude::*;
use crate::im::HashMap;
use crate::model::base_types::{DepotIdx, VehicleCount, VehicleIdx, VehicleTypeIdx};
use crate::solution::transition::Transition;
/// solution::Schedule (opaque)
#[verifier::external_body]
pub struct Schedule { _p: () }

pub uninterp spec fn spec_improve_depots(s: Schedule, vehicles: Option<Vec<VehicleIdx>>) -> Schedule;
pub uninterp spec fn spec_next_day_transition_of(s: Schedule, vehicle_type: VehicleTypeIdx) -> Transition;
pub uninterp spec fn spec_set_next_day_transitions(s: Schedule, transitions: Map<VehicleTypeIdx, Transition>) -> Schedule;
pub uninterp spec fn spec_reassign_end_depots(s: Schedule) -> Schedule;
pub uninterp spec fn spec_spawned_at(s: Schedule, depot: DepotIdx, vehicle_type: VehicleTypeIdx) -> VehicleCount;
pub uninterp spec fn spec_total_depot_balance_violation(s: Schedule) -> VehicleCount;

//@item solution/src/schedule/modifications.rs Schedule::improve_depots : trusted
//@retname r
//@sig
    ensures r == spec_improve_depots(*self, vehicles),
//@end
//@item solution/src/schedule.rs Schedule::next_day_transition_of : trusted
//@retname r
//@sig
    ensures *r == spec_next_day_transition_of(*self, vehicle_type),
//@end
//@item solution/src/schedule.rs Schedule::set_next_day_transitions : trusted
//@retname r
//@sig
    ensures r == spec_set_next_day_transitions(*self, transitions@),
//@end
//@item solution/src/schedule/modifications.rs Schedule::reassign_end_depots_consistent_with_transitions : trusted
//@retname r
//@sig
    ensures r == spec_reassign_end_depots(*self),
//@end
//@item solution/src/schedule.rs Schedule::number_of_vehicles_of_same_type_spawned_at : trusted
//@retname r
//@sig
    ensures r == spec_spawned_at(*self, depot, vehicle_type),
//@end
//@item solution/src/schedule.rs Schedule::total_depot_balance_violation : trusted
//@retname r
//@sig
    ensures r == spec_total_depot_balance_violation(*self),
//@end
//@item solution/src/schedule.rs Schedule::print_next_day_transitions : trusted
//@end
//@item solution/src/schedule.rs Schedule::print_tours : trusted
//@end
} // mod solution_schedule

// ---- crate solver ------------------------------------------------------------------------------------
pub mod solver {
pub mod local_search { pub use crate::solver_local_search::*; }
pub mod min_cost_flow_solver { pub use crate::solver_min_cost_flow_solver::*; }
pub mod objective { pub use crate::solver_objective::*; }
pub mod transition_local_search { pub use crate::solver_transition_local_search::*; }
} // mod solver

pub mod solver_local_search {
use vstd::prelude::*;
use std::sync::Arc;
use crate::model::network::Network;
use crate::solution::Schedule;
use crate::rapid_solve::heuristics::parallel_local_search::ParallelLocalSearchSolver;
use self::neighborhood::swaps::SwapInfo;

pub mod neighborhood {
pub mod swaps {
use vstd::prelude::*;
use crate::model::base_types::VehicleIdx;
//@item solver/src/local_search/neighborhood/swaps.rs enum SwapInfo : plain
//@end
} // mod swaps
} // mod neighborhood

/// solver::local_search::ScheduleWithInfo { schedule, last_swap_info, print_text } (opaque)
#[verifier::external_body]
pub struct ScheduleWithInfo { _p: () }
/// `#[derive(Clone)]` (A-clone)
impl Clone for ScheduleWithInfo {
    #[verifier::external_body]
    fn clone(&self) -> (r: Self)
        ensures r == *self,
    { unimplemented!() }
}
pub uninterp spec fn spec_swi_new(schedule: Schedule, last_swap_info: SwapInfo, print_text: Seq<char>) -> ScheduleWithInfo;
pub uninterp spec fn spec_swi_schedule(s: ScheduleWithInfo) -> Schedule;
/// stage 2: the local-search solver is a function of the network
pub uninterp spec fn spec_ls_solver(network: Arc<Network>) -> ParallelLocalSearchSolver<ScheduleWithInfo>;

//@item solver/src/local_search/mod.rs ScheduleWithInfo::new : trusted
//@retname r
//@sig
    ensures
        r == spec_swi_new(schedule, last_swap_info, print_text@),
        spec_swi_schedule(r) == schedule, // A-pipe-proj: `ScheduleWithInfo { schedule, … }` / `&self.schedule`
//@end
//@item solver/src/local_search/mod.rs ScheduleWithInfo::get_schedule : trusted
//@retname r
//@sig
    ensures *r == spec_swi_schedule(*self),
//@end
/// hand-written stub (vx cannot stub a free fn whose body contains `println!`: R1 and R7 edits overlap);
/// solver/src/local_search/mod.rs: `pub fn build_local_search_solver(network: Arc<Network>) -> ParallelLocalSearchSolver<ScheduleWithInfo>`
#[verifier::external_body]
pub fn build_local_search_solver(
    network: Arc<Network>,
) -> (r: ParallelLocalSearchSolver<ScheduleWithInfo>)
    ensures r == spec_ls_solver(network),
{ unimplemented!() }
} // mod solver_local_search

pub mod solver_min_cost_flow_solver {
use vstd::prelude::*;
use std::sync::Arc;
use crate::model::network::Network;
use crate::solution::Schedule;
/// solver::min_cost_flow_solver::MinCostFlowSolver (opaque)
#[verifier::external_body]
pub struct MinCostFlowSolver { _p: () }
/// stage 1: the start solution is a function of the network
pub uninterp spec fn spec_mcf_solver(network: Arc<Network>) -> MinCostFlowSolver;
pub uninterp spec fn spec_mcf_solve(solver: MinCostFlowSolver) -> Schedule;
//@item solver/src/min_cost_flow_solver.rs MinCostFlowSolver::initialize : trusted
//@retname r
//@sig
    ensures r == spec_mcf_solver(network),
//@end
//@item solver/src/min_cost_flow_solver.rs MinCostFlowSolver::solve : trusted
//@retname r
//@sig
    ensures r == spec_mcf_solve(*self),
//@end
} // mod solver_min_cost_flow_solver

pub mod solver_objective {
use vstd::prelude::*;
use crate::solver::local_search::ScheduleWithInfo;
use crate::rapid_solve::objective::Objective;
pub uninterp spec fn spec_objective() -> Objective<ScheduleWithInfo>;
//@item solver/src/objective.rs fn build : trusted
//@retname r
//@sig
    ensures r == spec_objective(),
//@end
} // mod solver_objective

pub mod solver_transition_local_search {
use vstd::prelude::*;
use std::sync::Arc;
use crate::model::network::Network;
use crate::solution::{transition::Transition, Schedule};
use crate::rapid_solve::heuristics::parallel_local_search::ParallelLocalSearchSolver;
/// solver::transition_local_search::TransitionWithInfo { transition, print_text } (opaque)
#[verifier::external_body]
pub struct TransitionWithInfo { _p: () }
pub uninterp spec fn spec_twi_new(transition: Transition, print_text: Seq<char>) -> TransitionWithInfo;
pub uninterp spec fn spec_twi_transition(t: TransitionWithInfo) -> Transition;
/// stage 3: the transition optimiser is a function of the schedule (its tours) and the network
pub uninterp spec fn spec_tls_solver(schedule: Schedule, network: Arc<Network>) -> ParallelLocalSearchSolver<TransitionWithInfo>;
//@item solver/src/transition_local_search/mod.rs TransitionWithInfo::new : trusted
//@retname r
//@sig
    ensures
        r == spec_twi_new(transition, print_text@),
        spec_twi_transition(r) == transition, // A-pipe-proj: `TransitionWithInfo { transition, … }` / `self.transition`
//@end
//@item solver/src/transition_local_search/mod.rs TransitionWithInfo::unwrap_transition : trusted
//@retname r
//@sig
    ensures r == spec_twi_transition(self),
//@end
/// hand-written stub (same vx limitation); solver/src/transition_local_search/mod.rs:
/// `pub fn build_transition_local_search_solver(schedule: &Schedule, network: Arc<Network>) -> ParallelLocalSearchSolver<TransitionWithInfo>`
#[verifier::external_body]
pub fn build_transition_local_search_solver(
    schedule: &Schedule,
    network: Arc<Network>,
) -> (r: ParallelLocalSearchSolver<TransitionWithInfo>)
    ensures r == spec_tls_solver(*schedule, network),
{ unimplemented!() }
} // mod solver_transition_local_search
