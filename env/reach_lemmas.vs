// ---- lemmas about the timing rule ------------------------------------------------------------------
/// reach(a, b) implies end(a) <= start(b) (turnaround is never negative)
pub proof fn lemma_reach_implies_le(net: &Network, a: NodeIdx, b: NodeIdx)
    requires net.wf(), net.has(a), net.has(b), net.reach(a, b),
    ensures dt_le(net.sp_node(a).sp_end_time(), net.sp_node(b).sp_start_time()),
{
    let n1 = net.sp_node(a); let n2 = net.sp_node(b);
    assert(net.nodes@.contains_key(a) && net.nodes@.contains_key(b));
    if n1 is StartDepot || n2 is EndDepot {
    } else {
        let d = rule_min_duration(&net.config, &net.locations, &n1, &n2);
        lemma_min_duration_small(net, a, b);
        lemma_dt_add_monotone(n1.sp_end_time(), d);
    }
}
pub proof fn lemma_min_duration_small(net: &Network, a: NodeIdx, b: NodeIdx)
    requires net.wf(), net.has(a), net.has(b),
    ensures net.min_dur(a, b) is Length ==> net.min_dur(a, b)->Length_0.seconds < 0x4_0000_0000_0000,
{
    assert(net.nodes@.contains_key(a) && net.nodes@.contains_key(b));
    let l1 = net.sp_node(a).sp_end_location(); let l2 = net.sp_node(b).sp_start_location();
    lemma_locations_wf2(&net.locations, l1, l2);
}
pub proof fn lemma_dt_add_monotone(t: DateTime, d: Duration)
    requires dt_ok(t), dt_small(t), d is Length ==> d->Length_0.seconds < 0x4000_0000_0000_0000,
    ensures dt_le(t, dt_add(t, d)),
{
    if let DateTime::Point(p) = t {
        if let Duration::Length(l) = d {
            let s = p.seconds as int + l.seconds as int;
            assert(86400 * (s / 86400) + s % 86400 == s) by (nonlinear_arith);
            assert(86400 * (p.days + s / 86400) == 86400 * p.days + 86400 * (s / 86400)) by (nonlinear_arith);
        }
    }
}
/// end(a) > start(b) rules out reach(a, b) for activities / any node pair
pub proof fn lemma_later_end_not_reach(net: &Network, a: NodeIdx, b: NodeIdx)
    requires net.wf(), net.has(a), net.has(b),
        dt_lt(net.sp_node(b).sp_start_time(), net.sp_node(a).sp_end_time()),
    ensures !net.reach(a, b),
{
    if net.reach(a, b) { lemma_reach_implies_le(net, a, b); }
}
/// start and end times of a node are ordered
pub proof fn lemma_node_start_le_end(net: &Network, a: NodeIdx)
    requires net.wf(), net.has(a),
    ensures dt_le(net.sp_node(a).sp_start_time(), net.sp_node(a).sp_end_time()),
        net.sp_node(a).sp_is_activity() ==> dt_lt(net.sp_node(a).sp_start_time(), net.sp_node(a).sp_end_time()),
{
    assert(net.nodes@.contains_key(a));
}
