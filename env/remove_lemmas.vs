// ---- Tour::remove: one lemma per cached figure, stated over the opaque cuts pre / mid / suf / rest ------
pub open spec fn cut_ok(t: &Tour, s: int, e1: int) -> bool {
    t.wf() && 0 <= s <= e1 <= t.len() && tour_len_ok(t.nodes@)
}
pub proof fn lemma_cuts(t: &Tour, s: int, e1: int)
    requires cut_ok(t, s, e1),
    ensures t.pre(s) == t.nodes@.subrange(0, s), t.mid(s, e1) == t.nodes@.subrange(s, e1), t.suf(e1) == t.nodes@.subrange(e1, t.len()),
        t.rest(s, e1) == t.pre(s) + t.suf(e1), t.nodes@ =~= t.pre(s) + t.mid(s, e1) + t.suf(e1),
        all_in_net(&t.network, t.pre(s)), all_in_net(&t.network, t.mid(s, e1)), all_in_net(&t.network, t.suf(e1)), all_in_net(&t.network, t.rest(s, e1)),
        len_ok(t.pre(s)), len_ok(t.mid(s, e1)), len_ok(t.suf(e1)), len_ok(t.rest(s, e1)), len_ok(t.nodes@),
        t.rest(s, e1).len() == t.len() - (e1 - s), t.mid(s, e1).len() == e1 - s,
{
    reveal(Tour::pre); reveal(Tour::mid); reveal(Tour::suf); reveal(Tour::rest);
    lemma_split3(&t.network, t.nodes@, s, e1);
}
pub proof fn lemma_remove_useful(t: &Tour, s: int, e1: int)
    requires cut_ok(t, s, e1), t.useful_duration == t.network.spec_useful_duration(t.nodes@),
    ensures ({
        let x = t.network.spec_useful_duration(t.mid(s, e1));
        &&& x is Length && t.useful_duration is Length && dur_rank(t.useful_duration) >= dur_rank(x)
        &&& dur_sub(t.useful_duration, x) == t.network.spec_useful_duration(t.rest(s, e1))
    }),
{
    lemma_cuts(t, s, e1);
    lemma_split3(&t.network, t.nodes@, s, e1);
    lemma_join2(&t.network, t.pre(s), t.suf(e1));
}
pub proof fn lemma_remove_service(t: &Tour, s: int, e1: int)
    requires cut_ok(t, s, e1), t.service_distance == t.network.spec_service_distance(t.nodes@),
    ensures ({
        let x = t.network.spec_service_distance(t.mid(s, e1));
        &&& x is Distance && t.service_distance is Distance && t.service_distance->Distance_0 >= x->Distance_0
        &&& Distance::Distance((t.service_distance->Distance_0 - x->Distance_0) as u64) == t.network.spec_service_distance(t.rest(s, e1))
    }),
{
    lemma_cuts(t, s, e1);
    lemma_split3(&t.network, t.nodes@, s, e1);
    lemma_join2(&t.network, t.pre(s), t.suf(e1));
    lemma_dhd_bounds(&t.network, t.mid(s, e1));
}
pub open spec fn gap_dist(t: &Tour, s: int, e1: int) -> Distance {
    if s == 0 || e1 == t.len() { Distance::Distance(0) }
    else { t.network.locations.sp_distance(t.network.sp_node(t.nodes@[s - 1]).sp_end_location(), t.network.sp_node(t.nodes@[e1]).sp_start_location()) }
}
/// no panic in `dhd - y + g` (split off lemma_remove_dhd: smaller queries are stable across Z3 seeds)
pub proof fn lemma_remove_dhd_no_panic(t: &Tour, s: int, e1: int)
    requires cut_ok(t, s, e1), s < e1, t.dead_head_distance == t.network.spec_dead_head_distance(t.nodes@),
    ensures ({
        let y = ddec(mid_p(t.pre(s), t.mid(s, e1), t.suf(e1), t.network.f_leg_dist()));
        let g = gap_dist(t, s, e1);
        &&& (t.dead_head_distance is Distance ==> y is Distance && t.dead_head_distance->Distance_0 >= y->Distance_0)
        &&& (t.dead_head_distance is Distance && g is Distance ==> (t.dead_head_distance->Distance_0 - y->Distance_0) + g->Distance_0 <= u64::MAX)
    }),
{
    let net = &t.network;
    lemma_cuts(t, s, e1);
    let p = t.pre(s); let m = t.mid(s, e1); let u = t.suf(e1);
    lemma_split3(net, t.nodes@, s, e1);
    lemma_join2(net, p, u);
    lemma_mid_nonneg(net, p, m, u);
    lemma_dhd_bounds(net, m);
    lemma_dhd_bounds(net, p + u);
    if s > 0 && e1 < t.len() {
        assert(net.has(t.nodes@[s - 1]) && net.has(t.nodes@[e1]));
        lemma_leg_facts(net, t.nodes@[s - 1], t.nodes@[e1]);
        lemma_leg_inf(net, t.nodes@[s - 1], t.nodes@[e1]);
        assert(p.last() == t.nodes@[s - 1] && u.first() == t.nodes@[e1]);
    }
    if t.is_dummy {
        assert forall|i: int| 0 <= i < t.nodes@.len() implies (#[trigger] net.sp_node(t.nodes@[i])).sp_is_activity() by {}
        lemma_psum_dist_activities(net, t.nodes@);
    } else if 1 <= s && e1 <= t.len() - 1 {
        assert forall|i: int| 0 <= i < m.len() implies (#[trigger] net.sp_node(m[i])).sp_is_activity() by { lemma_tour_kinds(t, s + i); }
        if psum(t.nodes@, net.f_leg_dist()) >= DBIG { lemma_remove_keeps_infinity(net, p, m, u); }
    }
}
/// if both depots stay (or the tour is a dummy tour), the delta formula gives the from-scratch value
pub proof fn lemma_remove_dhd_exact(t: &Tour, s: int, e1: int)
    requires cut_ok(t, s, e1), s < e1, t.dead_head_distance == t.network.spec_dead_head_distance(t.nodes@),
        t.is_dummy || (1 <= s && e1 <= t.len() - 1),
    ensures ({
        let y = ddec(mid_p(t.pre(s), t.mid(s, e1), t.suf(e1), t.network.f_leg_dist()));
        let g = gap_dist(t, s, e1);
        dist_add(if t.dead_head_distance is Infinity { Distance::Infinity } else { Distance::Distance((t.dead_head_distance->Distance_0 - y->Distance_0) as u64) }, g)
            == t.network.spec_dead_head_distance(t.rest(s, e1))
    }),
{
    let net = &t.network;
    lemma_cuts(t, s, e1);
    let p = t.pre(s); let m = t.mid(s, e1); let u = t.suf(e1);
    lemma_split3(net, t.nodes@, s, e1);
    lemma_join2(net, p, u);
    lemma_mid_nonneg(net, p, m, u);
    lemma_dhd_bounds(net, m);
    lemma_dhd_bounds(net, p + u);
    if s > 0 && e1 < t.len() {
        assert(net.has(t.nodes@[s - 1]) && net.has(t.nodes@[e1]));
        lemma_leg_facts(net, t.nodes@[s - 1], t.nodes@[e1]);
        lemma_leg_inf(net, t.nodes@[s - 1], t.nodes@[e1]);
        assert(p.last() == t.nodes@[s - 1] && u.first() == t.nodes@[e1]);
    }
    if t.is_dummy {
        assert forall|i: int| 0 <= i < t.nodes@.len() implies (#[trigger] net.sp_node(t.nodes@[i])).sp_is_activity() by {}
        lemma_psum_dist_activities(net, t.nodes@);
    } else if 1 <= s && e1 <= t.len() - 1 {
        assert forall|i: int| 0 <= i < m.len() implies (#[trigger] net.sp_node(m[i])).sp_is_activity() by { lemma_tour_kinds(t, s + i); }
        if psum(t.nodes@, net.f_leg_dist()) >= DBIG { lemma_remove_keeps_infinity(net, p, m, u); }
    }
}
pub proof fn lemma_remove_dhd(t: &Tour, s: int, e1: int)
    requires cut_ok(t, s, e1), s < e1, t.dead_head_distance == t.network.spec_dead_head_distance(t.nodes@),
    ensures ({
        let y = ddec(mid_p(t.pre(s), t.mid(s, e1), t.suf(e1), t.network.f_leg_dist()));
        let g = gap_dist(t, s, e1);
        // no panic in `dhd - y + g`
        &&& (t.dead_head_distance is Distance ==> y is Distance && t.dead_head_distance->Distance_0 >= y->Distance_0)
        &&& (t.dead_head_distance is Distance && g is Distance ==> (t.dead_head_distance->Distance_0 - y->Distance_0) + g->Distance_0 <= u64::MAX)
        // and, if both depots stay (or the tour is a dummy tour), the result is the from-scratch value
        &&& (t.is_dummy || (1 <= s && e1 <= t.len() - 1) ==>
            dist_add(if t.dead_head_distance is Infinity { Distance::Infinity } else { Distance::Distance((t.dead_head_distance->Distance_0 - y->Distance_0) as u64) }, g)
                == t.network.spec_dead_head_distance(t.rest(s, e1)))
    }),
{
    lemma_remove_dhd_no_panic(t, s, e1);
    if t.is_dummy || (1 <= s && e1 <= t.len() - 1) { lemma_remove_dhd_exact(t, s, e1); }
}
pub open spec fn gap_cost(t: &Tour, s: int, e1: int) -> int {
    if s == 0 || e1 == t.len() { 0 } else { t.network.leg_cost(t.nodes@[s - 1], t.nodes@[e1]) }
}
pub proof fn lemma_remove_costs(t: &Tour, s: int, e1: int)
    requires cut_ok(t, s, e1), t.costs as int == t.network.spec_costs(t.nodes@),
    ensures ({
        let y = mid_p(t.pre(s), t.mid(s, e1), t.suf(e1), t.network.f_leg_cost()) + nsum(t.mid(s, e1), t.network.f_node_cost());
        &&& 0 <= y <= t.costs
        &&& 0 <= gap_cost(t, s, e1)
        &&& t.costs - y + gap_cost(t, s, e1) <= u64::MAX
        &&& t.costs - y + gap_cost(t, s, e1) == t.network.spec_costs(t.rest(s, e1))
    }),
{
    let net = &t.network;
    lemma_cuts(t, s, e1);
    let p = t.pre(s); let m = t.mid(s, e1); let u = t.suf(e1);
    lemma_split3(net, t.nodes@, s, e1);
    lemma_join2(net, p, u);
    lemma_mid_nonneg(net, p, m, u);
    lemma_cost_bounds(net, p + u);
    if s > 0 && e1 < t.len() {
        assert(p.last() == t.nodes@[s - 1] && u.first() == t.nodes@[e1]);
    }
}
pub proof fn lemma_remove_vm(t: &Tour, s: int, e1: int)
    requires cut_ok(t, s, e1),
    ensures t.network.spec_visits_maintenance(t.rest(s, e1))
        == (t.network.spec_visits_maintenance(t.nodes@) && (!t.network.spec_visits_maintenance(t.mid(s, e1)) || t.network.spec_visits_maintenance(t.rest(s, e1)))),
{
    let net = &t.network;
    lemma_cuts(t, s, e1);
    let p = t.pre(s); let m = t.mid(s, e1); let u = t.suf(e1);
    lemma_vm_concat(net, p + m, u);
    lemma_vm_concat(net, p, m);
    lemma_vm_concat(net, p, u);
}
/// the removed block of an accepted removal contains an activity
pub proof fn lemma_remove_block(t: &Tour, s: int, e: int)
    requires t.wf(), 0 <= s <= e < t.len(), t.removable(s, e), tour_len_ok(t.nodes@),
    ensures !all_depots(&t.network, t.mid(s, e + 1)), all_in_net(&t.network, t.mid(s, e + 1)),
{
    lemma_cuts(t, s, e + 1);
    let k: int = if s == 0 && !t.is_dummy { 1 } else { s };
    lemma_tour_kinds(t, k);
    let m = t.mid(s, e + 1);
    assert(m[k - s] == t.nodes@[k]);
    assert(t.network.sp_node(m[k - s]).sp_is_activity());
}
/// C01: what is left after an accepted removal is a well-formed tour
pub proof fn lemma_remove_wf(t: &Tour, tn: Seq<NodeIdx>, s: int, e: int)
    requires t.wf(), 0 <= s <= e < t.len(), t.removable(s, e), tour_len_ok(t.nodes@),
        tn == t.rest(s, e + 1), tn.len() > (if t.is_dummy { 0int } else { 2int }),
    ensures tour_wf(&t.network, tn, t.is_dummy), t.is_dummy || (1 <= s && e + 1 <= t.len() - 1),
{
    let net = &t.network;
    let e1 = e + 1;
    lemma_cuts(t, s, e1);
    reveal(Tour::pre); reveal(Tour::suf);
    assert(t.is_dummy || (s >= 1 && e1 <= t.len() - 1));
    assert forall|i: int| 0 <= i < tn.len() - 1 implies #[trigger] net.reach(tn[i], tn[i + 1]) by {
        if i < s - 1 { assert(net.reach(t.nodes@[i], t.nodes@[i + 1])); }
        else if i == s - 1 { }
        else { assert(net.reach(t.nodes@[i + (e1 - s)], t.nodes@[i + (e1 - s) + 1])); }
    }
    if t.is_dummy {
        assert forall|i: int| 0 <= i < tn.len() implies (#[trigger] net.sp_node(tn[i])).sp_is_activity() by {
            if i < s { lemma_tour_kinds(t, i); } else { lemma_tour_kinds(t, i + (e1 - s)); }
        }
    } else {
        let inner = tn.subrange(1, tn.len() - 1);
        assert forall|i: int| 0 <= i < inner.len() implies (#[trigger] net.sp_node(inner[i])).sp_is_activity() by {
            if i + 1 < s { lemma_tour_kinds(t, i + 1); } else { lemma_tour_kinds(t, i + 1 + (e1 - s)); }
        }
        lemma_tour_kinds(t, 0); lemma_tour_kinds(t, t.len() - 1);
    }
}
/// what the two `.sum()` chains over the removed block need: the quantified sum lemmas for the block
/// and the validity of every node of the tour (closure preconditions)
pub proof fn lemma_remove_sums_visible(t: &Tour, s: int, e1: int)
    requires cut_ok(t, s, e1),
    ensures
        forall|i: int| 0 <= i < t.len() ==> t.network.has(#[trigger] t.nodes@[i]) && t.network.sp_node(t.nodes@[i]).wf(),
        forall|q: Seq<Duration>| is_dur_of_range(t, s, e1, q) ==> #[trigger] <Duration as VSum<Duration>>::sum_req(q),
        forall|q: Seq<Duration>| is_dur_of_range(t, s, e1, q) ==> #[trigger] <Duration as VSum<Duration>>::spec_sum(q) == t.network.spec_useful_duration(t.mid(s, e1)),
        forall|q: Seq<Distance>| is_dist_of_range(t, s, e1, q) ==> #[trigger] <Distance as VSum<Distance>>::sum_req(q),
        forall|q: Seq<Distance>| is_dist_of_range(t, s, e1, q) ==> #[trigger] <Distance as VSum<Distance>>::spec_sum(q) == t.network.spec_service_distance(t.mid(s, e1)),
{
    let net = &t.network;
    lemma_cuts(t, s, e1);
    let m = t.mid(s, e1);
    lemma_useful_duration_sum(net, m);
    lemma_service_distance_sum(net, m);
    assert forall|i: int| 0 <= i < t.len() implies t.network.has(#[trigger] t.nodes@[i]) && t.network.sp_node(t.nodes@[i]).wf() by {
        assert(net.has(t.nodes@[i])); lemma_node_facts(net, t.nodes@[i]);
    }
    assert forall|q: Seq<Duration>| is_dur_of_range(t, s, e1, q) implies is_dur_of_nodes(net, m, q) by {
        assert forall|i: int| 0 <= i < q.len() implies #[trigger] q[i] == net.sp_node(m[i]).sp_duration() by { assert(m[i] == t.nodes@[s + i]); }
    }
    assert forall|q: Seq<Distance>| is_dist_of_range(t, s, e1, q) implies is_dist_of_nodes(net, m, q) by {
        assert forall|i: int| 0 <= i < q.len() implies #[trigger] q[i] == net.sp_node(m[i]).sp_travel_distance() by { assert(m[i] == t.nodes@[s + i]); }
    }
}
pub open spec fn is_dur_of_range(t: &Tour, s: int, e1: int, q: Seq<Duration>) -> bool {
    q.len() == e1 - s && forall|i: int| 0 <= i < q.len() ==> #[trigger] q[i] == t.network.sp_node(t.nodes@[s + i]).sp_duration()
}
pub open spec fn is_dist_of_range(t: &Tour, s: int, e1: int, q: Seq<Distance>) -> bool {
    q.len() == e1 - s && forall|i: int| 0 <= i < q.len() ==> #[trigger] q[i] == t.network.sp_node(t.nodes@[s + i]).sp_travel_distance()
}
